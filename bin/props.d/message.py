MESSAGE_NOTE = ("Trusted: Coq kernel; hand-written Gallina model of message.go (appendText, the sequence of Write calls of WriteTo, "
                "UnmarshalText over the FieldParser model) tied to the code by the differential harness: every operation sequence is run "
                "on real sse.Message values and the encodings of ALL family members, WriteTo's (n, err, accepted bytes) on a fault-injecting "
                "writer and UnmarshalText's result are compared with the extracted model; field names/prefixes and the 13-byte retry "
                "buffer are regenerated from message.go on every run; WriteTo/MarshalText/String are one function in the model and their "
                "agreement is a harness comparison on every case")

FAMILIES["message"] = {}
FAMILIES["encode"] = {}

PROPS["C15"] = {
    "families": ["message"],
    "level_text": "Proof: for every message built through the public API (any sequence of AppendData/AppendComment/ID/Type/Retry "
                  "assignments; ID without NUL) with at least one written field, UnmarshalText(MarshalText m) yields the same ID, type, "
                  "ordered (line, isComment) chunks and the retry truncated to the millisecond (C15_roundtrip, C15_roundtrip_same_fields); "
                  "every int64 Retry has an encoding, i.e. the 13-byte digit buffer never overflows (C15_encoding_total); nothing to write "
                  "=> no bytes and (0, nil) (C15_nothing_to_write); for EVERY script of writer verdicts (failure or short write at any "
                  "Write call) WriteTo returns the number of bytes accepted, those bytes are a prefix of the encoding, the error is the "
                  "first failing Write's and no Write follows it (C15_accounting). Model = code is checked on every run, incl. a failure at "
                  "every Write index and every accepted length for small messages.",
    "level_note": MESSAGE_NOTE,
    "rule": "exhaustive: for 5 base messages, WriteTo failing at each of the first 20 Write calls with each accepted length 0..7, followed by a "
            "text round trip; exhaustive clone/append histories up to length 5 (7 thorough); seeded random operation sequences (append with "
            "injection-flavoured payloads, set/clear ID and type, Retry from a boundary table, Clone, WriteTo on a failing writer, round "
            "trip, UnmarshalText of arbitrary wire-like text) on families of up to 6 messages; non-trivial = distinct inputs",
    "assumptions": ["IDs without NUL for the round trip (the property's own quantifier; see known finding D9 under C02)"],
}

PROPS["C02"] = {
    "families": ["encode"],
    "level_text": "Proof: AppendData/AppendComment store exactly the lines of the appended strings (every CR, LF or CR LF one break; "
                  "byte-level definition text_lines, proved equal to the NextChunk loop) and each stored line is single-line; for every "
                  "sequence of API-built messages (IDs without NUL), the concatenation of their wire forms is interpreted by the WHATWG "
                  "algorithm (Whatwg.v, strict mode = the standard; and by go-sse's documented adaptations of it) as exactly one event per "
                  "message that has data (go-sse: that has data, ID or type), Data = LF-join of the data lines, Type/ID as set (most recent "
                  "ID), comments and retry invisible, and NOTHING ELSE is reported (C02_decodes_to_expected, C02_nothing_else) - so no "
                  "payload can end an event early, add or alter a field, or reach a neighbour. The statement without the NUL guard is "
                  "proved refuted (C02_refuted_nul_id, known finding D9). Tie: real messages are encoded, the OBSERVED bytes are decoded by "
                  "the extracted standard interpreter and by sse.Read, and both are compared with an oracle written from the property text.",
    "level_note": MESSAGE_NOTE + "; go-sse's own decoding (sse.Read) is observed and compared with the gosse_read instance of the "
                  "specification interpreter - that the real parser equals that specification for all inputs is property C01",
    "rule": "every payload piece of an injection-flavoured alphabet alone as data / comment / ID / type of the middle one of three messages "
            "(exhaustive), plus seeded random sequences of 1-5 messages with 0-5 operations each; a thin separate stream lets IDs contain NUL "
            "(known finding D9, re-confirmed on every run); non-trivial = distinct inputs",
    "assumptions": ["IDs without NUL (D9 is an open known finding: with a NUL the id line is ignored by decoders)",
                    "bytes are not decoded as UTF-8 (Go strings are byte sequences)"],
}

FAMILIES["heap"] = {}
PROPS["C19"] = {
    "families": ["heap", "message"],
    "level_text": "Proof on an explicit slice heap: Message.chunks is modelled as (backing array, len, cap) over a heap of arrays with Go's "
                  "append (in place when len < cap, else a fresh array whose capacity is an input, so every choice of the runtime is "
                  "covered), Clone as chunks[:len:len], reset, field assignment, and Put with automatic IDs as Clone + set ID. Theorem: "
                  "after EVERY operation sequence each member of the family reads from the heap exactly the chunks it would hold were "
                  "slices immutable values (C19_heap_is_value_semantics; invariant: per array at most one sharer has spare capacity and "
                  "every other sharer is full and not longer), hence an operation changes nobody but its target (C19_others_unchanged), "
                  "Put leaves its argument untouched and stores a copy with the generated ID (C19_put_does_not_modify_argument), and one "
                  "message published k times gets k consecutive IDs in both replayers (C19_same_message_k_times_*). Tie: array identity "
                  "(address), len, cap and the encoding of EVERY member are compared with the model after every operation on real messages.",
    "level_note": MESSAGE_NOTE + "; slices always start at offset 0 of their array (true of message.go: chunks[:len:len] and append only); "
                  "backing-array identity is observed through the address of the first element (VerifChunkBase, verif tag) with the "
                  "collector switched off inside one case; struct copies (m2 := *m) bypass Clone and are outside the property",
    "rule": "exhaustive: templates of 0..9 lines cloned twice (clone of the original or of the first clone), then appends to the three members in "
            "all 6 orders; one message published 1..6 times through both replayers with appends in between; seeded random sequences of "
            "append/set/clear fields/Clone/reset/Put on families of up to 8 members; plus the message family's clone/append histories; "
            "non-trivial = distinct inputs",
    "assumptions": ["slices start at offset 0 of their backing array", "fewer than 2^64 publications"],
}

# C14's Message.UnmarshalText route (incl. "the value must not alias the caller's buffer") is exercised by the message family
PROPS["C14"]["families"] = ["fields", "message"]
PROPS["C14"]["rule"] += "; plus the message family (UnmarshalText of arbitrary wire-like text into a Message whose input buffer is then overwritten)"
PROPS["C14"]["rule"] += ("; UnmarshalJSON is called on the method directly, also with every text put between two quotes as it is (a string "
                         "literal with RAW control characters, line breaks, quotes, backslashes inside - not a document for encoding/json, "
                         "whose verdict on it is the model's `decoded` input)")
PROPS["C14"]["level_text"] += (" The encoding side of message_fields.go is in the model too (MarshalText, Value, MarshalJSON): every route yields a "
                               "well-formed field (C14_routes_wf), and no detour changes a value - text (C14_text_roundtrip), driver value handed "
                               "back as string or []byte (C14_value_scan_roundtrip), JSON for every document encoding/json reads back as the value "
                               "(C14_json_roundtrip); an unset value has no text form. The oracle of these cases demands only what the property "
                               "states (every value met on the way is single-line when set); that the detours give the same value back is the "
                               "model's statement, checked by the correspondence.")
PROPS["C14"]["rule"] += ("; route 5: the value NewID makes of each text through MarshalText/UnmarshalText, Value/Scan (string and []byte), "
                         "MarshalJSON/UnmarshalJSON, every buffer overwritten after use, the JSON document compared by what it denotes")
PROPS["C15"]["level_text"] += (" The round trip is stable (MessageStable.v): wire (roundtrip_of m) = wire m for every message, so decode-then-encode "
                               "is the identity on every encoding of an API-built message, the decoded message is its own round trip and WriteTo "
                               "makes on it exactly the calls it makes on the original (C15_roundtrip_stable, C15_wire_of_roundtrip).")
