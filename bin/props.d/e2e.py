FAMILIES["e2e"] = {"timeout_quick": 900, "timeout_thorough": 3000}
PROPS["C05"] = {
    "families": ["e2e"],
    "level_text": "Proof by composition on the specification-level model (EndToEnd.v): a response body cut after ANY number of bytes is "
                  "interpreted as exactly the messages whose encodings lie wholly inside the received prefix - a partial event is never "
                  "dispatched (C05_cut_body_decodes_to_whole_messages, for every interpreter mode); a replayer resumes with exactly the "
                  "stored messages after the presented ID (C05_resume_after); and for EVERY sequence of connections with any registration "
                  "and end times and any cut offsets / errors / handler ends, a client that holds one event receives in total a prefix of "
                  "what was published after it, each event once, in order, with the published ID/type/data, and ALL of it when the last "
                  "connection ends with the handler (C05_end_to_end). The proviso is a theorem too (EndToEndBounded.v): with a replayer "
                  "that is Fifo.lastn N of the accepted puts - what C08 proves a FiniteReplayer of capacity N to be - and fewer than N "
                  "messages published during each absence, the bounded system equals the unbounded one connection by connection, so the "
                  "same conclusion holds for every N (C05_bounded_replayer_is_unbounded, C05_end_to_end_bounded, C05_resume_from_last_N; "
                  "the unbounded statement is the instance N >= history, C05_unbounded_is_instance), and more generally for ANY replayer that "
                  "holds a suffix of the put history, keep(cn) newest puts at the registration of connection cn "
                  "(C05_end_to_end_any_suffix_replayer; a ValidReplayer's collection removes a prefix: C05_collect_keeps_a_suffix); without the proviso events are lost "
                  "(C05_too_small_replayer_loses_events, computed witness). The parts the composition rests on are the other properties' models "
                  "(wire: C02/C15; interpreter = parser: C01; Last-Event-ID rule: C10; resume: C08/C09; replay+register atomic: C04). "
                  "Tie: the library's Client runs against the library's Server+Joe+replayer over in-memory connections cut at scripted raw "
                  "and body offsets or ended by the handler; every attempt's header, the bytes actually read and the dispatched events "
                  "must be allowed by the model, and the outcome must satisfy the property (and the server must survive).",
    "level_note": "Trusted: Coq kernel; the composition is at specification level - each component's model is tied to its code by that "
                  "component's own check; net/http (chunked framing, connection teardown, header transport), TCP and real time are not "
                  "modelled: connections are net.Pipe pairs, a raw cut closes the pipe after c bytes read by the client, a body cut makes "
                  "the response body fail after c bytes; the replayer holds everything (512 entries / 1 h), as the property presupposes; "
                  "a crash of the server goroutines would end the harness process and is reported as a failed implementation run",
    "rule": "8 directed scenarios (cut inside the first event after a reconnect, exactly between events, inside the response head) plus seeded "
            "random scenarios over all four replayer kinds: steps publish 1-4 messages (12 injection-flavoured payload kinds, long events of "
            "~3 KB), arm a body cut after c bytes / a raw connection cut after c bytes (0..200 mostly, up to 6000), end the handler after it "
            "has started its stream, wait for catch-up; non-trivial = distinct scenarios whose trace has at least two attempts",
    "assumptions": ["the replayer still holds every event the client has not received (the property's proviso)",
                    "published IDs are distinct, non-empty, without NUL and valid header values"],
}
