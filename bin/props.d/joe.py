# Joe family: C06 C07 C03 C17 C04.  Model = coq/theories/JoeLts.v (executable labelled transition
# system of joe.go), proofs in Joe{Local,Proj,Pub,Inv,Safety,...}.v, tie = trace inclusion of the
# hook traces of the real sse.Joe into JoeLts.step (RunJoe.v) + property monitors (RunJoeMon.v).

JOE_NOTE = (
    "Trusted: Coq kernel; the LTS coq/theories/JoeLts.v is hand-written after joe.go (one label per channel operation, select "
    "choice, close and call into user code; guarded removeSubscriber and the drain of `done` after the unsubscription hand-off as in "
    "/repo now). MODELLED, not verified: the Go runtime's channel semantics (unbuffered send/receive = one joint step, select takes any "
    "ready case, close of a closed channel and send on a closed channel panic, receive from a closed channel yields the buffered value "
    "then the zero value, map iteration visits the present entries in any order). OUTSIDE the theorems: that the real runtime's "
    "behaviours are paths of the LTS (validated on every run by trace inclusion of perturbed real executions at GOMAXPROCS 1/2/4/16, "
    "not proved), scheduler fairness (the termination theorem is about maximal executions), data races (Joe's state is touched only "
    "by its own goroutine; not checked here), real-time bounds, panics inside a subscriber's Send/Flush (the property's proviso: they "
    "return). The hook placement rules that make the linear-time trace check sound (closes and non-blocking sends logged before they "
    "are performed, receives and rendezvous after) are part of the trusted harness (/repo/joe.go verifYield lines, "
    "harness/cmd/impl-run/joe*.go, coq/theories/RunJoe.v)."
)

JOE_RULE = (
    "seeded scenarios run against the real sse.Joe built with -tags verif in child processes (a crash is an observation): 1-4 (thorough: 8) "
    "subscribers, 1-3 publisher threads, 1-3 shutdown callers; topic sets disjoint/equal/overlapping in one or many topics/DefaultTopic; "
    "writer scripts failing at the k-th Send or Flush, with and without cancelling the own context inside the failing call; cancellation "
    "before start / after registration / after m events; the scripted errors come in sixteen characters (plain, Temporary(), Timeout(), wrapping "
    "os.ErrDeadlineExceeded / context.DeadlineExceeded / context.Canceled, *net.OpError, the subscriber's own context cancelled inside the "
    "call with ctx.Err() returned as it is / wrapped with %w / wrapped in a scripted value, values wrapping sse.ErrNoTopic / sse.ErrProviderClosed / "
    "sse.ErrUnexpectedEOF / io.EOF, values whose As(any) / Is(error) method answers true to everything), projected by identity, at every writer / Put / "
    "Replay site (sweep: character x site); in one scenario of three of every class the topic numbers are spelled as names of another shape "
    "(63, 64, 65, 127..129, 200, 255..257, 1000, 5000 bytes differing in their last or first byte only, NUL / UTF-8 / blanks inside, sizes mixed in one "
    "scenario, names that are prefixes of each other; topic 0 is always the empty name = DefaultTopic) and every spelling runs through the topic-shape "
    "class - topics are opaque to model and monitors; a failed subscriber whose "
    "unsubscription still reaches the loop, then further publishes to the remaining ones; one scenario in three that does not script the "
    "replayer runs against &sse.Joe{} (Replayer nil: the noopReplayer's unobservable Put/Replay are silent ok steps of the trace check); "
    "replayer Put/Replay verdict scripts (ok, error, panic; a Put error alone or together with the message) and strictly sequential fault "
    "histories (every ordered pair of Replay error / Replay panic / Put error / Put panic, then new subscribers and publishes); Shutdown "
    "closing j.done while the loop is held inside Replay / Put (any verdict); the same *sse.Message object published several times (a "
    "message pointer stands for the Publish call the loop accepted with it); messages "
    "without data - &sse.Message{} or an ID only - in every class (recognised by pointer), also through ID-assigning real replayers; Shutdown racing pending "
    "publishes, fan-outs, subscriptions, other Shutdown calls, with and without cancelled context; schedule perturbation at the hook points "
    "(Gosched, microsecond sleeps, priorities, parked goroutines with time-outs) at GOMAXPROCS 1/2/4/16; subscribers that are HTTP sessions of an "
    "sse.Server in front of the Joe (Server.ServeHTTP with a flushing ResponseWriter; OnSession answering topic lists of length 0 - nil or empty - "
    "1, 2, 3, or no OnSession at all) next to subscribers calling Joe.Subscribe, publications through Server.Publish without topics / with the default "
    "topic named / with other topics next to Joe.Publish (each such scenario in a process of its own); writers that forward every call to a real "
    "*sse.Session (a panic there ends the process: observed as a crash); publisher threads that keep ONE topics slice and rewrite it in place "
    "between calls once the previous delivery round is over; subscribers presenting a Last-Event-ID x every Replay verdict (ok, error, panic); "
    "what Subscription.Client holds: the subscriber's own pointer, a value of an uncomparable dynamic type (func type with methods, struct with a "
    "slice / map field by value), ONE writer object subscribed 2-3 times with different topics (the same pointer / equal struct values; each call "
    "attributed to the subscription it is for), sprinkled over every class and a directed class with one member failing; publications whose topic "
    "list names a topic two or three times (adjacent or not) in every class and directed against every kind of replayer with default-topic "
    "subscribers the message is not for; Shutdown with a context that ends first while the loop stays inside a writer call until that Shutdown "
    "has returned and other Subscribe / Publish calls are waiting to be taken; a run stops making scenarios after 30 with stranded calls. "
    "Every trace is replayed through "
    "the extracted JoeLts.step (K = the observed trace is not a path of the model) and through the property's monitor (S). "
    "non-trivial = every scenario (each executes the real provider); distinct = distinct (scenario, trace) pairs"
)

# time limits: on the unchanged code the quick tier of `joe` takes about 11 s; a change that strands calls costs the 10 s deadline per
# stuck scenario (the harness output is buffered: a run cut short by the limit loses its cases), hence the framework's default 600 s
FAMILIES["joe_c06"] = {"impl_family": "joe", "timeout_quick": 600, "timeout_thorough": 3000}
FAMILIES["joe_c07"] = {"impl_family": "joe", "timeout_quick": 600, "timeout_thorough": 3000}
FAMILIES["joe_c03"] = {"impl_family": "joe", "timeout_quick": 600, "timeout_thorough": 3000}
FAMILIES["joe_c17"] = {"impl_family": "joe", "timeout_quick": 600, "timeout_thorough": 3000}
FAMILIES["joe_c04"] = {"impl_family": "joe_replay", "timeout_quick": 300, "timeout_thorough": 3000}
# C03 on the resume scenarios (the REAL replayers make the Send / Flush calls of a replay on Joe's goroutine): the C03 monitor -
# "every Send is followed by a Flush before Joe goes idle" counts the Sends of a replay too - on the joe_replay scenarios
FAMILIES["joe_c03_resume"] = {"impl_family": "joe_replay", "model_family": "joe_c03", "timeout_quick": 300, "timeout_thorough": 3000}

PROPS["C06"] = {
    "families": ["joe_c06"],
    "level_text": (
        "Proof on the LTS of joe.go, for ALL label sequences (any number of Subscribe/Publish/Shutdown calls, every interleaving, every "
        "ok/error/panic verdict of every Send/Flush/Put/Replay): the Panicked state (close of a closed channel, send on a closed channel) is "
        "unreachable; once a Subscribe call has returned no later step appends to its writer's call log; Subscribe returns the failure the loop "
        "recorded for it (written only after its own Send/Flush answered that error or Replay returned it) if there is one, else nil, or "
        "ErrProviderClosed for a call never handed over whose writer was never called. Method: boolean invariant over a finite local view per "
        "subscriber (18816 states x 33 step kinds swept by vm_compute, lifted with forallb_forall; a second, 96-state view per Publish call for its errs channel) + one projection lemma for all labels. "
        "Model = code is validated, not proved: every hook trace of the real Joe observed under perturbed schedules must be a path of the "
        "extracted step function, and the monitors check no crash / no writer call after return / return values / no Send of a nil message "
        "(what the library's own Session panics on) on the observed history."
    ),
    "level_note": JOE_NOTE,
    "rule": JOE_RULE,
    "assumptions": ["subscribers' Send/Flush calls return (they may fail, they do not panic)"],
}

PROPS["C07"] = {
    "families": ["joe_c07"],
    "level_text": (
        "Proof on the LTS of joe.go, all label sequences: (progress) in every reachable state in which j.done is closed and the loop has not "
        "exited or some Subscribe/Publish/Shutdown call has not returned, an internal step is enabled; (termination) a lexicographic measure "
        "(pending work of the calls, then of the loop's iteration) decreases on every internal step, so the internal-step relation is "
        "well-founded from any state - every maximal execution after Shutdown ends with all calls returned and the loop exited; Shutdown "
        "returns nil only when j.closed is closed (loop exited, nobody registered), otherwise its cancelled context's error or "
        "ErrProviderClosed; exactly one caller's close(j.done) succeeds, no panic; from every reachable state a Shutdown call can close "
        "j.done (no deadlock). 'internal' excludes what the environment decides: starting calls, cancelling contexts, and the calls a "
        "Replay makes on the new subscriber's writer. Model = code validated by trace inclusion; the monitor checks on real runs that "
        "every started call returned before a generous deadline, the return values, one closer, loop exit with nobody registered, and - 'every "
        "Publish returns (delivered, or ErrProviderClosed)' - that a Publish which returned nil had its Send made on every subscriber that was "
        "registered and matching when the loop took it, whenever Shutdown arrived."
    ),
    "level_note": JOE_NOTE,
    "rule": JOE_RULE,
    "assumptions": ["subscribers' Send/Flush calls and the replayer's Put/Replay calls return",
                    "scheduler fairness: the theorem is about maximal executions of the LTS"],
}

PROPS["C03"] = {
    "families": ["joe_c03", "joe_c03_resume"],
    "level_text": (
        "Proof on the LTS of joe.go, all label sequences: for every subscriber i the Send calls the fan-out made on its writer are exactly "
        "filter (topics intersect) (order[reg_i .. upto_i)) - the messages of the single global accept order between its registration and its "
        "removal (or now, minus the message in flight that has not reached it) - hence exactly once, in one order, only matching, never "
        "twice when several topics match, nothing to unregistered subscriptions; a Publish call that returned before another started precedes "
        "it in the order; a log ends with a successful Send only while the loop is about to Flush that writer (flush before idle); a "
        "subscription removed through its cancellation got every matching message accepted before the cancellation was requested. History "
        "invariant proved with one lemma per clause over all 33 labels. Model = code validated by trace inclusion (a skipped matching "
        "subscriber or an abandoned round is not a path of the model); the monitor recomputes the due deliveries from the observed "
        "registration/removal/accept events and compares them with the observed Send sequences, the Put order and the per-thread order; "
        "'every Send is followed by a Flush before Joe goes idle' is checked on ALL Sends of a writer, those a replayer makes during Replay "
        "included, which is why the monitor also runs on the resume scenarios against the real FiniteReplayer / ValidReplayer (family joe_c03_resume)."
    ),
    "level_note": JOE_NOTE + " The topic matcher replay.go topicsIntersect is specified (some common topic), not transcribed; it is exercised by the trace inclusion on topic sets of all shapes and on topic names of all spellings.",
    "rule": JOE_RULE + "; family joe_c03_resume: the resume scenarios of C04 (real FiniteReplayer / ValidReplayer, resuming subscribers, histories over several "
            "topics whose newest stored event is not for the subscriber), judged by the C03 monitor",
    "assumptions": ["subscribers' Send/Flush calls return"],
}

PROPS["C17"] = {
    "families": ["joe_c17"],
    "level_text": (
        "Proof on the LTS of joe.go: the steps handling subscriber j's failure (failing Send/Flush, done_j <- err, removal) leave every other "
        "subscriber's record, registration, place in the running fan-out and the global order untouched; a subscriber is removed for failure "
        "only if a failure was recorded for it, and a subscriber without a recorded failure receives exactly the C03 deliveries in every "
        "reachable state, i.e. whatever the other writers answer; if Put answers an error for a message, that Publish returns this error and "
        "the message is in the global order (so it is fanned out like any other); Publish returns nil only for accepted messages; after a "
        "panic verdict of Put or Replay the replayer flag is off for good, no Put/Replay label is enabled any more, the publish proceeds "
        "without an error being sent and the subscription is registered. Model = code validated by trace inclusion; the monitor checks on "
        "real runs: deliveries of everybody, loop.fail only after the subscriber's own failing call, Subscribe/Publish return values, no "
        "replayer call after a panic."
    ),
    "level_note": JOE_NOTE,
    "rule": JOE_RULE + "; replayer faults: scripted Put/Replay verdicts (error, panic) and real Put errors of FiniteReplayer/ValidReplayer (missing / unexpected ID)",
    "assumptions": ["subscribers' Send/Flush calls return"],
}

PROPS["C04"] = {
    "families": ["joe_c04"],
    "level_text": (
        "Proof on the LTS of joe.go with an ABSTRACT replayer: Replay and registration happen in one loop iteration - when Replay is called for "
        "subscriber i the replayer has been offered (Put) exactly order[0 .. reg_i), each once, in order, and i's live window starts at reg_i, "
        "whatever Publish calls are pending or running; all Sends on i's writer = the replayer's, then the C03 deliveries; composed with a "
        "replayer that replays the matching accepted events after the presented one (the C08/C09 list specification) the complete Send "
        "sequence is the matching part of the global order after that event - no gap, duplicate or reordering at the boundary; a replayer "
        "that replays nothing (newest / never issued / unset ID, by C08/C09) leaves exactly the live part. PARTIAL with respect to the "
        "property text: the concrete replayers are not instantiated inside the LTS (their behaviour is proved separately in C08/C09), and "
        "'same ID live and replayed' holds by construction of the model (a message is identified with its Publish call). Both are checked on "
        "the real code on every run: real FiniteReplayer/ValidReplayer, auto and manual IDs, publishes before/during/after Subscribe, presented "
        "ID oldest/middle/newest/evicted/never issued/huge/non-canonical/unset; the monitor computes the expected replay with the C08 "
        "specification spec_resume from the observed Put history and compares replayed + live Sends and the IDs of every delivered event."
    ),
    "level_note": JOE_NOTE + " C04 additionally trusts the statement that the real replayers implement Fifo.spec_resume (proved for their models in C08/C09, tied to replay.go by those checks).",
    "rule": ("seeded scenarios against the real sse.Joe with real FiniteReplayer (capacity 2..5) and ValidReplayer, automatic and manual IDs: number of prior "
             "publishes 0, < capacity, = capacity, multiples, > capacity; presented ID oldest buffered / middle / newest / evicted / never issued (text, "
             "numeral above the newest, 2^63, 2^64-1, non-canonical) / unset; publishers parked so that publishes are accepted before, during and after "
             "the resuming Subscribe; a ValidReplayer with a scripted clock (m stored events expire, k survive, m and k up to 8: exactly len/2, len/4 "
             "and other numbers of survivors in rings of 8 and 16 slots), collected by the next Put or by the application's own GC() call, resumed from "
             "the newest / oldest surviving / an expired ID before anything else is stored; messages without data; a prebuilt message object "
             "published again through an ID-assigning replayer before somebody resumes; one Send of the replay failing (every position, errors of "
             "all characters) while every later call would succeed: the subscription must be refused with that error and the writer not called "
             "again; never-issued SPELLINGS of numbers as Last-Event-ID (23 forms - leading zeros, sign, blanks and tabs around, 0x / 0b / 0o, "
             "fraction, exponent, separators, full-width and Arabic-Indic digits - of zero, of buffered, evicted and not yet issued IDs; sweep form x "
             "{zero, other} x {Finite, Valid}); histories spread over several topics whose newest stored event(s) are not for the resuming "
             "subscriber; m events expired, k survive, nothing stored since and NOBODY has collected yet (a collection is due: the clock is two "
             "collection intervals past the last Put), m 1..8 x k 1..5 - around a quarter of the 8 / 16 slots - resumed from every survivor and, "
             "with automatic IDs, from an expired ID; topic names of all spellings (see C03); schedule perturbation as for C03. "
             "K = trace not a path of the model, S = monitor (replay part vs spec_resume of the "
             "observed Put history, live part, same ID)"),
    "assumptions": ["the presented ID identifies at most one buffered event (IDs unique)",
                    "automatic IDs below the oldest buffered one replay the whole buffer (documented behaviour, C08)"],
}

# names of the LTS labels by JoeLts/RunJoe.label_kind: the evidence reports which kinds the accepted traces took
_JOE_LABELS = ["SubEnter", "SubClosed", "SubSend", "SubDone", "SubCtx", "SubUnsub", "Cancel", "PubEnter", "PubSend", "PubClosed",
               "PubRecv", "ShutEnter", "ShutClose", "ShutDone", "ShutCtx", "HCancel", "LIdle", "LPut", "LPutRes", "LErrs", "LSend",
               "LFlush", "LFail", "LRemove", "LRemoveSkip", "LReplay", "LRSend", "LRFlush", "LReplayed", "LReject", "LReg", "LDone", "LExit"]
for _f in ("joe_c06", "joe_c07", "joe_c03", "joe_c17", "joe_c04", "joe_c03_resume"):
    FAMILIES[_f]["cover_names"] = _JOE_LABELS
PROPS["C17"]["level_text"] += (" The monitor also requires that, while no replayer panic has been observed, the loop starts no fan-out for a publication "
                               "it has not put to the replayer (a Put ERROR never takes the replayer out of use).")
