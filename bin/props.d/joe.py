# Joe family: C06 C07 C03 C17 C04.  Model = coq/theories/JoeLts.v (executable labelled transition
# system of joe.go), proofs in Joe{Local,Proj,Pub,Inv,Safety,...}.v, tie = trace inclusion of the
# hook traces of the real sse.Joe into JoeLts.step (RunJoe.v) + property monitors (RunJoeMon.v).

JOE_NOTE = (
    "Trusted: Coq kernel; the LTS coq/theories/JoeLts.v is hand-written after joe.go (one label per channel operation, select "
    "choice, close and call into user code; guarded removeSubscriber and the drain of `done` after the unsubscription hand-off as in "
    "/repo now). MODELLED, not verified: the Go runtime's channel semantics (unbuffered send/receive = one joint step, select takes any "
    "ready case, close of a closed channel and send on a closed channel panic, receive from a closed channel yields the buffered value "
    "then the zero value, map iteration visits the present entries in any order). OUTSIDE the theorems: that the real runtime's "
    "behaviours are paths of the LTS (validated on every run by trace inclusion of perturbed real executions at GOMAXPROCS 1/2/4/16, "
    "not proved), scheduler fairness (the termination theorem is about maximal executions), data races (Joe's state is touched only "
    "by its own goroutine; not checked here), real-time bounds, panics inside a subscriber's Send/Flush (the property's proviso: they "
    "return). The hook placement rules that make the linear-time trace check sound (closes and non-blocking sends logged before they "
    "are performed, receives and rendezvous after) are part of the trusted harness (/repo/joe.go verifYield lines, "
    "harness/cmd/impl-run/joe*.go, coq/theories/RunJoe.v)."
)

JOE_RULE = (
    "seeded scenarios run against the real sse.Joe built with -tags verif in child processes (a crash is an observation): 1-4 (thorough: 8) "
    "subscribers, 1-3 publisher threads, 1-3 shutdown callers; topic sets disjoint/equal/overlapping in one or many topics/DefaultTopic; "
    "writer scripts failing at the k-th Send or Flush, with and without cancelling the own context inside the failing call; cancellation "
    "before start / after registration / after m events; replayer Put/Replay verdict scripts (ok, error, panic); Shutdown racing pending "
    "publishes, fan-outs, subscriptions, other Shutdown calls, with and without cancelled context; schedule perturbation at the hook points "
    "(Gosched, microsecond sleeps, priorities, parked goroutines with time-outs) at GOMAXPROCS 1/2/4/16. Every trace is replayed through "
    "the extracted JoeLts.step (K = the observed trace is not a path of the model) and through the property's monitor (S). "
    "non-trivial = every scenario (each executes the real provider); distinct = distinct (scenario, trace) pairs"
)

FAMILIES["joe_c06"] = {"impl_family": "joe", "timeout_quick": 300, "timeout_thorough": 3000}
FAMILIES["joe_c07"] = {"impl_family": "joe", "timeout_quick": 300, "timeout_thorough": 3000}
FAMILIES["joe_c03"] = {"impl_family": "joe", "timeout_quick": 300, "timeout_thorough": 3000}
FAMILIES["joe_c17"] = {"impl_family": "joe", "timeout_quick": 300, "timeout_thorough": 3000}
FAMILIES["joe_c04"] = {"impl_family": "joe_replay", "timeout_quick": 300, "timeout_thorough": 3000}

PROPS["C06"] = {
    "families": ["joe_c06"],
    "level_text": (
        "Proof on the LTS of joe.go, for ALL label sequences (any number of Subscribe/Publish/Shutdown calls, every interleaving, every "
        "ok/error/panic verdict of every Send/Flush/Put/Replay): the Panicked state (close of a closed channel, send on a closed channel) is "
        "unreachable; once a Subscribe call has returned no later step appends to its writer's call log; Subscribe returns the failure the loop "
        "recorded for it (written only after its own Send/Flush answered that error or Replay returned it) if there is one, else nil, or "
        "ErrProviderClosed for a call never handed over whose writer was never called. Method: boolean invariant over a finite local view per "
        "subscriber (6272 states x 33 step kinds swept by vm_compute, lifted with forallb_forall) + one projection lemma for all labels. "
        "Model = code is validated, not proved: every hook trace of the real Joe observed under perturbed schedules must be a path of the "
        "extracted step function, and the monitors check no crash / no writer call after return / return values on the observed history."
    ),
    "level_note": JOE_NOTE,
    "rule": JOE_RULE,
    "assumptions": ["subscribers' Send/Flush calls return (they may fail, they do not panic)"],
}
