FAMILIES["finite_retain"] = {}
FAMILIES["valid_retain"] = {}
PROPS["C18"]["families"] = ["finite_slots", "valid_slots", "finite_retain", "valid_retain"]
PROPS["C18"]["level_text"] += (" Runtime observation (not a proof): a sample of the same histories is run with a finalizer on every message given to "
                               "Put; after the history (and a final collection for ValidReplayer) the collector is forced and the messages still "
                               "reachable must be among the model's occupied slots and within the specification's buffer - this is what sees "
                               "references kept outside the ring slots (hidden slice tails, scratch slices).")
PROPS["C18"]["rule"] += "; finalizer families: every 25th finite / 150th valid history (6th / 25th in the thorough tier)"
