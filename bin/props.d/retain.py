FAMILIES["finite_retain"] = {}
FAMILIES["valid_retain"] = {}
PROPS["C18"]["families"] = ["finite_slots", "valid_slots", "finite_retain", "valid_retain"]
PROPS["C18"]["level_text"] += (" Runtime observation (not a proof): a sample of the same histories is run with a finalizer on every message given to "
                               "Put; after the history (and a final collection for ValidReplayer) the collector is forced and the messages still "
                               "reachable must be among the model's occupied slots and within the specification's buffer - this is what sees "
                               "references kept outside the ring slots (hidden slice tails, scratch slices).")
PROPS["C18"]["rule"] += "; finalizer families: every 25th finite / 150th valid history (6th / 25th in the thorough tier)"

# round 7: explicit IDs that look like generated ones
for _p in ("C08", "C09"):
    PROPS[_p]["rule"] += ("; explicit (manual) IDs are spelled nine ways - opaque names, or decimals that look like generated IDs: counting from 0 / "
                          "from an offset, decreasing, out of order within blocks, shuffled, with gaps, zero-padded, mixed with names - in the "
                          "random histories and in the exhaustive ones up to length 3; replays also present never-issued numerals "
                          "inside the range of the issued ones and right after it; directed sweep: every arrangement of 2-4 distinct numbers "
                          "out of six put with explicit IDs, then every number of the range presented")

# round 7: long backlogs
for _p in ("C09", "C18"):
    PROPS[_p]["rule"] += ("; directed long backlogs: a burst of 300 / 1000 events, a pause longer than the TTL, then one Put whose "
                          "collection is due (all expired, or all but five) or an explicit GC(), then resumptions and Puts while the ring "
                          "shrinks; all of them also in the finalizer family")

# round 7: the exported field GCInterval assigned on a replayer in use
for _p in ("C09", "C18"):
    PROPS[_p]["level_text"] += (" The histories of the model, of the specification and of the theorems (universally quantified over them) contain, "
                                "next to Put / Replay / GC, assignments to the exported field GCInterval between two operations (VSetGCI): the "
                                "interval is part of the state and shouldGC reads the current value at every Put, as in replay.go.")
    PROPS[_p]["rule"] += ("; operation 'GCInterval := g' (lowered, raised, switched off) in the exhaustive alphabet (up to length 3), in the random histories and in a "
                          "directed sweep: from every interval to every interval - before the first Put, after two Puts, after a Put-triggered "
                          "or an explicit collection - then pauses of every relevant length and Puts")

# round 7: accepted and rejected Puts interleaved on one replayer (heap family)
PROPS["C19"]["rule"] += ("; accepted and rejected Puts through one replayer in every order up to length 5 (a message without ID, a clone with an "
                         "explicit ID, the copy the last accepted Put returned), all four replayers; the random sequences follow which members "
                         "carry an ID, publish any member (earlier publications included) and contain bursts of 2-4 Puts through one replayer")
PROPS["C09"]["level_text"] += (" What the specification stores is at every moment the last k accepted puts for some k - collections, clock readings and "
                               "interval assignments only ever drop a prefix (C09_stores_a_suffix_of_the_accepted_puts, C09_suffix_invariant; FifoSuffix.v) - "
                               "the shape the end-to-end composition of C05 needs of a replayer.")
