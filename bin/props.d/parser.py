# Parser stack: C01 (WHATWG conformance, segmentation independence), C20 (bounded memory).
# One harness family "parse" (harness/cmd/impl-run/parse.go), one model (coq/theories/RunParse.v run_parse),
# two oracles.

PARSER_NOTE = ("Trusted: Coq kernel; the Gallina models Split.v / Scanner.v / Reader.v / ReadLoop.v are hand-written line for line after "
               "internal/parser/parser.go, GOROOT/src/bufio/scan.go (Scanner.Scan, advance, setErr, Buffer) and event.go read(), and are tied to the code by the "
               "correspondence harness (scripted io.Reader / http.RoundTripper; events copied at the moment they are yielded; bytes pulled counted); "
               "bufio constants (MaxScanTokenSize, startBufSize, maxConsecutiveEmptyReads), field names, the BOM and the retry parsing call are regenerated "
               "from the sources on every run; the specification theories/Whatwg.v is written from the standard; bytes are not decoded as UTF-8 (events are compared as bytes); "
               "a Reader returning (0, nil) and buffers above 4 EiB are not modelled")

FAMILIES["parse_c01"] = {"impl_family": "parse", "timeout_quick": 900, "timeout_thorough": 6000}
FAMILIES["parse_c20"] = {"impl_family": "parse", "timeout_quick": 900, "timeout_thorough": 6000}

PARSE_RULE = ("streams: all words of <= 3 (quick) / 4 (thorough) tokens over {data id event retry : SP LF CR x 7 + NUL BOM EF da} plus sampled longer words, "
              "each whole, byte-at-a-time, with every single cut and (short ones) every pair of cuts; grammar-based random streams (mixed LF/CR/CRLF, comments, "
              "look-alike names, invalid UTF-8, retry values around 2^63) with random / fixed / CRLF- and BOM-splitting cuts and random limits; size-targeted streams "
              "(groups of L-2..L+2 bytes first/middle/last with 0-2 preceding blank lines, endless lines / blank lines / comments) for L in {1..64, 4096, 4097, 65536} "
              "through ReadConfig.MaxEventSize and Connection.Buffer with cap <,=,> max; entry points sse.Read, Connection (scripted RoundTripper; in a third of the cases the stream "
              "is the body of the connection's SECOND attempt, after a first body that is empty or one of ten small streams that set / change / reset (empty id field) / fail to set (NUL, undispatched event) "
              "the last event ID - the stream under test must be interpreted with the ID the first attempt left, computed by the model stack resp. the specification), read() with a retry "
              "callback and with an initial last event ID; endings clean EOF / scripted read error / context cancellation; early stop after 0-2 events; "
              "non-trivial = distinct inputs")

PROPS["C01"] = {
    "families": ["parse_c01"],
    "level_text": "Proof (end to end on the model stack) + correspondence. Proved for all configurations, reader scripts (every segmentation of the byte stream into reads, byte-at-a-time included), "
                  "endings, initial IDs and stop positions: C01_read / C01_connection / C01_read_any_id (read_run_spec) - whenever every group fits the limit (fitsb), the model of sse.Read / Connection.read "
                  "(Scanner + splitFunc + FieldParser + Parser + read loop) yields exactly firstn' stop (vis (Whatwg.interp mode id (concat chunks) ending)) and ends normally; streams with a leading BOM "
                  "included. Ingredients, each proved for all inputs: line_step (scan_segment + the switch of read() = Whatwg.process_line), read_loop_spec (the read loop over the fields of a stream's lines "
                  "= Whatwg.interp, incl. end rules and early stop), interp_lines_eq, the characterisation of splitFunc's tokens (split_func_tok/_shape), segmentation independence at the split level "
                  "(split_path_toks + spec_toks), scan_spec and scan_spec2 (bufio.Scanner.Scan for every reader script: which token it cuts - splitFunc on a prefix of at most max(cap, maxTokenSize) bytes - and "
                  "exactly when it reports ErrTooLong), split_loop_quiet / sf_tok_end (splitFunc against the group structure the limit is written with), and parser_fields (Parser.Next over the scanner's "
                  "tokens hands out the fields of lines that interpret to Whatwg.interp, incl. the BOM wrapper of parser.New; fitsb excludes ErrTooLong). "
                  "Not proved: split_stable in its sharp form (made unnecessary by spec_toks). The model is tied to the code by the correspondence (model = code on every case); the oracle holds_parse_c01 "
                  "checks the theorem's statement on the real code (code = Whatwg.interp of the concatenated stream for every segmentation whenever every group fits the limit).",
    "level_note": PARSER_NOTE,
    "rule": PARSE_RULE,
    "assumptions": ["Read offers no retry callback: its yields are compared with the specification's after removing the retry notifications (Whatwg.interp emits them in every mode)",
                    "the scripted reader returns the end (EOF or error) in a Read call of its own, never (0, nil); a read error is not io.EOF"],
}

PROPS["C20"] = {
    "families": ["parse_c20"],
    "level_text": "Proof + correspondence. Proved in full on the whole model stack for every reader script, every (cap(buf), maxSize) incl. 0/negative/absent, both entry points, every early stop "
                  "(read_run_bounded): no Panic outcome (ErrAdvanceTooFar, bufio's empty-token panic) and no OutOfFuel, bytes pulled = bytes consumed by tokens + bytes buffered and bytes buffered <= "
                  "L = max(maxSize, cap(buf)) (default 65536) at every point and at the end. Also proved in full, without any size hypothesis (C20_intact = read_run_gen): the yields are either the whole "
                  "interpretation Whatwg.interp of the concatenated stream (and then every group fits in the generous reading, may_complete), or - for an offset in the oracle's own toolong_points L (stream_needs s) - the specification's yields for the stream up to that offset "
                  "followed by ErrTooLong; never a truncated or partial event, nothing lost before the oversized group. fitsb L s -> no ErrTooLong (C20_fits_complete, C20_fits_no_toolong_points, "
                  "C20_fits_parser_err). The one-byte slack between strict and generous fit (the blank line that completed the previous group is CR LF and the LF arrives in a later read) is part of the "
                  "statement (toolong_points uses need_lo / need_hi) and is real behaviour of the code. The oracle holds_parse_c20 checks the same statement on the real code.",
    "level_note": PARSER_NOTE,
    "rule": PARSE_RULE,
    "assumptions": ["the limit is max(maxSize, cap(buf)) as bufio.Scanner.Buffer documents; a group's size counts the blank lines before it and the first byte of the blank line after it; the rest of the stream after the last group must be shorter than the limit (the scanner needs room to be told that the input ended)",
                    "when a group's blank line ends in CR and the next byte is LF, that LF may count towards either neighbour (one byte of slack, depends on the read segmentation)"],
}
