# Parser stack: C01 (WHATWG conformance, segmentation independence), C20 (bounded memory).
# One harness family "parse" (harness/cmd/impl-run/parse.go), one model (coq/theories/RunParse.v run_parse),
# two oracles.

PARSER_NOTE = ("Trusted: Coq kernel; the Gallina models Split.v / Scanner.v / Reader.v / ReadLoop.v are hand-written line for line after "
               "internal/parser/parser.go, GOROOT/src/bufio/scan.go (Scanner.Scan, advance, setErr, Buffer) and event.go read(), and are tied to the code by the "
               "correspondence harness (scripted io.Reader / http.RoundTripper; events copied at the moment they are yielded; bytes pulled counted); "
               "bufio constants (MaxScanTokenSize, startBufSize, maxConsecutiveEmptyReads), field names, the BOM and the retry parsing call are regenerated "
               "from the sources on every run; the specification theories/Whatwg.v is written from the standard; bytes are not decoded as UTF-8 (events are compared as bytes); "
               "a Reader returning (0, nil) and buffers above 4 EiB are not modelled")

FAMILIES["parse_c01"] = {"impl_family": "parse", "timeout_quick": 900, "timeout_thorough": 6000}
FAMILIES["parse_c20"] = {"impl_family": "parse", "timeout_quick": 900, "timeout_thorough": 6000}

PARSE_RULE = ("streams: all words of <= 3 (quick) / 4 (thorough) tokens over {data id event retry : SP LF CR x 7 + NUL BOM EF da} plus sampled longer words, "
              "each whole, byte-at-a-time, with every single cut and (short ones) every pair of cuts; grammar-based random streams (mixed LF/CR/CRLF, comments, "
              "look-alike names, invalid UTF-8, retry values around 2^63) with random / fixed / CRLF- and BOM-splitting cuts and random limits; size-targeted streams "
              "(groups of L-2..L+2 bytes first/middle/last with 0-2 preceding blank lines, endless lines / blank lines / comments) for L in {1..64, 4096, 4097, 65536} "
              "through ReadConfig.MaxEventSize and Connection.Buffer with cap <,=,> max; entry points sse.Read, Connection (scripted RoundTripper), read() with a retry "
              "callback and with an initial last event ID; endings clean EOF / scripted read error / context cancellation; early stop after 0-2 events; "
              "non-trivial = distinct inputs")

PROPS["C01"] = {
    "families": ["parse_c01"],
    "level_text": "Proof + correspondence: see coq/props/C01.v for the theorems that are closed (and, in comments, any full-strength statement that is only proved in part). "
                  "The oracle holds_parse_c01 compares the observed yields of the real code with Whatwg.interp of the concatenated stream, for every segmentation, "
                  "whenever every group fits the limit.",
    "level_note": PARSER_NOTE,
    "rule": PARSE_RULE,
    "assumptions": ["Read offers no retry callback: its yields are compared with the specification's after removing the retry notifications",
                    "the scripted reader returns the end (EOF or error) in a Read call of its own, never (0, nil)"],
}

PROPS["C20"] = {
    "families": ["parse_c20"],
    "level_text": "Proof + correspondence: see coq/props/C20.v. The oracle holds_parse_c20 checks on the real code: no panic; bytes pulled minus the end of the last complete "
                  "group within them <= L = max(maxSize, cap(buf)) (default 65536); the yields are the specification's, or the specification's up to a group that does not fit "
                  "followed by bufio.ErrTooLong - never a partial event.",
    "level_note": PARSER_NOTE,
    "rule": PARSE_RULE,
    "assumptions": ["the limit is max(maxSize, cap(buf)) as bufio.Scanner.Buffer documents; a group's size counts the blank lines before it and the first byte of the blank line after it",
                    "when a group's blank line ends in CR and the next byte is LF, that LF may count towards either neighbour (one byte of slack, depends on the read segmentation)"],
}
