# client-side family: C12 (retry schedule), C10 (Last-Event-ID / fresh body), C11 (Connect returns only for a reason)

CLIENT_NOTE = ("Trusted: Coq kernel; the Gallina models (theories/Backoff.v after client.go:136-229, theories/Connect.v after "
               "client_connection.go:128-277) are hand-written line by line and tied to the code by the correspondence harness, not by a "
               "verified translation; default Backoff values and the Last-Event-ID header name are regenerated from /repo on every run. "
               "float64 is modelled by exact rationals and float64->int64 by truncation: this is the code's arithmetic only where IEEE-754 "
               "rounding does not occur (dyadic Multiplier/Jitter/RNG draws, few significant bits) - that is what the harness generates and "
               "compares EXACTLY; for non-dyadic factors (e.g. Multiplier 1.1) the theorem's +-1 ns reading of the bounds is not validated "
               "against the code. int64 wrap-around is not modelled (the theorems are about intervals below 2^63 ns, i.e. < 292 years). "
               "time.Since(start) and rand.Float64() are universally quantified inputs of every next() call in the theorems; in the harness "
               "the RNG is a scripted rand.Source (u = Int63/2^63 exactly) and the clock reading is injected through verif_export.go "
               "(VerifBackoff.Next), with every case kept >= 0.5 s away from the MaxElapsedTime boundary - the wall clock AT the boundary "
               "is outside the check.")

FAMILIES["backoff"] = {"timeout_quick": 300, "timeout_thorough": 1800}

PROPS["C12"] = {
    "families": ["backoff"],
    "level_text": ("Proof over exact arithmetic: for every Backoff configuration (through mergeDefaults: defaults, Jitter -1 kept, Multiplier 1, limits unset) "
                   "and every history of attempt ends, validated responses and server retry fields, with the clock reading and the RNG draw of every "
                   "next() call universally quantified, the model of backoffController answers exactly as the recurrence of the property text says: "
                   "b_1 = InitialInterval or the last positive retry value (0 => initial), b_(k+1) = min(floor(b_k*M), MaxInterval) when set; wait = b_k "
                   "exactly for Jitter -1 and within [floor(b_k(1-J)), ceil(b_k(1+J))] otherwise (lower end attained); no retry iff MaxRetries < 0, or "
                   "MaxRetries > 0 and MaxRetries attempt ends already occurred since the last reset, or elapsed + the wait drawn > MaxElapsedTime; "
                   "counter and interval reset by a validated response / retry field. Model = code is checked on every run by driving the REAL "
                   "backoffController (verif_export.go) with a scripted rand.Source and injected elapsed time and comparing next()'s answers, "
                   "interval, numRetries and the number of RNG draws EXACTLY with the extracted model, and the observed waits are checked by an "
                   "oracle written from the property text. Validated by correspondence only: IEEE-754 behaviour (dyadic factors only), int64 range."),
    "level_note": CLIENT_NOTE,
    "rule": ("class A: random configurations over {initial <=0, 1 ns .. 1 s} x Multiplier {1, 9/8, 5/4, 3/2, 7/4, 2, 3, 4, <1 (default)} x Jitter {-1, 1/8 .. 127/128, "
             "0, 1, 3/2, negative (default)} x MaxInterval {unset, = initial, below initial, 2x, 7x} x MaxRetries {-1, 0, 1, 2, 3, 5} x MaxElapsedTime "
             "{unset, out of reach, long exceeded} with histories of <= 14 operations {attempt end with dyadic draw incl. 0 and 1-2^-s, success, retry n incl. 0 "
             "and values above MaxInterval}; class B: quantised values (bases multiples of 2^34 ns, elapsed multiples of 2^30, MaxElapsedTime = 2^29 mod 2^30) "
             "so that elapsed+wait falls on both sides of MaxElapsedTime at distance >= 0.5 s, upward draws over-represented; class C: retry values up to 10^12 ms; "
             "corpus: D4 witness (Jitter -1, base 7 ms) and cap/limit witnesses; non-trivial = distinct histories (every one calls next() on the real controller)"),
    "assumptions": ["no int64 overflow: every base interval times Multiplier stays below 2^63 ns",
                    "float64 arithmetic of nextInterval/growInterval is exact on the compared inputs (dyadic Multiplier, Jitter, RNG draw; few significant bits); "
                    "for other factors the code may differ from the rational model by IEEE-754 rounding",
                    "rand.Rand.Float64() = float64(Source.Int63()) / 2^63 (read from GOROOT/src/math/rand/rand.go of the sandbox toolchain)"],
}
