# client-side family: C12 (retry schedule), C10 (Last-Event-ID / fresh body), C11 (Connect returns only for a reason)

CLIENT_NOTE = ("Trusted: Coq kernel; the Gallina models (theories/Backoff.v after client.go:136-229, theories/Connect.v after "
               "client_connection.go:128-277) are hand-written line by line and tied to the code by the correspondence harness, not by a "
               "verified translation; default Backoff values and the Last-Event-ID header name are regenerated from /repo on every run. "
               "float64 is modelled by exact rationals and float64->int64 by truncation: this is the code's arithmetic only where IEEE-754 "
               "rounding does not occur (dyadic Multiplier/Jitter/RNG draws, few significant bits) - that is what the harness generates and "
               "compares EXACTLY; for non-dyadic factors (e.g. Multiplier 1.1) the theorem's +-1 ns reading of the bounds is not validated "
               "against the code. int64 wrap-around is not modelled (the theorems are about intervals below 2^63 ns, i.e. < 292 years). "
               "time.Since(start) and rand.Float64() are universally quantified inputs of every next() call in the theorems; in the harness "
               "the RNG is a scripted rand.Source (u = Int63/2^63 exactly) and the clock reading is injected through verif_export.go "
               "(VerifBackoff.Next), with every case kept >= 0.5 s away from the MaxElapsedTime boundary - the wall clock AT the boundary "
               "is outside the check.")

FAMILIES["backoff"] = {"timeout_quick": 300, "timeout_thorough": 1800}
# one harness family ("connect": real Client/Connection behind a scripted RoundTripper), three oracles
for _p in ("c10", "c11", "c12"):
    FAMILIES["connect_" + _p] = {"impl_family": "connect", "model_family": "connect_" + _p,
                                 "timeout_quick": 600, "timeout_thorough": 3000}

CONNECT_NOTE = (" The Connect model takes what a response body makes the Connection do from the byte-level SPECIFICATION Whatwg.interp (events, retry fields, "
                "final error); that the real parser equals it is property C01 - here the correspondence harness compares the real Connection (real parser "
                "included) with the model on every run. net/http is scripted, not verified: http.Client.Do with a custom RoundTripper calls RoundTrip "
                "synchronously, wraps its error in *url.Error and hands the same *http.Request (same Body) through; a real Transport's header validation "
                "and body handling are outside. Cancellation is modelled where the code observes it (inside RoundTrip, inside Read, in the select of a wait); "
                "a context that is already done when Connect is called makes the first select take either branch (timer 0 vs Done); the model returns the context's error without a request, and the harness exercises it with a RoundTripper that - like a real transport - fails a request on a done context with the context's error without serving it, so both branches give the same observation; a cancellation during an attempt whose own error is not the context's is observed only by the "
                "following select (covered in the model through the 'patience' input, in the harness only for waits >= 0.9 s, which is what makes "
                "the outcome independent of timing).")

CONNECT_RULE = ("random scripts of 1-8 attempts {transport error, cancellation inside RoundTrip, validator rejection, accepted stream} with bodies from an "
                "event-stream grammar (data/id/event/retry fields incl. empty and NUL ids, signed/overlong/invalid retry values, comments, unknown fields, BOM, "
                "LF/CRLF/CR) ending on an event boundary / in mid-event / in mid-line, delivered whole, byte-wise or in random chunks, the end reported with or "
                "after the last bytes: clean EOF, injected read error, cancellation inside Read (immediate or blocking until another goroutine cancels); the context already cancelled before Connect (1 script in 25); "
                "body kinds none / NoBody / body without GetBody / with GetBody / GetBody failing after k calls; OnRetry set or not; an initial Last-Event-ID header "
                "sometimes present; Backoff: microsecond intervals, Jitter -1, Multiplier 1 / 1.5 / 2, MaxInterval unset / = initial / 2x, MaxRetries -1 / 0 / 1 / 2 / 3 / 5, "
                "MaxElapsedTime unset / 1 ns / 1 h; server retry values >= 0.9 s lead to cancellation inside OnRetry; plus a sweep: endings (EOF / error / "
                "cancellation / a read error that wraps io.EOF / read errors that are, wrap or match a sentinel: 20 characters) after every byte position of six short streams (event boundary, mid-line, after a CR); corpus: D3 / D3b / D6 witnesses and C10 / C12 scenarios. "
                "Every injected error (transport, validator verdict, reader, GetBody) is a value of a random character: plain, Temporary() true, Timeout() true, wrapping io.EOF / "
                "io.ErrUnexpectedEOF / os.ErrDeadlineExceeded, *net.OpError around a wrapped io.EOF, network errors as they really look (*net.OpError{Op:dial} around ECONNREFUSED, "
                "*net.OpError{Op:read} around ECONNRESET, both also inside a *url.Error, *net.DNSError alone and inside a dial error), and errors that are / wrap / match (Is method, as "
                "http.Client.Timeout's and a dialer's timeout errors do) context.DeadlineExceeded or context.Canceled while the request context is alive, errors that ARE a well-known sentinel "
                "(io.ErrUnexpectedEOF - what net/http returns for a body shorter than its Content-Length -, bufio.ErrTooLong, the library's own ErrUnexpectedEOF and ErrNoGetBody, "
                "os.ErrDeadlineExceeded, io.ErrClosedPipe, io.ErrNoProgress, net.ErrClosed, http.ErrBodyReadAfterClose, io.ErrShortBuffer, ECONNRESET, http.ErrHandlerTimeout) and errors that "
                "wrap bufio.ErrTooLong / sse.ErrUnexpectedEOF / sse.ErrNoGetBody or match io.EOF / the ErrUnexpectedEOFs / bufio.ErrTooLong through an Is method - projected by identity (errors.As on "
                "the harness's own type first, == for the bare sentinels and only for the one injected in the current attempt: sse.ErrUnexpectedEOF and io.ErrUnexpectedEOF are different "
                "values, so 'the injected value came back' and 'the library's own sentinel came back' are told apart), the model takes the index as opaque; plus a sweep: every character at every site (transport, reader, validator, GetBody at "
                "its first / second call) with every body kind, followed by two more attempts. The request context is of a random kind: WithCancel, WithCancelCause ended with a cause of its own "
                "(one that wraps context.Canceled included), a WithCancel / WithValue / WithTimeoutCause child of such a context, a deadline with a cause that expires at the scripted instant "
                "(a Context whose Err() turns context.DeadlineExceeded when the harness says so) or that passed before Connect (real WithDeadlineCause); plus a sweep: every kind ended at every "
                "instant a script can name. Connect's return value counts as 'the context's error' only if it IS request.Context().Err() (==), never a cause or a look-alike. The Client has produced 0-2 other Connections before the one under test (NewConnection normalises the Client in place). A few scripts (12 quick / 100 thorough) "
                "have slow attempts (RoundTrip and/or the end of the body sleep 1-3.5 ms) and waits of 1-16 ms that are really slept. One-sided timing observation on every script: for each "
                "OnRetry call that is followed by a request, the monotonic time from the end of the call to the start of the RoundTrip is at least the duration handed to OnRetry (a timer never "
                "fires early: cannot fail on timing); C12's oracle demands it. Every response (accepted or rejected) carries a STATUS CODE: 200 half of the time, else one of 36 "
                "others (1xx, 201-226, 204/205 included, 300/304/305, 4xx, 5xx, 299, 999; not 301/302/303/307/308, which concern http.Client's redirect logic); the validator's verdict is "
                "scripted, so the status is opaque to model and oracle - an accepted response is read and retried whatever its status, Connect never returns nil; the validator is the "
                "harness's closure or, for scripts without a rejected response, sse.NoopValidator (half of those); plus a sweep: every status x {closure accepting, NoopValidator, closure "
                "rejecting} x {no body, one event, a cut line}, two more attempts behind. A REJECTED response's body ends at once (an error page) or - one in eight, plus "
                "one per error character and every fourth status in the sweeps - is a stream the server keeps OPEN (quiet, or quiet after a few bytes): Read blocks until the body is "
                "closed (then it fails) or the harness gives up; observed per such body: the Read calls made on it before Connect returned and whether Connect was still running "
                "0.9 s after it got the response (the body is released then, so a Connect that waits for a rejected body is the observation 'stuck', not a hung run); C11's oracle: "
                "on a validator failure Connect returned at once - not stuck, the verdict returned, no further request. Retry values that are NEAR-NUMERALS (half of the invalid retry fields, and a sweep of ~120 values "
                "alone / after a valid field): a positive numeral with white space (SP, two SP, TAB, VT, FF, NEL, NBSP, U+2000, U+2028, U+2029, U+3000) before it beyond the one space of "
                "the field syntax, after it, around it or inside it, with a sign, unit, fraction, exponent, base prefix, digit separator, or in non-ASCII digits - all ignored, the wait stays "
                "what it was. THE SAME CONNECTION CONNECTED AGAIN (1500 random scenarios quick / 30000 thorough, and a sweep of ~900): Connect returns for a reason other than the context - "
                "MaxRetries -1 (one attempt per call, the application loops itself), retries 1 / 2 used up by failures or by a stream's end plus failures, a rejected response, a body-reset error - "
                "and is called again on the same *Connection, 2-4 calls, one script per call (a call that ends with the context's error or runs out of script ends the scenario); streams from the grammar and "
                "from twelve small bodies that set / change / reset / do not touch the ID or are cut before dispatch, every ending, every error character, every body kind (none, NoBody, no GetBody, GetBody, "
                "GetBody failing at its first / second / third call), OnRetry set or not, an initial header sometimes, every context kind; observed per call: requests (header, body generation incl. a re-sent "
                "consumed body), events, OnRetry, return value; sweep: body kind x {one attempt, one retry per call} x how the first call ends (each small body, a read error in mid-line, a transport error, a "
                "rejection after / without a stream) x what the second call's stream does to the ID, two more calls behind. "
                "Non-trivial = distinct scripts (every one runs Connect on a real Connection).")

AGAIN_NOTE = (" Several Connect calls on one Connection: the state carried from call to call (c.lastEventID, c.isRetry, the request's Last-Event-ID header and Body, "
              "the number of GetBody calls) is part of the PROVED model (Connect.v: connect_loop_st returns it, connect_runs threads it; theorems C10_again_* / C11_again_* / C12_again_schedule) - "
              "nothing about a later call's initial state is covered by correspondence only. By correspondence, as for a single call: that the harness's scripted request body, GetBody and "
              "RoundTripper behave as net/http's would. The model makes a further call exactly while the last one returned something else than the context's error; a Connect call on a context "
              "that is already done (after such a return) is not part of the scenarios (it is the 'cancelled before Connect' case of the single-call scripts). Each call has a backoff controller of "
              "its own (client_connection.go:198): its waits start at InitialInterval and no retry is counted, so a retry value the server sent during an EARLIER call is forgotten when that call "
              "returns - the model, the C12 oracle and C12_again_schedule take the property's 'the retry value the server sent on the preceding connection' per Connect call; whether it should survive "
              "a return of Connect is not decided by the property text and is not reported.")

PROPS["C10"] = {
    "families": ["connect_c10"],
    "level_text": ("Proof on the model of Connection.Connect (resetRequest, resetRequestBody, doConnect, read, the loop), for every script of attempt outcomes of any length "
                   "and every body kind: the Last-Event-ID header of attempt k+1 is the ID of the most recently dispatched event over attempts 1..k - computed by the "
                   "specification interpreter per stream with the carried ID - when that is non-empty, and absent otherwise; failed / rejected / cancelled attempts and "
                   "streams that dispatch nothing leave it unchanged; request number j carries the j-th GetBody result, requests without a body never get one, a missing "
                   "GetBody ends Connect with ErrNoGetBody after the first request and a failing GetBody with its own error, before any further request. Model = code is "
                   "checked on every run with a real Client/Connection behind a scripted RoundTripper (headers, body generation incl. detection of a re-sent consumed body, "
                   "events, OnRetry, return value compared exactly), and an oracle recomputes the expected header/body of every observed request from the specification. "
                   "The same Connection connected again (Connect returned for a reason other than the context and is called again, any number of times): the model of one call also "
                   "returns the Connection as the call leaves it (lastEventID, isRetry, the request's header and body generation, GetBody calls so far), the next call starts from exactly that "
                   "with a backoff controller of its own, and it is proved for every list of scripts that the requests of ALL calls are those specified for ONE call over the attempts made: request "
                   "number k+2 counted over all calls - so also the FIRST request of a later call - carries header_of(the ID after the k+1 attempts before it), request number j carries the j-th "
                   "GetBody result (a consumed body is never sent again), a body without GetBody allows one request in all and every later call returns ErrNoGetBody without a request, a failing "
                   "GetBody its own error; every later call is one call from a state with isRetry set, so the single-call theorems (stated for an arbitrary state) apply to it."),
    "level_note": CLIENT_NOTE + CONNECT_NOTE + AGAIN_NOTE,
    "rule": CONNECT_RULE,
    "assumptions": ["requests whose IDs are not valid HTTP field values are outside (a real Transport rejects them; the scripted RoundTripper does not)",
                    "NUL-containing ids, ids of undispatched events: handled inside the specification interpreter (C01 ties the parser to it); shown here by Examples and by the correspondence"],
}

FAMILIES["read_c11"] = {"timeout_quick": 300, "timeout_thorough": 1800}

PROPS["C11"] = {
    "families": ["connect_c11", "read_c11"],
    "level_text": ("Proof on the model of Connection.Connect, for every script: Connect never returns nil; what a stream hands to the Connection ends with exactly one error, "
                   "io.EOF after a terminated last line (or an empty stream), ErrUnexpectedEOF exactly for a clean end in mid-line, the reader's own error - cancellation "
                   "included - for a read error after any byte; every attempt before the last is retryable, so a validator error, a cancelled request or a cancelled read "
                   "ends Connect at once; the return value is the context's error / ConnectionError{validator error} / ConnectionError{body reset error} / "
                   "ConnectionError{last attempt's error} exactly when backoff.next() - on the controller state given by the specification-side history of the run "
                   "(C12's schedule theorem applies to it) - refuses, or the context's error when the context is cancelled during a granted wait. Model = code is "
                   "checked on every run (real Connection behind a scripted RoundTripper; Connect's return projected with errors.Is / errors.As, injected errors carry "
                   "an index; attempts counted at the RoundTripper), and an oracle re-derives the expected outcome of every observed run from the property text. The clause about sse.Read (a read error is yielded as "
                   "itself, ErrUnexpectedEOF only for a clean end in mid-line, nothing for a clean end after a terminated line) is proved for the specification "
                   "interpreter in Read mode and checked on the real sse.Read over a scripted reader (family read_c11). Several Connect calls on one Connection (see C10): no call returns nil, "
                   "and the classification holds of every call with the controller starting anew (C11_again_never_nil, C11_again_classification)."),
    "level_note": CLIENT_NOTE + CONNECT_NOTE + AGAIN_NOTE,
    "rule": CONNECT_RULE + " Family read_c11: sse.Read over the same stream grammar with clean / erroneous endings, all chunkings, the end reported with or after the last "
            "bytes, plus endings (clean, and a read error of each of the 38 characters) after every byte position of seven short streams; read errors of every character (see above: also values "
            "that wrap io.EOF / io.ErrUnexpectedEOF, network errors, context look-alikes, and values that ARE io.ErrUnexpectedEOF / bufio.ErrTooLong / sse.ErrUnexpectedEOF / context.Canceled ..., "
            "projected by identity); corpus: D3 / D3b witnesses, sentinel read errors at an event boundary / in mid-line / after a CR / on an empty stream.",
    "assumptions": ["events larger than the scanner buffer (bufio.ErrTooLong) are outside the streams generated here (C20)",
                    "the context is cancelled only at the instants a script can name: inside RoundTrip, inside Read, inside OnRetry before a wait >= 0.9 s"],
}

PROPS["C12"] = {
    "families": ["backoff", "connect_c12"],
    "level_text": ("Proof over exact arithmetic: for every Backoff configuration (through mergeDefaults: defaults, Jitter -1 kept, Multiplier 1, limits unset) "
                   "and every history of attempt ends, validated responses and server retry fields, with the clock reading and the RNG draw of every "
                   "next() call universally quantified, the model of backoffController answers exactly as the recurrence of the property text says: "
                   "b_1 = InitialInterval or the last positive retry value (0 => initial), b_(k+1) = min(floor(b_k*M), MaxInterval) when set; wait = b_k "
                   "exactly for Jitter -1 and within [floor(b_k(1-J)), ceil(b_k(1+J))] otherwise (lower end attained); no retry iff MaxRetries < 0, or "
                   "MaxRetries > 0 and MaxRetries attempt ends already occurred since the last reset, or elapsed + the wait drawn > MaxElapsedTime; "
                   "counter and interval reset by a validated response / retry field. Model = code is checked on every run by driving the REAL "
                   "backoffController (verif_export.go) with a scripted rand.Source and injected elapsed time and comparing next()'s answers, "
                   "interval, numRetries and the number of RNG draws EXACTLY with the extracted model, and the observed waits are checked by an "
                   "oracle written from the property text. Integration: on the model of Connect it is proved that the controller sees exactly the history "
                   "{validated response -> reset, retry field -> reset(value), every attempt end -> next()} and that OnRetry is called once per granted retry with the wait "
                   "returned by next(); the real Connect (Jitter -1, microsecond intervals) is compared with it on every run: OnRetry durations, attempt counts, return, "
                   "and (one-sided, on the monotonic clock) that no attempt starts before the wait handed to OnRetry has passed since that call. "
                   "Validated by correspondence only: IEEE-754 behaviour (dyadic factors only), int64 range, the wall clock inside a real Connect."),
    "level_note": CLIENT_NOTE + AGAIN_NOTE,
    "rule": ("class A: random configurations over {initial <=0, 1 ns .. 1 s} x Multiplier {1, 9/8, 5/4, 3/2, 7/4, 2, 3, 4, <1 (default)} x Jitter {-1, 1/8 .. 127/128, "
             "0, 1, 3/2, negative (default)} x MaxInterval {unset, = initial, below initial, 2x, 7x} x MaxRetries {-1, 0, 1, 2, 3, 5} x MaxElapsedTime "
             "{unset, out of reach, long exceeded} with histories of <= 14 operations {attempt end with dyadic draw incl. 0 and 1-2^-s, success, retry n incl. 0 "
             "and values above MaxInterval}; class B: quantised values (bases multiples of 2^34 ns, elapsed multiples of 2^30, MaxElapsedTime = 2^29 mod 2^30) "
             "so that elapsed+wait falls on both sides of MaxElapsedTime at distance >= 0.5 s, upward draws over-represented; class C: retry values up to 10^12 ms; "
             "corpus: D4 witness (Jitter -1, base 7 ms) and cap/limit witnesses; non-trivial = distinct histories (every one calls next() on the real controller). "
             "Family connect_c12: " + CONNECT_RULE),
    "assumptions": ["no int64 overflow: every base interval times Multiplier stays below 2^63 ns",
                    "float64 arithmetic of nextInterval/growInterval is exact on the compared inputs (dyadic Multiplier, Jitter, RNG draw; few significant bits); "
                    "for other factors the code may differ from the rational model by IEEE-754 rounding",
                    "rand.Rand.Float64() = float64(Source.Int63()) / 2^63 (read from GOROOT/src/math/rand/rand.go of the sandbox toolchain)"],
}
