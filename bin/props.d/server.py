# C13 (client callback registry) and C16 (Session / Server HTTP side): property table entries.
# Executed by bin/props.py with PROPS, FAMILIES, TRUSTED_BASE in scope.

FAMILIES["callbacks"] = {"timeout_quick": 300, "timeout_thorough": 3000}
FAMILIES["session"] = {"timeout_quick": 300, "timeout_thorough": 3000}

PROPS["C13"] = {
    "families": ["callbacks"],
    "level_text": (
        "Proof on a model of Connection's callback registry (callbacks: type -> id -> callback, callbacksAll: id -> callback, "
        "callbackID; client_connection.go:30-160) with the operations SubscribeEvent/SubscribeMessages, SubscribeToAll, a remover call "
        "(the (kind,type,id) its closure captured) and dispatch. For EVERY operation history Coq theorems state: a dispatched "
        "event invokes, as a multiset, exactly the subscriptions added with its exact type or to-all and not removed since, none twice "
        "(C13_routing); after a remover was called its subscription is never invoked again whatever follows, a remover that is not in force "
        "(repeated, or stale after its type was subscribed again) leaves the registry unchanged, a remover removes only its own subscription, "
        "ids are never reused (C13_remove*, C13_ids_never_reused); every subscription sees events in dispatch order, each at most once "
        "(C13_order). For EVERY SCHEDULE of a lock-level transition system (dispatch = take the read lock, invoke the callbacks one by one, "
        "release; a subscription or remover call of another goroutine takes effect only while no dispatch holds the lock) the registry and "
        "the invocations performed are those of the atomic history the schedule amounts to, and once a remover has returned no later "
        "invocation is of its subscription (C13_schedules_atomic, C13_schedules_remove_final). Model = code is checked on every run by "
        "driving a REAL sse.Connection (Connect over a scripted RoundTripper whose body releases one event at a time) through exhaustive "
        "short and random long histories, operations applied before Connect and from another goroutine while connected, comparing per "
        "event who was invoked, per subscription what it saw in which order, and the registry sizes (VerifCallbackCount) after every "
        "operation; a direct oracle written from the property text re-checks the observed behaviour; concurrent scenarios probe the lock "
        "discipline the transition system assumes; the same scenarios are re-run in a race-enabled build."),
    "level_note": (
        "Trusted: Coq kernel; the Gallina registry (theories/Callbacks.v) and its lock-level transition system (CallbacksLts.v) are "
        "hand-written after client_connection.go and tied to it by the differential harness, not by a verified translation. The lock "
        "discipline (every add/remove body under mu.Lock, the whole of dispatch including the user callbacks under mu.RLock, sync.RWMutex "
        "excluding writers while a reader holds it) is an ASSUMPTION of the transition system, justified by reading the code and probed - not "
        "proved - by concurrent scenarios (a remover issued from another goroutine in the middle of a dispatch must not return before the "
        "dispatch is over; subscribe/unsubscribe storms with permanent witnesses), whose verdict is computed by the Go harness itself. "
        "Freedom from data races is NOT proved: it is observed, on those scenarios and on histories applied from another goroutine while "
        "connected, by Go's race detector in a race-enabled child build of the harness (input distribution key race-detector:run; "
        "race-detector:unavailable if the machine has no cgo toolchain, in which case nothing is claimed). A callback that (un)subscribes "
        "from inside its own dispatch self-deadlocks and is outside the property ('from other goroutines'). The SSE parser and net/http are "
        "not part of this model (events are fed as well-formed wire text)."),
    "rule": (
        "exhaustive histories of <= 6 (quick) / 7 (thorough) operations over {subscribe \"\", subscribe \"x\", subscribe-to-all, remover 0/1/2, "
        "event \"\", event \"x\"} each followed by one event of every type, and the same sweep one operation shorter with the named type "
        "\"message\" (the specification's name for the unnamed type) in place of \"x\"; seeded random histories (<= 40 / 120 operations, a pool "
        "of 4 types: the unnamed type next to ordinary names or next to its look-alikes \"message\", \"Message\", \" message\", \"messages\" ...; "
        "3 labels, old removers called again and again); Connect started at a random point up to the first event; in a third of the random "
        "histories events that follow one another arrive in ONE chunk (several complete events in the parser's buffer), in a third the "
        "REQUEST'S CONTEXT ENDS at a random point after Connect - cancelled by the harness goroutine between two events or from inside the next "
        "callback invoked, the context being of any kind of the connect family (WithCancel, WithCancelCause, children of it, a deadline that "
        "expires at that instant) - while the scripted body, like a strings.Reader or a pipe, keeps delivering: every event dispatched after "
        "it is owed to exactly the subscriptions in force, as before (model and oracle treat the end of the context as a no-op: the property "
        "ends a subscription with its remover only; what Connect returns is C11's matter and not observed here); plus all histories of <= 4 / 5 "
        "operations over the alphabet above extended by those two letters that contain one, and a directed sweep (5 subscription set-ups x the "
        "cancellation after 0..6 of six events x by whom x events one by one / all remaining in one chunk / in pairs x 7 context kinds); concurrent "
        "scenarios (remover during dispatch x 4 kind pairs, storms); operations that MEET (24 / 400 cases of 50 / 60 rounds: k goroutines "
        "subscribing to one type nobody is subscribed to, or subscriptions and the removers of the type's last subscriptions, released "
        "together from a spinning barrier; events are released only after all those calls have returned, so who must receive them - each "
        "exactly once, removed ones not at all, a decoy of another type nobody - is a function of the input and is judged by the extracted "
        "model and oracle; needs more than one processor to interleave); one race-detector run over 350 concurrent scenarios/histories. "
        "non-trivial = distinct histories (every one runs against a real Connection)"),
    "assumptions": [
        "the lock discipline of client_connection.go (mu.Lock around add/remove, mu.RLock around the whole of dispatch) and sync.RWMutex's exclusion, as modelled in CallbacksLts.v",
        "callbacks do not subscribe or unsubscribe from inside their own dispatch (self-deadlock, outside the property)",
        "absence of data races is observed by the race detector on the harness's scenarios, not proved",
    ],
}

PROPS["C16"] = {
    "families": ["session"],
    "level_text": (
        "Proof on a model of session.go and server.go:131-222 in which the http.ResponseWriter is the environment: the ordered log of "
        "Header-set / Write / Flush / WriteHeader calls made on it, driven by an arbitrary script of verdicts (one per Write or Flush: ok, or "
        "accept k bytes and fail with e / flush fails with e). Session.Send is doUpgrade + the existing model of Message.WriteTo (write_to, "
        "write_to_accounting of C15 are reused), Session.Flush skips the second flush right after an upgrade, getResponseWriter walks writer "
        "shapes {FlushError, Flush, Unwrap} in the code's type-switch order. For ALL Send/Flush sequences, messages and scripts Coq theorems "
        "state: no Write before 'Content-Type: text/event-stream' was set and then flushed successfully, and no header set after that "
        "(C16_upgrade_first_once, _before_every_write, _once); per call the accepted bytes of a Send are the message's encoding when it "
        "returned nil and a prefix of it otherwise, so up to the first failing call the body is the concatenation of the encodings (C16_body, "
        "C16_body_concat); a Flush that returned nil leaves a successful writer flush after the last Write (C16_flush); every call returns "
        "the first error the writer answered during it (C16_first_error); ServeHTTP subscribes with the header's first value when present, "
        "non-empty and single-line (else unset) and OnSession's topics (DefaultTopic if none), performs no writer call of its own when "
        "OnSession rejects, and answers WriteHeader 500 when no writer in the Unwrap chain can flush or the provider returns an error "
        "(C16_serve, C16_serve_session, C16_response_writer_*). Model = code is checked on every run on a recording fault-injecting "
        "ResponseWriter (all eight method sets, nested Unwrap chains) with a failure injected at the k-th writer operation for every k, and "
        "through the real Server.ServeHTTP with a recording Provider; a direct oracle written from the property text re-checks the observed logs."),
    "level_note": (
        "Trusted: Coq kernel; the Gallina model (theories/Session.v) is hand-written after session.go/server.go and tied to them by the "
        "differential harness, not by a verified translation; constants (header names/values, DefaultTopic, the 500 of both http.Error "
        "replies and the 'unsupported' text) are re-read from /repo and net/http/status.go on every run. net/http itself is NOT modelled: "
        "the theorems are about the calls made on the http.ResponseWriter interface, for every behaviour of that writer; what a real "
        "net/http server does with them (status line once, chunking, buffering, a header set after the first flush being ignored) is outside. "
        "The cases through a real net/http server are a smoke test that the recording writer is representative (a real http.response offers "
        "both Flush and FlushError), with no failure injection. A writer reached through plain http.Flusher cannot report flush failures (Flush() has no result): for such writers 'the first flush "
        "error is returned' is vacuous and the harness records those flushes as successful. http.Error's own three calls are mirrored from "
        "the Go toolchain in use (one Content-Type set, WriteHeader, one Write). A header assignment cannot be intercepted on a real "
        "http.Header map: the harness logs 'Header() was called' with the Content-Type found at the next call, consecutive Header() calls "
        "coalesce. ServeHTTP appending its http.Error text to a stream that already started is mirrored by the model but is outside the "
        "property's statement; logging (Logger) is not modelled. Message encodings come from the C15/C02 model of WriteTo."),
    "rule": (
        "Session: every call sequence of length <= 3 (quick) / 4 (thorough) over {Send data, Send id+type+retry+comment+2-line data, Send "
        "empty message, Flush} on 8 flushing writer shapes (FlushError, Flusher, both, wrapped 1-2 levels, outer Flusher hiding inner "
        "FlushError) with no failure and with a failure at the k-th writer operation for EVERY k (accepting 0 / 1 / all bytes), some with a "
        "second later failure; seeded random messages, sequences <= 8 calls and scripts with several failures; writers that cannot flush; "
        "9 more shapes with SEVERAL flushing layers (FlushError over Flusher, Flusher over both / over Flusher / over FlushError directly and through an "
        "Unwrap-only layer, both over FlushError, such pairs behind an Unwrap-only layer, three flushing layers): every sequence of <= 2 calls with no failure "
        "and a failure at every operation, a ServeHTTP sweep, and among the random shapes. Every Write / Flush of a session call is observed together with the "
        "writer OBJECT it was made on (depth in the Unwrap chain, 0 = the writer given to Upgrade / ServeHTTP); the oracle demands that all of them arrive at the "
        "outermost layer that can flush - at the given writer itself whenever it can flush (a buffering / compressing middleware writer is never skipped). "
        "every sequence also with a Content-Type ALREADY on the response before Upgrade (8 presets: another media type, "
        "text/event-stream with a parameter or in another case, an empty value, no value, two values), with and without a failing first flush. "
        "ServeHTTP: product of 11 writer shapes x 9 Last-Event-Id header variants (absent, empty, plain, with LF, with CR, several, empty "
        "first, NUL/space) x 10 OnSession variants (nil, topics, empty topics, reject with/without own status, accept with own status) x 6 "
        "provider behaviours (nil / error before sending / after sending / flush only) x failure positions (sampled in the quick tier); the "
        "same product (a third of it) with 8 OnSession variants that put a Content-Type on the response before accepting / accepting with "
        "a status / rejecting, and with 17 providers refusing with the errors providers really return - sse.ErrProviderClosed, "
        "sse.ErrNoTopic, context.Canceled, context.DeadlineExceeded, each also wrapped (%w) and joined (errors.Join), an opaque error "
        "that only reads like a sentinel - before and after sending; "
        "ERROR CHARACTERS: the error of a failing Write/Flush is, two times out of three, not the harness's opaque type but one of 122 "
        "values that ARE or WRAP a well-known sentinel (http.ErrNotSupported, ErrHandlerTimeout, ErrAbortHandler, ErrBodyNotAllowed, ErrHijacked, "
        "ErrContentLength, ErrServerClosed, io.EOF, ErrUnexpectedEOF, ErrClosedPipe, ErrShortWrite, context.Canceled, DeadlineExceeded, "
        "net.ErrClosed, os.ErrDeadlineExceeded, the library's four; each itself / wrapped with %w / behind an Unwrap method / matched by an Is "
        "method / errors.Join-ed / inside *net.OpError; *net.OpError around write: EPIPE and ECONNRESET, EPIPE itself, Timeout() and "
        "Temporary() errors, what http.NewResponseController(w).Flush() really returns for a writer without Flush); what Send/Flush "
        "returned is projected back to the injected index by identity (== on the injected value, through the Unwrap chain). Every "
        "character is additionally the error of the k-th operation for every k of four call sequences on the FlushError and Flusher routes, "
        "the error of a writer that never recovers, and - through ServeHTTP - the error of the upgrade flush / a Write / a later flush and "
        "the error the provider refuses with (keys error-character:*, characters:*, serve:characters:*); plus "
        "seeded random requests; 150 / 2000 random message/call sequences through a real net/http server and client on the loopback "
        "interface, half of them with a Content-Type preset by OnSession (status, Content-Type and whole body as the client receives them; key real-server, or real-server:unavailable). non-trivial = distinct inputs (every one runs against the real Session / Server)"),
    "assumptions": [
        "errors returned by the writer are non-nil values (script_ok); messages have an int64 Retry (WriteTo does not panic: retry_digits_fit)",
        "the Unwrap chain of the ResponseWriter is finite",
        "what net/http does with the recorded calls is outside the model",
    ],
}
