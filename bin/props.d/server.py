# C13 (client callback registry) and C16 (Session / Server HTTP side): property table entries.
# Executed by bin/props.py with PROPS, FAMILIES, TRUSTED_BASE in scope.

FAMILIES["callbacks"] = {"timeout_quick": 300, "timeout_thorough": 3000}
FAMILIES["session"] = {"timeout_quick": 300, "timeout_thorough": 3000}

PROPS["C13"] = {
    "families": ["callbacks"],
    "level_text": (
        "Proof on a model of Connection's callback registry (callbacks: type -> id -> callback, callbacksAll: id -> callback, "
        "callbackID; client_connection.go:30-160) with the operations SubscribeEvent/SubscribeMessages, SubscribeToAll, a remover call "
        "(the (kind,type,id) its closure captured) and dispatch, each atomic. For EVERY operation history Coq theorems state: a dispatched "
        "event invokes, as a multiset, exactly the subscriptions added with its exact type or to-all and not removed since, none twice "
        "(C13_routing); after a remover was called its subscription is never invoked again whatever follows, a remover that is not in force "
        "(repeated, or stale after its type was subscribed again) leaves the registry unchanged, a remover removes only its own subscription, "
        "ids are never reused (C13_remove*, C13_ids_never_reused); every subscription sees events in dispatch order, each at most once "
        "(C13_order). Model = code is checked on every run by driving a REAL sse.Connection (Connect over a scripted RoundTripper whose body "
        "releases one event at a time) through exhaustive short and random long histories, operations applied before Connect and from another "
        "goroutine while connected, comparing per event who was invoked, per subscription what it saw in which order, and the registry sizes "
        "(VerifCallbackCount) after every operation; a direct oracle written from the property text re-checks the observed behaviour."),
    "level_note": (
        "Trusted: Coq kernel; the Gallina registry (theories/Callbacks.v) is hand-written after client_connection.go and tied to it by the "
        "differential harness, not by a verified translation. Atomicity of each operation is an ASSUMPTION of the model, justified by reading "
        "the code (every method body holds mu: write lock for add/remove, read lock for the whole of dispatch) and probed - not proved - by "
        "concurrent scenarios in the harness (a remover issued from another goroutine in the middle of a dispatch must not return before the "
        "dispatch is over; subscribe/unsubscribe storms with permanent witnesses), whose verdict is computed by the Go harness itself. "
        "Freedom from data races is NOT proved and this check does not run the race detector (bin/check builds the harness without -race); "
        "it is the race detector's domain. A callback that (un)subscribes from inside its own dispatch self-deadlocks and is outside the "
        "property ('from other goroutines'). The SSE parser and net/http are not part of this model (events are fed as well-formed wire text)."),
    "rule": (
        "exhaustive histories of <= 6 (quick) / 7 (thorough) operations over {subscribe \"\", subscribe \"x\", subscribe-to-all, remover 0/1/2, "
        "event \"\", event \"x\"} each followed by one event of every type; seeded random histories (<= 40 / 120 operations, 4 types incl. a "
        "case variant, 3 labels, old removers called again and again); Connect started at a random point up to the first event; concurrent "
        "scenarios (remover during dispatch x 4 kind pairs, storms). non-trivial = distinct histories (every one runs against a real Connection)"),
    "assumptions": [
        "each registry operation is atomic (mu held for every method body; dispatch holds the read lock while callbacks run)",
        "callbacks do not subscribe or unsubscribe from inside their own dispatch (self-deadlock, outside the property)",
        "absence of data races is left to the race detector and is not established by this check",
    ],
}

PROPS["C16"] = {
    "families": ["session"],
    "level_text": "(being written)",
    "level_note": "(being written)",
    "rule": "",
    "assumptions": [],
}
