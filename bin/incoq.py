#!/usr/bin/env python3
"""In-Coq re-evaluation of correspondence cases (the cross-check of extraction).

The correspondence check runs the models as OCaml code extracted from Coq.  This module re-evaluates a
sample of the very same cases INSIDE Coq: it writes a file that states the cases as Gallina terms of
type [val * val] (input, observed), lets `coqc` compute with `vm_compute`, for every case,

    code = (if val_eqb (run_f input) observed then 1 else 0) + (if holds_f input observed then 2 else 0)

and compares the codes with the verdicts of the extracted driver (K = model differs from the code,
S = the property oracle rejects).  Any disagreement between the two evaluators of the same definitions
is reported by bin/check as a broken correspondence: extraction (or the driver's reader/printer) is then
no longer doing what the Coq definitions say.

Usage as a program (for experiments):  bin/incoq.py <family> <file of "input<TAB>observed" lines>
"""
import glob, os, re, subprocess, sys, time

ROOT = os.path.dirname(os.path.dirname(os.path.abspath(__file__)))
WORK = os.path.join(ROOT, ".work")

MAX_CASES = 160          # cases per family and run
MAX_CASE_CHARS = 6000    # longer cases are left to the extracted driver alone
MAX_TOTAL_CHARS = 220000


def family_table():
    tab, mods = {}, []
    for f in sorted(glob.glob(os.path.join(ROOT, "ocaml", "families.d", "*.fam"))):
        for l in open(f):
            p = l.split()
            if len(p) >= 2 and p[0] == "require" and p[1] not in mods:
                mods.append(p[1])
            elif len(p) >= 4 and p[0] == "family":
                tab[p[1]] = (p[2], p[3])
    return tab, mods


TOK = re.compile(r"\(|\)|[nzx][^\s()]*")


def to_gallina(text):
    """val text syntax (n<dec> | z[-]<dec> | x<hex> | ( v ... )) -> Gallina term of type val (N_scope open)"""
    toks = TOK.findall(text)
    if "".join(toks) != text.replace(" ", ""):
        raise ValueError("unparsed residue")
    pos = 0

    def value():
        nonlocal pos
        t = toks[pos]
        pos += 1
        if t == "(":
            items = []
            while toks[pos] != ")":
                items.append(value())
            pos += 1
            return "(VL [" + "; ".join(items) + "])"
        if t[0] == "n":
            if not t[1:].isdigit():
                raise ValueError(t)
            return f"(VN {int(t[1:])})"
        if t[0] == "z":
            v = int(t[1:])
            return f"(VZ ({v})%Z)"
        if t[0] == "x":
            h = t[1:]
            if len(h) % 2:
                raise ValueError(t)
            return "(VB [" + "; ".join(str(int(h[i:i + 2], 16)) for i in range(0, len(h), 2)) + "])"
        raise ValueError(t)

    v = value()
    if pos != len(toks):
        raise ValueError("trailing tokens")
    return v


def pick(cases, flagged, budget=1):
    """deterministic sample: every flagged case first (at most 8), then a stride over the rest, within the budgets"""
    chosen, total = [], 0
    want = [i for i in sorted(flagged)][:8]
    n = len(cases)
    max_cases, max_total = MAX_CASES * budget, MAX_TOTAL_CHARS * budget
    stride = max(1, n // max_cases)
    want += [i for i in range(0, n, stride) if i not in want]
    for i in want:
        size = len(cases[i][0]) + len(cases[i][1])
        if size > MAX_CASE_CHARS or total + size > max_total:
            continue
        chosen.append(i)
        total += size
        if len(chosen) >= max_cases:
            break
    return chosen


def crosscheck(fam, model_family, cases, kset, sset, tag="", timeout=600, budget=1):
    """cases: [(input, observed)]; kset/sset: indices the extracted driver flagged.
    Returns dict(checked, agree, disagreements=[(index, coq_code, ocaml_code)], seconds, error)."""
    tab, mods = family_table()
    res = {"family": fam, "checked": 0, "agree": 0, "disagreements": [], "seconds": 0.0, "error": None}
    if model_family not in tab:
        res["error"] = f"family {model_family} not in ocaml/families.d"
        return res
    run, holds = tab[model_family]
    idx = pick(cases, set(kset) | set(sset), budget)
    terms = []
    kept = []
    for i in idx:
        try:
            terms.append("(" + to_gallina(cases[i][0]) + ", " + to_gallina(cases[i][1]) + ")")
            kept.append(i)
        except (ValueError, IndexError):
            continue   # malformed lines are the driver's E lines; nothing to evaluate
    if not kept:
        return res
    name = re.sub(r"[^A-Za-z0-9]", "_", f"InCoq_{fam}_{tag or os.getpid()}")
    src = os.path.join(WORK, name + ".v")
    with open(src, "w") as f:
        f.write("From Coq Require Import List NArith ZArith.\nImport ListNotations.\n")
        f.write("From GoSse Require Import Base " + " ".join(mods) + ".\n")
        f.write("Open Scope N_scope.\nSet Printing Width 1000000.\nSet Printing Depth 1000000.\n")
        f.write("Definition cases : list (val * val) := [\n" + ";\n".join(terms) + "].\n")
        f.write(f"Definition code (c : val * val) : N := (if val_eqb ({run} (fst c)) (snd c) then 1 else 0) + "
                f"(if {holds} (fst c) (snd c) then 2 else 0).\n")
        f.write("Definition codes := Eval vm_compute in map code cases.\nPrint codes.\n")
    t0 = time.time()
    try:
        p = subprocess.run(["coqc", "-Q", "coq/theories", "GoSse", "-Q", "coq/gen", "GoSse.Gen", "-Q", WORK, "Work",
                            "-w", "-notation-overridden,-abstract-large-number", src],
                           cwd=ROOT, capture_output=True, text=True, timeout=timeout)
        out, rc = p.stdout, p.returncode
        err = p.stderr
    except subprocess.TimeoutExpired:
        out, rc, err = "", 124, "timeout"
    res["seconds"] = round(time.time() - t0, 1)
    for ext in ((".vo", ".vok", ".vos", ".glob") if os.environ.get("INCOQ_KEEP") else (".v", ".vo", ".vok", ".vos", ".glob")):
        try:
            os.remove(os.path.join(WORK, name + ext))
        except OSError:
            pass
    try:
        os.remove(os.path.join(WORK, "." + name + ".aux"))
    except OSError:
        pass
    m = re.search(r"codes\s*=\s*\[(.*?)\]", out, re.S)
    if rc != 0 or not m:
        res["error"] = f"coqc rc={rc}: {(err or out)[-400:]}"
        return res
    got = [int(x) for x in re.findall(r"\d+", m.group(1))]
    if len(got) != len(kept):
        res["error"] = f"{len(got)} codes for {len(kept)} cases"
        return res
    for i, g in zip(kept, got):
        o = (0 if i in kset else 1) + (0 if i in sset else 2)
        res["checked"] += 1
        if g == o:
            res["agree"] += 1
        else:
            res["disagreements"].append((i, g, o))
    return res


if __name__ == "__main__":
    fam, path = sys.argv[1], sys.argv[2]
    cs = []
    for line in open(path):
        line = line.rstrip("\n")
        if line:
            i, _, o = line.partition("\t")
            cs.append((i, o))
    print(crosscheck(fam, fam, cs, set(), set(), tag="cli"))
