"""Table of properties -> families, and of families -> harness/model names."""

TRUSTED_BASE = [
    "Coq 8.16.1 kernel (coqc); vm_compute is used in Examples and finite sweeps, native_compute is not; coqchk re-check in the thorough tier",
    "no axioms declared in the development; Print Assumptions of every property theorem is parsed on every run; a grep for Admitted/admit/Axiom/Parameter/... fails the check",
    "extraction: Require Extraction + ExtrOcamlBasic only (Extract Inductive bool/option/unit/list/prod/sumbool/sumor, Extract Inlined Constant andb/orb); N/Z/positive/nat stay Coq's inductives; OCaml 4.13.1 ocamlopt; ocaml/driver.ml (val text parser/printer, comparison loop) and ocaml/families.ml (name table)",
    "parameter translator harness/cmd/verif-params (go/ast) regenerating coq/gen/Params.v from /repo on every run",
    "correspondence harness harness/cmd/impl-run (Go, built with -tags verif against /repo's working tree; generators, executors, projections of Go errors to enums)",
    "the models are hand-written Gallina mirroring the Go code; the Go runtime, bufio.Scanner, net/http, strconv, encoding/json, time, math/rand are modelled or scripted, not verified",
]

FAMILIES = {
    "fields": {"trivial_observed": ["(n0 x n0)"]},
}

PROPS = {
    "C14": {
        "families": ["fields"],
        "level_text": "Proof: for every construction route of EventID/EventType (NewID/NewType/ID/Type, UnmarshalText, UnmarshalJSON for any decoded string, Scan for any driver value, the Upgrade header) a Coq theorem states that a set value contains no CR/LF and that a multi-line input yields unset (+error where the route has one), for all byte strings. The Gallina route functions are compared with the real constructors on exhaustive small and random adversarial inputs on every run.",
        "level_note": "Trusted: Coq kernel; hand-written model of message_fields.go/session.go tied to the code by the differential harness (not by a verified translation); encoding/json string decoding is an input of the model; Message.UnmarshalText route is proved in the C15 models.",
        "rule": "exhaustive texts of <=3 pieces over {a,LF,CR,:,SP,NUL} plus seeded random texts from an injection-flavoured alphabet, each through every construction route (NewID/NewType/ID/Type, UnmarshalText, UnmarshalJSON with proper and raw documents, Scan of []byte/string/nil/other, Upgrade header); a case is non-trivial when its observed result differs from 'unset, no error'; distinct = distinct input values",
        "assumptions": ["encoding/json's string decoding is an input of the model (the theorem holds for every decoded string)",
                        "Message.UnmarshalText's route is covered by the C15 models (parser fields are single-line)"],
    },
}
