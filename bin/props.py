"""Table of properties -> families, and of families -> harness/model names."""

TRUSTED_BASE = [
    "Coq 8.16.1 kernel (coqc); vm_compute is used in Examples and finite sweeps, native_compute is not; coqchk re-check in the thorough tier",
    "no axioms declared in the development; Print Assumptions of every property theorem is parsed on every run; a grep for Admitted/admit/Axiom/Parameter/... fails the check",
    "extraction: Require Extraction + ExtrOcamlBasic only (Extract Inductive bool/option/unit/list/prod/sumbool/sumor, Extract Inlined Constant andb/orb); N/Z/positive/nat stay Coq's inductives; OCaml 4.13.1 ocamlopt; ocaml/driver.ml (val text parser/printer, comparison loop) and ocaml/families.ml (name table); cross-checked on every run: a sample of the run's cases (every flagged one first) is re-evaluated inside Coq with vm_compute over the same definitions and must get the driver's verdicts (bin/incoq.py; counts under coverage.in_coq_reevaluation)",
    "parameter translator harness/cmd/verif-params (go/ast) regenerating coq/gen/Params.v from /repo on every run",
    "correspondence harness harness/cmd/impl-run (Go, built with -tags verif against /repo's working tree; generators, executors, projections of Go errors to enums)",
    "the models are hand-written Gallina mirroring the Go code; the Go runtime, bufio.Scanner, net/http, strconv, encoding/json, time, math/rand are modelled or scripted, not verified",
]

FAMILIES = {
    "fields": {"trivial_observed": ["(n0 x n0)"]},
    "finite": {},
    "finite_slots": {"impl_family": "finite"},
    "valid": {},
    "valid_slots": {"impl_family": "valid"},
}

REPLAYER_NOTE = ("Trusted: Coq kernel; the Gallina ring buffer (theories/Queue.v, Replayers.v) is hand-written index-for-index after replay.go and tied to it "
                 "by the correspondence harness, which compares results AND the raw slots/head/tail/count (verif_export.go) after every operation; constants "
                 "(minimum capacity, grow x2, shrink thresholds, minimum 4) are regenerated from replay.go on every run; the uint64 ID counter is modelled "
                 "unbounded (theorems assume fewer than 2^64 operations); time is an integer clock injected through ValidReplayer.Now; "
                 "'reachable' (C18) is identified with 'stored in a slot of the ring'")

PROPS = {
    "C08": {
        "families": ["finite"],
        "level_text": "Proof by refinement: the model of FiniteReplayer (ring buffer with explicit slots and index arithmetic) is proved, for all capacities N>=2, both ID modes and all histories of valid/invalid Puts and Replays with any writer script, to never panic and to produce exactly the outputs of a list specification (last N accepted puts; replay = later matching entries in Put order, stop at first Send error, Flush iff all succeeded; newest/unset/never-issued and evicted-manual IDs: no call at all; consecutive decimal auto IDs; rejected puts not stored). The spec-level clauses are separate theorems. Model = code is checked on every run on exhaustive short and random long histories, including raw slot contents.",
        "level_note": REPLAYER_NOTE,
        "rule": "exhaustive histories over an 11-letter abstract alphabet (puts valid/invalid, replays of newest / 2nd / 3rd most recent / unknown / non-canonical / huge numerals / failing Send) up to length 4 (quick) or 6 (thorough) for N in {2,3}, both ID modes, plus seeded random histories (length <= 60/400, N up to 64) with 18 abstract operations; non-trivial = distinct histories (every history executes at least one operation against the real replayer)",
        "assumptions": ["fewer than 2^64 operations", "automatic mode with a numeral below the oldest buffered ID replays the whole buffer (property silent; documented as part of the specification)"],
    },
    "C09": {
        "families": ["valid"],
        "level_text": "Proof by refinement: the model of ValidReplayer (ring buffer growing x2, shrinking at <=1/4, GC from the head, optional Put-triggered GC) is proved, for all TTLs, GC intervals, ID modes and all histories of Put/Replay/GC with arbitrary clock readings, to never panic and to equal the list specification (accepted puts not yet collected; Replay filters on expiry and topics). Separate theorems: unexpired events are never dropped (no clock assumption), nothing is sent at or after expiry, newest ID replays nothing, expiries sorted under a non-decreasing clock.",
        "level_note": REPLAYER_NOTE,
        "rule": "exhaustive histories over {advance 0,1,ttl-1,ttl} x {put, put 2 topics, put wrong ID, replay newest/2nd/3rd, replay with failing Send, GC} up to length 3 (quick) / 5 (thorough) for GCInterval in {default,0,1,25}, both ID modes, plus seeded random histories in dense/steady/sparse phases (to visit grow/wrap/shrink shapes); non-trivial = distinct histories",
        "assumptions": ["fewer than 2^64 operations", "clock readings are what ValidReplayer.Now returns (injected)"],
    },
    "C18": {
        "families": ["finite_slots", "valid_slots"],
        "level_text": "Proof on the slot-explicit ring model: after every operation of every history every occupied slot holds an entry of the abstract buffer (<= N entries for FiniteReplayer; for ValidReplayer, with a non-decreasing clock, no entry with exp <= now right after an explicit or Put-triggered collection). The correspondence compares the raw slots of the real replayers with the model after every operation, and a direct oracle checks occupied slots = count (and no expired slot after GC) on the implementation.",
        "level_note": REPLAYER_NOTE + "; garbage-collector reachability itself (finalizers) is not modelled",
        "rule": "same histories as C08/C09; the oracle looks at the raw slots after every operation",
        "assumptions": ["non-decreasing clock for the 'no expired entry after a collection' clause"],
    },
    "C14": {
        "families": ["fields"],
        "level_text": "Proof: for every construction route of EventID/EventType (NewID/NewType/ID/Type, UnmarshalText, UnmarshalJSON for any decoded string, Scan for any driver value, the Upgrade header) a Coq theorem states that a set value contains no CR/LF and that a multi-line input yields unset (+error where the route has one), for all byte strings. The Gallina route functions are compared with the real constructors on exhaustive small and random adversarial inputs on every run.",
        "level_note": "Trusted: Coq kernel; hand-written model of message_fields.go/session.go tied to the code by the differential harness (not by a verified translation); encoding/json string decoding is an input of the model; Message.UnmarshalText route is proved in the C15 models.",
        "rule": "exhaustive texts of <=3 pieces over {a,LF,CR,:,SP,NUL} plus seeded random texts from an injection-flavoured alphabet, each through every construction route (NewID/NewType/ID/Type, UnmarshalText, UnmarshalJSON with proper and raw documents, Scan of []byte/string/nil/other, Upgrade header); a case is non-trivial when its observed result differs from 'unset, no error'; distinct = distinct input values",
        "assumptions": ["encoding/json's string decoding is an input of the model (the theorem holds for every decoded string)",
                        "Message.UnmarshalText's route is covered by the C15 models (parser fields are single-line)"],
    },
}

# drop-in property tables: bin/props.d/*.py may update PROPS and FAMILIES
import glob as _glob, os as _os
for _f in sorted(_glob.glob(_os.path.join(_os.path.dirname(_os.path.abspath(__file__)), "props.d", "*.py"))):
    exec(compile(open(_f).read(), _f, "exec"), {"PROPS": PROPS, "FAMILIES": FAMILIES, "TRUSTED_BASE": TRUSTED_BASE, "REPLAYER_NOTE": REPLAYER_NOTE})
