(* Shared vocabulary: bytes, the universal exchange value [val], small list lemmas. *)
From Coq Require Export List NArith ZArith Bool Arith Lia.
Export ListNotations.
Open Scope N_scope.

Definition byte := N.
Definition bytes := list N.

Definition LF : N := 10.
Definition CR : N := 13.
Definition COLON : N := 58.
Definition SP : N := 32.
Definition NUL : N := 0.

Fixpoint bytes_eqb (a b : bytes) : bool :=
  match a, b with
  | [], [] => true
  | x :: a', y :: b' => (x =? y) && bytes_eqb a' b'
  | _, _ => false
  end.

Lemma bytes_eqb_eq a b : bytes_eqb a b = true <-> a = b.
Proof.
  revert b; induction a as [|x a IH]; intros [|y b]; cbn; split; intros H;
    try reflexivity; try discriminate.
  - apply andb_true_iff in H as [H1 H2]. apply N.eqb_eq in H1. apply IH in H2. congruence.
  - injection H as -> ->. rewrite N.eqb_refl. cbn. now apply IH.
Qed.

Lemma bytes_eqb_refl a : bytes_eqb a a = true.
Proof. now apply bytes_eqb_eq. Qed.

Lemma bytes_eqb_neq a b : bytes_eqb a b = false <-> a <> b.
Proof.
  split.
  - intros H E. apply bytes_eqb_eq in E. congruence.
  - intros H. destruct (bytes_eqb a b) eqn:E; [|reflexivity]. apply bytes_eqb_eq in E. contradiction.
Qed.

(* The exchange format between the Go harness, the OCaml driver and the models:
   numbers, byte strings and lists.  Every family decodes its input from a [val]
   and encodes its output into one, inside Gallina. *)
Inductive val :=
| VN (n : N)
| VZ (z : Z)
| VB (b : bytes)
| VL (l : list val).

Definition as_n (v : val) : N := match v with VN n => n | _ => 0 end.
Definition as_z (v : val) : Z := match v with VZ z => z | VN n => Z.of_N n | _ => 0%Z end.
Definition as_b (v : val) : bytes := match v with VB b => b | _ => [] end.
Definition as_l (v : val) : list val := match v with VL l => l | _ => [] end.
Definition as_nat (v : val) : nat := N.to_nat (as_n v).
Definition as_bool (v : val) : bool := negb (as_n v =? 0).
Definition vbool (b : bool) : val := VN (if b then 1 else 0).
Definition vnat (n : nat) : val := VN (N.of_nat n).
Definition vopt {A} (f : A -> val) (o : option A) : val :=
  match o with None => VL [] | Some a => VL [f a] end.
Definition as_opt {A} (f : val -> A) (v : val) : option A :=
  match v with VL (x :: _) => Some (f x) | _ => None end.
Definition nth_val (n : nat) (v : val) : val := nth n (as_l v) (VL []).

(* generic list helpers *)
Fixpoint list_eqb {A} (eqb : A -> A -> bool) (a b : list A) : bool :=
  match a, b with
  | [], [] => true
  | x :: a', y :: b' => eqb x y && list_eqb eqb a' b'
  | _, _ => false
  end.

Lemma firstn_skipn_app {A} (n : nat) (l : list A) : firstn n l ++ skipn n l = l.
Proof. apply firstn_skipn. Qed.

Lemma Forall_app_iff {A} (P : A -> Prop) l1 l2 :
  Forall P (l1 ++ l2) <-> Forall P l1 /\ Forall P l2.
Proof. apply Forall_app. Qed.
