(* val-level entry points of the client-side families (C10 C11 C12):
   [run_backoff] / [holds_backoff] - the backoffController driven through verif_export.go. *)
From GoSse Require Import Base Backoff.
From GoSse.Gen Require Import Params.
Local Open Scope Z_scope.

(* ---- family "backoff" (C12, unit level) ------------------------------------------------
   input : ( cfg ops )
     cfg = ( z<InitialInterval> (z<p> z<q>) (z<jn> z<jd>) z<MaxInterval> z<MaxElapsedTime> z<MaxRetries> )
           Multiplier = p/q, Jitter = jn/jd (denominators positive)
     op  = ( n0 z<elapsed> (z<un> z<ud>) )   an attempt ends: next() after [elapsed], RNG draw un/ud
         | ( n1 )                            a response is validated: reset(0)
         | ( n2 z<ms> )                      the server sends retry: ms
   output: ( ( z<initial> (p q) (jn jd) ) ( step ... ) )   normalised config (fractions in lowest terms)
     step = ( (opt z<wait>) z<interval> z<numRetries> n<RNG draws> ) for n0
          | ( z<interval> z<numRetries> ) for n1, n2 *)
Definition dec_rat (v : val) : rat := mkrat (as_z (nth_val 0 v)) (as_z (nth_val 1 v)).
Definition rat_lowest (r : rat) : rat :=
  let g := Z.gcd (rnum r) (rden r) in
  if g =? 0 then r else mkrat (rnum r / g) (rden r / g).
Definition enc_rat (r : rat) : val := let r' := rat_lowest r in VL [VZ (rnum r'); VZ (rden r')].

Definition dec_backoff (v : val) : backoff :=
  mkbackoff (as_z (nth_val 0 v)) (dec_rat (nth_val 1 v)) (dec_rat (nth_val 2 v))
            (as_z (nth_val 3 v)) (as_z (nth_val 4 v)) (as_z (nth_val 5 v)).

Definition dec_hop (v : val) : hop :=
  match as_n (nth_val 0 v) with
  | 0%N => HFail (as_z (nth_val 1 v)) (dec_rat (nth_val 2 v))
  | 1%N => HSuccess
  | _ => HRetry (as_z (nth_val 1 v))
  end.

(* the number of RNG draws is part of the trace: recomputed from the state change *)
Fixpoint enc_btrace (b : backoff) (c : bctl) (tr : list (option (option Z) * bctl)) : list val :=
  match tr with
  | [] => []
  | (o, c') :: tr' =>
      (match o with
       | Some r => VL [vopt VZ r; VZ (bc_interval c'); VZ (bc_retries c');
                       VN (if (bc_retries c' =? bc_retries c) then 0 else if draws b then 1 else 0)]
       | None => VL [VZ (bc_interval c'); VZ (bc_retries c')]
       end) :: enc_btrace b c' tr'
  end.

Definition run_backoff (i : val) : val :=
  let b := merge_defaults (dec_backoff (nth_val 0 i)) in
  let h := map dec_hop (as_l (nth_val 1 i)) in
  VL [VL [VZ (bo_initial b); enc_rat (bo_mul b); enc_rat (bo_jitter b)];
      VL (enc_btrace b (bc_new b) (bc_trace b (bc_new b) h))].

(* The oracle of C12 on the OBSERVED answers, written from the property text and the
   documentation of Backoff: recurrence for the bases, exact wait / jitter interval,
   retry limit, elapsed-time limit.  It does not look at the controller state. *)
Definition spec_backoff (b0 : backoff) : backoff :=
  mkbackoff
    (if 0 <? bo_initial b0 then bo_initial b0 else default_initial_interval)        (* "Must be >0. Defaults to 500ms" *)
    (if rle (rz 1) (bo_mul b0) then bo_mul b0 else default_mul)                      (* "Must be >=1 ... Defaults to 1.5" *)
    (if req (bo_jitter b0) jitter_off then jitter_off                                (* "-1 = no randomization" *)
     else if rlt (rz 0) (bo_jitter b0) && rlt (bo_jitter b0) (rz 1) then bo_jitter b0  (* "in range (0, 1)" *)
     else default_jitter)                                                            (* "Defaults to 0.5" *)
    (bo_max_interval b0) (bo_max_elapsed b0) (bo_max_retries b0).

Definition wait_okb (b : backoff) (x w : Z) : bool :=
  if req (bo_jitter b) jitter_off then w =? x
  else (jitter_lo (bo_jitter b) x <=? w) && (w <=? jitter_hi (bo_jitter b) x).

Definition largest_wait (b : backoff) (x : Z) : Z :=
  if req (bo_jitter b) jitter_off then x else jitter_hi (bo_jitter b) x.

(* x = the current base b_k, n = attempt ends since the last reset *)
Fixpoint sched_ok (b : backoff) (x : Z) (n : nat) (ops steps : list val) : bool :=
  match ops, steps with
  | [], [] => true
  | op :: ops', st :: steps' =>
      match dec_hop op with
      | HFail e _ =>
          let obs := as_opt as_z (nth_val 0 st) in
          if limit_refuses b n then
            (match obs with None => true | Some _ => false end) && sched_ok b x (S n) ops' steps'
          else
            (match obs with
             | Some w => wait_okb b x w && ((bo_max_elapsed b <=? 0) || (e + w <=? bo_max_elapsed b))
             | None => (0 <? bo_max_elapsed b) && (bo_max_elapsed b <? e + largest_wait b x)
             end) && sched_ok b (grow_spec b x) (S n) ops' steps'
      | HSuccess => sched_ok b (bo_initial b) O ops' steps'
      | HRetry ms =>
          sched_ok b (if 0 <? ms_to_ns ms then ms_to_ns ms else bo_initial b) O ops' steps'
      end
  | _, _ => false
  end.

Definition holds_backoff (i o : val) : bool :=
  let b := spec_backoff (dec_backoff (nth_val 0 i)) in
  sched_ok b (bo_initial b) O (as_l (nth_val 1 i)) (as_l (nth_val 1 o)).
