(* val-level entry points: one [run_*] (the model's output for a harness case)
   and one [holds_*] (the property's direct oracle on an observed behaviour)
   per family.  These are what the OCaml driver calls. *)
From GoSse Require Import Base Lines Fields.

(* ---- family "fields" (C14) ------------------------------------------------ *)
Definition enc_route (r : route_result) : val :=
  VL [vbool (is_set (fst r)); VB (value (fst r)); vbool (snd r)].

Definition run_fields (i : val) : val :=
  match as_n (nth_val 0 i) with
  | 0 => enc_route (new_field (as_b (nth_val 1 i)))
  | 1 => enc_route (unmarshal_text (as_b (nth_val 1 i)))
  | 2 => enc_route (unmarshal_json (as_b (nth_val 1 i)) (as_opt as_b (nth_val 2 i)))
  | 3 => enc_route (scan (match as_n (nth_val 1 i) with
                          | 0 => SrcNil
                          | 1 => SrcBytes (as_b (nth_val 2 i))
                          | 2 => SrcString (as_b (nth_val 2 i))
                          | _ => SrcOther end))
  | 4 => enc_route (upgrade_id (map as_b (as_l (nth_val 1 i))), false)
  | _ => VL []
  end.

(* the bytes a route was given (what must be single-line for the value to be set) *)
Definition fields_input_text (i : val) : option bytes :=
  match as_n (nth_val 0 i) with
  | 0 | 1 => Some (as_b (nth_val 1 i))
  | 2 => as_opt as_b (nth_val 2 i)
  | 3 => match as_n (nth_val 1 i) with 1 | 2 => Some (as_b (nth_val 2 i)) | _ => None end
  | 4 => match as_l (nth_val 1 i) with v :: _ => Some (as_b v) | [] => None end
  | _ => None
  end.

(* routes 0-3 report an error; the header route (4) has none *)
Definition holds_fields (i o : val) : bool :=
  let set := as_bool (nth_val 0 o) in
  let v := as_b (nth_val 1 o) in
  let err := as_bool (nth_val 2 o) in
  (implb set (no_nlb v)) &&
  match fields_input_text i with
  | Some t => if no_nlb t then true
              else negb set && (if as_n (nth_val 0 i) =? 4 then true else err)
  | None => true
  end.
