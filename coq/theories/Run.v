(* val-level entry points: one [run_*] (the model's output for a harness case)
   and one [holds_*] (the property's direct oracle on an observed behaviour)
   per family.  These are what the OCaml driver calls. *)
From GoSse Require Import Base Lines Fields Queue Replayers Fifo.

(* ---- family "fields" (C14) ------------------------------------------------ *)
Definition enc_route (r : route_result) : val :=
  VL [vbool (is_set (fst r)); VB (value (fst r)); vbool (snd r)].

Definition run_fields (i : val) : val :=
  match as_n (nth_val 0 i) with
  | 0 => enc_route (new_field (as_b (nth_val 1 i)))
  | 1 => enc_route (unmarshal_text (as_b (nth_val 1 i)))
  | 2 => enc_route (unmarshal_json (as_b (nth_val 1 i)) (as_opt as_b (nth_val 2 i)))
  | 3 => enc_route (scan (match as_n (nth_val 1 i) with
                          | 0 => SrcNil
                          | 1 => SrcBytes (as_b (nth_val 2 i))
                          | 2 => SrcString (as_b (nth_val 2 i))
                          | _ => SrcOther end))
  | 4 => enc_route (upgrade_id (map as_b (as_l (nth_val 1 i))), false)
  | _ => VL []
  end.

(* the bytes a route was given (what must be single-line for the value to be set) *)
Definition fields_input_text (i : val) : option bytes :=
  match as_n (nth_val 0 i) with
  | 0 | 1 => Some (as_b (nth_val 1 i))
  | 2 => as_opt as_b (nth_val 2 i)
  | 3 => match as_n (nth_val 1 i) with 1 | 2 => Some (as_b (nth_val 2 i)) | _ => None end
  | 4 => match as_l (nth_val 1 i) with v :: _ => Some (as_b v) | [] => None end
  | _ => None
  end.

(* routes 0-3 report an error; the header route (4) has none *)
Definition holds_fields (i o : val) : bool :=
  let set := as_bool (nth_val 0 o) in
  let v := as_b (nth_val 1 o) in
  let err := as_bool (nth_val 2 o) in
  (implb set (no_nlb v)) &&
  match fields_input_text i with
  | Some t => if no_nlb t then true
              else negb set && (if as_n (nth_val 0 i) =? 4 then true else err)
  | None => true
  end.

(* ---- families "finite" / "valid" (C08 C09 C18) ----------------------------- *)

Definition dec_field (v : val) : field := as_opt as_b v.
Definition dec_topics (v : val) : list bytes := map as_b (as_l v).
Definition dec_script (v : val) : list N := map as_n (as_l v).

Definition enc_put_res (r : put_res) : val :=
  match r with
  | PutOk id => VL [VN 0; VB id]
  | PutErr ENoTopic => VL [VN 1; VN 1]
  | PutErr ENoID => VL [VN 1; VN 2]
  | PutErr EHasID => VL [VN 1; VN 3]
  end.
Definition enc_call (c : wcall) : val :=
  match c with CSend tok id => VL [VN tok; VB id] | CFlush => VL [] end.
Definition enc_replay_res (r : list wcall * N) : val := VL [VL (map enc_call (fst r)); VN (snd r)].
Definition enc_slot (with_exp : bool) (s : option entry) : val :=
  match s with
  | None => VL []
  | Some e => if with_exp then VL [VN (e_tok e); VZ (e_exp e)] else VL [VN (e_tok e)]
  end.
Definition enc_queue (with_exp : bool) (q : queue entry) : val :=
  VL [vnat (head q); vnat (tail q); vnat (count q); VL (map (enc_slot with_exp) (buf q))].
Definition vpanic : val := VB [112; 97; 110; 105; 99].

(* input : (n<N> n<auto> (op ...));  op = (n0 idopt n<tok> topics) | (n1 idopt topics script)
   output: ((result state) ...) *)
Definition dec_fop (op : val) : fop :=
  match as_n (nth_val 0 op) with
  | 0 => FPut (dec_field (nth_val 1 op)) (as_n (nth_val 2 op)) (dec_topics (nth_val 3 op))
  | _ => FReplay (dec_field (nth_val 1 op)) (dec_topics (nth_val 2 op)) (dec_script (nth_val 3 op))
  end.
Definition enc_rout (o : rout) : val :=
  match o with OPut r => enc_put_res r | OReplay r => enc_replay_res r | OGC => VL [] end.

Definition run_finite (i : val) : val :=
  match fr_new (as_nat (nth_val 0 i)) (as_bool (nth_val 1 i)) with
  | None => VL [VN 1]
  | Some s =>
      let '(tr, ok) := fr_trace s (map dec_fop (as_l (nth_val 2 i))) in
      VL [VN 0; VL (map (fun p : rout * fstate => VL [enc_rout (fst p); enc_queue false (f_q (snd p))]) tr
                    ++ (if ok then [] else [vpanic]))]
  end.

(* the specification's outputs for the same history *)
Definition spec_finite_ops (s : fspec) (ops : list val) : list val :=
  map enc_rout (fs_run s (map dec_fop ops)).

Fixpoint val_eqb (a b : val) {struct a} : bool :=
  match a, b with
  | VN x, VN y => x =? y
  | VZ x, VZ y => (x =? y)%Z
  | VB x, VB y => bytes_eqb x y
  | VL x, VL y =>
      (fix go (x y : list val) : bool :=
         match x, y with
         | [], [] => true
         | a' :: x', b' :: y' => val_eqb a' b' && go x' y'
         | _, _ => false
         end) x y
  | _, _ => false
  end.

(* direct oracle for C08: the observed results (state ignored) are the spec's *)
Definition holds_finite (i o : val) : bool :=
  if (as_nat (nth_val 0 i) <? 2)%nat then val_eqb o (VL [VN 1])
  else
    val_eqb (VL (map (nth_val 0) (as_l (nth_val 1 o))))
            (VL (spec_finite_ops (fs_new (as_nat (nth_val 0 i)) (as_bool (nth_val 1 i))) (as_l (nth_val 2 i)))).

(* direct oracle for C18 (finite): after every operation the occupied slots are at most N *)
Definition occupied (st : val) : nat := length (filter (fun s => negb (val_eqb s (VL []))) (as_l (nth_val 3 st))).
Definition holds_finite_slots (i o : val) : bool :=
  forallb (fun r => (occupied (nth_val 1 r) <=? as_nat (nth_val 0 i))%nat && (occupied (nth_val 1 r) =? as_nat (nth_val 2 (nth_val 1 r)))%nat)
          (as_l (nth_val 1 o)).

(* valid: input (z<ttl> n<auto> gciopt (op ...));
   op = (n0 z<now> idopt n<tok> topics) | (n1 z<now> idopt topics script) | (n2 z<now>) *)
Definition dec_vop (op : val) : vop :=
  let now := as_z (nth_val 1 op) in
  match as_n (nth_val 0 op) with
  | 0 => VPut now (dec_field (nth_val 2 op)) (as_n (nth_val 3 op)) (dec_topics (nth_val 4 op))
  | 1 => VReplay now (dec_field (nth_val 2 op)) (dec_topics (nth_val 3 op)) (dec_script (nth_val 4 op))
  | _ => VGC now
  end.

Definition run_valid (i : val) : val :=
  match vr_new (as_z (nth_val 0 i)) (as_bool (nth_val 1 i)) (as_opt as_z (nth_val 2 i)) with
  | None => VL [VN 1]
  | Some s =>
      let '(tr, ok) := vr_trace s (map dec_vop (as_l (nth_val 3 i))) in
      VL [VN 0; VL (map (fun p : rout * vstate => VL [enc_rout (fst p); enc_queue true (v_q (snd p))]) tr
                    ++ (if ok then [] else [vpanic]))]
  end.

Definition spec_valid_ops (s : vspec) (ops : list val) : list val :=
  map enc_rout (vs_run s (map dec_vop ops)).

Definition holds_valid (i o : val) : bool :=
  if (as_z (nth_val 0 i) <=? 0)%Z then val_eqb o (VL [VN 1])
  else
    val_eqb (VL (map (nth_val 0) (as_l (nth_val 1 o))))
            (VL (spec_valid_ops (vs_new (as_z (nth_val 0 i)) (as_bool (nth_val 1 i)) (as_opt as_z (nth_val 2 i)))
                                (as_l (nth_val 3 i)))).

(* direct oracle for C18 (valid): occupied slots = count, and right after an
   explicit GC at [now] no occupied slot holds an entry with exp <= now *)
Definition slot_expired (now : Z) (s : val) : bool :=
  match s with VL [_; VZ e] => (e <=? now)%Z | _ => false end.
Definition holds_valid_slots (i o : val) : bool :=
  forallb (fun p : val * val =>
             let (op, r) := p in
             let st := nth_val 1 r in
             (occupied st =? as_nat (nth_val 2 st))%nat &&
             (if as_n (nth_val 0 op) =? 2
              then negb (existsb (slot_expired (as_z (nth_val 1 op))) (as_l (nth_val 3 st)))
              else true))
          (combine (as_l (nth_val 3 i)) (as_l (nth_val 1 o))).
