(* val-level entry points: one [run_*] (the model's output for a harness case)
   and one [holds_*] (the property's direct oracle on an observed behaviour)
   per family.  These are what the OCaml driver calls. *)
From GoSse Require Import Base Lines Fields Queue Replayers Fifo.

(* ---- family "fields" (C14) ------------------------------------------------ *)
Definition enc_route (r : route_result) : val :=
  VL [vbool (is_set (fst r)); VB (value (fst r)); vbool (snd r)].

Definition run_fields (i : val) : val :=
  match as_n (nth_val 0 i) with
  | 0 => enc_route (new_field (as_b (nth_val 1 i)))
  | 1 => enc_route (unmarshal_text (as_b (nth_val 1 i)))
  | 2 => enc_route (unmarshal_json (as_b (nth_val 1 i)) (as_opt as_b (nth_val 2 i)))
  | 3 => enc_route (scan (match as_n (nth_val 1 i) with
                          | 0 => SrcNil
                          | 1 => SrcBytes (as_b (nth_val 2 i))
                          | 2 => SrcString (as_b (nth_val 2 i))
                          | _ => SrcOther end))
  | 4 => enc_route (upgrade_id (map as_b (as_l (nth_val 1 i))), false)
  | 5 => (* the encoding side: a field made by NewID, then MarshalText -> UnmarshalText, Value -> Scan (as string
            and as []byte), MarshalJSON -> UnmarshalJSON; enc / decoded = what encoding/json says (inputs) *)
      let r := new_field (as_b (nth_val 1 i)) in
      let f := fst r in
      let enc := as_b (nth_val 2 i) in
      let decoded := as_opt as_b (nth_val 3 i) in
      VL [enc_route r;
          match marshal_text f with Some b => VL [VN 1; VB b] | None => VL [VN 0; VB []] end;
          match marshal_text f with Some b => enc_route (unmarshal_text b) | None => VL [] end;
          match field_value f with SrcString v => VL [VN 1; VB v] | SrcNil => VL [VN 0; VB []] | _ => VL [VN 2; VB []] end;
          enc_route (scan (field_value f));
          enc_route (scan (field_value_bytes f));
          (* what the document denotes: null, or the string encoding/json reads from it *)
          (if bytes_eqb (marshal_json f enc) json_null then VL [VN 0]
           else match decoded with Some d => VL [VN 1; VB d] | None => VL [VN 2] end);
          enc_route (unmarshal_json (marshal_json f enc) decoded)]
  | _ => VL []
  end.

(* the bytes a route was given (what must be single-line for the value to be set) *)
Definition fields_input_text (i : val) : option bytes :=
  match as_n (nth_val 0 i) with
  | 0 | 1 => Some (as_b (nth_val 1 i))
  | 2 => as_opt as_b (nth_val 2 i)
  | 3 => match as_n (nth_val 1 i) with 1 | 2 => Some (as_b (nth_val 2 i)) | _ => None end
  | 4 => match as_l (nth_val 1 i) with v :: _ => Some (as_b v) | [] => None end
  | _ => None
  end.

(* routes 0-3 report an error; the header route (4) has none *)
(* route 5, from the property (and nothing beyond it): every value met on the way - the one the constructor made and
   the ones the decoders gave back after the detour through text, a driver value or JSON - is single-line when it
   reports IsSet, and a multi-line input leaves the constructor's value unset with an error.  That the detours give
   the SAME value back is the model's statement (C14_*_roundtrip), checked by the correspondence, not demanded here. *)
Definition route_single (r : val) : bool :=
  match r with
  | VL (s :: v :: _) => implb (as_bool s) (no_nlb (as_b v))
  | _ => true
  end.
Definition holds_fields_enc (i o : val) : bool :=
  let orig := nth_val 0 o in
  route_single orig && route_single (nth_val 2 o) && route_single (nth_val 4 o) && route_single (nth_val 5 o) &&
  route_single (nth_val 7 o) &&
  (if no_nlb (as_b (nth_val 1 i)) then true else negb (as_bool (nth_val 0 orig)) && as_bool (nth_val 2 orig)).

Definition holds_fields (i o : val) : bool :=
  if as_n (nth_val 0 i) =? 5 then holds_fields_enc i o else
  let set := as_bool (nth_val 0 o) in
  let v := as_b (nth_val 1 o) in
  let err := as_bool (nth_val 2 o) in
  (implb set (no_nlb v)) &&
  match fields_input_text i with
  | Some t => if no_nlb t then true
              else negb set && (if as_n (nth_val 0 i) =? 4 then true else err)
  | None => true
  end.

(* ---- families "finite" / "valid" (C08 C09 C18) ----------------------------- *)

Definition dec_field (v : val) : field := as_opt as_b v.
Definition dec_topics (v : val) : list bytes := map as_b (as_l v).
Definition dec_script (v : val) : list N := map as_n (as_l v).

Definition enc_put_res (r : put_res) : val :=
  match r with
  | PutOk id => VL [VN 0; VB id]
  | PutErr ENoTopic => VL [VN 1; VN 1]
  | PutErr ENoID => VL [VN 1; VN 2]
  | PutErr EHasID => VL [VN 1; VN 3]
  end.
Definition enc_call (c : wcall) : val :=
  match c with CSend tok id => VL [VN tok; VB id] | CFlush => VL [] end.
Definition enc_replay_res (r : list wcall * N) : val := VL [VL (map enc_call (fst r)); VN (snd r)].
Definition enc_slot (with_exp : bool) (s : option entry) : val :=
  match s with
  | None => VL []
  | Some e => if with_exp then VL [VN (e_tok e); VZ (e_exp e)] else VL [VN (e_tok e)]
  end.
Definition enc_queue (with_exp : bool) (q : queue entry) : val :=
  VL [vnat (head q); vnat (tail q); vnat (count q); VL (map (enc_slot with_exp) (buf q))].
Definition vpanic : val := VB [112; 97; 110; 105; 99].

(* input : (n<N> n<auto> (op ...));  op = (n0 idopt n<tok> topics) | (n1 idopt topics script)
   output: ((result state) ...) *)
Definition dec_fop (op : val) : fop :=
  match as_n (nth_val 0 op) with
  | 0 => FPut (dec_field (nth_val 1 op)) (as_n (nth_val 2 op)) (dec_topics (nth_val 3 op))
  | _ => FReplay (dec_field (nth_val 1 op)) (dec_topics (nth_val 2 op)) (dec_script (nth_val 3 op))
  end.
Definition enc_rout (o : rout) : val :=
  match o with OPut r => enc_put_res r | OReplay r => enc_replay_res r | OGC => VL [] end.

Definition run_finite (i : val) : val :=
  match fr_new (as_nat (nth_val 0 i)) (as_bool (nth_val 1 i)) with
  | None => VL [VN 1]
  | Some s =>
      let '(tr, ok) := fr_trace s (map dec_fop (as_l (nth_val 2 i))) in
      VL [VN 0; VL (map (fun p : rout * fstate => VL [enc_rout (fst p); enc_queue false (f_q (snd p))]) tr
                    ++ (if ok then [] else [vpanic]))]
  end.

(* the specification's outputs for the same history *)
Definition spec_finite_ops (s : fspec) (ops : list val) : list val :=
  map enc_rout (fs_run s (map dec_fop ops)).

Fixpoint val_eqb (a b : val) {struct a} : bool :=
  match a, b with
  | VN x, VN y => x =? y
  | VZ x, VZ y => (x =? y)%Z
  | VB x, VB y => bytes_eqb x y
  | VL x, VL y =>
      (fix go (x y : list val) : bool :=
         match x, y with
         | [], [] => true
         | a' :: x', b' :: y' => val_eqb a' b' && go x' y'
         | _, _ => false
         end) x y
  | _, _ => false
  end.

(* direct oracle for C08: the observed results (state ignored) are the spec's *)
Definition holds_finite (i o : val) : bool :=
  if (as_nat (nth_val 0 i) <? 2)%nat then val_eqb o (VL [VN 1])
  else
    val_eqb (VL (map (nth_val 0) (as_l (nth_val 1 o))))
            (VL (spec_finite_ops (fs_new (as_nat (nth_val 0 i)) (as_bool (nth_val 1 i))) (as_l (nth_val 2 i)))).

(* direct oracle for C18 (finite): after every operation the occupied slots are at most N *)
Definition occupied (st : val) : nat := length (filter (fun s => negb (val_eqb s (VL []))) (as_l (nth_val 3 st))).
Definition holds_finite_slots (i o : val) : bool :=
  forallb (fun r => (occupied (nth_val 1 r) <=? as_nat (nth_val 0 i))%nat && (occupied (nth_val 1 r) =? as_nat (nth_val 2 (nth_val 1 r)))%nat)
          (as_l (nth_val 1 o)).

(* valid: input (z<ttl> n<auto> gciopt (op ...));
   op = (n0 z<now> idopt n<tok> topics) | (n1 z<now> idopt topics script) | (n2 z<now>)
      | (n3 z<now> z<g>)  the user assigns GCInterval := g *)
Definition dec_vop (op : val) : vop :=
  let now := as_z (nth_val 1 op) in
  match as_n (nth_val 0 op) with
  | 0 => VPut now (dec_field (nth_val 2 op)) (as_n (nth_val 3 op)) (dec_topics (nth_val 4 op))
  | 1 => VReplay now (dec_field (nth_val 2 op)) (dec_topics (nth_val 3 op)) (dec_script (nth_val 4 op))
  | 2 => VGC now
  | _ => VSetGCI now (as_z (nth_val 2 op))
  end.

Definition run_valid (i : val) : val :=
  match vr_new (as_z (nth_val 0 i)) (as_bool (nth_val 1 i)) (as_opt as_z (nth_val 2 i)) with
  | None => VL [VN 1]
  | Some s =>
      let '(tr, ok) := vr_trace s (map dec_vop (as_l (nth_val 3 i))) in
      VL [VN 0; VL (map (fun p : rout * vstate => VL [enc_rout (fst p); enc_queue true (v_q (snd p))]) tr
                    ++ (if ok then [] else [vpanic]))]
  end.

Definition spec_valid_ops (s : vspec) (ops : list val) : list val :=
  map enc_rout (vs_run s (map dec_vop ops)).

Definition holds_valid (i o : val) : bool :=
  if (as_z (nth_val 0 i) <=? 0)%Z then val_eqb o (VL [VN 1])
  else
    val_eqb (VL (map (nth_val 0) (as_l (nth_val 1 o))))
            (VL (spec_valid_ops (vs_new (as_z (nth_val 0 i)) (as_bool (nth_val 1 i)) (as_opt as_z (nth_val 2 i)))
                                (as_l (nth_val 3 i)))).

(* direct oracle for C18 (valid): occupied slots = count, and right after an
   explicit GC at [now] no occupied slot holds an entry with exp <= now *)
Definition slot_expired (now : Z) (s : val) : bool :=
  match s with VL [_; VZ e] => (e <=? now)%Z | _ => false end.
(* the specification state before every operation (for "a Put whose collection is due") *)
Fixpoint vs_states (s : vspec) (ops : list vop) : list vspec :=
  match ops with [] => [] | op :: rest => s :: vs_states (fst (vs_step s op)) rest end.
Definition put_collects (s : vspec) (now : Z) : bool :=
  let lastgc := match vs_lastgc s with Some l => l | None => now end in
  (0 <? vs_gci s)%Z && (vs_gci s <=? now - lastgc)%Z.

Definition holds_valid_slots (i o : val) : bool :=
  let ops := as_l (nth_val 3 i) in
  let specs := vs_states (vs_new (as_z (nth_val 0 i)) (as_bool (nth_val 1 i)) (as_opt as_z (nth_val 2 i))) (map dec_vop ops) in
  forallb (fun p : (val * vspec) * val =>
             let '((op, s), r) := p in
             let st := nth_val 1 r in
             let now := as_z (nth_val 1 op) in
             (occupied st =? as_nat (nth_val 2 st))%nat &&
             (* right after an explicit collection, and right after a Put whose collection is due (GCInterval has
                passed since the last one / since the first Put), no occupied slot holds an expired entry *)
             (if (as_n (nth_val 0 op) =? 2) || ((as_n (nth_val 0 op) =? 0) && negb (val_eqb (nth_val 4 op) (VL [])) && put_collects s now)
              then negb (existsb (slot_expired now) (as_l (nth_val 3 st)))
              else true))
          (combine (combine ops specs) (as_l (nth_val 1 o))).

(* ---- family "message" (C02 C15 C19, C14's UnmarshalText route) -------------- *)
From GoSse Require Import FieldParser Message Whatwg.

Definition enc_wire (m : msg) : val := match wire m with Some w => VB w | None => vpanic end.
Definition dec_wverdict (v : val) : wverdict :=
  match v with VL [k; e] => WFail (as_nat k) (as_n e) | _ => WOk end.
Definition upd_nth {A} (l : list A) (i : nat) (f : A -> A) : list A :=
  match nth_error l i with Some x => Queue.upd l i (f x) | None => l end.
Definition get_msg (fam : list msg) (i : nat) : msg := nth i fam msg_empty.
Definition enc_unmarshal (r : unmarshal_res) : val :=
  match r with UOk _ => VL [VN 0] | UErrRetry v => VL [VN 1; VB v] | UErrEOF => VL [VN 2] end.
(* UnmarshalText of arbitrary text additionally reports the ID and type it set *)
Definition enc_unmarshal_fields (r : unmarshal_res) : val :=
  match r with
  | UOk m => VL [VN 0; vbool (is_set (m_id m)); VB (value (m_id m)); vbool (is_set (m_type m)); VB (value (m_type m))]
  | _ => enc_unmarshal r
  end.

Definition message_step (fam : list msg) (op : val) : list msg * val :=
  let t := as_nat (nth_val 1 op) in
  match as_n (nth_val 0 op) with
  | 0 => (upd_nth fam t (fun m => append_text m (as_bool (nth_val 2 op)) (map as_b (as_l (nth_val 3 op)))), VL [])
  | 1 => match new_field (as_b (nth_val 2 op)) with
         | (Some v, _) => (upd_nth fam t (fun m => mkm (m_chunks m) (Some v) (m_type m) (m_retry m)), VL [VN 0])
         | (None, _) => (fam, VL [VN 1])
         end
  | 2 => match new_field (as_b (nth_val 2 op)) with
         | (Some v, _) => (upd_nth fam t (fun m => mkm (m_chunks m) (m_id m) (Some v) (m_retry m)), VL [VN 0])
         | (None, _) => (fam, VL [VN 1])
         end
  | 3 => (upd_nth fam t (fun m => mkm (m_chunks m) (m_id m) (m_type m) (as_z (nth_val 2 op))), VL [])
  | 4 => (fam ++ [get_msg fam t], VL [])
  | 5 => (fam, match write_to (get_msg fam t) (map dec_wverdict (as_l (nth_val 2 op))) with
               | Some (n, e, acc) => VL [vnat n; VN e; VB acc; VL [VN e; VN 0]]
               | None => vpanic
               end)
  | 6 => match wire (get_msg fam t) with
         | Some w => let r := unmarshal w in
                     (match r with UOk m => fam ++ [m] | _ => fam end, enc_unmarshal r)
         | None => (fam, vpanic)
         end
  | 7 => let r := unmarshal (as_b (nth_val 1 op)) in
         (match r with UOk m => fam ++ [m] | _ => fam end, enc_unmarshal_fields r)
  | 8 => (upd_nth fam t (fun m => mkm (m_chunks m) None (m_type m) (m_retry m)), VL [])
  | _ => (upd_nth fam t (fun m => mkm (m_chunks m) (m_id m) None (m_retry m)), VL [])
  end.

Fixpoint run_message_ops (fam : list msg) (ops : list val) : list val :=
  match ops with
  | [] => []
  | op :: rest =>
      let '(fam', r) := message_step fam op in
      VL [r; VL (map enc_wire fam')] :: run_message_ops fam' rest
  end.

Definition run_message (i : val) : val := VL (run_message_ops [msg_empty] (as_l i)).

(* ---- the reference interpreter on a wire text (C02) ------------------------ *)
Definition enc_event (e : event) : val := VL [VB (ev_id e); VB (ev_type e); VB (ev_data e)].
Definition enc_serr (e : serr) : val :=
  match e with EEOF => VN 1 | EUnexpectedEOF => VN 2 | ETooLong => VN 3 | EReader n => VL [VN n] | ECtx => VN 4 end.
Definition enc_yield (y : yield) : val :=
  match y with YEv e => VL [VN 0; enc_event e] | YRetry n => VL [VN 1; VN n] | YErr e => VL [VN 2; enc_serr e] end.

(* direct oracle for C15 / C19 on the observed behaviour alone *)
Definition is_prefix_b (p s : bytes) : bool := FieldParser.is_prefix p s.
Definition input_has_nul_id (ops : list val) : bool :=
  existsb (fun op => (as_n (nth_val 0 op) =? 1) && existsb (fun b => b =? 0) (as_b (nth_val 2 op))) ops
  || existsb (fun op => as_n (nth_val 0 op) =? 7) ops.

Fixpoint holds_message_ops (nul : bool) (prev : list val) (ops outs : list val) : bool :=
  match ops, outs with
  | [], [] => true
  | op :: ops', out :: outs' =>
      let r := nth_val 0 out in
      let wires := as_l (nth_val 1 out) in
      let t := as_nat (nth_val 1 op) in
      let kind := as_n (nth_val 0 op) in
      let wt := nth t prev (VB []) in
      (* C19: nobody but the target changes; members are only ever appended *)
      let others_same :=
        forallb (fun p : nat * val =>
                   let (j, w) := p in
                   if (j =? t)%nat && ((kind <=? 3) || (kind =? 8) || (kind =? 9)) then true
                   else val_eqb w (nth j wires (VL [])))
                (combine (seq 0 (length prev)) prev) in
      let specific :=
        match kind with
        | 4 => val_eqb (last wires (VL [])) wt        (* a clone encodes like its original *)
        | 5 => let n := as_nat (nth_val 0 r) in
               let e := as_n (nth_val 1 r) in
               let acc := as_b (nth_val 2 r) in
               (* what the writer saw: the first error it returned (0: none) is what WriteTo returned, and it was not
                  called again after it *)
               (as_n (nth_val 0 (nth_val 3 r)) =? e) && (as_n (nth_val 1 (nth_val 3 r)) =? 0) &&
               (n =? length acc)%nat && is_prefix_b acc (as_b wt) &&
               (if e =? 0 then bytes_eqb acc (as_b wt)
                else existsb (fun v => match v with VL [_; e'] => as_n e' =? e | _ => false end) (as_l (nth_val 2 op)))
        | 6 => match as_b wt with
               | [] => val_eqb r (VL [VN 2])
               | _ => if nul then true
                      else val_eqb r (VL [VN 0]) && val_eqb (last wires (VL [])) wt
               end
        | 7 => (* C14: an ID/type set by Message.UnmarshalText is a single line *)
               match r with
               | VL [_; ids; idv; tys; tyv] =>
                   implb (as_bool ids) (no_nlb (as_b idv)) && implb (as_bool tys) (no_nlb (as_b tyv))
               | _ => true
               end
        | _ => true
        end in
      others_same && specific && holds_message_ops nul wires ops' outs'
  | _, _ => false
  end.

Definition holds_message (i o : val) : bool :=
  holds_message_ops (input_has_nul_id (as_l i)) [VB []] (as_l i) (as_l o).
