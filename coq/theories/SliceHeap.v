(* C19: Message.chunks as Go slices over an explicit heap of backing arrays.
   Go's append writes in place when len < cap and otherwise allocates a fresh array
   (whose capacity is the runtime's choice: a script input) and copies; Clone is the
   full slice expression chunks[:len:len]; reset() drops the slice.  Definitions only. *)
From GoSse Require Import Base Lines Fields Queue FieldParser Message.
Local Open Scope nat_scope.

Record slice := mks { s_arr : nat; s_len : nat; s_cap : nat }.  (* cap = 0: the nil/empty slice, s_arr is meaningless *)
Definition nil_slice : slice := mks 0 0 0.

Definition heap := list (list chunk).      (* backing arrays; the length of an array is its capacity *)
Definition zero_chunk : chunk := mkc [] false.

Definition hread (h : heap) (s : slice) : list chunk := firstn (s_len s) (nth (s_arr s) h []).

(* append(s, x) *)
Definition happend (h : heap) (s : slice) (x : chunk) (newcap : nat) : heap * slice :=
  if s_len s <? s_cap s then
    (upd h (s_arr s) (upd (nth (s_arr s) h []) (s_len s) x), mks (s_arr s) (S (s_len s)) (s_cap s))
  else
    let c := Nat.max newcap (S (s_len s)) in
    (h ++ [hread h s ++ x :: repeat zero_chunk (c - S (s_len s))], mks (length h) (S (s_len s)) c).

Record hmsg := mkh { hm_s : slice; hm_id : field; hm_type : field; hm_retry : Z }.
Definition hmsg_empty : hmsg := mkh nil_slice None None 0%Z.

(* what a message reads from the heap: the value it would be were slices immutable values *)
Definition view (h : heap) (m : hmsg) : msg := mkm (hread h (hm_s m)) (hm_id m) (hm_type m) (hm_retry m).

Inductive hop :=
| HAppend (t : nat) (xs : list (chunk * nat))   (* appendText: the chunks, each with the capacity the runtime would choose *)
| HSetID (t : nat) (f : field)
| HSetType (t : nat) (f : field)
| HSetRetry (t : nat) (d : Z)
| HClone (t : nat)                              (* family ++ [m_t.Clone()] *)
| HReset (t : nat)                              (* reset(), the first step of UnmarshalText *)
| HPutAuto (t : nat) (id : bytes).              (* ensureID with automatic IDs: Clone, then set the ID on the clone *)

Definition hstate := (heap * list hmsg)%type.

Fixpoint happend_all (h : heap) (s : slice) (xs : list (chunk * nat)) : heap * slice :=
  match xs with
  | [] => (h, s)
  | (x, c) :: r => let '(h', s') := happend h s x c in happend_all h' s' r
  end.

Definition set_nth {A} (l : list A) (i : nat) (f : A -> A) : list A :=
  match nth_error l i with Some x => upd l i (f x) | None => l end.

Definition clone_of (m : hmsg) : hmsg :=
  mkh (mks (s_arr (hm_s m)) (s_len (hm_s m)) (s_len (hm_s m))) (hm_id m) (hm_type m) (hm_retry m).

Definition hstep (st : hstate) (o : hop) : hstate :=
  let '(h, fam) := st in
  match o with
  | HAppend t xs =>
      match nth_error fam t with
      | Some m => let '(h', s') := happend_all h (hm_s m) xs in
                  (h', upd fam t (mkh s' (hm_id m) (hm_type m) (hm_retry m)))
      | None => st
      end
  | HSetID t f => (h, set_nth fam t (fun m => mkh (hm_s m) f (hm_type m) (hm_retry m)))
  | HSetType t f => (h, set_nth fam t (fun m => mkh (hm_s m) (hm_id m) f (hm_retry m)))
  | HSetRetry t d => (h, set_nth fam t (fun m => mkh (hm_s m) (hm_id m) (hm_type m) d))
  | HClone t => match nth_error fam t with Some m => (h, fam ++ [clone_of m]) | None => st end
  | HReset t => (h, set_nth fam t (fun _ => hmsg_empty))
  | HPutAuto t id =>
      match nth_error fam t with
      | Some m => let c := clone_of m in (h, fam ++ [mkh (hm_s c) (Some id) (hm_type c) (hm_retry c)])
      | None => st
      end
  end.

Definition hrun (ops : list hop) : hstate := fold_left hstep ops ([], [hmsg_empty]).

(* ---- the same operations on immutable values ---------------------------------- *)
Definition vstep (fam : list msg) (o : hop) : list msg :=
  match o with
  | HAppend t xs => set_nth fam t (fun m => mkm (m_chunks m ++ map fst xs) (m_id m) (m_type m) (m_retry m))
  | HSetID t f => set_nth fam t (fun m => mkm (m_chunks m) f (m_type m) (m_retry m))
  | HSetType t f => set_nth fam t (fun m => mkm (m_chunks m) (m_id m) f (m_retry m))
  | HSetRetry t d => set_nth fam t (fun m => mkm (m_chunks m) (m_id m) (m_type m) d)
  | HClone t => match nth_error fam t with Some m => fam ++ [m] | None => fam end
  | HReset t => set_nth fam t (fun _ => msg_empty)
  | HPutAuto t id => match nth_error fam t with
                     | Some m => fam ++ [mkm (m_chunks m) (Some id) (m_type m) (m_retry m)]
                     | None => fam end
  end.
Definition vrun (ops : list hop) : list msg := fold_left vstep ops [msg_empty].
