(* Send / Flush / doUpgrade one by one, then sequences of calls (for C16). *)
From GoSse Require Import Base Lines Fields FieldsProofs Message MessageProofs Session SessionProofs.
From GoSse.Gen Require Import Params.
Local Open Scope nat_scope.

(* the log of WriteTo's Write calls agrees with WriteTo's result *)
Lemma write_to_log_spec m script :
  script_ok script ->
  match write_to m script, write_to_log m script with
  | Some (n, e, acc), Some l =>
      accepted l = acc /\ first_error l = e /\ Forall (fun c => is_write c = true) l
  | None, None => True
  | _, _ => False
  end.
Proof.
  intros Hok. unfold write_to, write_to_log. destruct (body_calls m) as [calls|]; [|exact I].
  pose proof (writes_log_spec calls script) as H1.
  pose proof (run_writes_spec calls script Hok) as H2.
  destruct (run_writes calls script) as [[n e] acc]. destruct H1 as (Ha & He & Hw). destruct H2 as [Hn _].
  destruct (e =? 0)%N eqn:Ee; cbn [negb]; [|now repeat split].
  apply N.eqb_eq in Ee. rewrite Ee in *. clear Ee.
  destruct (n =? 0) eqn:En.
  - apply Nat.eqb_eq in En. rewrite En in Hn. symmetry in Hn. apply length_zero_iff_nil in Hn. subst acc. now repeat split.
  - pose proof (writes_log_spec [newline_bytes] (skipn (length calls) script)) as H3.
    destruct (run_writes [newline_bytes] (skipn (length calls) script)) as [[o e2] acc2].
    destruct H3 as (Ha2 & He2 & Hw2). repeat split.
    + now rewrite accepted_app, Ha, Ha2.
    + now rewrite first_error_app, He, N.eqb_refl.
    + apply Forall_app. now split.
Qed.

(* ---- single operations --------------------------------------------------------- *)
Definition sess_ok (s : sess) : Prop := script_ok (s_script s).

Lemma script_ok_tl script : script_ok script -> script_ok (tl script).
Proof. intros H. apply (script_ok_skipn 1 script H). Qed.

Definition ct_set : wcall := LHeaderSet header_content_type content_type_value.

Lemma res_flush_spec s s1 e l :
  res_flush s = (s1, e, l) ->
  l = [LFlush e] /\ s_did s1 = s_did s /\ s_reports s1 = s_reports s /\ s_script s1 = tl (s_script s).
Proof. unfold res_flush. intros H. injection H as <- <- <-. cbn. auto. Qed.

Lemma do_upgrade_spec s s1 e l :
  do_upgrade s = (s1, e, l) ->
  s_reports s1 = s_reports s /\
  ((s_did s = true /\ s1 = s /\ e = 0%N /\ l = []) \/
   (s_did s = false /\ l = [ct_set; LFlush e] /\ s_did s1 = (e =? 0)%N /\ s_script s1 = tl (s_script s))).
Proof.
  unfold do_upgrade. destruct (s_did s) eqn:Ed.
  - intros H. injection H as <- <- <-. split; [reflexivity|]. left. auto.
  - destruct (res_flush s) as [[s2 e2] l2] eqn:Ef. apply res_flush_spec in Ef as (-> & Hd & Hr & Hs).
    destruct (e2 =? 0)%N eqn:Ee; intros H; injection H as <- <- <-; cbn.
    + apply N.eqb_eq in Ee. subst e2. split; [exact Hr|]. right. auto.
    + split; [exact Hr|]. right. rewrite Hd, Ed, Ee. auto.
Qed.

Lemma do_upgrade_ok s s1 e l : do_upgrade s = (s1, e, l) -> sess_ok s -> sess_ok s1.
Proof.
  intros H Hok. apply do_upgrade_spec in H as [_ [(_ & -> & _)|(_ & _ & _ & Hs)]]; [exact Hok|].
  unfold sess_ok. rewrite Hs. now apply script_ok_tl.
Qed.

Lemma upgrade_log_facts e : first_error [ct_set; LFlush e] = e /\ accepted [ct_set; LFlush e] = [].
Proof. cbn. destruct (e =? 0)%N eqn:E; [apply N.eqb_eq in E; now subst|auto]. Qed.

(* Send *)
Lemma send_spec s m s' e seg w :
  session_send s m = Some (s', e, seg) -> sess_ok s -> wire m = Some w ->
  e = first_error seg /\
  (exists rest, w = accepted seg ++ rest) /\
  (e = 0%N -> accepted seg = w) /\
  sess_ok s' /\ s_reports s' = s_reports s.
Proof.
  unfold session_send. intros H Hok Hw.
  destruct (do_upgrade s) as [[s1 e1] l1] eqn:Eu.
  pose proof (do_upgrade_ok _ _ _ _ Eu Hok) as Hok1.
  apply do_upgrade_spec in Eu as [Hr Hu].
  assert (Hl1 : first_error l1 = e1 /\ accepted l1 = []).
  { destruct Hu as [(_ & _ & -> & ->)|(_ & -> & _)]; [now split|apply upgrade_log_facts]. }
  destruct Hl1 as [Hfe Hacc].
  destruct (e1 =? 0)%N eqn:Ee; cbn [negb] in H.
  - apply N.eqb_eq in Ee. subst e1.
    pose proof (write_to_log_spec m (s_script s1) Hok1) as Hwl.
    assert (Hc : exists calls, write_calls m = Some calls).
    { unfold wire in Hw. destruct (write_calls m) as [c|]; [now exists c|discriminate]. }
    destruct Hc as [calls Hc].
    destruct (write_to_accounting m (s_script s1) calls w Hok1 Hc Hw) as (n & e2 & acc & Hwt & _ & Hpre & Hff).
    rewrite Hwt in *. destruct (write_to_log m (s_script s1)) as [l2|]; [|contradiction].
    destruct Hwl as (Ha & He & _). injection H as <- <- <-.
    rewrite first_error_app, Hfe, N.eqb_refl, accepted_app, Hacc. cbn [app].
    repeat split; auto.
    + now rewrite Ha.
    + intros ->. rewrite Ha. destruct (first_fail (length calls) (s_script s1)) as [[[i k] e']|].
      * destruct Hff as (_ & Hne & _). congruence.
      * now destruct Hff.
    + unfold sess_ok. cbn. now apply script_ok_skipn.
  - injection H as <- <- <-. rewrite Hacc. repeat split; auto.
    + now exists w.
    + intros ->. now rewrite N.eqb_refl in Ee.
Qed.

(* Flush *)
Lemma flush_spec s s' e seg :
  session_flush s = (s', e, seg) -> sess_ok s ->
  e = first_error seg /\ accepted seg = [] /\
  (e = 0%N -> forall before, flushed false (before ++ seg) = true) /\
  sess_ok s' /\ s_reports s' = s_reports s.
Proof.
  unfold session_flush. intros H Hok.
  destruct (do_upgrade s) as [[s1 e1] l1] eqn:Eu.
  pose proof (do_upgrade_ok _ _ _ _ Eu Hok) as Hok1.
  apply do_upgrade_spec in Eu as [Hr Hu].
  destruct Hu as [(Hd & -> & -> & ->)|(Hd & -> & Hd1 & Hs1)].
  - cbn [N.eqb negb] in H. rewrite Bool.eqb_reflx in H.
    destruct (res_flush s) as [[s2 e2] l2] eqn:Ef. apply res_flush_spec in Ef as (-> & Hd2 & Hr2 & Hs2).
    injection H as <- <- <-. cbn [app]. repeat split.
    + cbn. destruct (e2 =? 0)%N eqn:E; [apply N.eqb_eq in E; now subst|reflexivity].
    + intros -> before. rewrite flushed_app. reflexivity.
    + unfold sess_ok. rewrite Hs2. now apply script_ok_tl.
    + exact Hr2.
  - destruct (e1 =? 0)%N eqn:Ee; cbn [negb] in H.
    + apply N.eqb_eq in Ee. subst e1. rewrite Hd, Hd1 in H. cbn in H. injection H as <- <- <-.
      repeat split; auto. intros _ before. rewrite flushed_app. reflexivity.
    + injection H as <- <- <-. destruct (upgrade_log_facts e1) as [Hfe Ha]. repeat split; auto.
      intros ->. now rewrite N.eqb_refl in Ee.
Qed.

(* ---- the upgrade automaton ------------------------------------------------------- *)
Definition urel (s : sess) (st : ustate) : Prop :=
  (s_did s = true /\ st = UDone) \/ (s_did s = false /\ st <> UDone).

Lemma ustep_ct_set st : st <> UDone -> ustep st ct_set = Some USet.
Proof.
  intros H. unfold ct_set. destruct st; cbn; try congruence; now rewrite !bytes_eqb_refl.
Qed.

Lemma do_upgrade_urun s s1 e l st :
  do_upgrade s = (s1, e, l) -> urel s st ->
  exists st', urun st l = Some st' /\ urel s1 st' /\ (e = 0%N -> st' = UDone).
Proof.
  intros H Hrel. apply do_upgrade_spec in H as [_ [(Hd & -> & -> & ->)|(Hd & -> & Hd1 & _)]].
  - exists st. split; [reflexivity|]. split; [exact Hrel|]. intros _.
    destruct Hrel as [[_ ->]|[Hd' _]]; [reflexivity|congruence].
  - assert (Hst : st <> UDone) by (destruct Hrel as [[Hd' _]|[_ Hn]]; [congruence|exact Hn]).
    cbn [urun]. rewrite (ustep_ct_set st Hst). cbn [ustep]. destruct (e =? 0)%N eqn:Ee.
    + exists UDone. split; [reflexivity|]. split; [left; now split|reflexivity].
    + exists USet. split; [reflexivity|]. split; [right; split; [exact Hd1|discriminate]|].
      intros ->. now rewrite N.eqb_refl in Ee.
Qed.

Lemma send_urun s m s' e seg st :
  session_send s m = Some (s', e, seg) -> sess_ok s -> urel s st ->
  exists st', urun st seg = Some st' /\ urel s' st'.
Proof.
  unfold session_send. intros H Hok Hrel.
  destruct (do_upgrade s) as [[s1 e1] l1] eqn:Eu.
  pose proof (do_upgrade_ok _ _ _ _ Eu Hok) as Hok1.
  destruct (do_upgrade_urun _ _ _ _ st Eu Hrel) as (st1 & Hrun & Hrel1 & Hdone).
  destruct (e1 =? 0)%N eqn:Ee; cbn [negb] in H.
  - apply N.eqb_eq in Ee. specialize (Hdone Ee). subst st1.
    pose proof (write_to_log_spec m (s_script s1) Hok1) as Hwl.
    destruct (write_to m (s_script s1)) as [[[n e2] acc]|]; [|discriminate].
    destruct (write_to_log m (s_script s1)) as [l2|]; [|contradiction].
    destruct Hwl as (_ & _ & Hw). injection H as <- <- <-.
    exists UDone. split.
    + rewrite urun_app, Hrun. apply urun_done. now apply writes_no_header.
    + destruct Hrel1 as [[Hd _]|[_ Hn]]; [left; now split|congruence].
  - injection H as <- <- <-. now exists st1.
Qed.

Lemma flush_urun s s' e seg st :
  session_flush s = (s', e, seg) -> urel s st ->
  exists st', urun st seg = Some st' /\ urel s' st'.
Proof.
  unfold session_flush. intros H Hrel.
  destruct (do_upgrade s) as [[s1 e1] l1] eqn:Eu.
  destruct (do_upgrade_urun _ _ _ _ st Eu Hrel) as (st1 & Hrun & Hrel1 & Hdone).
  destruct (e1 =? 0)%N eqn:Ee; cbn [negb] in H.
  - apply N.eqb_eq in Ee. specialize (Hdone Ee). subst st1.
    destruct (Bool.eqb (s_did s) (s_did s1)).
    + destruct (res_flush s1) as [[s2 e2] l2] eqn:Ef. apply res_flush_spec in Ef as (-> & Hd2 & _ & _).
      injection H as <- <- <-. exists UDone. split.
      * rewrite urun_app, Hrun. reflexivity.
      * destruct Hrel1 as [[Hd _]|[_ Hn]]; [left; split; congruence|congruence].
    + injection H as <- <- <-. now exists UDone.
  - injection H as <- <- <-. now exists st1.
Qed.

(* ---- sequences of calls ------------------------------------------------------------ *)
Definition step_call (s : sess) (c : scall) : option (sess * N * list wcall) :=
  match c with CSend m => session_send s m | CFlush => Some (session_flush s) end.

Lemma step_call_ok s c s' e seg : step_call s c = Some (s', e, seg) -> sess_ok s -> sess_ok s'.
Proof.
  destruct c as [m|]; cbn [step_call]; intros H Hok.
  - unfold session_send in H. destruct (do_upgrade s) as [[s1 e1] l1] eqn:Eu.
    pose proof (do_upgrade_ok _ _ _ _ Eu Hok) as Hok1.
    destruct (negb (e1 =? 0)%N); [injection H as <- <- <-; exact Hok1|].
    destruct (write_to m (s_script s1)) as [[[n e2] acc]|]; [|discriminate].
    destruct (write_to_log m (s_script s1)) as [l2|]; [|discriminate].
    injection H as <- <- <-. unfold sess_ok. cbn. now apply script_ok_skipn.
  - injection H as H. now apply flush_spec in H as (_ & _ & _ & H & _).
Qed.

Lemma run_calls_nth calls : forall s rs sf ok i r,
  run_calls s calls = (rs, sf, ok) -> nth_error rs i = Some r ->
  exists c si si', nth_error calls i = Some c /\
                   run_calls s (firstn i calls) = (firstn i rs, si, true) /\
                   step_call si c = Some (si', fst r, snd r).
Proof.
  induction calls as [|c calls IH]; intros s rs sf ok i r Hrun Hnth.
  - cbn in Hrun. injection Hrun as <- <- <-. destruct i; discriminate.
  - cbn [run_calls] in Hrun. destruct c as [m|].
    + destruct (session_send s m) as [[[s' e] l]|] eqn:Es.
      * destruct (run_calls s' calls) as [[rs' sf'] ok'] eqn:Er. injection Hrun as <- <- <-.
        destruct i as [|i].
        -- cbn in Hnth. injection Hnth as <-. exists (CSend m), s, s'. cbn. auto.
        -- cbn [nth_error] in Hnth. destruct (IH s' rs' sf' ok' i r Er Hnth) as (c & si & si' & H1 & H2 & H3).
           exists c, si, si'. split; [exact H1|]. split; [|exact H3].
           cbn [firstn run_calls]. now rewrite Es, H2.
      * injection Hrun as <- <- <-. destruct i; discriminate.
    + destruct (session_flush s) as [[s' e] l] eqn:Es.
      destruct (run_calls s' calls) as [[rs' sf'] ok'] eqn:Er. injection Hrun as <- <- <-.
      destruct i as [|i].
      * cbn in Hnth. injection Hnth as <-. exists CFlush, s, s'. cbn. rewrite Es. auto.
      * cbn [nth_error] in Hnth. destruct (IH s' rs' sf' ok' i r Er Hnth) as (c & si & si' & H1 & H2 & H3).
        exists c, si, si'. split; [exact H1|]. split; [|exact H3].
        cbn [firstn run_calls]. now rewrite Es, H2.
Qed.

Lemma run_calls_ok calls : forall s rs sf ok,
  run_calls s calls = (rs, sf, ok) -> sess_ok s -> sess_ok sf.
Proof.
  induction calls as [|c calls IH]; intros s rs sf ok Hrun Hok.
  - cbn in Hrun. now injection Hrun as <- <- <-.
  - cbn [run_calls] in Hrun. destruct c as [m|].
    + destruct (session_send s m) as [[[s' e] l]|] eqn:Es.
      * destruct (run_calls s' calls) as [[rs' sf'] ok'] eqn:Er. injection Hrun as <- <- <-.
        eapply IH; [exact Er|]. eapply (step_call_ok s (CSend m)); [exact Es|exact Hok].
      * now injection Hrun as <- <- <-.
    + destruct (session_flush s) as [[s' e] l] eqn:Es.
      destruct (run_calls s' calls) as [[rs' sf'] ok'] eqn:Er. injection Hrun as <- <- <-.
      eapply IH; [exact Er|]. eapply (step_call_ok s CFlush); [cbn; now rewrite Es|exact Hok].
Qed.

Lemma run_calls_urun calls : forall s rs sf ok st,
  run_calls s calls = (rs, sf, ok) -> sess_ok s -> urel s st ->
  exists st', urun st (full_log rs) = Some st' /\ urel sf st'.
Proof.
  induction calls as [|c calls IH]; intros s rs sf ok st Hrun Hok Hrel.
  - cbn in Hrun. injection Hrun as <- <- <-. now exists st.
  - cbn [run_calls] in Hrun. destruct c as [m|].
    + destruct (session_send s m) as [[[s' e] l]|] eqn:Es.
      * destruct (run_calls s' calls) as [[rs' sf'] ok'] eqn:Er. injection Hrun as <- <- <-.
        destruct (send_urun _ _ _ _ _ st Es Hok Hrel) as (st1 & H1 & Hrel1).
        assert (Hok' : sess_ok s') by (eapply (step_call_ok s (CSend m)); [exact Es|exact Hok]).
        destruct (IH s' rs' sf' ok' st1 Er Hok' Hrel1) as (st2 & H2 & Hrel2).
        exists st2. split; [|exact Hrel2]. unfold full_log. cbn [map concat snd]. now rewrite urun_app, H1.
      * injection Hrun as <- <- <-. now exists st.
    + destruct (session_flush s) as [[s' e] l] eqn:Es.
      destruct (run_calls s' calls) as [[rs' sf'] ok'] eqn:Er. injection Hrun as <- <- <-.
      destruct (flush_urun _ _ _ _ st Es Hrel) as (st1 & H1 & Hrel1).
      assert (Hok' : sess_ok s') by (eapply (step_call_ok s CFlush); [cbn; now rewrite Es|exact Hok]).
      destruct (IH s' rs' sf' ok' st1 Er Hok' Hrel1) as (st2 & H2 & Hrel2).
      exists st2. split; [|exact Hrel2]. unfold full_log. cbn [map concat snd]. now rewrite urun_app, H1.
Qed.
