(* C03 on the LTS: the history invariant - what each subscriber's writer has been handed is
   exactly the matching part of the slice of the global publish order during which it was
   registered. *)
From GoSse Require Import Base JoeLts JoeLocal JoeProj JoePub JoeInv JoeSafety.
From Coq Require Import Lia.
Local Open Scope nat_scope.

(* the message tokens of the Send calls of a writer log (successful or not) *)
Definition sends (l : list wcall) : list nat :=
  flat_map (fun c => match c with WSend t _ => [t] | WFlush _ => [] end) l.

Definition matches (s : state) (i p : nat) : bool :=
  intersects (s_topics (sub s i)) (p_topics (pub s p)).

(* the message the loop is working on *)
Definition inflight (c : loop_pc) : option nat :=
  match c with
  | GotMsg p | PutDone p _ | ErrsReady p | Fan p _ | Flushing p _ _ | Failing p _ _ _ | Removing p _ _ => Some p
  | _ => None
  end.

(* the fan-out of the message in flight has not reached i yet *)
Definition unreached (c : loop_pc) (i : nat) : bool :=
  match c with
  | GotMsg _ | PutDone _ _ | ErrsReady _ => true
  | Fan _ t | Flushing _ _ t | Failing _ _ _ t | Removing _ _ t => mem i t
  | _ => false
  end.

(* i's window of the publish order ends: at its removal; else now, minus the message in flight if
   the fan-out has not reached i yet *)
Definition upto (s : state) (i : nat) : nat :=
  match s_rem (sub s i) with
  | Some (e, _) => e
  | None => if unreached (pc s) i then length (order s) - 1 else length (order s)
  end.

Definition slice (l : list nat) (a b : nat) : list nat := firstn (b - a) (skipn a l).

(* what i's writer must have been handed by the fan-out *)
Definition due (s : state) (i : nat) : list nat :=
  match s_reg (sub s i) with
  | Some r => filter (matches s i) (slice (order s) r (upto s i))
  | None => []
  end.

Record Hist (s : state) : Prop := mkHist {
  h_last : forall p, inflight (pc s) = Some p -> exists o, order s = o ++ [p];
  h_pos : forall i r, s_reg (sub s i) = Some r ->
          r <= length (order s) /\
          (s_rem (sub s i) = None -> inflight (pc s) <> None -> r < length (order s)) /\
          (forall e w, s_rem (sub s i) = Some (e, w) -> r <= e /\ e <= length (order s));
  h_match : forall i p, inflight (pc s) = Some p -> mem i (todo_of (pc s)) = true -> matches s i p = true;
  h_frozen : forall p, In p (order s) -> p_pc (pub s p) <> P0 /\ p_pc (pub s p) <> PAtSel;
  h_nodup : NoDup (order s);
  h_nolog : forall i, s_reg (sub s i) = None -> s_llog (sub s i) = [];
  h_due : forall i, sends (s_llog (sub s i)) = due s i
}.

(* ---- facts read off the local invariant ------------------------------------- *)
Lemma life_registered s i :
  Inv s -> mem i (subs s) = true -> exists r, s_reg (sub s i) = Some r /\ s_rem (sub s i) = None.
Proof.
  intros I M. pose proof (inv_sub _ I i) as O. unfold loc in O. rewrite M in O.
  destruct (s_rem (sub s i)) eqn:E1; [exfalso; crush_ok O|].
  destruct (s_reg (sub s i)) eqn:E2; [eauto|exfalso; crush_ok O].
Qed.

Lemma life_registered_conv s i r :
  Inv s -> s_reg (sub s i) = Some r -> s_rem (sub s i) = None -> mem i (subs s) = true.
Proof.
  intros I E2 E1. pose proof (inv_sub _ I i) as O. unfold loc in O. rewrite E1, E2 in O.
  destruct (mem i (subs s)) eqn:M; [reflexivity|exfalso; crush_ok O].
Qed.

Lemma todo_registered s i : Inv s -> mem i (todo_of (pc s)) = true -> mem i (subs s) = true.
Proof.
  intros I M. pose proof (inv_sub _ I i) as O. unfold loc in O. rewrite M in O.
  destruct (mem i (subs s)) eqn:E; [reflexivity|exfalso; crush_ok O].
Qed.

Lemma subject_not_todo s i :
  Inv s -> view_of (pc s) i = VFlushing \/ view_of (pc s) i = VFailing \/ view_of (pc s) i = VRemoving ->
  mem i (todo_of (pc s)) = false.
Proof.
  intros I V. pose proof (inv_sub _ I i) as O. unfold loc in O.
  destruct (mem i (todo_of (pc s))) eqn:M; [|reflexivity]. exfalso.
  destruct V as [V|[V|V]]; rewrite V in O; crush_ok O.
Qed.

Lemma subscribing_never s i :
  Inv s -> view_of (pc s) i = VGotSub \/ view_of (pc s) i = VRegistering ->
  s_reg (sub s i) = None /\ s_rem (sub s i) = None.
Proof.
  intros I V. pose proof (inv_sub _ I i) as O. unfold loc in O.
  destruct (s_rem (sub s i)) eqn:E1; [exfalso; destruct V as [V|V]; rewrite V in O; crush_ok O|].
  destruct (s_reg (sub s i)) eqn:E2; [exfalso; destruct V as [V|V]; rewrite V in O; crush_ok O|]. auto.
Qed.

Lemma started_of_reg s i r : Inv s -> s_reg (sub s i) = Some r -> s_pc (sub s i) <> S0.
Proof.
  intros I E2 E. pose proof (inv_sub _ I i) as O. unfold loc in O. rewrite E2, E in O.
  destruct (s_rem (sub s i)); crush_ok O.
Qed.

(* ---- list facts ---------------------------------------------------------------- *)
Lemma sends_app a b : sends (a ++ b) = sends a ++ sends b.
Proof. unfold sends. apply flat_map_app. Qed.

Lemma slice_app_le l x a b : b <= length l -> slice (l ++ [x]) a b = slice l a b.
Proof.
  intros H. unfold slice. destruct (Nat.le_gt_cases a (length l)) as [L|G].
  - rewrite skipn_app. replace (a - length l) with 0 by lia. cbn [skipn].
    rewrite firstn_app. rewrite skipn_length. replace (b - a - (length l - a)) with 0 by lia.
    cbn [firstn]. now rewrite app_nil_r.
  - replace (b - a) with 0 by lia. reflexivity.
Qed.

Lemma slice_last l x a : a <= length l -> slice (l ++ [x]) a (S (length l)) = slice l a (length l) ++ [x].
Proof.
  intros L. unfold slice. rewrite skipn_app. replace (a - length l) with 0 by lia. cbn [skipn].
  rewrite firstn_app. rewrite skipn_length.
  replace (S (length l) - a - (length l - a)) with 1 by lia. cbn [firstn].
  f_equal. rewrite !firstn_all2; [reflexivity|rewrite skipn_length; lia|rewrite skipn_length; lia].
Qed.

Lemma slice_same l a : slice l a a = [].
Proof. unfold slice. now rewrite Nat.sub_diag. Qed.

Lemma filter_app_single {A} (f : A -> bool) l x :
  filter f (l ++ [x]) = filter f l ++ (if f x then [x] else []).
Proof. rewrite filter_app. reflexivity. Qed.

Lemma In_slice q l a b : In q (slice l a b) -> In q l.
Proof.
  unfold slice. intros H.
  assert (forall (n : nat) (m : list nat), In q (firstn n m) -> In q m) as F.
  { induction n as [|n IH]; intros [|y m] Hn; cbn in *; auto; try contradiction.
    destruct Hn as [Hn|Hn]; [left; exact Hn|right; apply IH; exact Hn]. }
  apply F in H. revert H. generalize a. clear.
  induction l as [|x l IH]; intros [|a] H; cbn in *; auto. right. eauto.
Qed.

Lemma mem_rem_sub j i l : mem j (rem i l) = true -> mem j l = true.
Proof.
  destruct (Nat.eqb j i) eqn:E.
  - apply Nat.eqb_eq in E. subst. now rewrite mem_rem_same.
  - now rewrite (mem_rem_neq _ _ _ E).
Qed.

(* ---- frame ---------------------------------------------------------------------- *)
Lemma due_ext s s' k :
  s_reg (sub s' k) = s_reg (sub s k) -> s_rem (sub s' k) = s_rem (sub s k) ->
  s_topics (sub s' k) = s_topics (sub s k) ->
  (forall q, p_topics (pub s' q) = p_topics (pub s q)) ->
  order s' = order s -> unreached (pc s') k = unreached (pc s) k ->
  due s' k = due s k.
Proof.
  intros E1 E2 E3 E4 E5 E6. unfold due, upto, matches. rewrite E1, E2, E3, E5, E6.
  destruct (s_reg (sub s k)); [|reflexivity]. apply filter_ext. intros q. now rewrite E4.
Qed.

Ltac simp_goal :=
  cbn [pc subs rep done_closed closed_closed order puts sub pub shut
       set_pc set_subs set_rep set_done_closed set_closed_closed set_order set_puts set_sub set_pub set_shut
       s_pc s_ctx s_dbuf s_dclosed s_topics s_rlog s_llog s_fail s_reg s_rem s_cancel s_rsnap
       w_pc w_ctx w_dbuf w_dclosed w_topics w_rlog w_llog w_fail w_reg w_rem w_cancel w_rsnap
       p_pc p_topics p_ebuf p_eclosed wp_pc wp_topics wp_ebuf wp_eclosed h_pc h_ctx
       unreached inflight todo_of].

Ltac simp_in_hyp D :=
  cbn [pc subs rep done_closed closed_closed order puts sub pub shut
       set_pc set_subs set_rep set_done_closed set_closed_closed set_order set_puts set_sub set_pub set_shut
       s_pc s_ctx s_dbuf s_dclosed s_topics s_rlog s_llog s_fail s_reg s_rem s_cancel s_rsnap
       w_pc w_ctx w_dbuf w_dclosed w_topics w_rlog w_llog w_fail w_reg w_rem w_cancel w_rsnap
       p_pc p_topics p_ebuf p_eclosed wp_pc wp_topics wp_ebuf wp_eclosed h_pc h_ctx
       unreached inflight todo_of] in D.

(* a field of an updated table *)
Ltac field_eq :=
  simp_goal;
  repeat match goal with
  | E : Nat.eqb ?k ?i = false |- context [upd _ ?i _ ?k] => rewrite (upd_other _ _ _ _ E)
  end;
  repeat match goal with
  | |- context [upd ?f ?i ?x ?k] =>
      let E := fresh "E" in
      destruct (Nat.eqb k i) eqn:E;
      [apply Nat.eqb_eq in E; subst; rewrite ?upd_same | rewrite ?(upd_other _ _ _ _ E)]
  end; simp_goal; rw; simp_goal; rewrite ?mem_nil; try reflexivity.

Ltac step_cases H l :=
  apply step_live_of in H; destruct H as [?Hnp H];
  destruct l; cbn [step_live] in H; cbv zeta in H;
  unfold send_done, close_done, recv1, panic in H; brk H; injection H as <-; eqs.

(* ---- the steps that matter for the delivery equation -------------------------------- *)
Lemma due_send s i p todo ok nextpc k :
  Inv s -> Hist s -> pc s = Fan p todo -> mem i todo = true ->
  (forall j, unreached nextpc j = mem j (rem i todo)) ->
  sends (s_llog (sub s k)) = due s k ->
  sends (s_llog (sub (set_pc (set_sub s i (w_llog (sub s i) (s_llog (sub s i) ++ [WSend p ok]))) nextpc) k)) =
  due (set_pc (set_sub s i (w_llog (sub s i) (s_llog (sub s i) ++ [WSend p ok]))) nextpc) k.
Proof.
  intros I HH Hpc Hm Hu D. destruct (Nat.eqb k i) eqn:E.
  - apply Nat.eqb_eq in E. subst k. simp_goal. rewrite upd_same. simp_goal.
    rewrite sends_app. cbn [sends flat_map app].
    unfold due, upto, matches in D |- *. simp_goal. rewrite upd_same. simp_goal.
    rewrite Hpc in D. simp_in_hyp D. rewrite Hm in D. rewrite Hu, mem_rem_same.
    assert (mem i (todo_of (pc s)) = true) as Ht by (rewrite Hpc; exact Hm).
    destruct (life_registered s i I (todo_registered s i I Ht)) as (r & R & M).
    rewrite R, M in *.
    destruct (h_last _ HH p) as [o Ho]; [rewrite Hpc; reflexivity|].
    destruct (h_pos _ HH i r R) as (P1 & P2 & P3).
    assert (r < length (order s)) as Lr by (apply P2; [exact M|rewrite Hpc; discriminate]).
    pose proof (h_match _ HH i p) as Mt. rewrite Hpc in Mt. specialize (Mt eq_refl Hm). unfold matches in Mt.
    rewrite Ho in *. rewrite app_length in *. cbn [length] in *.
    replace (length o + 1 - 1) with (length o) in D by lia.
    replace (length o + 1) with (S (length o)) by lia.
    rewrite slice_last by lia. rewrite slice_app_le in D by lia.
    rewrite filter_app. cbn [filter]. rewrite Mt. rewrite D. reflexivity.
  - rewrite (due_ext s _ k).
    + simp_goal. rewrite (upd_other _ _ _ _ E). exact D.
    + field_eq.
    + field_eq.
    + field_eq.
    + intros; field_eq.
    + field_eq.
    + simp_goal. rewrite Hu, Hpc. simp_goal. apply mem_rem_neq. exact E.
Qed.

Lemma due_remove s i why nextpc k :
  Inv s -> Hist s -> mem i (subs s) = true -> unreached (pc s) i = false ->
  (forall j, unreached nextpc j = unreached (pc s) j) ->
  sends (s_llog (sub s k)) = due s k ->
  let s' := set_pc (set_sub (set_sub (set_subs s (rem i (subs s))) i (w_dclosed (sub s i) true)) i
                      (w_rem (w_dclosed (sub s i) true) (Some (length (order s), why)))) nextpc in
  sends (s_llog (sub s' k)) = due s' k.
Proof.
  intros I HH Hm Hu Hn D s'. subst s'. destruct (Nat.eqb k i) eqn:E.
  - apply Nat.eqb_eq in E. subst k. simp_goal. rewrite !upd_same. simp_goal.
    unfold due, upto, matches in D |- *. simp_goal. rewrite !upd_same. simp_goal.
    destruct (life_registered s i I Hm) as (r & R & M). rewrite R, M, Hu in D. rewrite R. exact D.
  - rewrite (due_ext s _ k).
    + simp_goal. rewrite !(upd_other _ _ _ _ E). exact D.
    + field_eq.
    + field_eq.
    + field_eq.
    + intros; field_eq.
    + field_eq.
    + simp_goal. apply Hn.
Qed.

Lemma due_reg s i k :
  Inv s -> Hist s -> view_of (pc s) i = VGotSub \/ view_of (pc s) i = VRegistering ->
  (forall j, unreached (pc s) j = false) ->
  sends (s_llog (sub s k)) = due s k ->
  let s' := set_pc (set_subs (set_sub s i (w_reg (sub s i) (Some (length (order s))))) (i :: rem i (subs s))) Top in
  sends (s_llog (sub s' k)) = due s' k.
Proof.
  intros I HH Hv Hu D s'. subst s'. destruct (Nat.eqb k i) eqn:E.
  - apply Nat.eqb_eq in E. subst k. simp_goal. rewrite upd_same. simp_goal.
    unfold due, upto, matches. simp_goal. rewrite upd_same. simp_goal.
    destruct (subscribing_never s i I Hv) as [R M]. rewrite M. rewrite slice_same. cbn [filter].
    rewrite (h_nolog _ HH i R). reflexivity.
  - rewrite (due_ext s _ k).
    + simp_goal. rewrite (upd_other _ _ _ _ E). exact D.
    + field_eq.
    + field_eq.
    + field_eq.
    + intros; field_eq.
    + field_eq.
    + simp_goal. now rewrite Hu.
Qed.

(* ---- preservation of the delivery equation ----------------------------------------- *)
Lemma due_step s l s' :
  Inv s -> Hist s -> step s l = Some s' -> pc s' <> Panicked ->
  forall k, sends (s_llog (sub s' k)) = due s' k.
Proof.
  intros I HH H Hp k. pose proof (h_due _ HH k) as D.
  step_cases H l; try (exfalso; apply Hp; reflexivity).
  all: try (match goal with D : sends (s_llog (sub ?s0 ?k)) = due ?s0 ?k |- sends (s_llog (sub ?s1 ?k)) = due ?s1 ?k =>
         rewrite (due_ext s0 s1 k) by (intros; field_eq);
         replace (s_llog (sub s1 k)) with (s_llog (sub s0 k)) by (field_eq); exact D end).
  - (* SubEnter i *)
    destruct (Nat.eqb k i) eqn:E.
    + apply Nat.eqb_eq in E. subst k. unfold due. simp_goal. rewrite upd_same. simp_goal.
      destruct (s_reg (sub s i)) eqn:R; [exfalso; eapply started_of_reg; eauto|].
      rewrite (h_nolog _ HH i R). reflexivity.
    + rewrite (due_ext s _ k) by (intros; field_eq). simp_goal. rewrite (upd_other _ _ _ _ E). exact D.
  - (* PubEnter p *)
    simp_goal. unfold due, upto, matches in D |- *. simp_goal.
    destruct (s_reg (sub s k)); [|exact D]. rewrite D. apply filter_ext_in. intros q Hq.
    apply In_slice in Hq. destruct (Nat.eqb q p) eqn:E.
    * apply Nat.eqb_eq in E. subst q. destruct (h_frozen _ HH p Hq) as [F _]. contradiction.
    * now rewrite (upd_other _ _ _ _ E).
  - (* PubSend p *)
    simp_goal. unfold due, upto, matches in D |- *. simp_goal.
    destruct (s_reg (sub s k)) as [r|] eqn:R; [|exact D].
    destruct (h_pos _ HH k r R) as (P1 & P2 & P3).
    assert (forall q, p_topics (upd (pub s) p (wp_pc (pub s p) PWait) q) = p_topics (pub s q)) as T.
    { intros q. unfold upd. destruct (Nat.eqb q p) eqn:E; [apply Nat.eqb_eq in E; now subst|reflexivity]. }
    destruct (s_rem (sub s k)) as [[e w]|] eqn:M.
    + destruct (P3 e w eq_refl) as [P4 P5]. rewrite slice_app_le by exact P5.
      rewrite D. apply filter_ext. intros q. now rewrite T.
    + rewrite Heql in D. simp_in_hyp D. rewrite app_length. cbn [length].
      replace (length (order s) + 1 - 1) with (length (order s)) by lia.
      rewrite slice_app_le by lia. rewrite D. apply filter_ext. intros q. now rewrite T.
  - (* LErrs p, from ErrsReady *)
    simp_goal. unfold due, upto, matches in D |- *. simp_goal.
    assert (forall q, p_topics (upd (pub s) p0 (wp_eclosed (pub s p0) true) q) = p_topics (pub s q)) as T.
    { intros q. unfold upd. destruct (Nat.eqb q p0) eqn:E; [apply Nat.eqb_eq in E; now subst|reflexivity]. }
    destruct (s_reg (sub s k)) as [r|] eqn:R; [|exact D].
    destruct (h_pos _ HH k r R) as (P1 & P2 & P3).
    rewrite Heql in D. simp_in_hyp D.
    destruct (s_rem (sub s k)) as [[e w]|] eqn:M.
    + rewrite D. apply filter_ext. intros q. now rewrite T.
    + rewrite mem_filter. rewrite (life_registered_conv s k r I R M). cbn [andb].
      destruct (intersects (s_topics (sub s k)) (p_topics (pub s p0))) eqn:X.
      * rewrite D. apply filter_ext. intros q. now rewrite T.
      * destruct (h_last _ HH p0) as [o Ho]; [rewrite Heql; reflexivity|].
        assert (r < length (order s)) as Lr by (apply P2; [reflexivity|rewrite Heql; discriminate]).
        rewrite Ho in *. rewrite app_length in *. cbn [length] in *.
        replace (length o + 1 - 1) with (length o) in D by lia.
        replace (length o + 1) with (S (length o)) by lia.
        rewrite slice_last by lia. rewrite slice_app_le in D by lia.
        rewrite filter_app. cbn [filter]. rewrite T, X. rewrite app_nil_r.
        rewrite D. apply filter_ext. intros q. now rewrite T.
  - (* LErrs p, from GotMsg without a replayer *)
    simp_goal. unfold due, upto, matches in D |- *. simp_goal.
    assert (forall q, p_topics (upd (pub s) p0 (wp_eclosed (pub s p0) true) q) = p_topics (pub s q)) as T.
    { intros q. unfold upd. destruct (Nat.eqb q p0) eqn:E; [apply Nat.eqb_eq in E; now subst|reflexivity]. }
    destruct (s_reg (sub s k)) as [r|] eqn:R; [|exact D].
    destruct (h_pos _ HH k r R) as (P1 & P2 & P3).
    rewrite Heql in D. simp_in_hyp D.
    destruct (s_rem (sub s k)) as [[e w]|] eqn:M.
    + rewrite D. apply filter_ext. intros q. now rewrite T.
    + rewrite mem_filter. rewrite (life_registered_conv s k r I R M). cbn [andb].
      destruct (intersects (s_topics (sub s k)) (p_topics (pub s p0))) eqn:X.
      * rewrite D. apply filter_ext. intros q. now rewrite T.
      * destruct (h_last _ HH p0) as [o Ho]; [rewrite Heql; reflexivity|].
        assert (r < length (order s)) as Lr by (apply P2; [reflexivity|rewrite Heql; discriminate]).
        rewrite Ho in *. rewrite app_length in *. cbn [length] in *.
        replace (length o + 1 - 1) with (length o) in D by lia.
        replace (length o + 1) with (S (length o)) by lia.
        rewrite slice_last by lia. rewrite slice_app_le in D by lia.
        rewrite filter_app. cbn [filter]. rewrite T, X. rewrite app_nil_r.
        rewrite D. apply filter_ext. intros q. now rewrite T.
  - (* LSend i ok *) eapply due_send; eauto.
  - (* LSend i err *) eapply due_send; eauto.
  - (* LFlush ok *)
    rewrite (due_ext s _ k) by (intros; field_eq). simp_goal.
    destruct (Nat.eqb k i0) eqn:E.
    + apply Nat.eqb_eq in E. subst k. rewrite upd_same. simp_goal. rewrite sends_app. cbn [sends flat_map].
      rewrite app_nil_r. exact D.
    + rewrite (upd_other _ _ _ _ E). exact D.
  - (* LFlush err *)
    rewrite (due_ext s _ k) by (intros; field_eq). simp_goal.
    destruct (Nat.eqb k i0) eqn:E.
    + apply Nat.eqb_eq in E. subst k. rewrite upd_same. simp_goal. rewrite sends_app. cbn [sends flat_map].
      rewrite app_nil_r. exact D.
    + rewrite (upd_other _ _ _ _ E). exact D.
  - (* LRemove from Removing *)
    apply due_remove; auto.
    + rewrite Heql. simp_goal. pose proof (subject_not_todo s i0 I) as S. rewrite Heql in S.
      cbn [view_of todo_of] in S. rewrite Nat.eqb_refl in S. apply S. auto.
    + intros j. rewrite Heql. reflexivity.
  - (* LRemove from GotUnsub *)
    apply due_remove; auto; [rewrite Heql; reflexivity|intros j; rewrite Heql; reflexivity].
  - (* LRemove from Exiting *)
    apply due_remove; auto; [rewrite Heql; reflexivity|intros j; rewrite Heql; reflexivity].
  - (* LReg from Registering *)
    apply due_reg; auto; [rewrite Heql; cbn [view_of]; rewrite Nat.eqb_refl; auto|intros j; rewrite Heql; reflexivity].
  - (* LReg from GotSub *)
    apply due_reg; auto; [rewrite Heql; cbn [view_of]; rewrite Nat.eqb_refl; auto|intros j; rewrite Heql; reflexivity].
Qed.

(* ---- the supporting clauses ------------------------------------------------------------ *)
Lemma last_step s l s' :
  Hist s -> step s l = Some s' ->
  forall p, inflight (pc s') = Some p -> exists o, order s' = o ++ [p].
Proof.
  intros HH H q Hq. pose proof (h_last _ HH) as L.
  step_cases H l; simp_in_hyp Hq; rw_in Hq; simp_in_hyp Hq; simp_goal; try discriminate Hq;
    try (apply L; exact Hq);
    try (injection Hq as <-; eexists; reflexivity);
    try (injection Hq as <-; apply L; rw; reflexivity).
Qed.

Lemma frozen_step s l s' :
  Hist s -> step s l = Some s' ->
  forall p, In p (order s') -> p_pc (pub s' p) <> P0 /\ p_pc (pub s' p) <> PAtSel.
Proof.
  intros HH H q Hq. pose proof (h_frozen _ HH) as F.
  step_cases H l; simp_in_hyp Hq; simp_goal; try (apply F; exact Hq).
  all: try (apply in_app_or in Hq; destruct Hq as [Hq|[Hq|[]]]).
  all: match goal with
       | |- context [upd _ ?p _ ?q0] =>
           let E := fresh "E" in
           destruct (Nat.eqb q0 p) eqn:E;
           [apply Nat.eqb_eq in E; subst; rewrite ?upd_same; simp_goal | rewrite ?(upd_other _ _ _ _ E)]
       end; try (apply F; assumption); try (split; discriminate).
  all: try (destruct (F _ Hq) as [F1 F2]; split; congruence).
  subst q. rewrite Nat.eqb_refl in E. discriminate E.
Qed.

Lemma nodup_snoc {A} (l : list A) x : NoDup l -> ~ In x l -> NoDup (l ++ [x]).
Proof.
  induction 1 as [|y l Hy N IH]; intros Hx; cbn.
  - constructor; [intros []|constructor].
  - constructor.
    + intros Hi. apply in_app_or in Hi. destruct Hi as [Hi|[<-|[]]]; [contradiction|]. apply Hx. now left.
    + apply IH. intros Hi. apply Hx. now right.
Qed.

Lemma nodup_step s l s' : Hist s -> step s l = Some s' -> NoDup (order s').
Proof.
  intros HH H. pose proof (h_nodup _ HH) as N. pose proof (h_frozen _ HH) as F.
  step_cases H l; simp_goal; try exact N.
  apply nodup_snoc; [exact N|]. intros Hx. destruct (F _ Hx) as [_ F2]. contradiction.
Qed.

Ltac pos_close P1 P2 P3 :=
  rewrite ?app_length; cbn [length]; split; [lia|split;
    [ let M := fresh "M" in let Hin := fresh "Hin" in
      intros M Hin;
      first [ exfalso; apply Hin; reflexivity
            | discriminate M
            | apply P2; assumption
            | assert (_ < _) by (apply P2; [exact M|discriminate]); lia
            | lia ]
    | let e := fresh "e" in let w := fresh "w" in let Hm := fresh "Hm" in
      intros e w Hm;
      first [ discriminate Hm
            | destruct (P3 e w Hm); lia
            | injection Hm as <- <-; lia ] ]].

Lemma pos_step s l s' :
  Inv s -> Hist s -> step s l = Some s' ->
  forall i r, s_reg (sub s' i) = Some r ->
    r <= length (order s') /\
    (s_rem (sub s' i) = None -> inflight (pc s') <> None -> r < length (order s')) /\
    (forall e w, s_rem (sub s' i) = Some (e, w) -> r <= e /\ e <= length (order s')).
Proof.
  intros I HH H k r R. pose proof (h_pos _ HH k r) as P.
  step_cases H l; simp_in_hyp R; simp_goal.
  all: try (destruct (P R) as (P1 & P2 & P3); simp_in_hyp P2; pos_close P1 P2 P3; fail).
  all: try match goal with
       | |- context [upd _ ?i _ ?k0] =>
           let E := fresh "E" in
           destruct (Nat.eqb k0 i) eqn:E;
           [apply Nat.eqb_eq in E; subst; rewrite ?upd_same in *; simp_goal; simp_in_hyp R
           | rewrite ?(upd_other _ _ _ _ E) in *]
       end.
  all: try (destruct (P R) as (P1 & P2 & P3); simp_in_hyp P2; pos_close P1 P2 P3; fail).
  all: try (rw; simp_goal; destruct (P R) as (P1 & P2 & P3); simp_in_hyp P2; pos_close P1 P2 P3; fail).
  all: injection R as <-;
       match goal with II : Inv ?s0, Hv : pc ?s0 = _ |- context [s_rem (sub ?s0 ?i)] =>
         destruct (subscribing_never s0 i II) as [R0 M0];
         [rewrite Hv; cbn [view_of]; rewrite Nat.eqb_refl; auto|]
       end;
       split; [lia|split; [intros _ Hin; exfalso; apply Hin; reflexivity|intros e w Hm; congruence]].
Qed.

(* topics of a table entry after an update that keeps them *)
Ltac topics_upd :=
  repeat match goal with
  | |- context [upd ?f ?i ?x ?k] =>
      let E := fresh "E" in
      destruct (Nat.eqb k i) eqn:E;
      [apply Nat.eqb_eq in E; subst; rewrite ?upd_same | rewrite ?(upd_other _ _ _ _ E)]
  end; simp_goal.

Lemma match_step s l s' :
  Inv s -> Hist s -> step s l = Some s' ->
  forall i p, inflight (pc s') = Some p -> mem i (todo_of (pc s')) = true -> matches s' i p = true.
Proof.
  intros I HH H k q Hq Hm. pose proof (h_match _ HH k q) as M. unfold matches in M |- *.
  step_cases H l; simp_in_hyp Hq; simp_in_hyp Hm; rw_in Hq; rw_in Hm; simp_in_hyp Hq; simp_in_hyp Hm;
    try discriminate Hq; try (rewrite mem_nil in Hm; discriminate Hm); simp_in_hyp M; simp_goal.
  all: try (injection Hq as <-).
  all: try (apply M; [reflexivity|assumption]; fail).
  all: try (apply M; assumption).
  all: try (topics_upd; (apply M; [reflexivity|first [assumption|eapply mem_rem_sub; eassumption]]); fail).
  all: try (topics_upd; apply M; assumption).
  - (* SubEnter i *)
    destruct (Nat.eqb k i) eqn:E.
    + apply Nat.eqb_eq in E. subst k. exfalso.
      destruct (life_registered s i I (todo_registered s i I Hm)) as (r & R & _).
      exact (started_of_reg s i r I R Heqs0).
    + rewrite (upd_other _ _ _ _ E). apply M; assumption.
  - (* PubEnter p *)
    destruct (Nat.eqb q p) eqn:E.
    + apply Nat.eqb_eq in E. subst q. exfalso.
      destruct (h_last _ HH p Hq) as [o Ho].
      destruct (h_frozen _ HH p) as [F _]; [rewrite Ho; apply in_or_app; right; left; reflexivity|].
      contradiction.
    + rewrite (upd_other _ _ _ _ E). apply M; assumption.
  - (* LErrs *)
    rewrite mem_filter in Hm. apply andb_true_iff in Hm. destruct Hm as [_ X].
    rewrite upd_same. simp_goal. exact X.
  - rewrite mem_filter in Hm. apply andb_true_iff in Hm. destruct Hm as [_ X].
    rewrite upd_same. simp_goal. exact X.
Qed.

Lemma flushing_registered s i : Inv s -> view_of (pc s) i = VFlushing -> mem i (subs s) = true.
Proof.
  intros I V. pose proof (inv_sub _ I i) as O. unfold loc in O. rewrite V in O.
  destruct (mem i (subs s)) eqn:E; [reflexivity|exfalso; crush_ok O].
Qed.

Lemma nolog_step s l s' :
  Inv s -> Hist s -> step s l = Some s' ->
  forall i, s_reg (sub s' i) = None -> s_llog (sub s' i) = [].
Proof.
  intros I HH H k R. pose proof (h_nolog _ HH k) as N.
  step_cases H l; simp_in_hyp R; simp_goal; try (apply N; exact R).
  all: match goal with
       | |- context [upd _ ?i _ ?k0] =>
           let E := fresh "E" in
           destruct (Nat.eqb k0 i) eqn:E;
           [apply Nat.eqb_eq in E; subst; rewrite ?upd_same in *; simp_goal; simp_in_hyp R
           | rewrite ?(upd_other _ _ _ _ E) in *]
       end; try (apply N; exact R); try discriminate R.
  - (* LSend ok *) exfalso.
    assert (mem i (todo_of (pc s)) = true) as Ht by (rewrite Heql; exact Heqb).
    destruct (life_registered s i I (todo_registered s i I Ht)) as (r & R' & _). congruence.
  - exfalso.
    assert (mem i (todo_of (pc s)) = true) as Ht by (rewrite Heql; exact Heqb).
    destruct (life_registered s i I (todo_registered s i I Ht)) as (r & R' & _). congruence.
  - (* LFlush *) exfalso.
    assert (view_of (pc s) i0 = VFlushing) as V by (rewrite Heql; cbn [view_of]; now rewrite Nat.eqb_refl).
    destruct (life_registered s i0 I (flushing_registered s i0 I V)) as (r & R' & _). congruence.
  - exfalso.
    assert (view_of (pc s) i0 = VFlushing) as V by (rewrite Heql; cbn [view_of]; now rewrite Nat.eqb_refl).
    destruct (life_registered s i0 I (flushing_registered s i0 I V)) as (r & R' & _). congruence.
Qed.

(* ---- the history invariant holds in every reachable state ------------------------------- *)
Lemma hist_init : Hist init.
Proof.
  split; cbn; intros; try discriminate; try contradiction; auto. constructor.
Qed.

Lemma hist_step s l s' : Inv s -> Hist s -> step s l = Some s' -> Hist s'.
Proof.
  intros I HH H. split.
  - eapply last_step; eauto.
  - eapply pos_step; eauto.
  - eapply match_step; eauto.
  - eapply frozen_step; eauto.
  - eapply nodup_step; eauto.
  - eapply nolog_step; eauto.
  - eapply due_step; eauto. eapply step_no_panic; eauto.
Qed.

Lemma hist_run ls : forall s s', reachable s -> Hist s -> run s ls = Some s' -> Hist s'.
Proof.
  induction ls as [|l ls IH]; intros s s' R HH H; cbn in H.
  - now injection H as <-.
  - destruct (step s l) as [s1|] eqn:E; [|discriminate].
    eapply IH; [eapply reachable_step; eauto| |exact H]. eapply hist_step; eauto. now apply inv_reachable.
Qed.

Theorem hist_reachable s : reachable s -> Hist s.
Proof. intros [ls H]. eapply hist_run; [exists []; reflexivity|apply hist_init|exact H]. Qed.
