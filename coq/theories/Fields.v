(* message_fields.go and session.go:84-101: every construction route of
   EventID / EventType.  A field is [option bytes]: None = unset. *)
From GoSse Require Import Base Lines.

Definition field := option bytes.
Definition is_set (f : field) : bool := match f with Some _ => true | None => false end.
Definition value (f : field) : bytes := match f with Some v => v | None => [] end.

(* result of a route: the field and whether an error was reported *)
Definition route_result := (field * bool)%type.

(* newMessageField, message_fields.go:72-78 *)
Definition new_field (v : bytes) : route_result :=
  if is_single_line v then (Some v, false) else (None, true).

(* NewID / NewType (ID / Type panic on error: modelled as the error flag) *)
Definition new_id (v : bytes) : route_result := new_field v.

(* messageField.UnmarshalText, message_fields.go:92-104 *)
Definition unmarshal_text (data : bytes) : route_result := new_field data.

(* messageField.UnmarshalJSON, message_fields.go:107-128.  The result of
   json.Unmarshal(data, &string) is an input ([None] = decoding error): the
   theorem holds for every decoded string whatsoever. *)
Definition json_null : bytes := [110; 117; 108; 108].
Definition unmarshal_json (data : bytes) (decoded : option bytes) : route_result :=
  if bytes_eqb data json_null then (None, false)
  else match decoded with
       | None => (None, true)
       | Some s => new_field s
       end.

(* messageField.Scan, message_fields.go:154-183 *)
Inductive scan_src := SrcNil | SrcBytes (b : bytes) | SrcString (b : bytes) | SrcOther.
Definition scan (src : scan_src) : route_result :=
  match src with
  | SrcNil => (None, false)
  | SrcBytes b => new_field b
  | SrcString b => new_field b
  | SrcOther => (None, true)
  end.

(* Upgrade, session.go:90-97: the values of the Last-Event-Id header *)
Definition upgrade_id (h : list bytes) : field :=
  match h with
  | v :: _ => match v with [] => None | _ => fst (new_id v) end
  | [] => None
  end.

(* ---- the encoding side of message_fields.go (lines 132-189) ----------------------------------
   MarshalText: the value, or an error for an unset field ([None]). *)
Definition marshal_text (f : field) : option bytes := f.

(* Value (driver.Valuer): the value as a string, or nil for an unset field - as the driver value
   that [scan] is later given (database/sql hands a string back as string or []byte) *)
Definition field_value (f : field) : scan_src :=
  match f with Some v => SrcString v | None => SrcNil end.
Definition field_value_bytes (f : field) : scan_src :=
  match f with Some v => SrcBytes v | None => SrcNil end.

(* MarshalJSON: json.Marshal of the value - the document [enc] is an input (encoding/json is not
   modelled) - or the JSON null for an unset field *)
Definition marshal_json (f : field) (enc : bytes) : bytes :=
  match f with Some _ => enc | None => json_null end.

(* a field as every construction route produces it (C14): single-line when set *)
Definition field_wf (f : field) : Prop := forall v, f = Some v -> no_nl v.
