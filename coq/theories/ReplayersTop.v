(* Assembled statements for C08 / C09 / C18. *)
From GoSse Require Import Base Fields Queue QueueProofs Replayers Fifo FifoFacts ReplayersProofs.
From GoSse.Gen Require Import Params.
From Coq Require Import Sorted.
Local Open Scope nat_scope.

Lemma Forall2_impl {A B} (P Q : A -> B -> Prop) la lb :
  (forall a b, P a b -> Q a b) -> Forall2 P la lb -> Forall2 Q la lb.
Proof. intros H F. induction F; constructor; auto. Qed.

Lemma min_count_pos n : finite_min_count <= n -> 0 < n.
Proof. unfold finite_min_count. cbn. lia. Qed.

(* C08: no panic, and outputs = the bounded-FIFO specification, for every history *)
Lemma finite_top n auto ops :
  finite_min_count <= n -> (N.of_nat (length ops) <= two64)%N ->
  exists s tr, fr_new n auto = Some s /\ fr_trace s ops = (tr, true) /\
               map fst tr = fs_run (fs_new n auto) ops.
Proof.
  intros Hn Hb. destruct (FR_new n auto Hn (min_count_pos n Hn)) as (s & Hs & HFR).
  destruct (finite_refines ops s (fs_new n auto) HFR) as (tr & Htr & Hout & _).
  { intros cur Hc. unfold fs_new in Hc. cbn in Hc. destruct auto; [|discriminate]. injection Hc as <-. lia. }
  exists s, tr. auto.
Qed.

Lemma finite_rejects_small n auto : n < finite_min_count -> fr_new n auto = None.
Proof. intros H. unfold fr_new. destruct (Nat.ltb_spec n finite_min_count); [reflexivity|lia]. Qed.

Lemma fs_states_cap ops : forall sp, Forall (fun sp' => fs_cap sp' = fs_cap sp) (fs_states sp ops).
Proof.
  induction ops as [|op ops IH]; intros sp; cbn; constructor.
  - apply fs_cap_step.
  - eapply Forall_impl; [|apply IH]. intros a Ha. cbn in Ha. now rewrite Ha, fs_cap_step.
Qed.

Lemma Forall2_Forall_r {A B} (P : A -> B -> Prop) (Q : B -> Prop) la lb :
  Forall2 P la lb -> Forall Q lb -> Forall2 (fun a b => P a b /\ Q b) la lb.
Proof. intros F. induction F as [|a b la lb Hab F IH]; intros HQ; inversion HQ; subst; constructor; auto. Qed.

(* C18 (finite): after every operation, every occupied slot holds one of the
   at most N entries of the abstract buffer *)
Lemma finite_slots_top n auto ops :
  finite_min_count <= n -> (N.of_nat (length ops) <= two64)%N ->
  exists s tr, fr_new n auto = Some s /\ fr_trace s ops = (tr, true) /\
    Forall2 (fun (p : rout * fstate) sp' =>
               (forall i v, nth_error (buf (f_q (snd p))) i = Some (Some v) -> In v (fs_l sp')) /\
               length (fs_l sp') <= n /\ qlen (f_q (snd p)) = n)
            tr (fs_states (fs_new n auto) ops).
Proof.
  intros Hn Hb. destruct (FR_new n auto Hn (min_count_pos n Hn)) as (s & Hs & HFR).
  destruct (finite_refines ops s (fs_new n auto) HFR) as (tr & Htr & _ & Hst).
  { intros cur Hc. unfold fs_new in Hc. cbn in Hc. destruct auto; [|discriminate]. injection Hc as <-. lia. }
  exists s, tr. split; [assumption|]. split; [assumption|].
  pose proof (Forall2_Forall_r _ _ _ _ Hst (fs_states_cap ops (fs_new n auto))) as H.
  eapply Forall2_impl; [|exact H]. intros [o s'] sp' [(HR & Hcur & Hlen & Hpos & Hids) Hcap].
  unfold fs_new in Hcap. cbn [snd fs_cap] in *.
  split; [intros i v Hi; now apply (R_occupied _ _ i v HR)|].
  destruct HR as ((Hcl & _) & Hc & _). split; lia.
Qed.

(* C09: no panic, outputs = the specification, for every history, TTL, GC interval and mode *)
Lemma valid_top ttl auto gci ops :
  (0 < ttl)%Z -> (N.of_nat (length ops) <= two64)%N ->
  exists s tr, vr_new ttl auto gci = Some s /\ vr_trace s ops = (tr, true) /\
               map fst tr = vs_run (vs_new ttl auto gci) ops.
Proof.
  intros Ht Hb. destruct (VR_new ttl auto gci Ht) as (s & Hs & HVR).
  destruct (valid_refines ops s (vs_new ttl auto gci) HVR) as (tr & Htr & Hout & _).
  { intros cur Hc. unfold vs_new in Hc. cbn in Hc. destruct auto; [|discriminate]. injection Hc as <-. lia. }
  exists s, tr. auto.
Qed.

Lemma valid_rejects_ttl ttl auto gci : (ttl <= 0)%Z -> vr_new ttl auto gci = None.
Proof. intros H. unfold vr_new. destruct (Z.leb_spec ttl 0); [reflexivity|lia]. Qed.

(* C18 (valid): after every operation, every occupied slot holds an entry of the abstract buffer *)
Lemma valid_slots_top ttl auto gci ops :
  (0 < ttl)%Z -> (N.of_nat (length ops) <= two64)%N ->
  exists s tr, vr_new ttl auto gci = Some s /\ vr_trace s ops = (tr, true) /\
    Forall2 (fun (p : rout * vstate) sp' =>
               forall i v, nth_error (buf (v_q (snd p))) i = Some (Some v) -> In v (vs_l sp'))
            tr (vs_states (vs_new ttl auto gci) ops).
Proof.
  intros Ht Hb. destruct (VR_new ttl auto gci Ht) as (s & Hs & HVR).
  destruct (valid_refines ops s (vs_new ttl auto gci) HVR) as (tr & Htr & _ & Hst).
  { intros cur Hc. unfold vs_new in Hc. cbn in Hc. destruct auto; [|discriminate]. injection Hc as <-. lia. }
  exists s, tr. split; [assumption|]. split; [assumption|].
  eapply Forall2_impl; [|exact Hst]. intros [o s'] sp' (HR & _). cbn [snd] in *.
  intros i v Hi. now apply (R_occupied _ _ i v HR).
Qed.

(* ... and with a non-decreasing clock, right after a collection at [now] the abstract
   buffer (hence every occupied slot) holds no entry with exp <= now *)
Lemma valid_gc_removes_expired ttl auto gci ops now t :
  (0 < ttl)%Z -> clock_mono t ops ->
  Forall (fun e => (now < e_exp e)%Z) (vs_l (vs_gc (vs_after (vs_new ttl auto gci) ops) now)).
Proof.
  intros Ht Hm. cbn [vs_gc vs_l]. apply collect_all_unexpired.
  apply (vs_sorted_after ops (vs_new ttl auto gci) t); [cbn; lia| |assumption].
  cbn. split; constructor.
Qed.

Lemma vs_ttl_after ops : forall s, vs_ttl (vs_after s ops) = vs_ttl s.
Proof. induction ops as [|op ops IH]; intros s; cbn; [reflexivity|]. now rewrite IH, vs_ttl_step. Qed.

(* the collection a Put triggers once GCInterval has passed *)
Lemma valid_put_gc_removes_expired ttl auto gci ops now t m_id tok topics :
  (0 < ttl)%Z -> clock_mono t ops -> topics <> [] ->
  let s := vs_after (vs_new ttl auto gci) ops in
  let lastgc := match vs_lastgc s with Some l => l | None => now end in
  (0 < vs_gci s)%Z -> (vs_gci s <= now - lastgc)%Z ->
  Forall (fun e => (now < e_exp e)%Z) (vs_l (fst (vs_put s now m_id tok topics))).
Proof.
  intros Ht Hm Htop s lastgc Hg1 Hg2.
  assert (Hsorted : StronglySorted exp_le (vs_l s)).
  { apply (vs_sorted_after ops (vs_new ttl auto gci) t); [cbn; lia| |assumption]. cbn. split; constructor. }
  assert (Httl : vs_ttl s = ttl) by (unfold s; now rewrite vs_ttl_after).
  unfold vs_put. destruct topics as [|t0 ts]; [congruence|]. fold lastgc.
  apply Z.ltb_lt in Hg1. apply Z.leb_le in Hg2. rewrite Hg1, Hg2. cbn [andb].
  pose proof (collect_all_unexpired (vs_l s) now Hsorted) as Hc.
  destruct (spec_put_id m_id (vs_next s) (t0 :: ts)) as [er|[id nx]]; cbn [fst vs_l]; [exact Hc|].
  apply Forall_app. split; [exact Hc|]. constructor; [cbn; lia|constructor].
Qed.

(* the FiniteReplayer specification never holds more than N events: its size is
   min(N, number of accepted Puts) after every history *)
Lemma fs_never_more_than_n :
  forall n auto ops, 0 < n ->
  length (fs_l (fs_after (fs_new n auto) ops)) <= n /\
  length (fs_l (fs_after (fs_new n auto) ops)) = Nat.min n (length (fs_accepted (fs_new n auto) ops)).
Proof.
  intros n auto ops Hn. rewrite (fs_buffer_last_n n auto ops Hn), lastn_length.
  split; [apply Nat.le_min_l | reflexivity].
Qed.
