(* C06 on the LTS: quiet after return, return value. *)
From GoSse Require Import Base JoeLts JoeLocal JoeProj JoePub JoeInv.
Local Open Scope nat_scope.

(* the writer log of i changes only by these steps *)
Lemma wlog_changes_label s l s' i :
  step s l = Some s' -> wlog s' i <> wlog s i ->
  (exists p todo, pc s = Fan p todo /\ mem i todo = true) \/
  (exists p todo, pc s = Flushing p i todo) \/ pc s = Replaying i.
Proof.
  intros H Hw. apply step_live_of in H. destruct H as [Hnp H]. unfold wlog in *.
  destruct l; cbn [step_live] in H; cbv zeta in H;
    unfold send_done, close_done, recv1, panic in H; brk H; injection H as <-; eqs; cbn in Hw;
    try (exfalso; apply Hw; reflexivity);
    match goal with
    | _ : context [upd _ ?k _ i] |- _ => destruct (Nat.eqb i k) eqn:Eik
    end;
    try (rewrite ?(upd_other _ _ _ _ Eik) in Hw; exfalso; apply Hw; reflexivity);
    apply Nat.eqb_eq in Eik; subst; rewrite ?upd_same in Hw; cbn in Hw;
    try (exfalso; apply Hw; reflexivity); eauto.
Qed.

Ltac crush_ok O :=
  unfold ok in O; cbn in O; rewrite ?Nat.eqb_refl in O; cbn in O;
  repeat match type of O with
  | context [mem ?a ?b] => destruct (mem a b) eqn:?
  | context [s_ctx ?a] => destruct (s_ctx a) eqn:?
  | context [some ?a] => destruct (some a) eqn:?
  | context [s_dclosed ?a] => destruct (s_dclosed a) eqn:?
  | context [view_of ?a ?b] => destruct (view_of a b) eqn:?
  | context [lpc_of ?a] => destruct (lpc_of a) eqn:?
  end; cbn in O; try discriminate O; try congruence.

Lemma wlog_changes s l s' i :
  Inv s -> step s l = Some s' -> wlog s' i <> wlog s i -> sub_returned s i = false.
Proof.
  intros I H Hw. pose proof (inv_sub _ I i) as O. unfold sub_returned.
  destruct (wlog_changes_label _ _ _ _ H Hw) as [(p & todo & Hpc & Hm)|[(p & todo & Hpc)|Hpc]];
    unfold loc in O; rewrite Hpc in O; cbn [view_of todo_of] in O; rewrite ?Hm in O;
    destruct (s_pc (sub s i)) as [| | | | |[r|]]; try reflexivity; exfalso; crush_ok O.
Qed.

(* once returned, always returned with the same value *)
Lemma returned_stable s l s' i r :
  step s l = Some s' -> s_pc (sub s i) = SRet r -> s_pc (sub s' i) = SRet r.
Proof.
  intros H Hr. apply step_live_of in H. destruct H as [Hnp H].
  destruct l; cbn [step_live] in H; cbv zeta in H;
    unfold send_done, close_done, recv1, panic in H; brk H; injection H as <-; eqs; cbn;
    try exact Hr;
    match goal with
    | |- context [upd _ ?k _ i] => destruct (Nat.eqb i k) eqn:Eik
    end;
    try (rewrite ?(upd_other _ _ _ _ Eik); exact Hr);
    apply Nat.eqb_eq in Eik; subst; rewrite ?upd_same; cbn; try exact Hr; try congruence.
Qed.

Lemma returned_stable_run ls : forall s s' i r,
  run s ls = Some s' -> s_pc (sub s i) = SRet r -> s_pc (sub s' i) = SRet r.
Proof.
  induction ls as [|l ls IH]; intros s s' i r H Hr; cbn in H.
  - now injection H as <-.
  - destruct (step s l) as [s1|] eqn:E; [|discriminate]. eapply IH; [exact H|]. eapply returned_stable; eauto.
Qed.

(* C06: once Subscribe call i has returned, no later step - along any continuation - calls its writer *)
Theorem quiet_after_return s i r ls s' :
  reachable s -> s_pc (sub s i) = SRet r -> run s ls = Some s' -> wlog s' i = wlog s i.
Proof.
  intros R Hr. revert s R Hr. induction ls as [|l ls IH]; intros s R Hr H; cbn in H.
  - now injection H as <-.
  - destruct (step s l) as [s1|] eqn:E; [|discriminate].
    assert (wlog s1 i = wlog s i) as W.
    { destruct (list_eq_dec (fun a b : wcall => ltac:(decide equality; try apply Bool.bool_dec; apply Nat.eq_dec))
                  (wlog s1 i) (wlog s i)) as [e|n]; [exact e|].
      pose proof (wlog_changes _ _ _ _ (inv_reachable _ R) E n) as Q.
      unfold sub_returned in Q. rewrite Hr in Q. discriminate Q. }
    rewrite <- W. apply IH; [eapply reachable_step; eauto|eapply returned_stable; eauto|exact H].
Qed.

(* ---- return value ----------------------------------------------------------- *)
(* value-level clauses next to the finite view: the error in done_i is the recorded failure, a
   returned error is the recorded failure or ErrProviderClosed of a call that never got in *)
Definition val_ok (s : state) (i : nat) : Prop :=
  let x := sub s i in
  (forall e, s_dbuf x = Some e -> s_fail x = Some e) /\
  (forall e, s_pc x = SRet (Some e) -> s_fail x = Some e \/ (s_fail x = None /\ e = E_CLOSED /\ wlog s i = [] /\ s_reg x = None)) /\
  (s_pc x = S0 \/ s_pc x = AtSel1 -> wlog s i = [] /\ s_reg x = None).

Lemma val_init i : val_ok init i.
Proof. unfold val_ok. cbn. repeat split; intros; try discriminate; auto. Qed.

Lemma val_step s l s' i : Inv s -> val_ok s i -> step s l = Some s' -> val_ok s' i.
Proof.
  intros I V H. pose proof (inv_sub _ I i) as O. unfold loc in O.
  destruct V as (V1 & V2 & V3).
  apply step_live_of in H. destruct H as [Hnp H]. unfold val_ok, wlog in *.
  destruct l; cbn [step_live] in H; cbv zeta in H;
    unfold send_done, close_done, recv1, panic in H; brk H; injection H as <-; eqs; cbn;
    try exact (conj V1 (conj V2 V3)).
  all: match goal with
    | |- context [upd _ ?k _ ?j] => destruct (Nat.eqb j k) eqn:Eik
    end;
    try (rewrite ?(upd_other _ _ _ _ Eik); exact (conj V1 (conj V2 V3)));
    apply Nat.eqb_eq in Eik; subst; rewrite ?upd_same; cbn;
    rw_in O; cbn [view_of todo_of] in O.
  all: repeat split; intros; try discriminate; try congruence; auto.
  all: try (destruct V3 as [V3a V3b]; [auto|]; rewrite ?V3a, ?V3b; auto; fail).
  all: try (exfalso; destruct (s_pc (sub s _)) as [| | | | |[r|]]; try discriminate; try (destruct H; discriminate); crush_ok O; fail).
  all: try (match goal with E : Some _ = Some _ |- _ => injection E as <- end; auto).
  all: try (exfalso; match goal with H : s_pc _ = SRet _ |- _ => rewrite H in O end; crush_ok O; fail).
  all: try (exfalso; match goal with H : _ \/ _ |- _ => destruct H as [H|H]; rewrite H in O; crush_ok O end; fail).
  all: match goal with H : SRet _ = SRet _ |- _ => injection H as <- end.
  all: try (left; apply V1; assumption).
  right. destruct (s_fail (sub s i0)) eqn:Ef; [exfalso; cbn in O; crush_ok O|].
  destruct V3 as [V3a V3b]; [auto|]; auto.
Qed.

Lemma val_run ls : forall s s' i, reachable s -> val_ok s i -> run s ls = Some s' -> val_ok s' i.
Proof.
  induction ls as [|l ls IH]; intros s s' i R V H; cbn in H.
  - now injection H as <-.
  - destruct (step s l) as [s1|] eqn:E; [|discriminate].
    eapply IH; [eapply reachable_step; eauto| |exact H].
    eapply val_step; eauto. now apply inv_reachable.
Qed.

Lemma val_reachable s i : reachable s -> val_ok s i.
Proof.
  intros [ls H]. eapply val_run; [exists []; reflexivity|apply val_init|exact H].
Qed.

(* C06: what Subscribe returns.  [s_fail] is the failure the loop recorded for i: it is written only
   by [done_i <- e], i.e. by LFail (e = the error of i's own Send/Flush) and LReject (e = the error
   Replay returned for i); see fail_origin, failing_origin, rejecting_origin. *)
Theorem return_value s i r :
  reachable s -> s_pc (sub s i) = SRet r ->
  match s_fail (sub s i) with
  | Some e => r = Some e
  | None => r = None \/ (r = Some E_CLOSED /\ wlog s i = [] /\ s_reg (sub s i) = None)
  end.
Proof.
  intros R Hr. destruct (val_reachable s i R) as (V1 & V2 & V3).
  pose proof (inv_sub _ (inv_reachable s R) i) as O. unfold loc in O. rewrite Hr in O.
  destruct r as [e|].
  - destruct (V2 e Hr) as [F|(F & E & W & G)]; rewrite F; [reflexivity|]. right. subst. auto.
  - destruct (s_fail (sub s i)) eqn:F; [exfalso; cbn in O; crush_ok O|]. now left.
Qed.

(* who writes [s_fail] *)
Lemma fail_origin s l s' i :
  step s l = Some s' -> s_fail (sub s' i) <> s_fail (sub s i) ->
  (exists p e todo, l = LFail i /\ pc s = Failing p i e todo /\ s_fail (sub s' i) = Some e) \/
  (exists e, l = LReject i /\ pc s = Rejecting i e /\ s_fail (sub s' i) = Some e).
Proof.
  intros H Hw. apply step_live_of in H. destruct H as [Hnp H].
  destruct l; cbn [step_live] in H; cbv zeta in H;
    unfold send_done, close_done, recv1, panic in H; brk H; injection H as <-; eqs; cbn in Hw |- *;
    try (exfalso; apply Hw; reflexivity);
    match goal with
    | _ : context [upd _ ?k _ ?j] |- _ => destruct (Nat.eqb j k) eqn:Eik
    end;
    try (rewrite ?(upd_other _ _ _ _ Eik) in Hw; exfalso; apply Hw; reflexivity);
    apply Nat.eqb_eq in Eik; subst; rewrite ?upd_same in *; cbn in Hw |- *;
    try (exfalso; apply Hw; reflexivity); eauto 8.
Qed.

(* the loop is about to report e to i only after i's own Send/Flush (resp. its Replay) failed with e *)
Lemma failing_origin s l s' p i e todo :
  step s l = Some s' -> pc s' = Failing p i e todo -> pc s <> pc s' ->
  l = LSend i (VErr e) \/ l = LFlush i (VErr e).
Proof.
  intros H Hw Hne. apply step_live_of in H. destruct H as [Hnp H].
  destruct l; cbn [step_live] in H; cbv zeta in H;
    unfold send_done, close_done, recv1, panic in H; brk H; injection H as <-; eqs; cbn in Hw, Hne;
    try congruence; injection Hw as <- <- <- <-; auto.
Qed.

Lemma rejecting_origin s l s' i e :
  step s l = Some s' -> pc s' = Rejecting i e -> pc s <> pc s' -> l = LReplayed i (VErr e).
Proof.
  intros H Hw Hne. apply step_live_of in H. destruct H as [Hnp H].
  destruct l; cbn [step_live] in H; cbv zeta in H;
    unfold send_done, close_done, recv1, panic in H; brk H; injection H as <-; eqs; cbn in Hw, Hne;
    try congruence; injection Hw as <- <-; auto.
Qed.

(* the statements over label sequences, as used in props/C06.v *)
Lemma no_panic_run ls s : run init ls = Some s -> pc s <> Panicked.
Proof. intros H. apply no_panic. now exists ls. Qed.

Lemma quiet_after_return_run ls1 s1 i r ls2 s2 :
  run init ls1 = Some s1 -> s_pc (sub s1 i) = SRet r -> run s1 ls2 = Some s2 ->
  wlog s2 i = wlog s1 i.
Proof. intros H1 Hr H2. eapply quiet_after_return; eauto. now exists ls1. Qed.

Lemma return_value_run ls s i r :
  run init ls = Some s -> s_pc (sub s i) = SRet r ->
  match s_fail (sub s i) with
  | Some e => r = Some e
  | None => r = None \/ (r = Some E_CLOSED /\ wlog s i = [] /\ s_reg (sub s i) = None)
  end.
Proof. intros H. apply return_value. now exists ls. Qed.

Lemma invariant_run ls s j : run init ls = Some s -> ok (loc s j) = true.
Proof. intros H. apply inv_sub. apply inv_reachable. now exists ls. Qed.
