(* The inductive invariant of the Joe LTS and the safety theorems of C06. *)
From GoSse Require Import Base JoeLts JoeLocal JoeProj JoePub.
Local Open Scope nat_scope.

Lemma sweep : forallb (fun k => forallb (preserved_at k) all_local) all_lk = true.
Proof. vm_compute. reflexivity. Qed.

Lemma ok_preserved k x x' : ok x = true -> lstep k x = Some x' -> ok x' = true.
Proof.
  intros Hx Hs. pose proof sweep as H. rewrite forallb_forall in H.
  specialize (H k (all_lk_complete k)). rewrite forallb_forall in H.
  specialize (H x (all_local_complete x)). unfold preserved_at in H.
  rewrite Hx, Hs in H. exact H.
Qed.

(* global clauses: j.closed is closed exactly when the loop has exited; the loop exits only after j.done was closed *)
Definition glob_ok (s : state) : bool :=
  Bool.eqb (closed_closed s) (match pc s with Exited => true | _ => false end)
  && implb (match pc s with Exiting | Exited => true | _ => false end) (done_closed s).

Record Inv (s : state) : Prop := mkInv {
  inv_sub : forall j, ok (loc s j) = true;
  inv_pub : forall p, okp (ploc s p) = true;
  inv_glob : glob_ok s = true
}.

Lemma inv_init : Inv init.
Proof. split; intros; reflexivity. Qed.

(* where a panic can come from *)
Lemma panic_source s l s' :
  step s l = Some s' -> pc s' = Panicked ->
  (exists i, subj l = Some i) \/ (exists p, psubj l = Some p) \/ (pc s = Exiting /\ closed_closed s = true).
Proof.
  intros H Hp. apply step_live_of in H. destruct H as [Hnp H].
  destruct l; cbn [step_live] in H; cbv zeta in H;
    unfold send_done, close_done, recv1, panic in H; brk H; injection H as <-; cbn in Hp;
    try discriminate Hp; try (exfalso; apply Hnp; exact Hp); try congruence; cbn [subj psubj]; eauto.
Qed.

Lemma glob_preserved s l s' :
  step s l = Some s' -> pc s' <> Panicked -> glob_ok s = true -> glob_ok s' = true.
Proof.
  intros H Hp Hg. apply step_live_of in H. destruct H as [Hnp H]. unfold glob_ok in *.
  destruct l; cbn [step_live] in H; cbv zeta in H;
    unfold send_done, close_done, recv1, panic in H; brk H; injection H as <-; cbn in Hp |- *;
    try (exfalso; apply Hp; reflexivity); rw_in Hg; cbn in Hg; rw; try exact Hg;
    destruct (closed_closed s) eqn:?, (done_closed s) eqn:?; cbn in *; try congruence.
  all: destruct (pc s); cbn in *; congruence.
Qed.

Lemma step_no_panic s l s' : Inv s -> step s l = Some s' -> pc s' <> Panicked.
Proof.
  intros [Hs Hq Hg] H Hp.
  destruct (panic_source _ _ _ H Hp) as [[i Hi]|[[p Hi]|[He Hc]]].
  - pose proof (proj i s l s' H (fun _ => Hi)) as P.
    pose proof (ok_preserved _ _ _ (Hs i) P) as O.
    unfold loc in O. rewrite Hp in O. discriminate O.
  - pose proof (pproj p s l s' H (fun _ => Hi)) as P.
    pose proof (okp_preserved _ _ _ (Hq p) P) as O.
    unfold ploc in O. rewrite Hp in O. discriminate O.
  - unfold glob_ok in Hg. rewrite He, Hc in Hg. discriminate Hg.
Qed.

Lemma inv_step s l s' : Inv s -> step s l = Some s' -> Inv s'.
Proof.
  intros I H. pose proof (step_no_panic _ _ _ I H) as Hp. destruct I as [Hs Hq Hg]. split.
  - intros j. eapply ok_preserved; [apply (Hs j)|]. apply proj; [exact H|]. intros E. contradiction.
  - intros p. eapply okp_preserved; [apply (Hq p)|]. apply pproj; [exact H|]. intros E. contradiction.
  - eapply glob_preserved; eauto.
Qed.

Lemma inv_run ls : forall s s', Inv s -> run s ls = Some s' -> Inv s'.
Proof.
  induction ls as [|l ls IH]; intros s s' I H; cbn in H.
  - now injection H as <-.
  - destruct (step s l) as [s1|] eqn:E; [|discriminate]. eapply IH; [|exact H]. eapply inv_step; eauto.
Qed.

Theorem inv_reachable s : reachable s -> Inv s.
Proof. intros [ls H]. eapply inv_run; [apply inv_init|exact H]. Qed.

(* ---- C06 -------------------------------------------------------------------- *)

(* Panicked is unreachable: no close of a closed channel, no send on a closed channel, anywhere *)
Theorem no_panic s : reachable s -> pc s <> Panicked.
Proof.
  intros R E. pose proof (inv_sub _ (inv_reachable s R) 0) as O.
  unfold loc in O. rewrite E in O. discriminate O.
Qed.

Lemma run_app ls1 : forall ls2 s, run s (ls1 ++ ls2) = match run s ls1 with Some s1 => run s1 ls2 | None => None end.
Proof.
  induction ls1 as [|l ls1 IH]; intros ls2 s; cbn; [reflexivity|].
  destruct (step s l); [apply IH|reflexivity].
Qed.

Lemma reachable_step s l s' : reachable s -> step s l = Some s' -> reachable s'.
Proof.
  intros [ls H] E. exists (ls ++ [l]). rewrite run_app, H. cbn. now rewrite E.
Qed.

Lemma reachable_run ls : forall s s', reachable s -> run s ls = Some s' -> reachable s'.
Proof.
  induction ls as [|l ls IH]; intros s s' R H; cbn in H.
  - now injection H as <-.
  - destruct (step s l) as [s1|] eqn:E; [|discriminate]. eapply IH; [|exact H]. eapply reachable_step; eauto.
Qed.

