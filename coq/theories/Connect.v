(* Model of Connection.Connect: client_connection.go:128-142 (resetRequest), 162-183 (read),
   196-229 (Connect), 231-258 (doConnect), 264-277 (resetRequestBody).

   What a response body makes the Connection do is NOT modelled by a parser here: it is the
   byte-level specification [Whatwg.interp gosse_conn lastEventID stream ending] (events in
   dispatch order, valid retry fields, and the error the stream ends with); that the real
   parser equals this specification is property C01.

   Everything outside the Connection is a script, universally quantified in the theorems:
   per attempt the outcome of HTTPClient.Do / the validator / the body, the clock reading and
   RNG draw of backoff.next(), and when the context is cancelled.  Definitions only. *)
From GoSse Require Import Base Whatwg Backoff.
From GoSse.Gen Require Import Params.
Local Open Scope Z_scope.

(* ---- the request body (resetRequestBody, client_connection.go:264-277) -------------------- *)
Inductive getbody :=
| GBNone                          (* r.GetBody == nil *)
| GBOk                            (* GetBody always succeeds *)
| GBFails (after : nat) (e : N).  (* GetBody succeeds [after] times, then returns error e *)

Inductive body_kind :=
| BNone                 (* r.Body == nil *)
| BNoBody               (* r.Body == http.NoBody *)
| BBody (g : getbody).  (* a real body *)

(* errors, as the harness projects them: the stream errors of the specification (EEOF,
   EUnexpectedEOF, ETooLong, ECtx, EReader n = an injected error with index n - also used for
   injected transport / validator / GetBody errors) and ErrNoGetBody *)
Inductive cerr := CE (e : serr) | CNoGetBody.

(* ConnectionError.Reason *)
Inductive reason := RsReset | RsConnect | RsValidate | RsLost.

(* Connect's return value *)
Inductive cret :=
| RNil                              (* nil *)
| RCtx                              (* the context's error, as is *)
| RConn (r : reason) (e : cerr).    (* &ConnectionError{Reason: r, Err: e} *)

(* ---- the script ----------------------------------------------------------------------------- *)
Inductive attempt :=
| ATransportErr (e : N)                 (* Do fails with *url.Error{Err: e}; the context is not done *)
| ACtxErr                               (* Do fails with the context's error (the context is done) *)
| ARejected (e : N)                     (* a response arrives, the validator returns e *)
| AStream (body : bytes) (en : ending). (* a response arrives and is accepted; its body delivers [body] and ends with
                                           [en]: CleanEOF, ReadError (EReader n) = the reader's own error,
                                           ReadError ECtx = Read returns the context's error (cancellation) *)

Record step := mkstep {
  st_attempt : attempt;
  st_elapsed : Z;        (* time.Since(backoff.start) when next() is consulted after this attempt *)
  st_u : rat             (* rng.Float64() of that call *)
}.

Record ccfg := mkccfg {
  cc_backoff : backoff;           (* Client.Backoff as given (NewConnection normalises it) *)
  cc_body : body_kind;
  cc_on_retry : bool;             (* Client.OnRetry != nil *)
  cc_header : option bytes;       (* a Last-Event-ID header the request carries from the start *)
  cc_cancel_before : bool;        (* the context is done and observed by the first select *)
  cc_patience : option Z          (* the context is cancelled during any wait of at least this length
                                     (observed by the select before the timer fires) *)
}.

(* ---- the trace -------------------------------------------------------------------------------- *)
Inductive titem :=
| TRequest (hdr : option bytes) (body : option nat)  (* what the RoundTripper sees: Last-Event-ID; which body:
                                                        None = no body, Some 0 = the original, Some k = k-th GetBody result *)
| TEvent (e : event)                                 (* dispatched to the callbacks *)
| TOnRetry (err : cret) (d : Z).                     (* Client.OnRetry(err, d) *)

(* ---- Connection state ------------------------------------------------------------------------- *)
Record cstate := mkcs {
  cs_last_id : bytes;        (* c.lastEventID *)
  cs_is_retry : bool;        (* c.isRetry *)
  cs_hdr : option bytes;     (* c.request.Header["Last-Event-ID"] *)
  cs_body : option nat;      (* c.request.Body: which generation *)
  cs_gb_calls : nat;         (* GetBody calls so far *)
  cs_bc : bctl               (* the backoffController of this Connect call *)
}.

Definition cs_with_id (s : cstate) (id : bytes) : cstate :=
  mkcs id (cs_is_retry s) (cs_hdr s) (cs_body s) (cs_gb_calls s) (cs_bc s).
Definition cs_with_bc (s : cstate) (c : bctl) : cstate :=
  mkcs (cs_last_id s) (cs_is_retry s) (cs_hdr s) (cs_body s) (cs_gb_calls s) c.

(* resetRequestBody *)
Definition reset_body (k : body_kind) (s : cstate) : cstate + cerr :=
  match k with
  | BNone | BNoBody => inl s
  | BBody GBNone => inr CNoGetBody
  | BBody GBOk =>
      inl (mkcs (cs_last_id s) (cs_is_retry s) (cs_hdr s) (Some (S (cs_gb_calls s))) (S (cs_gb_calls s)) (cs_bc s))
  | BBody (GBFails after e) =>
      if (cs_gb_calls s <? after)%nat
      then inl (mkcs (cs_last_id s) (cs_is_retry s) (cs_hdr s) (Some (S (cs_gb_calls s))) (S (cs_gb_calls s)) (cs_bc s))
      else inr (CE (EReader e))
  end.

(* resetRequest *)
Definition reset_request (k : body_kind) (s : cstate) : cstate + cerr :=
  if negb (cs_is_retry s) then
    inl (mkcs (cs_last_id s) true (cs_hdr s) (cs_body s) (cs_gb_calls s) (cs_bc s))
  else
    match reset_body k s with
    | inr e => inr e
    | inl s1 =>
        inl (mkcs (cs_last_id s1) (cs_is_retry s1)
                  (match cs_last_id s1 with [] => None | id => Some id end)
                  (cs_body s1) (cs_gb_calls s1) (cs_bc s1))
    end.

(* Connection.read: the callback given to read() - an event is stored and dispatched, a retry
   field resets the backoff, an error ends the reading *)
Fixpoint read_stream (b : backoff) (s : cstate) (ys : list yield) : cstate * list titem * option serr :=
  match ys with
  | [] => (s, [], None)
  | YEv e :: r =>
      let '(s', items, x) := read_stream b (cs_with_id s (ev_id e)) r in (s', TEvent e :: items, x)
  | YRetry ms :: r =>
      read_stream b (cs_with_bc s (bc_reset b (cs_bc s) (ms_to_ns (Z.of_N ms)))) r
  | YErr e :: _ => (s, [], Some e)
  end.

Definition is_ctx (e : serr) : bool := match e with ECtx => true | _ => false end.

Definition wait_cancelled (cfg : ccfg) (w : Z) : bool :=
  match cc_patience cfg with Some p => p <=? w | None => false end.

(* the loop of Connect, one iteration per script step; None = the script is used up and Connect
   has not returned.  Third component: the Connection as the call leaves it (what a later Connect
   call on the same Connection finds - lastEventID, isRetry, the request's header and body; the
   backoff controller in it is dead, every call makes its own) *)
Fixpoint connect_loop_st (cfg : ccfg) (b : backoff) (s : cstate) (script : list step)
  : list titem * option cret * cstate :=
  match reset_request (cc_body cfg) s with
  | inr e => ([], Some (RConn RsReset e), s)   (* resetRequestBody failed: nothing was assigned *)
  | inl s1 =>
      match script with
      | [] => ([], None, s1)
      | st :: rest =>
          let req := TRequest (cs_hdr s1) (cs_body s1) in
          (* what follows a retryable attempt end (Connect, client_connection.go:215-224) *)
          let retry := fun (s2 : cstate) (items : list titem) (err : cret) =>
            let '(c', ans) := bc_next b (cs_bc s2) (st_elapsed st) (st_u st) in
            match ans with
            | None => (req :: items, Some err, s2)
            | Some w =>
                let items' := req :: items ++ (if cc_on_retry cfg then [TOnRetry err w] else []) in
                if wait_cancelled cfg w then (items', Some RCtx, cs_with_bc s2 c')
                else let '(tr, r, s') := connect_loop_st cfg b (cs_with_bc s2 c') rest in (items' ++ tr, r, s')
            end in
          match st_attempt st with
          | ATransportErr e => retry s1 [] (RConn RsConnect (CE (EReader e)))
          | ACtxErr => ([req], Some RCtx, s1)
          | ARejected e => ([req], Some (RConn RsValidate (CE (EReader e))), s1)
          | AStream body en =>
              let s2 := cs_with_bc s1 (bc_reset b (cs_bc s1) 0) in
              let '(s3, items, x) := read_stream b s2 (interp gosse_conn (cs_last_id s2) body en) in
              match x with
              | None => (req :: items, Some RNil, s3)   (* read returned nil: errors.Is(nil, ctx.Err()) holds for a live context *)
              | Some e => if is_ctx e then (req :: items, Some RCtx, s3)
                          else retry s3 items (RConn RsLost (CE e))
              end
          end
      end
  end.

(* trace and return value of one Connect call *)
Definition connect_loop (cfg : ccfg) (b : backoff) (s : cstate) (script : list step) : list titem * option cret :=
  fst (connect_loop_st cfg b s script).

Definition connect_init (cfg : ccfg) (b : backoff) : cstate :=
  mkcs [] false (cc_header cfg)
       (match cc_body cfg with BBody _ => Some O | _ => None end) O (bc_new b).

(* NewConnection (mergeDefaults) + Connect *)
Definition connect_run (cfg : ccfg) (script : list step) : list titem * option cret :=
  if cc_cancel_before cfg then ([], Some RCtx)
  else let b := merge_defaults (cc_backoff cfg) in connect_loop cfg b (connect_init cfg b) script.

(* ---- the same Connection connected again ------------------------------------------------------------
   Connect may return for a reason other than the context (retries exhausted; MaxRetries < 0, so that
   every call makes one attempt and the application loops itself; a validator or body-reset error) and be
   called again on the same *Connection.  What the new call finds is what the last one left on the
   Connection - lastEventID, isRetry (so its FIRST request is reset like any retry: body re-obtained, header
   set from lastEventID), the request - except the backoff controller, which every call makes anew
   (client_connection.go:198: interval = InitialInterval, no retries counted; a retry value the server sent
   during an earlier call is forgotten). *)
Definition call_state (b : backoff) (s : cstate) : cstate := cs_with_bc s (bc_new b).

(* is Connect called again?  Not after it returned the context's error (the context is done: nothing more
   would be requested) and not when the script ran out (the harness ends the run) *)
Definition calls_on (r : option cret) : bool :=
  match r with Some RCtx | None => false | Some _ => true end.

(* one script per call *)
Fixpoint connect_calls (cfg : ccfg) (b : backoff) (s : cstate) (scripts : list (list step))
  : list (list titem * option cret) :=
  match scripts with
  | [] => []
  | sc :: rest =>
      let '(tr, r, s') := connect_loop_st cfg b (call_state b s) sc in
      (tr, r) :: (if calls_on r then connect_calls cfg b s' rest else [])
  end.

Definition connect_runs (cfg : ccfg) (scripts : list (list step)) : list (list titem * option cret) :=
  if cc_cancel_before cfg then (match scripts with [] => [] | _ => [([], Some RCtx)] end)
  else let b := merge_defaults (cc_backoff cfg) in connect_calls cfg b (connect_init cfg b) scripts.

(* ---- projections of a trace -------------------------------------------------------------------- *)
Definition requests (tr : list titem) : list (option bytes * option nat) :=
  flat_map (fun i => match i with TRequest h b => [(h, b)] | _ => [] end) tr.
Definition dispatched (tr : list titem) : list event :=
  flat_map (fun i => match i with TEvent e => [e] | _ => [] end) tr.
Definition on_retries (tr : list titem) : list (cret * Z) :=
  flat_map (fun i => match i with TOnRetry e d => [(e, d)] | _ => [] end) tr.

(* ---- specification-side functions (from the property texts) ------------------------------------ *)
(* the ID a Connection must resume from after an attempt, given the one before it: the ID of the
   most recently dispatched event of the stream, if any event was dispatched *)
Definition id_after_attempt (lid : bytes) (a : attempt) : bytes :=
  match a with
  | AStream body en =>
      match rev (events_of (interp gosse_conn lid body en)) with
      | e :: _ => ev_id e
      | [] => lid
      end
  | _ => lid
  end.

Definition id_after (lid : bytes) (script : list step) : bytes :=
  fold_left (fun l st => id_after_attempt l (st_attempt st)) script lid.

Definition header_of (lid : bytes) : option bytes := match lid with [] => None | _ => Some lid end.

(* the error a stream ends with: "EOF after a terminated last line, UnexpectedEOF only for a clean
   end in mid-line, the reader's own error for a read error" *)
Definition is_eol (b : N) : bool := (b =? LF)%N || (b =? CR)%N.
Definition ends_mid_line (s : bytes) : bool :=
  match rev s with [] => false | b :: _ => negb (is_eol b) end.
Definition stream_error (body : bytes) (en : ending) : serr :=
  match en with
  | ReadError e => e
  | CleanEOF => if ends_mid_line (strip_bom body) then EUnexpectedEOF else EEOF
  end.

(* the error of an attempt that ended and may be retried; None: the attempt ends Connect *)
Definition attempt_error (a : attempt) : option cret :=
  match a with
  | ATransportErr e => Some (RConn RsConnect (CE (EReader e)))
  | AStream body en =>
      if is_ctx (stream_error body en) then None else Some (RConn RsLost (CE (stream_error body en)))
  | _ => None
  end.

(* the history the backoff controller sees during the attempts of a script (for C12) *)
Definition retries_of (ys : list yield) : list hop :=
  flat_map (fun y => match y with YRetry ms => [HRetry (Z.of_N ms)] | _ => [] end) ys.
