(* C17 on the LTS: a failing subscriber or replayer affects nobody else. *)
From GoSse Require Import Base JoeLts JoeLocal JoeProj JoePub JoeInv JoeSafety JoeHist JoeDeliver.
From Coq Require Import Lia.
Local Open Scope nat_scope.

(* ---- a subscriber's failure touches only that subscriber ------------------------------------ *)
(* the steps that handle subscriber j's failure *)
Definition failure_step (j : nat) (l : label) : bool :=
  match l with
  | LSend i (VErr _) | LFlush i (VErr _) | LFail i => Nat.eqb i j
  | _ => false
  end.

(* they leave every other subscriber's record, registration and place in the fan-out untouched *)
Lemma failure_local s l s' j i :
  failure_step j l = true -> step s l = Some s' -> pc s' <> Panicked -> i <> j ->
  sub s' i = sub s i /\ subs s' = subs s /\ mem i (todo_of (pc s')) = mem i (todo_of (pc s)) /\ order s' = order s.
Proof.
  intros F H Hp N. apply step_live_of in H. destruct H as [Hnp H].
  destruct l; try discriminate F; cbn [failure_step] in F;
    try (destruct v; try discriminate F); apply Nat.eqb_eq in F; subst;
    cbn [step_live] in H; cbv zeta in H; unfold send_done, close_done, recv1, panic in H; brk H;
    injection H as <-; eqs; simp_goal; try (exfalso; apply Hp; reflexivity);
    rewrite ?upd_other by (apply Nat.eqb_neq; exact N); repeat split; rw; simp_goal; try reflexivity.
  all: apply mem_rem_neq; apply Nat.eqb_neq; exact N.
Qed.

(* the removal that follows takes only j out of j.subscribers and closes only j's channel *)
Lemma failure_removal_local s s' j i p t :
  pc s = Removing p j t -> step s (LRemove j) = Some s' -> pc s' <> Panicked -> i <> j ->
  sub s' i = sub s i /\ mem i (subs s') = mem i (subs s) /\ mem i (todo_of (pc s')) = mem i (todo_of (pc s)).
Proof.
  intros Hpc H Hp N. apply step_live_of in H. destruct H as [Hnp H].
  cbn [step_live] in H; cbv zeta in H. rewrite Hpc in H. rewrite Nat.eqb_refl in H.
  unfold send_done, close_done, recv1, panic in H; brk H; injection H as <-; simp_goal;
    try (exfalso; apply Hp; reflexivity).
  rewrite !upd_other by (apply Nat.eqb_neq; exact N). rewrite Hpc. simp_goal.
  repeat split. apply mem_rem_neq. apply Nat.eqb_neq. exact N.
Qed.

(* only a subscriber for which a failure was recorded is removed for failure ... *)
Lemma removing_failed s p i t : Inv s -> pc s = Removing p i t -> s_fail (sub s i) <> None.
Proof.
  intros I Hpc E. pose proof (inv_sub _ I i) as O. unfold loc in O. rewrite Hpc, E in O.
  cbn [view_of todo_of] in O. rewrite Nat.eqb_refl in O. crush_ok O.
Qed.

Definition remfail_ok (s : state) (i : nat) : Prop :=
  forall e, s_rem (sub s i) = Some (e, RFail) -> s_fail (sub s i) <> None.

Lemma remfail_step s l s' i : Inv s -> remfail_ok s i -> step s l = Some s' -> remfail_ok s' i.
Proof.
  intros I C H. unfold remfail_ok in *.
  apply step_live_of in H. destruct H as [Hnp H].
  destruct l; cbn [step_live] in H; cbv zeta in H;
    unfold send_done, close_done, recv1, panic in H; brk H; injection H as <-; eqs; simp_goal;
    try assumption.
  all: try match goal with
       | |- context [upd _ ?j _ ?k0] =>
           let E := fresh "E" in
           destruct (Nat.eqb k0 j) eqn:E;
           [apply Nat.eqb_eq in E; subst; rewrite ?upd_same; simp_goal
           | rewrite ?(upd_other _ _ _ _ E)]
       end; try assumption.
  all: try (intros e0 He; discriminate He).
  all: try (intros e0 He; intros Hf; discriminate Hf).
  intros e0 He. eapply removing_failed; eauto.
Qed.

Lemma remfail_reachable s i : reachable s -> remfail_ok s i.
Proof.
  intros [ls H].
  assert (remfail_ok init i) as C0 by (intros e He; discriminate He).
  assert (reachable init) as R0 by (exists []; reflexivity).
  revert H C0 R0. generalize init. induction ls as [|l ls IH]; intros s0 H C0 R0; cbn in H.
  - now injection H as <-.
  - destruct (step s0 l) as [s1|] eqn:E; [|discriminate].
    eapply IH; [exact H| |eapply reachable_step; eauto]. eapply remfail_step; eauto. now apply inv_reachable.
Qed.

(* ... so a subscriber whose own calls never failed (no failure recorded) is never removed for
   failure, whatever the other subscribers' writers answer; and its deliveries are what C03 says *)
Theorem healthy_unaffected s i :
  reachable s -> s_fail (sub s i) = None ->
  (forall e, s_rem (sub s i) <> Some (e, RFail)) /\ sends (s_llog (sub s i)) = due s i.
Proof.
  intros R F. split; [|apply deliveries; exact R].
  intros e He. exact (remfail_reachable s i R e He F).
Qed.

(* ---- the replayer's Put error -------------------------------------------------------------------- *)
Record put_ok (s : state) (p : nat) : Prop := mkPutOk {
  q_buf_put : forall e, p_ebuf (pub s p) = Some e -> In (p, VErr e) (puts s);
  q_ret_err : forall e, p_pc (pub s p) = PRet (Some e) ->
              In (p, VErr e) (puts s) \/ (e = E_CLOSED /\ ~ In p (order s));
  q_ret_nil : p_pc (pub s p) = PRet None -> In p (order s);
  (* a Put error is on its way to the caller, or has been returned *)
  q_put_err : forall e, In (p, VErr e) (puts s) ->
              pc s = PutDone p (VErr e) \/ p_ebuf (pub s p) = Some e \/ p_pc (pub s p) = PRet (Some e);
  q_put_order : forall v, In (p, v) (puts s) -> In p (order s);
  q_wait_order : p_pc (pub s p) = PWait -> In p (order s);
  q_done_put : forall v, pc s = PutDone p v -> In (p, v) (puts s)
}.

Lemma active_wait s p : Inv s ->
  match pc s with GotMsg q | PutDone q _ => Nat.eqb p q | _ => false end = true ->
  p_pc (pub s p) = PWait /\ p_ebuf (pub s p) = None.
Proof.
  intros I A. pose proof (inv_pub _ I p) as O. unfold ploc in O.
  destruct (pc s) eqn:Hpc; try discriminate A; apply Nat.eqb_eq in A; subst;
    cbn [pview_of] in O; rewrite Nat.eqb_refl in O;
    destruct (p_pc (pub s _)) eqn:E1; destruct (p_ebuf (pub s _)) eqn:E2; try destruct v;
    cbn in O; try discriminate O; auto;
    destruct (p_eclosed (pub s _)); cbn in O; discriminate O.
Qed.

(* the entry of a table after an update at another / the same index *)
Ltac pub_upd :=
  try match goal with
  | |- context [upd (pub _) ?q _ ?p0] =>
      let E := fresh "E" in
      destruct (Nat.eqb p0 q) eqn:E;
      [apply Nat.eqb_eq in E; subst; rewrite ?upd_same; simp_goal
      | rewrite ?(upd_other _ _ _ _ E)]
  end.
Ltac pub_upd_in H :=
  try match type of H with
  | context [upd (pub _) ?q _ ?p0] =>
      let E := fresh "E" in
      destruct (Nat.eqb p0 q) eqn:E;
      [apply Nat.eqb_eq in E; subst; rewrite ?upd_same in H; simp_in_hyp H
      | rewrite ?(upd_other _ _ _ _ E) in H]
  end.

Lemma put_step s l s' p :
  Inv s -> Hist s -> put_ok s p -> step s l = Some s' -> pc s' <> Panicked -> put_ok s' p.
Proof.
  intros I HH [Q1 Q2 Q3 Q4 Q5 Q6 Q7] H Hp. split.
  - (* ebuf -> puts *)
    intros e He. step_cases H l; try (exfalso; apply Hp; reflexivity); simp_in_hyp He; simp_goal;
      pub_upd_in He; try discriminate He; try (apply in_or_app; left); eauto.
    all: try (injection He as <-; apply Q7; rw; reflexivity).
  - (* returned error *)
    intros e He. step_cases H l; try (exfalso; apply Hp; reflexivity); simp_in_hyp He; simp_goal;
      pub_upd_in He; try discriminate He; try (destruct (Q2 e He) as [A|[A B]]; [left|right; split]; eauto;
                                               try (apply in_or_app; left; exact A); fail).
    all: try (injection He as <-).
    + destruct (Q2 e He) as [A|[A B]]; [left; exact A|right; split; [exact A|]].
      intros Hi. apply in_app_or in Hi. destruct Hi as [Hi|[Hi|[]]]; [contradiction|].
      subst. rewrite Nat.eqb_refl in *. discriminate.
    + right. split; [reflexivity|]. intros Hi. destruct (h_frozen _ HH _ Hi) as [_ F]. contradiction.
    + left. apply Q1. assumption.
  - (* returned nil *)
    intros He. step_cases H l; try (exfalso; apply Hp; reflexivity); simp_in_hyp He; simp_goal;
      pub_upd_in He; try discriminate He; try (apply in_or_app; left); eauto.
  - (* a Put error is on its way or returned *)
    intros e He. step_cases H l; try (exfalso; apply Hp; reflexivity); simp_in_hyp He; simp_goal.
    all: try (destruct (Q4 e He) as [A|[A|A]]; [try congruence; left; exact A|right; left|right; right];
              pub_upd; simp_goal; try exact A; try congruence; fail).
    + (* PubRecv *)
      destruct (Q4 e He) as [A|[A|A]]; [left; exact A| |]; pub_upd; simp_goal.
      * right; right. congruence.
      * right; left. exact A.
      * congruence.
      * right; right. exact A.
    + (* LPut *)
      apply in_app_or in He. destruct He as [He|[He|[]]].
      * destruct (Q4 e He) as [A|[A|A]]; [congruence|right; left; exact A|right; right; exact A].
      * injection He as <- <-. left. reflexivity.
    + (* LPutRes with an error *)
      destruct (Q4 e He) as [A|[A|A]]; pub_upd; simp_goal.
      * right; left. congruence.
      * injection A as <- <-. rewrite Nat.eqb_refl in *. discriminate.
      * congruence.
      * right; left. exact A.
      * right; right. exact A.
      * right; right. exact A.
  - (* puts are in order *)
    intros v He. step_cases H l; try (exfalso; apply Hp; reflexivity); simp_in_hyp He; simp_goal;
      try (apply in_or_app; left); eauto.
    apply in_app_or in He. destruct He as [He|[He|[]]]; [eauto|]. injection He as <- <-.
    destruct (h_last _ HH p1) as [o Ho]; [rewrite Heql; reflexivity|]. rewrite Ho. apply in_or_app. right. now left.
  - (* waiting -> accepted *)
    intros He. step_cases H l; try (exfalso; apply Hp; reflexivity); simp_in_hyp He; simp_goal;
      pub_upd_in He; try discriminate He; try (solve [eauto]);
      apply in_or_app; first [left; solve [eauto] | right; now left].
  - (* PutDone -> the entry is there *)
    intros v He. step_cases H l; try (exfalso; apply Hp; reflexivity); simp_in_hyp He; simp_goal;
      try discriminate He; try (apply Q7; rw; exact He); eauto.
    all: try (injection He as <- <-; apply in_or_app; right; now left).
    all: congruence.
Qed.

Lemma put_init p : put_ok init p.
Proof. split; cbn; intros; try discriminate; try contradiction. Qed.

Lemma put_reachable s p : reachable s -> put_ok s p.
Proof.
  intros [ls H]. assert (reachable init) as R0 by (exists []; reflexivity).
  pose proof (put_init p) as C0.
  revert H C0 R0. generalize init. induction ls as [|l ls IH]; intros s0 H C0 R0; cbn in H.
  - now injection H as <-.
  - destruct (step s0 l) as [s1|] eqn:E; [|discriminate].
    eapply IH; [exact H| |eapply reachable_step; eauto].
    eapply put_step; eauto; [now apply inv_reachable|now apply hist_reachable|].
    eapply step_no_panic; eauto. now apply inv_reachable.
Qed.

(* Put answered error e for message p: that Publish call returns e (when it returns) ... *)
Theorem put_error_returned s p e r :
  reachable s -> In (p, VErr e) (puts s) -> p_pc (pub s p) = PRet r -> r = Some e.
Proof.
  intros R Hi Hr. pose proof (inv_reachable s R) as I.
  destruct (q_put_err _ _ (put_reachable s p R) e Hi) as [A|[A|A]].
  - destruct (active_wait s p I) as [W _]; [rewrite A; apply Nat.eqb_refl|]. congruence.
  - exfalso. pose proof (inv_pub _ I p) as O. unfold ploc in O. rewrite Hr, A in O.
    destruct (pview_of (pc s) p), (p_eclosed (pub s p)); cbn in O; discriminate O.
  - congruence.
Qed.

(* ... and the message is in the global order all the same, so it is fanned out like any other
   (C03: every registered matching subscriber's deliveries contain it) *)
Theorem put_error_still_published s p v : reachable s -> In (p, v) (puts s) -> In p (order s).
Proof. intros R. apply (q_put_order _ _ (put_reachable s p R)). Qed.

(* what Publish returns *)
Theorem publish_result s p r :
  reachable s -> p_pc (pub s p) = PRet r ->
  match r with
  | None => In p (order s)                                              (* delivered *)
  | Some e => In (p, VErr e) (puts s) \/ (e = E_CLOSED /\ ~ In p (order s)) (* Put's error, or refused *)
  end.
Proof.
  intros R Hr. destruct r as [e|].
  - apply (q_ret_err _ _ (put_reachable s p R) e Hr).
  - apply (q_ret_nil _ _ (put_reachable s p R) Hr).
Qed.

(* ---- a panicking replayer ------------------------------------------------------------------------ *)
(* the panic verdict of Put or Replay turns the replayer off ... *)
Lemma panic_disables s l s' :
  step s l = Some s' -> (exists p, l = LPut p VPanic) \/ (exists i, l = LReplayed i VPanic) -> rep s' = false.
Proof.
  intros H [[p ->]|[i ->]]; apply step_live_of in H; destruct H as [Hnp H];
    cbn [step_live] in H; brk H; injection H as <-; reflexivity.
Qed.

(* ... for good ... *)
Lemma rep_false_step s l s' : step s l = Some s' -> rep s = false -> rep s' = false.
Proof.
  intros H Hr. apply step_live_of in H. destruct H as [Hnp H].
  destruct l; cbn [step_live] in H; cbv zeta in H;
    unfold send_done, close_done, recv1, panic in H; brk H; injection H as <-; simp_goal;
    try exact Hr; try reflexivity; eqs; congruence.
Qed.

Lemma rep_false_run ls : forall s s', run s ls = Some s' -> rep s = false -> rep s' = false.
Proof.
  induction ls as [|l ls IH]; intros s s' H Hr; cbn in H.
  - now injection H as <-.
  - destruct (step s l) as [s1|] eqn:E; [|discriminate]. eapply IH; [exact H|]. eapply rep_false_step; eauto.
Qed.

(* ... and once it is off no label that calls it is enabled: Put, Replay, or a call the replayer
   would make on a subscriber's writer *)
Lemma no_replayer_call s :
  rep s = false ->
  (forall p v, step s (LPut p v) = None) /\ (forall i, step s (LReplay i) = None).
Proof.
  intros Hr. split; intros; unfold step, step_live; destruct (pc s); try reflexivity;
    rewrite Hr, andb_false_r; reflexivity.
Qed.

(* the call in which the panic happened goes on as without a replayer: the message is fanned out
   without any error being sent to Publish; the subscription is registered *)
Lemma put_panic_goes_on s p s1 :
  step s (LPut p VPanic) = Some s1 -> step s1 (LPutRes p) = Some (set_pc s1 (ErrsReady p)).
Proof.
  intros H. apply step_live_of in H. destruct H as [Hnp H]. cbn [step_live] in H. brk H. injection H as <-.
  unfold step. cbn. now rewrite Nat.eqb_refl.
Qed.

Lemma replay_panic_registers s i s1 :
  step s (LReplayed i VPanic) = Some s1 -> pc s1 = Registering i /\ step s1 (LReg i) <> None.
Proof.
  intros H. apply step_live_of in H. destruct H as [Hnp H]. cbn [step_live] in H. brk H. injection H as <-.
  split; [reflexivity|]. unfold step. cbn. rewrite Nat.eqb_refl. discriminate.
Qed.

(* ---- the statements over label sequences, as used in props/C17.v ------------------------------------ *)
Lemma healthy_unaffected_run ls s i :
  run init ls = Some s -> s_fail (sub s i) = None ->
  (forall e, s_rem (sub s i) <> Some (e, RFail)) /\ sends (s_llog (sub s i)) = due s i.
Proof. intros H. apply healthy_unaffected. eapply reach; eauto. Qed.
Lemma removed_for_failure_run ls s i e :
  run init ls = Some s -> s_rem (sub s i) = Some (e, RFail) -> s_fail (sub s i) <> None.
Proof. intros H. apply remfail_reachable. eapply reach; eauto. Qed.
Lemma put_error_returned_run ls s p e r :
  run init ls = Some s -> In (p, VErr e) (puts s) -> p_pc (pub s p) = PRet r -> r = Some e.
Proof. intros H. apply put_error_returned. eapply reach; eauto. Qed.
Lemma put_error_still_published_run ls s p v : run init ls = Some s -> In (p, v) (puts s) -> In p (order s).
Proof. intros H. apply put_error_still_published. eapply reach; eauto. Qed.
Lemma publish_result_run ls s p r :
  run init ls = Some s -> p_pc (pub s p) = PRet r ->
  match r with
  | None => In p (order s)
  | Some e => In (p, VErr e) (puts s) \/ (e = E_CLOSED /\ ~ In p (order s))
  end.
Proof. intros H. apply publish_result. eapply reach; eauto. Qed.
