(* Bridge between the replayer specification of C08/C09 (Fifo.spec_resume) and the shape of the
   replayer hypothesis of C04_no_gap_no_dup ("the entries after the presented one"). Pure list facts
   about Fifo.v; nothing about Joe. *)
From GoSse Require Import Base Fields Queue Replayers Fifo FifoFacts.
From Coq Require Import Lia.
Local Open Scope nat_scope.

(* the stored entries after the first one carrying the ID *)
Fixpoint after_id (id : bytes) (l : list entry) : list entry :=
  match l with
  | [] => []
  | e :: r => if bytes_eqb (e_id e) id then r else after_id id r
  end.

Lemma find_pos_after l id p : find_pos l id = Some p -> skipn (S p) l = after_id id l.
Proof.
  revert p. induction l as [|e l IH]; intros p H; cbn in H; [discriminate|]. cbn [after_id].
  destruct (bytes_eqb (e_id e) id).
  - injection H as <-. reflexivity.
  - destruct (find_pos l id) as [q|] eqn:F; [|discriminate]. injection H as <-.
    cbn [skipn]. apply IH. reflexivity.
Qed.

Lemma find_pos_lt l id p : find_pos l id = Some p -> p < length l.
Proof.
  revert p. induction l as [|e l IH]; intros p H; cbn in H; [discriminate|].
  destruct (bytes_eqb (e_id e) id).
  - injection H as <-. cbn. lia.
  - destruct (find_pos l id) as [q|] eqn:F; [|discriminate]. injection H as <-.
    cbn. specialize (IH q eq_refl). lia.
Qed.

(* the ID of a buffered event: the specification resumes with exactly the entries after it - or with
   nothing at all when it is the newest one (then there are none after it) *)
Theorem spec_resume_buffered l id auto p :
  find_pos l id = Some p ->
  match spec_resume l (Some id) auto with
  | Some es => es = after_id id l /\ es <> []
  | None => after_id id l = []
  end.
Proof.
  intros F. unfold spec_resume. rewrite F. pose proof (find_pos_lt l id p F) as L.
  pose proof (find_pos_after l id p F) as A.
  destruct (S p =? length l) eqn:E.
  - apply Nat.eqb_eq in E. rewrite <- A. apply skipn_all2. lia.
  - apply Nat.eqb_neq in E. split; [exact A|]. intros Hn.
    assert (length (skipn (S p) l) = 0) as Z by now rewrite Hn. rewrite skipn_length in Z. lia.
Qed.

(* and what the specification then sends, when no Send fails: every kept entry after the presented
   one, in buffer (= Put) order, then one Flush *)
Theorem spec_replay_buffered_all l keep id auto p :
  find_pos l id = Some p -> after_id id l <> [] ->
  spec_replay l keep (Some id) auto [] =
  (map (fun e => CSend (e_tok e) (e_id e)) (filter keep (after_id id l)) ++ [CFlush], 0%N).
Proof.
  intros F Hn. unfold spec_replay. pose proof (spec_resume_buffered l id auto p F) as R.
  destruct (spec_resume l (Some id) auto) as [es|]; [|contradiction].
  destruct R as [-> _]. apply spec_sends_all_ok.
Qed.
