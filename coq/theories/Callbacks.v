(* client_connection.go:30-160: the callback registry of a Connection.

     callbacks    map[string]map[int]EventCallback     type -> id -> callback
     callbacksAll map[int]EventCallback                id -> callback
     callbackID   int                                  next id

   A callback is represented by a [label] (which function it is); Go maps are
   association lists (insertion order; the iteration order of a Go map is
   unspecified, so everything observable is stated up to permutation).
   Every operation is atomic: addSubscriber/addSubscriberToAll and the
   returned removers hold mu.Lock for their whole body, dispatch holds
   mu.RLock for its whole body (client_connection.go:62,70,78,90,145).
   A remover is the closure returned by addSubscriber*: it captured the kind,
   the type and the id - that triple is a [handle]. *)
From GoSse Require Import Base.
Local Open Scope nat_scope.

Definition label := N.

Inductive handle := HEvent (t : bytes) (id : nat) | HAll (id : nat).

Definition handle_id (h : handle) : nat := match h with HEvent _ id => id | HAll id => id end.

Definition handle_eqb (a b : handle) : bool :=
  match a, b with
  | HEvent t i, HEvent t' i' => bytes_eqb t t' && (i =? i')
  | HAll i, HAll i' => i =? i'
  | _, _ => false
  end.

(* map[int]EventCallback *)
Definition imap := list (nat * label).

(* m[id] = cb *)
Fixpoint imap_set (id : nat) (l : label) (m : imap) : imap :=
  match m with
  | [] => [(id, l)]
  | (k, v) :: r => if k =? id then (id, l) :: r else (k, v) :: imap_set id l r
  end.

(* delete(m, id) *)
Definition imap_del (id : nat) (m : imap) : imap := filter (fun p => negb (fst p =? id)) m.

(* map[string]map[int]EventCallback *)
Definition tmap := list (bytes * imap).

Fixpoint tmap_get (t : bytes) (m : tmap) : option imap :=
  match m with
  | [] => None
  | (k, v) :: r => if bytes_eqb k t then Some v else tmap_get t r
  end.

Fixpoint tmap_set (t : bytes) (v : imap) (m : tmap) : tmap :=
  match m with
  | [] => [(t, v)]
  | (k, w) :: r => if bytes_eqb k t then (t, v) :: r else (k, w) :: tmap_set t v r
  end.

Definition tmap_del (t : bytes) (m : tmap) : tmap := filter (fun p => negb (bytes_eqb (fst p) t)) m.

Record reg := mkreg { cbs : tmap; cbs_all : imap; next_id : nat }.

Definition reg_empty : reg := mkreg [] [] 0.

(* addSubscriber, client_connection.go:77-98 *)
Definition add_subscriber (t : bytes) (l : label) (r : reg) : reg * handle :=
  let m := match tmap_get t (cbs r) with Some m => m | None => [] end in
  let id := next_id r in
  (mkreg (tmap_set t (imap_set id l m) (cbs r)) (cbs_all r) (S id), HEvent t id).

(* addSubscriberToAll, client_connection.go:61-75 *)
Definition add_subscriber_all (l : label) (r : reg) : reg * handle :=
  let id := next_id r in
  (mkreg (cbs r) (imap_set id l (cbs_all r)) (S id), HAll id).

(* the closures returned by the two functions above (lines 69-74, 89-97) *)
Definition remove (h : handle) (r : reg) : reg :=
  match h with
  | HAll id => mkreg (cbs r) (imap_del id (cbs_all r)) (next_id r)
  | HEvent t id =>
      match tmap_get t (cbs r) with
      | None => r  (* delete on a nil map and delete of an absent key are no-ops *)
      | Some m =>
          match imap_del id m with
          | [] => mkreg (tmap_del t (cbs r)) (cbs_all r) (next_id r)
          | m' => mkreg (tmap_set t m' (cbs r)) (cbs_all r) (next_id r)
          end
      end
  end.

(* dispatch, client_connection.go:144-160: who is invoked, in iteration order *)
Definition dispatch (t : bytes) (r : reg) : list (handle * label) :=
  map (fun p : nat * label => (HEvent t (fst p), snd p))
      (match tmap_get t (cbs r) with Some m => m | None => [] end)
  ++ map (fun p : nat * label => (HAll (fst p), snd p)) (cbs_all r).

Inductive op :=
| SubEvent (t : bytes) (l : label)
| SubAll (l : label)
| Remove (h : handle)
| Dispatch (t : bytes).

Inductive out :=
| OHandle (h : handle)
| ONone
| OInvoked (c : list (handle * label)).

Definition step (r : reg) (o : op) : reg * out :=
  match o with
  | SubEvent t l => let '(r', h) := add_subscriber t l r in (r', OHandle h)
  | SubAll l => let '(r', h) := add_subscriber_all l r in (r', OHandle h)
  | Remove h => (remove h r, ONone)
  | Dispatch t => (r, OInvoked (dispatch t r))
  end.

Fixpoint trace (r : reg) (ops : list op) : list out :=
  match ops with
  | [] => []
  | o :: rest => let '(r', x) := step r o in x :: trace r' rest
  end.

Fixpoint run_ops (r : reg) (ops : list op) : reg :=
  match ops with
  | [] => r
  | o :: rest => run_ops (fst (step r o)) rest
  end.

(* what VerifCallbackCount reports: callbacks registered per type (total), to-all, types *)
Definition counts (r : reg) : nat * nat * nat :=
  (fold_right (fun p n => length (snd p) + n) 0 (cbs r), length (cbs_all r), length (cbs r)).

(* ---- specification, written from the property text --------------------------
   The subscriptions in force are the ones added and not yet removed; the i-th
   subscription (counting both kinds) gets the handle number i. *)
Definition sub := (handle * label)%type.
Record spec := mks { sn : nat; sl : list sub }.
Definition spec_empty : spec := mks 0 [].

Definition spec_step (s : spec) (o : op) : spec :=
  match o with
  | SubEvent t l => mks (S (sn s)) (sl s ++ [(HEvent t (sn s), l)])
  | SubAll l => mks (S (sn s)) (sl s ++ [(HAll (sn s), l)])
  | Remove h => mks (sn s) (filter (fun e : sub => negb (handle_eqb (fst e) h)) (sl s))
  | Dispatch _ => s
  end.

Definition spec_run (s : spec) (ops : list op) : spec := fold_left spec_step ops s.

(* does a subscription receive events of type t? *)
Definition receives (t : bytes) (e : sub) : bool :=
  match fst e with HEvent t' _ => bytes_eqb t' t | HAll _ => true end.

(* who must be invoked for an event of type t after the history [ops] *)
Definition expected (ops : list op) (t : bytes) : list sub :=
  filter (receives t) (sl (spec_run spec_empty ops)).

(* the invocation log of a whole history: (position of the Dispatch, subscription) in invocation order *)
Fixpoint inv_log_from (i : nat) (outs : list out) : list (nat * sub) :=
  match outs with
  | [] => []
  | OInvoked c :: rest => map (fun e => (i, e)) c ++ inv_log_from (S i) rest
  | _ :: rest => inv_log_from (S i) rest
  end.
Definition inv_log (ops : list op) : list (nat * sub) := inv_log_from 0 (trace reg_empty ops).

(* the positions at which the subscription with handle h was invoked, in invocation order *)
Definition seen_by (h : handle) (log : list (nat * sub)) : list nat :=
  map fst (filter (fun x : nat * sub => handle_eqb (fst (snd x)) h) log).

(* the handles handed out by the subscription operations of a history, in order *)
Definition issued (outs : list out) : list handle :=
  flat_map (fun o => match o with OHandle h => [h] | _ => [] end) outs.

(* the subscriptions in force after a history, and their handles *)
Definition live (ops : list op) : list sub := sl (spec_run spec_empty ops).
Definition live_handles (ops : list op) : list handle := map fst (live ops).

(* removal of one subscription from a list of subscriptions *)
Definition others (h : handle) (L : list sub) : list sub :=
  filter (fun e : sub => negb (handle_eqb (fst e) h)) L.
