(* Both replayer specifications hold, at every moment, a SUFFIX of the accepted puts - the one shape
   the end-to-end composition (EndToEndBounded.v, [keep]) needs of a replayer.  For the ValidReplayer
   specification: after any history of Put / Replay / GC / interval assignments, with any clock readings,
   what it stores is the last k accepted entries for some k (collection only ever removes a prefix). *)
From GoSse Require Import Base Fields Queue Replayers Fifo FifoFacts.
Local Open Scope nat_scope.

Definition is_suffix {A} (a l : list A) : Prop := exists p, l = p ++ a.

Lemma suffix_refl {A} (l : list A) : is_suffix l l.
Proof. now exists []. Qed.
Lemma suffix_trans {A} (a b c : list A) : is_suffix a b -> is_suffix b c -> is_suffix a c.
Proof. intros [p ->] [q ->]. exists (q ++ p). now rewrite app_assoc. Qed.
Lemma suffix_app {A} (a l x : list A) : is_suffix a l -> is_suffix (a ++ x) (l ++ x).
Proof. intros [p ->]. exists p. now rewrite app_assoc. Qed.
Lemma suffix_lastn {A} (a l : list A) : is_suffix a l -> a = lastn (length a) l.
Proof.
  intros [p ->]. unfold lastn. rewrite app_length.
  replace (length p + length a - length a) with (length p + 0) by lia.
  rewrite skipn_app, Nat.add_0_r, skipn_all. replace (length p - length p) with 0 by lia. reflexivity.
Qed.

Lemma collect_suffix (l : list entry) now : is_suffix (collect l now) l.
Proof.
  induction l as [|e r IH]; [apply suffix_refl|]. cbn [collect]. destruct (now <? e_exp e)%Z; [apply suffix_refl|].
  destruct IH as [p Hp]. exists (e :: p). cbn [app]. now f_equal.
Qed.

(* the entry an accepted Put stores *)
Definition vs_accepts (s : vspec) (op : vop) : list entry :=
  match op with
  | VPut now m_id tok topics =>
      match snd (vs_put s now m_id tok topics) with
      | PutOk id => [mke id topics tok (now + vs_ttl s)%Z]
      | PutErr _ => []
      end
  | _ => []
  end.

Fixpoint vs_accepted' (s : vspec) (ops : list vop) : list entry :=
  match ops with
  | [] => []
  | op :: r => vs_accepts s op ++ vs_accepted' (fst (vs_step s op)) r
  end.

Lemma vs_step_suffix s op hist :
  is_suffix (vs_l s) hist -> is_suffix (vs_l (fst (vs_step s op))) (hist ++ vs_accepts s op).
Proof.
  intros H. destruct op as [now m_id tok topics|now id topics script|now|now g]; cbn [vs_step vs_accepts].
  - unfold vs_put. destruct topics as [|t ts].
    + cbn [fst snd]. now rewrite app_nil_r.
    + set (due := ((0 <? vs_gci s)%Z && _)%bool).
      assert (H1 : is_suffix (if due then collect (vs_l s) now else vs_l s) hist).
      { destruct due; [|exact H]. eapply suffix_trans; [apply collect_suffix|exact H]. }
      destruct (spec_put_id m_id (vs_next s) (t :: ts)) as [e|[id next']]; cbn [fst snd vs_l].
      * now rewrite app_nil_r.
      * now apply suffix_app.
  - cbn [fst]. now rewrite app_nil_r.
  - cbn [fst vs_gc vs_l]. rewrite app_nil_r. eapply suffix_trans; [apply collect_suffix|exact H].
  - cbn [fst vs_l]. now rewrite app_nil_r.
Qed.

Theorem vs_holds_a_suffix : forall ops s hist,
  is_suffix (vs_l s) hist -> is_suffix (vs_l (vs_after s ops)) (hist ++ vs_accepted' s ops).
Proof.
  induction ops as [|op ops IH]; intros s hist H; cbn [vs_after vs_accepted'].
  - now rewrite app_nil_r.
  - rewrite app_assoc. apply IH. now apply vs_step_suffix.
Qed.

(* the same sequence as FifoFacts.vs_accepted (what C09's other theorems speak of) *)
Lemma vs_accepted_eq : forall ops s, vs_accepted' s ops = vs_accepted s ops.
Proof.
  induction ops as [|op ops IH]; intros s; [reflexivity|]. cbn [vs_accepted' vs_accepted]. rewrite IH.
  destruct op as [now m_id tok topics|now id topics script|now|now g]; try reflexivity.
  cbn [vs_accepts]. unfold vs_put. destruct topics as [|t ts]; [reflexivity|].
  destruct (spec_put_id m_id (vs_next s) (t :: ts)) as [e|[id next']]; reflexivity.
Qed.

(* from the empty replayer: the stored entries are the last k accepted ones *)
Theorem valid_is_lastn ttl auto gci ops :
  let s := vs_after (vs_new ttl auto gci) ops in
  vs_l s = lastn (length (vs_l s)) (vs_accepted (vs_new ttl auto gci) ops).
Proof.
  cbv zeta. apply suffix_lastn. rewrite <- vs_accepted_eq.
  exact (vs_holds_a_suffix ops (vs_new ttl auto gci) [] (suffix_refl [])).
Qed.

Theorem vs_holds_a_suffix_facts : forall ops s hist,
  is_suffix (vs_l s) hist -> is_suffix (vs_l (vs_after s ops)) (hist ++ vs_accepted s ops).
Proof. intros ops s hist H. rewrite <- vs_accepted_eq. now apply vs_holds_a_suffix. Qed.
