(* C13 under every schedule: the lock-level transition system of CallbacksLts.v performs exactly
   the invocations of the atomic history a schedule amounts to; a remover that has returned is
   final whatever runs concurrently. *)
From Coq Require Import Permutation Sorted.
From GoSse Require Import Base Callbacks CallbacksProofs CallbacksTheorems CallbacksLts.
Local Open Scope nat_scope.

(* the atomic invocation log read off the trace: the outputs of the Dispatches, numbered 1, 2, ... *)
Fixpoint tag_events (ev : nat) (outs : list out) : list (nat * sub) :=
  match outs with
  | [] => []
  | OInvoked c :: r => map (fun e => (S ev, e)) c ++ tag_events (S ev) r
  | _ :: r => tag_events ev r
  end.

Definition ndisp (ops : list op) : nat :=
  length (filter (fun o => match o with Dispatch _ => true | _ => false end) ops).

Lemma arun_from ops : forall r ev log,
  fold_left astep ops (r, ev, log) = (run_ops r ops, ev + ndisp ops, log ++ tag_events ev (trace r ops)).
Proof.
  induction ops as [|o ops IH]; intros r ev log.
  - cbn. now rewrite Nat.add_0_r, app_nil_r.
  - cbn [fold_left run_ops trace]. destruct o as [t l|l|h|t]; unfold ndisp; cbn [astep step filter length];
      fold (ndisp ops).
    + rewrite IH. destruct (add_subscriber t l r) as [r' h']. cbn [fst tag_events]. reflexivity.
    + rewrite IH. destruct (add_subscriber_all l r) as [r' h']. cbn [fst tag_events]. reflexivity.
    + rewrite IH. cbn [fst tag_events]. reflexivity.
    + rewrite IH. cbn [fst tag_events]. now rewrite <- app_assoc, Nat.add_succ_r.
Qed.

Lemma alog_trace ops : alog ops = tag_events 0 (trace reg_empty ops).
Proof. unfold alog, arun. now rewrite arun_from. Qed.

Lemma arun_app a b : arun (a ++ b) = fold_left astep b (arun a).
Proof. apply fold_left_app. Qed.

(* ---- the schedule invariant ---------------------------------------------------------------- *)
Definition pending_list (st : cstate) : list sub := match c_pending st with Some l => l | None => [] end.

Definition cinv (st : cstate) (ops : list op) : Prop :=
  let '(r, ev, log) := arun ops in
  c_reg st = r /\ c_ev st = ev /\ c_log st ++ map (fun e => (c_ev st, e)) (pending_list st) = log.

Lemma cinv_init : cinv cs_init [].
Proof. cbn. auto. Qed.

Lemma cstep_inv st ops a st' : cinv st ops -> cstep st a = Some st' -> cinv st' (ops ++ proj_act a).
Proof.
  unfold cinv. intros Hinv Hstep. rewrite arun_app.
  destruct (arun ops) as [[r ev] log]. destruct Hinv as (Hr & Hev & Hlog).
  destruct a as [o| t | |]; cbn [cstep] in Hstep.
  - destruct o as [t l|l|h|t]; try discriminate;
      (unfold pending_list in Hlog; destruct (c_pending st) eqn:Ep; [discriminate|]);
      injection Hstep as <-; cbn [proj_act fold_left astep c_reg c_ev c_log pending_list c_pending map];
      cbn [map] in Hlog; rewrite Hr; auto.
  - unfold pending_list in Hlog. destruct (c_pending st) eqn:Ep; [discriminate|].
    injection Hstep as <-. cbn [proj_act fold_left astep c_reg c_ev c_log pending_list c_pending].
    cbn [map] in Hlog. rewrite app_nil_r in Hlog. rewrite Hr, Hev, Hlog. auto.
  - unfold pending_list in Hlog. destruct (c_pending st) as [[|x rest]|] eqn:Ep; try discriminate.
    injection Hstep as <-. cbn [proj_act fold_left c_reg c_ev c_log pending_list c_pending].
    split; [exact Hr|]. split; [exact Hev|]. rewrite <- Hlog. cbn [map]. now rewrite <- app_assoc.
  - unfold pending_list in Hlog. destruct (c_pending st) as [[|x rest]|] eqn:Ep; try discriminate.
    injection Hstep as <-. cbn [proj_act fold_left c_reg c_ev c_log pending_list c_pending].
    split; [exact Hr|]. split; [exact Hev|]. rewrite <- Hlog. reflexivity.
Qed.

Lemma proj_app a b : proj (a ++ b) = proj a ++ proj b.
Proof. unfold proj. apply flat_map_app. Qed.

Lemma crun_inv acts : forall st ops st', cinv st ops -> crun st acts = Some st' -> cinv st' (ops ++ proj acts).
Proof.
  induction acts as [|a acts IH]; intros st ops st' Hinv Hrun.
  - cbn in Hrun. injection Hrun as <-. cbn. now rewrite app_nil_r.
  - cbn [crun] in Hrun. destruct (cstep st a) as [st1|] eqn:Es; [|discriminate].
    change (a :: acts) with ([a] ++ acts). rewrite proj_app, app_assoc.
    apply (IH st1); [|exact Hrun]. unfold proj. cbn [flat_map]. rewrite app_nil_r. now apply (cstep_inv st).
Qed.

Lemma crun_app a : forall st b,
  crun st (a ++ b) = match crun st a with Some st' => crun st' b | None => None end.
Proof.
  induction a as [|x a IH]; intros st b; [reflexivity|].
  cbn [app crun]. destruct (cstep st x); [apply IH|reflexivity].
Qed.

(* the log only grows *)
Lemma cstep_log st a st' : cstep st a = Some st' -> exists new, c_log st' = c_log st ++ new.
Proof.
  destruct a as [o| t | |]; cbn [cstep]; intros H.
  - destruct o; try discriminate; destruct (c_pending st); try discriminate; injection H as <-;
      exists []; cbn; now rewrite app_nil_r.
  - destruct (c_pending st); try discriminate. injection H as <-. exists []. cbn. now rewrite app_nil_r.
  - destruct (c_pending st) as [[|x r]|]; try discriminate. injection H as <-. now exists [(c_ev st, x)].
  - destruct (c_pending st) as [[|x r]|]; try discriminate. injection H as <-. exists []. cbn. now rewrite app_nil_r.
Qed.

Lemma crun_log acts : forall st st', crun st acts = Some st' -> exists new, c_log st' = c_log st ++ new.
Proof.
  induction acts as [|a acts IH]; intros st st' H.
  - cbn in H. injection H as <-. exists []. now rewrite app_nil_r.
  - cbn [crun] in H. destruct (cstep st a) as [st1|] eqn:Es; [|discriminate].
    destruct (cstep_log _ _ _ Es) as [n1 H1]. destruct (IH _ _ H) as [n2 H2].
    exists (n1 ++ n2). now rewrite H2, H1, app_assoc.
Qed.

(* ---- every schedule is a history of the atomic model ------------------------------------------ *)
(* Whatever the interleaving, when no dispatch is in progress the registry is the atomic
   model's after the history [proj acts], and the invocations performed so far are exactly the
   atomic model's, in the same order; in the middle of a dispatch, the log plus what that
   dispatch still has to invoke. *)
Theorem schedule_is_atomic_history acts st :
  crun cs_init acts = Some st ->
  c_reg st = run_ops reg_empty (proj acts) /\
  c_log st ++ map (fun e => (c_ev st, e)) (pending_list st) = tag_events 0 (trace reg_empty (proj acts)).
Proof.
  intros H. pose proof (crun_inv acts cs_init [] st cinv_init H) as Hinv. cbn [app] in Hinv.
  unfold cinv in Hinv. rewrite <- alog_trace. unfold alog.
  unfold arun in *. rewrite arun_from in *. cbn [snd]. destruct Hinv as (Hr & _ & Hl). split; [exact Hr|exact Hl].
Qed.

(* ---- a remover that has returned is final ------------------------------------------------------ *)
Lemma dispatch_after_remove ops1 h ops' t :
  In h (issued (trace reg_empty ops1)) ->
  ~ In h (map fst (dispatch t (run_ops reg_empty (ops1 ++ Remove h :: ops')))).
Proof.
  intros Hiss Hin.
  pose proof (reach_inv (ops1 ++ Remove h :: ops')) as Hinv.
  pose proof (dispatch_perm t _ _ Hinv) as Hp.
  apply (Permutation_in _ (Permutation_map fst Hp)) in Hin.
  apply in_map_iff in Hin as [x [Hx Hx2]]. apply filter_In in Hx2 as [Hx2 _].
  assert (Hin : In h (map fst (sl (spec_run spec_empty (ops1 ++ Remove h :: ops')))))
    by (apply in_map_iff; now exists x).
  rewrite spec_run_app in Hin. cbn [spec_run fold_left] in Hin.
  revert Hin. apply spec_never_back.
  - cbn [spec_step sn]. apply issued_below in Hiss.
    rewrite <- (inv_next _ _ (reach_inv ops1)). lia.
  - apply spec_removed.
Qed.

Lemma after_remove_extra ops1 h :
  In h (issued (trace reg_empty ops1)) ->
  forall ops2 ops' ev log,
  exists extra,
    snd (fold_left astep ops2 (run_ops reg_empty (ops1 ++ Remove h :: ops'), ev, log)) = log ++ extra /\
    Forall (fun x : nat * sub => fst (snd x) <> h) extra.
Proof.
  intros Hiss. induction ops2 as [|o ops2 IH]; intros ops' ev log.
  - exists []. cbn. split; [now rewrite app_nil_r|constructor].
  - cbn [fold_left].
    assert (Hnext : fst (step (run_ops reg_empty (ops1 ++ Remove h :: ops')) o)
                    = run_ops reg_empty (ops1 ++ Remove h :: (ops' ++ [o]))).
    { rewrite (app_comm_cons ops' [o] (Remove h)), app_assoc.
      rewrite (run_ops_app (ops1 ++ Remove h :: ops') reg_empty [o]). reflexivity. }
    destruct o as [t l|l|h'|t]; cbn [astep].
    + rewrite Hnext. apply IH.
    + rewrite Hnext. apply IH.
    + rewrite Hnext. apply IH.
    + cbn [step fst] in Hnext.
      destruct (IH (ops' ++ [Dispatch t]) (S ev)
                   (log ++ map (fun e => (S ev, e)) (dispatch t (run_ops reg_empty (ops1 ++ Remove h :: ops')))))
        as (extra & He & Hf).
      rewrite <- Hnext in He.
      exists (map (fun e => (S ev, e)) (dispatch t (run_ops reg_empty (ops1 ++ Remove h :: ops'))) ++ extra).
      split; [now rewrite He, app_assoc|].
      apply Forall_app. split; [|exact Hf].
      apply Forall_forall. intros x Hx. apply in_map_iff in Hx as [e [<- He']]. cbn [snd].
      intros Heq. apply (dispatch_after_remove ops1 h ops' t Hiss). apply in_map_iff. now exists e.
Qed.

(* For every schedule: once the remover of a subscription handed out earlier has returned
   (its step [AOp (Remove h)] has happened), no invocation performed afterwards - by the
   dispatch in progress or any later one, whatever other goroutines do meanwhile - is of that
   subscription. *)
Theorem schedule_remove_final a1 h a2 st :
  In h (issued (trace reg_empty (proj a1))) ->
  crun cs_init (a1 ++ AOp (Remove h) :: a2) = Some st ->
  exists mid new, crun cs_init (a1 ++ [AOp (Remove h)]) = Some mid /\
                  c_log st = c_log mid ++ new /\
                  Forall (fun x : nat * sub => fst (snd x) <> h) new.
Proof.
  intros Hiss Hrun.
  change (AOp (Remove h) :: a2) with ([AOp (Remove h)] ++ a2) in Hrun. rewrite app_assoc, crun_app in Hrun.
  destruct (crun cs_init (a1 ++ [AOp (Remove h)])) as [mid|] eqn:Emid; [|discriminate].
  destruct (crun_log _ _ _ Hrun) as [new Hnew].
  exists mid, new. split; [reflexivity|]. split; [exact Hnew|].
  (* the remover ran with no dispatch in progress *)
  assert (Hpend : c_pending mid = None).
  { rewrite crun_app in Emid. destruct (crun cs_init a1) as [s1|]; [|discriminate].
    cbn [crun cstep] in Emid. destruct (c_pending s1); [discriminate|]. now injection Emid as <-. }
  pose proof (crun_inv _ _ _ _ cinv_init Emid) as Hmid. cbn [app] in Hmid.
  pose proof (crun_inv _ _ _ _ Hmid Hrun) as Hfin.
  rewrite proj_app in *. change (proj [AOp (Remove h)]) with [Remove h] in *.
  unfold cinv in Hmid, Hfin. rewrite arun_app in Hfin.
  destruct (arun (proj a1 ++ [Remove h])) as [[r ev] log] eqn:Ea. destruct Hmid as (Hr & Hev & Hlog).
  unfold pending_list in Hlog. rewrite Hpend in Hlog. cbn [map] in Hlog. rewrite app_nil_r in Hlog.
  assert (Hreg : r = run_ops reg_empty (proj a1 ++ Remove h :: [])).
  { unfold arun in Ea. rewrite arun_from in Ea. now injection Ea as <- _ _. }
  destruct (after_remove_extra (proj a1) h Hiss (proj a2) [] ev log) as (extra & He & Hf).
  rewrite <- Hreg in He.
  destruct (fold_left astep (proj a2) (r, ev, log)) as [[r2 ev2] log2]. cbn [snd] in He. subst log2.
  destruct Hfin as (_ & _ & Hl2). rewrite Hnew, Hlog, <- app_assoc in Hl2. apply app_inv_head in Hl2.
  rewrite <- Hl2 in Hf. apply Forall_app in Hf. now destruct Hf.
Qed.
