(* "The lines of a string": every CR, LF or CR LF is one line break and a final
   break does not open another line.  Written byte by byte, independently of
   NewlineIndex/NextChunk, and proved equal to what appendText produces. *)
From GoSse Require Import Base Lines Fields Queue FieldParser Message MessageProofs Whatwg.
Local Open Scope nat_scope.

Fixpoint text_lines_aux (cur : bytes) (after_cr : bool) (s : bytes) : list bytes :=
  match s with
  | [] => match cur with [] => [] | _ => [cur] end
  | b :: r =>
      if after_cr && (b =? LF)%N then text_lines_aux cur false r
      else if (b =? LF)%N then cur :: text_lines_aux [] false r
      else if (b =? CR)%N then cur :: text_lines_aux [] true r
      else text_lines_aux (cur ++ [b]) false r
  end.
Definition text_lines (s : bytes) : list bytes := text_lines_aux [] false s.

Lemma text_lines_aux_cr_flag r :
  match r with c :: _ => (c =? LF)%N = false | [] => True end ->
  text_lines_aux [] true r = text_lines_aux [] false r.
Proof. destruct r as [|c r]; [reflexivity|]. intros H. cbn [text_lines_aux]. rewrite H. reflexivity. Qed.

Lemma text_lines_aux_unfold : forall s cur,
  text_lines_aux cur false s =
  let '(i, l) := newline_index s in
  if (l =? 0) then match cur ++ s with [] => [] | x => [x] end
  else (cur ++ firstn i s) :: text_lines_aux [] false (skipn (i + l) s).
Proof.
  induction s as [|b r IH]; intros cur.
  - cbn. rewrite List.app_nil_r. destruct cur; reflexivity.
  - cbn [text_lines_aux newline_index andb]. unfold is_nl.
    destruct (N.eqb_spec b LF) as [->|Hlf].
    + cbn [orb]. change (LF =? CR)%N with false. cbn [andb Nat.eqb firstn skipn Nat.add]. now rewrite List.app_nil_r.
    + destruct (N.eqb_spec b CR) as [->|Hcr]; cbn [orb].
      * destruct r as [|c r'].
        -- cbn. now rewrite List.app_nil_r.
        -- destruct (N.eqb_spec c LF) as [->|Hc]; cbn [andb Nat.eqb firstn skipn Nat.add]; rewrite List.app_nil_r.
           ++ cbn [text_lines_aux andb]. change (LF =? LF)%N with true. reflexivity.
           ++ rewrite text_lines_aux_cr_flag; [reflexivity|]. now apply N.eqb_neq.
      * rewrite IH. destruct (newline_index r) as [i l]. destruct (Nat.eqb_spec l 0).
        -- rewrite <- app_assoc. reflexivity.
        -- cbn [firstn skipn Nat.add]. rewrite <- app_assoc. reflexivity.
Qed.

Lemma newline_index_nolen s i : newline_index s = (i, 0) -> i = length s /\ no_nl s.
Proof.
  intros H. assert (Hz : snd (newline_index s) = 0) by now rewrite H.
  apply newline_index_zero_len in Hz. split; [|assumption].
  rewrite (newline_index_no_nl s Hz) in H. now injection H.
Qed.

(* appendText's loop computes exactly the lines of the string *)
Theorem split_chunks_text_lines : forall fuel s, length s <= fuel -> split_chunks fuel s = text_lines s.
Proof.
  induction fuel as [|f IH]; intros s Hlen.
  - destruct s; [reflexivity|cbn in Hlen; lia].
  - destruct s as [|b r]; [reflexivity|]. unfold text_lines. rewrite text_lines_aux_unfold.
    cbn [split_chunks]. unfold next_chunk.
    pose proof (newline_index_bounds (b :: r)) as Hb.
    destruct (newline_index (b :: r)) as [i l] eqn:E.
    destruct (Nat.eqb_spec l 0) as [->|Hl].
    + apply newline_index_nolen in E as [-> _]. rewrite firstn_all, Nat.add_0_r, skipn_all.
      destruct f; reflexivity.
    + cbn [app]. f_equal. apply IH. rewrite skipn_length. cbn [length] in *. lia.
Qed.

(* the LF-join of lines *)
Fixpoint join_lf (ls : list bytes) : bytes :=
  match ls with
  | [] => []
  | [l] => l
  | l :: r => l ++ LF :: join_lf r
  end.

Lemma strip_last_lf_app a b : b <> [] -> Whatwg.strip_last_lf (a ++ b) = a ++ Whatwg.strip_last_lf b.
Proof.
  intros Hb. induction a as [|x a IH]; [reflexivity|]. cbn [app].
  change (Whatwg.strip_last_lf (x :: a ++ b)) with
    (match a ++ b with [] => if (x =? LF)%N then [] else [x] | _ => x :: Whatwg.strip_last_lf (a ++ b) end).
  destruct (a ++ b) eqn:E; [apply app_eq_nil in E as [_ ->]; congruence|]. now rewrite IH.
Qed.

Lemma strip_data_buf ls :
  Whatwg.strip_last_lf (concat (map (fun l => l ++ [LF]) ls)) = join_lf ls.
Proof.
  induction ls as [|l r IH]; [reflexivity|]. cbn [map concat].
  destruct r as [|l2 r'].
  - cbn [map concat join_lf]. rewrite List.app_nil_r, strip_last_lf_app by discriminate. cbn. now rewrite List.app_nil_r.
  - rewrite strip_last_lf_app.
    2:{ cbn. destruct l2; discriminate. }
    rewrite IH. cbn [join_lf]. rewrite <- app_assoc. reflexivity.
Qed.

(* the same function with the current line accumulated in reverse (linear time); used by the
   extracted oracles *)
(* [List.rev] appends at the end (quadratic); [rev_append _ []] is the same list in linear time *)
Definition frev (l : bytes) : bytes := rev_append l [].
Lemma frev_eq l : frev l = rev l.
Proof. unfold frev. symmetry. apply rev_alt. Qed.

Fixpoint text_lines_fast_aux (rcur : bytes) (after_cr : bool) (s : bytes) : list bytes :=
  match s with
  | [] => match rcur with [] => [] | _ => [frev rcur] end
  | b :: r =>
      if after_cr && (b =? LF)%N then text_lines_fast_aux rcur false r
      else if (b =? LF)%N then frev rcur :: text_lines_fast_aux [] false r
      else if (b =? CR)%N then frev rcur :: text_lines_fast_aux [] true r
      else text_lines_fast_aux (b :: rcur) false r
  end.
Definition text_lines_fast (s : bytes) : list bytes := text_lines_fast_aux [] false s.

Lemma text_lines_fast_aux_eq : forall s rcur cr, text_lines_fast_aux rcur cr s = text_lines_aux (rev rcur) cr s.
Proof.
  induction s as [|b r IH]; intros rcur cr; cbn [text_lines_fast_aux text_lines_aux]; rewrite ?frev_eq.
  - destruct rcur as [|x rc]; [reflexivity|]. cbn [rev]. destruct (rev rc ++ [x]) eqn:E; [destruct (rev rc); discriminate|reflexivity].
  - destruct (cr && (b =? LF)%N); [apply IH|].
    destruct (b =? LF)%N; [f_equal; apply (IH [] false)|].
    destruct (b =? CR)%N; [f_equal; apply (IH [] true)|]. apply (IH (b :: rcur) false).
Qed.
Theorem text_lines_fast_eq s : text_lines_fast s = text_lines s.
Proof. apply (text_lines_fast_aux_eq s [] false). Qed.
