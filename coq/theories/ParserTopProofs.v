(* The end-to-end theorems of C01 / C20 on the whole model stack (Scanner + splitFunc + FieldParser + Parser +
   read loop), for every reader script:
   - parser_fields : from the initial parser of either entry point, Parser.Next hands out the fields of lines
                     LS and ends with the error of the unterminated rest tl, where (LS, tl) interpret to
                     Whatwg.interp of the concatenated stream - including a leading BOM, which is removed iff
                     no byte was skipped before the first token (the wrapper in parser.New);
   - read_run_spec : read_run = firstn' stop (vis (interp ...)) whenever every group fits the limit. *)
From GoSse Require Import Base Lines FieldParser Whatwg WhatwgLines Split Scanner Reader ReadLoop Yields
     LineStepProofs ReadLoopProofs SplitProofs ScannerProofs PathProofs FieldLinesProofs ParserSizeProofs RunParse
     GroupProofs ScanMoreProofs ParserFieldsProofs.
From GoSse.Gen Require Import Params.
From Coq Require Import ZifyN ZifyNat ZifyBool.
Local Open Scope nat_scope.

(* ---- the byte order mark ------------------------------------------------------------------------------------ *)
Lemma strip_bom_prefix s : strip_bom s = if is_prefix bom s then skipn 3 s else s.
Proof.
  destruct s as [|a [|b [|c t]]]; unfold bom; cbn [is_prefix strip_bom skipn];
    rewrite ?(N.eqb_sym 239%N), ?(N.eqb_sym 187%N), ?(N.eqb_sym 191%N);
    repeat match goal with |- context [(?x =? ?y)%N] => destruct (x =? y)%N end; reflexivity.
Qed.

Lemma strip_bom_nl x r : is_nl x = true -> strip_bom (x :: r) = x :: r.
Proof.
  intros Hx. destruct r as [|b [|c t]]; try reflexivity. cbn [strip_bom].
  destruct (x =? 239)%N eqn:E; [apply N.eqb_eq in E; subst; discriminate|reflexivity].
Qed.

Lemma prefix_short p : forall t r, is_prefix p (t ++ r) = true -> is_prefix p t = false -> Forall (fun b => In b p) t.
Proof.
  induction p as [|a p IH]; intros t r H1 H2; [destruct t; discriminate|].
  destruct t as [|b t]; [constructor|]. cbn [app is_prefix] in *.
  apply andb_true_iff in H1 as [Ha H1]. rewrite Ha in H2. cbn [andb] in H2. apply N.eqb_eq in Ha. subst b.
  constructor; [now left|]. eapply Forall_impl; [|exact (IH t r H1 H2)]. intros x Hx. now right.
Qed.

Lemma is_prefix_app p : forall t r, is_prefix p t = true -> is_prefix p (t ++ r) = true.
Proof.
  induction p as [|a p IH]; intros t r H; [reflexivity|].
  destruct t as [|b t]; [discriminate|]. cbn [app is_prefix] in *.
  apply andb_true_iff in H as [Ha H]. rewrite Ha. cbn [andb]. now apply IH.
Qed.

Lemma is_prefix_len p : forall t, is_prefix p t = true -> length p <= length t.
Proof.
  induction p as [|a p IH]; intros t H; [cbn; lia|].
  destruct t as [|b t]; [discriminate|]. cbn [is_prefix] in H. apply andb_true_iff in H as [_ H].
  specialize (IH t H). cbn [length]. lia.
Qed.

Lemma no_nl_wlines t : no_nl t -> wlines t = ([], t).
Proof. intros H. pose proof (wlines_ni t) as Hw. rewrite (newline_index_no_nl t H) in Hw. tauto. Qed.

Lemma bom_prefix_app tok R' : shape tok \/ R' = [] -> is_prefix bom (tok ++ R') = is_prefix bom tok.
Proof.
  intros [[ls Hs]| ->]; [|now rewrite app_nil_r].
  destruct (is_prefix bom tok) eqn:E2; [now apply is_prefix_app|].
  destruct (is_prefix bom (tok ++ R')) eqn:E1; [|reflexivity]. exfalso.
  pose proof (prefix_short bom tok R' E1 E2) as Hall.
  assert (Hn : no_nl tok).
  { eapply Forall_impl; [|exact Hall]. intros b Hb. cbn in Hb. destruct Hb as [<-|[<-|[<-|[]]]]; reflexivity. }
  rewrite (no_nl_wlines tok Hn) in Hs. injection Hs as Hs _. destruct ls; discriminate.
Qed.

(* what the field parser is given for the first token when no byte was skipped before it *)
Definition unbom (tok : bytes) : bytes := if is_prefix bom tok then skipn 3 tok else tok.

Lemma strip_bom_tok tok R' : shape tok \/ R' = [] -> strip_bom (tok ++ R') = unbom tok ++ R'.
Proof.
  intros H. rewrite strip_bom_prefix, (bom_prefix_app tok R' H). unfold unbom.
  destruct (is_prefix bom tok) eqn:E; [|reflexivity].
  apply skipn_app_le. apply is_prefix_len in E. exact E.
Qed.

Lemma shape_tail b r : is_nl b = false -> shape (b :: r) -> shape r.
Proof.
  intros Hb [ls Hs]. rewrite (wlines_non_nl b r Hb) in Hs. unfold shape.
  destruct (wlines r) as [[|l ls'] tl'].
  - injection Hs as Hs _. destruct ls; discriminate.
  - injection Hs as Hs ->. destruct ls as [|x ls0]; [discriminate|].
    cbn [app] in Hs. injection Hs as _ ->. exists (l :: ls0). reflexivity.
Qed.

Lemma shape_unbom tok : shape tok -> shape (unbom tok).
Proof.
  unfold unbom. destruct (is_prefix bom tok) eqn:E; [|auto].
  pose proof (is_prefix_len _ _ E) as Hl. destruct tok as [|a [|b [|c t]]]; try (cbn in Hl; lia). clear Hl. unfold bom in E. cbn [is_prefix] in E.
  apply andb_true_iff in E as [Ea E]. apply andb_true_iff in E as [Eb E]. apply andb_true_iff in E as [Ec _].
  apply N.eqb_eq in Ea, Eb, Ec. subst a b c. cbn [skipn]. intros H.
  apply (shape_tail 191%N); [reflexivity|]. apply (shape_tail 187%N); [reflexivity|].
  apply (shape_tail 239%N); [reflexivity|]. exact H.
Qed.

(* ---- the specification along the first token ------------------------------------------------------------------ *)
Lemma spec_first m d R' ls1 tl1 LS1 tl e st : md_dispatch_dirty m = true -> wlines d = (ls1, tl1) ->
  (shape d \/ R' = []) -> (tl1 = [] -> toks R' LS1 tl) -> (tl1 <> [] -> LS1 = [] /\ tl = tl1) ->
  cont m (set_line st [] false) (d ++ R') e
  = let '(st', ys) := run_lines m (set_line st [] false) (ls1 ++ LS1) in ys ++ finish m (set_line st' tl false) e.
Proof.
  intros Hm Hw Hs H1 H2. rewrite cont_app. destruct (feed_all_token m st d) as [a2 ->]. rewrite Hw. cbn [fst snd].
  rewrite (run_lines_app m ls1 LS1).
  destruct Hs as [[ls Hs]| ->].
  - rewrite Hw in Hs. injection Hs as -> ->.
    pose proof (run_lines_blank_last m ls (set_line st [] false) Hm) as Hclean.
    pose proof (run_lines_line_empty m (ls ++ [[]]) st) as Hline.
    destruct (run_lines m (set_line st [] false) (ls ++ [[]])) as [st2 ys2]. cbn [fst snd] in *.
    rewrite (spec_toks m R' LS1 tl e Hm (H1 eq_refl) st2 a2 Hclean). rewrite <- Hline.
    destruct (run_lines m st2 LS1) as [st3 ys3]. now rewrite app_assoc.
  - destruct (run_lines m (set_line st [] false) ls1) as [st2 ys2]. cbn [fst snd].
    assert (HL : LS1 = [] /\ tl = tl1).
    { destruct tl1; [destruct (toks_nil_inv _ _ (H1 eq_refl)); auto|apply H2; discriminate]. }
    destruct HL as [-> ->]. cbn [run_lines]. unfold cont. cbn [feed_all app]. rewrite app_nil_r.
    f_equal. rewrite <- (finish_norm m (set_line st2 tl1 a2) e). reflexivity.
Qed.

(* ---- the entry points' parsers ---------------------------------------------------------------------------------- *)
Lemma make_parser_init en bc r :
  let p := make_parser en bc r in
  p_fp p = mkfp [] false false false true /\ p_first p = true /\ p_sc_nil p = false /\ p_rd p = r /\
  sc_data (p_sc p) = [] /\ p_sc p = p_sc (make_parser en bc (mkrd [] CleanEOF 0)) /\ sc_err (p_sc p) = None.
Proof.
  unfold make_parser.
  destruct en; [destruct (0 <? bc_max bc)%Z|destruct (bc_has_buf bc || (0 <? bc_max bc)%Z)]; repeat split; reflexivity.
Qed.

(* (LS, tl): lines and unterminated rest whose interpretation is the specification's interpretation of the stream *)
Definition spec_lines (stream : bytes) (e : ending) (LS : list bytes) (tl : bytes) : Prop :=
  forall m id, md_dispatch_dirty m = true ->
    interp m id stream e = let '(st', ys) := run_lines m (w_init id) LS in ys ++ finish m (set_line st' tl false) e.

(* the first token (after the skipped CR/LF bytes [nls]) followed by a tokenised rest [X] *)
Lemma first_token_spec nls tok X d4 ls1 tl1 LS1 tl e :
  all_nl nls -> headok tok -> d4 = match nls with [] => unbom tok | _ => tok end -> wlines d4 = (ls1, tl1) ->
  (shape tok \/ X = []) -> (tl1 = [] -> toks X LS1 tl) -> (tl1 <> [] -> LS1 = [] /\ tl = tl1) ->
  spec_lines (nls ++ tok ++ X) e (ls1 ++ LS1) tl.
Proof.
  intros Hnl Hh Hd4 Hw1 Hsh Ht1 Ht2 m id Hm.
  destruct nls as [|x nls'].
  - (* no byte skipped: the BOM, if any, is removed *)
    cbn [app]. unfold interp. fold (cont m (w_init id) (strip_bom (tok ++ X)) e).
    rewrite (strip_bom_tok tok X Hsh), <- Hd4.
    change (w_init id) with (set_line (w_init id) [] false).
    apply (spec_first m d4 X ls1 tl1 LS1 tl e (w_init id) Hm Hw1); [|exact Ht1|exact Ht2].
    destruct Hsh as [Hs|Hs]; [left; rewrite Hd4; now apply shape_unbom|right; exact Hs].
  - (* bytes skipped: the stream starts with a CR/LF byte, there is no BOM to remove *)
    subst d4. assert (Hx : is_nl x = true) by (inversion Hnl; assumption).
    pose proof (toks_step (x :: nls') tok X ls1 tl1 LS1 tl Hnl Hh Hw1 Hsh Ht1 Ht2) as Htoks.
    pose proof (spec_toks m _ (ls1 ++ LS1) tl e Hm Htoks (w_init id) false eq_refl) as Hs.
    change (set_line (w_init id) [] false) with (w_init id) in Hs.
    rewrite <- Hs. unfold cont, interp. cbn [app].
    rewrite (strip_bom_nl x _ Hx). reflexivity.
Qed.

(* Parser.Next from the initial parser of an entry point: either the whole stream is interpreted, or tokens
   consume a prefix P of it and Parser.Err() is ErrTooLong *)
Definition top_result (en : entry) (bc : bufcfg) (chunks : list bytes) (e : ending) : Prop :=
  let p0 := make_parser en bc (mkrd chunks e 0) in
  (exists LS tl, pf_run p0 (fields_of LS) (end_err tl e) /\ spec_lines (concat chunks) e LS tl /\
                 cpath (bound_of en bc) (concat chunks) /\ (0 < bound_of en bc)%N) \/
  (exists LS P, pf_run p0 (fields_of LS) (Some ETooLong) /\ tpath (bound_of en bc) (concat chunks) P /\
                forall e', spec_lines P e' LS []).

Theorem parser_fields_gen en bc chunks e : ending_ok e -> top_result en bc chunks e.
Proof.
  intros He. unfold top_result.
  set (B := bound_of en bc) in *. set (p0 := make_parser en bc (mkrd chunks e 0)).
  destruct (make_parser_init en bc (mkrd chunks e 0)) as (Hfp & Hfirst & Hnil & Hrd & Hdata & Hsc & Herr0). fold p0 in Hfp, Hfirst, Hnil, Hrd, Hdata, Hsc, Herr0.
  destruct (make_parser_inv en bc chunks e) as [Hinv _]. fold p0 B in Hinv.
  assert (Hi2 : sc_inv2 B (p_sc p0)).
  { unfold sc_inv2. split; [unfold B, bound_of; rewrite Hsc; apply N.max_comm|]. intros Hx. congruence. }
  assert (HR0 : p_rest p0 = concat chunks).
  { unfold p_rest, rest_of. rewrite Hdata, Hrd. reflexivity. }
  assert (Hnext : fp_next (p_fp p0) = (None, p_fp p0)) by (rewrite Hfp; reflexivity).
  pose proof (parser_next_scan p0 _ Hnext) as Hpn.
  pose proof (scan_spec2 B (p_first p0, p_fp p0) (p_sc p0) (p_rd p0) Hinv Hi2) as Hpost.
  destruct (scan parser_split (p_first p0, p_fp p0) (p_sc p0) (p_rd p0)) as [[[out [first' f'']] sc'] rd'].
  unfold scan_post2, scan_post2' in Hpost. fold (p_rest p0) in Hpost. rewrite HR0 in Hpost.
  set (R := concat chunks) in *.
  assert (Hend0 : rd_ending (p_rd p0) = e) by (rewrite Hrd; reflexivity). rewrite Hend0 in Hpost.
  destruct Hpost as (Hend' & Hpost).
  destruct out; [| |contradiction|contradiction].
  - (* the first token *)
    destruct Hpost as (Hinv' & Hi2' & n0 & eof & adv & tok & nls & Hn0 & HnB & Heof & Hsf & Htok & Hrest' & Hfa &
                       Hnl & Hh & Hadv & HD & Hst).
    rewrite Hfirst, Hfp in Hst. cbn [upd_split] in Hst. injection Hst as -> ->.
    assert (HR : R = nls ++ tok ++ skipn adv R).
    { rewrite app_assoc, <- Hfa. symmetry. apply firstn_skipn. }
    assert (HlR' : length (skipn adv R) = length R - adv) by apply skipn_length.
    assert (Hlens : length nls + length tok = adv).
    { rewrite <- app_length, <- Hfa, firstn_length. clear - Hadv Hn0. lia. }
    assert (Hsh : shape tok \/ skipn adv R = []).
    { destruct HD as [Hm|[Hl _]]; [left; exact (shape_of_mid _ _ _ _ _ Hn0 Hsf Hm)|right; rewrite <- Hrest'; exact Hl]. }
    (* the field parser after Reset *)
    set (f4 := fp_reset (if fp_started (match nls with [] => mkfp [] false false false true
                                        | _ :: _ => fp_set_remove_bom (mkfp [] false false false true) false end)
                         then fp_set_remove_bom (match nls with [] => mkfp [] false false false true
                                        | _ :: _ => fp_set_remove_bom (mkfp [] false false false true) false end) false
                         else (match nls with [] => mkfp [] false false false true
                                        | _ :: _ => fp_set_remove_bom (mkfp [] false false false true) false end)) tok).
    assert (Hf4 : fp_data f4 = match nls with [] => unbom tok | _ => tok end /\
                  fp_keep_comments f4 = false /\ fp_err f4 = false /\
                  (fp_remove_bom f4 = false \/ fp_started f4 = true \/ fp_data f4 = tok)).
    { unfold f4. destruct nls as [|x nls'].
      - cbn [fp_started]. unfold fp_reset, do_remove_bom, unbom.
        cbn [fp_remove_bom fp_started fp_data fp_keep_comments fp_err andb negb].
        destruct (is_prefix bom tok); cbn [fp_remove_bom fp_started fp_data fp_keep_comments fp_err]; auto 10.
      - rewrite set_remove_bom_false. cbn [fp_started fp_data fp_err fp_keep_comments].
        rewrite fp_reset_plain by reflexivity. cbn. auto 10. }
    destruct Hf4 as (Hd4 & Hk4 & He4 & Hb4).
    set (p1 := mkp sc' rd' f4 false false).
    assert (Hat : after_token p0 false (match nls with [] => mkfp [] false false false true
                                        | _ :: _ => fp_set_remove_bom (mkfp [] false false false true) false end) sc' rd' = p1).
    { unfold after_token, p1, f4. rewrite Htok, Hnil. reflexivity. }
    rewrite Hat in Hpn.
    assert (HlR : length R = length (sc_data (p_sc p0)) + rd_rest (p_rd p0)).
    { rewrite Hdata, Hrd. reflexivity. }
    assert (Hp1r : p_rest p1 = skipn adv R) by exact Hrest'.
    rewrite (parser_next_any_fuel B p1) in Hpn; [|exact Hinv'|rewrite Hp1r; clear - HlR HlR'; lia].
    assert (Hc1 : pcond B e p1).
    { apply (pcond_after B e sc' rd' f4); try assumption.
      destruct Hb4 as [Hb|[Hb|Hb]]; [left; left; exact Hb|left; right; left; exact Hb|].
      destruct tok as [|t0 tok'].
      + right. destruct HD as [Hm|Hl]; [|exact Hl]. exfalso.
        destruct (shape_of_mid _ _ _ _ _ Hn0 Hsf Hm) as [ls Hs]. cbn in Hs. injection Hs as Hs. destruct ls; discriminate.
      + left. right. right. rewrite Hb. discriminate. }
    destruct (wlines (fp_data f4)) as [ls1 tl1] eqn:Hw1.
    assert (Htl1 : tl1 <> [] -> last_state p1).
    { intros Hne. destruct HD as [Hm|Hl]; [|exact Hl]. exfalso.
      pose proof (shape_of_mid _ _ _ _ _ Hn0 Hsf Hm) as Hs0.
      assert (Hs4 : shape (fp_data f4)) by (rewrite Hd4; destruct nls; [now apply shape_unbom|exact Hs0]).
      destruct Hs4 as [ls Hs]. rewrite Hw1 in Hs. injection Hs as _ Hs. congruence. }
    destruct (pf_tokens B e He (S (length (fp_data (p_fp p1)) + 2 * length (p_rest p1))) p1 ls1 tl1 (Nat.lt_succ_diag_r _) Hc1 Hw1 Htl1)
      as [(LS1 & tl & Hrun & Ht1 & Ht2 & Hcp)|(LS1 & P' & Hrun & Ht0 & Hnl1 & Hpath & Htoks)].
    + left. exists (ls1 ++ LS1), tl. rewrite fields_of_app. split; [eapply pf_run_eq; eassumption|].
      rewrite Hp1r in Ht1, Hcp. split; [|split].
      * rewrite HR.
        exact (first_token_spec nls tok (skipn adv R) (fp_data f4) ls1 tl1 LS1 tl e Hnl Hh Hd4 Hw1 Hsh Ht1 Ht2).
      * exact (cp_tok B R n0 eof adv tok Hn0 HnB Heof Hsf Hcp).
      * clear - Hadv HnB. lia.
    + destruct HD as [Hm|Hl]; [|contradiction].
      right. exists (ls1 ++ LS1), (firstn adv R ++ P'). rewrite fields_of_app.
      split; [eapply pf_run_eq; eassumption|]. split.
      * rewrite Hp1r in Hpath. exact (tp_tok B _ n0 eof adv tok P' Hn0 HnB Hsf Hm Hpath).
      * intros e'. rewrite Hfa, <- app_assoc.
        apply (first_token_spec nls tok P' (fp_data f4) ls1 tl1 LS1 [] e' Hnl Hh Hd4 Hw1).
        -- left. exact (shape_of_mid _ _ _ _ _ Hn0 Hsf Hm).
        -- intros _. exact Htoks.
        -- intros Hne. contradiction.
  - (* no token at all *)
    destruct Hpost as (Hst & Hcase). rewrite Hfirst in Hst. injection Hst as -> ->.
    destruct Hcase as [(Hne & Htoo & Hlen & Hmore)|(HR & Herr2 & Hrest2 & HB0)].
    + right. exists [], []. cbn [fields_of flat_map].
      assert (Hse : sc_error sc' = Some ETooLong) by (unfold sc_error; rewrite Htoo; reflexivity).
      rewrite Hse, Hnil in Hpn.
      pose proof (parser_err_toolong sc' rd' (p_fp p0) true Htoo) as Hpe. rewrite Hse in Hpe.
      split; [rewrite <- Hpe; apply pf_end; exact Hpn|].
      split; [apply tp_here; split; assumption|]. intros e' m id Hm. reflexivity.
    + left. exists [], []. cbn [fields_of flat_map].
      pose proof (parser_err_end e sc' rd' (p_fp p0) true (p_sc_nil p0) [] He Herr2 Hnil) as Hpe.
      rewrite <- Hpe by (rewrite Hfp; reflexivity).
      split; [apply pf_end; exact Hpn|]. split; [|split; [rewrite HR; constructor|exact (HB0 Herr0)]].
      intros m id Hm. rewrite HR. reflexivity.
Qed.

(* under the limit: the whole stream *)
Theorem parser_fields en bc chunks e :
  ending_ok e -> fitsb (bound_of en bc) (concat chunks) = true ->
  exists LS tl, pf_run (make_parser en bc (mkrd chunks e 0)) (fields_of LS) (end_err tl e) /\
                spec_lines (concat chunks) e LS tl.
Proof.
  intros He Hfit. destruct (parser_fields_gen en bc chunks e He) as [(LS & tl & H1 & H2 & _)|(LS & P & _ & Hpath & _)];
    [exists LS, tl; split; assumption|].
  exfalso. exact (fits_tpath _ _ _ Hpath 0%N (fits_from_start _ _ Hfit)).
Qed.

(* under the limit, Parser.Err() after the last field is the specification's end condition - never ErrTooLong,
   unless that is what the reader itself failed with *)
Corollary parser_err_fits en bc chunks e :
  ending_ok e -> fitsb (bound_of en bc) (concat chunks) = true ->
  exists fs tl, pf_run (make_parser en bc (mkrd chunks e 0)) fs (end_err tl e) /\
                (end_err tl e = Some ETooLong -> e = ReadError ETooLong).
Proof.
  intros He Hfit. destruct (parser_fields en bc chunks e He Hfit) as (LS & tl & Hrun & _).
  exists (fields_of LS), tl. split; [exact Hrun|].
  destruct e as [|x]; cbn [end_err]; [destruct tl; discriminate|]. now intros [= ->].
Qed.

(* ---- the read loop on top ------------------------------------------------------------------------------------------ *)
Lemma pf_run_len B p fs err : pf_run p fs err -> sc_inv B (p_sc p) (p_rd p) -> length fs <= p_measure p.
Proof.
  induction 1 as [p f p' fs err Hn Hr IH|p p' Hn]; intros Hinv; [|cbn; lia].
  pose proof (parser_next_spec B p Hinv) as Hpost. rewrite Hn in Hpost. destruct Hpost as [Hinv' Hm].
  specialize (IH Hinv'). cbn [length]. clear - IH Hm. lia.
Qed.

Definition en_conn (en : entry) : bool := match en with EntryConn => true | EntryRead => false end.

Theorem read_run_spec en bc last_id chunks e stop :
  ending_ok e -> fitsb (bound_of en bc) (concat chunks) = true ->
  read_run en bc last_id chunks e stop
  = (firstn' stop (vis (en_conn en) (interp (mode_for (en_conn en)) last_id (concat chunks) e)), EndNormal,
     snd (read_run en bc last_id chunks e stop)).
Proof.
  intros He Hfit.
  destruct (parser_fields en bc chunks e He Hfit) as (LS & tl & Hrun & Hspec).
  unfold read_run. fold (en_conn en).
  set (p := make_parser en bc (mkrd chunks e 0)) in *. set (conn := en_conn en).
  destruct (make_parser_inv en bc chunks e) as [Hinv Hfpd]. fold p in Hinv, Hfpd.
  pose proof (pf_run_len _ p _ _ Hrun Hinv) as Hlen.
  assert (Hfuel : length (fields_of LS) < read_fuel p).
  { unfold read_fuel. unfold p_measure, p_rest, rest_of, rd_rest in *. rewrite app_length in Hlen. clear - Hlen Hfpd. rewrite Hfpd in *. cbn [length] in *. lia. }
  pose proof (read_loop_pf p _ _ Hrun (read_fuel p) conn (negb conn) stop (mkrl last_id [] [] false) 0 Hfuel) as Hrl.
  destruct (read_loop (read_fuel p) conn (negb conn) stop p (mkrl last_id [] [] false) 0) as [[ys fin] p'].
  cbn [fst snd] in *. injection Hrl as -> ->. f_equal. f_equal.
  rewrite (fold_lines conn stop LS (mkrl last_id [] [] false) 0 tl e); [|left; reflexivity|exact He|intros; apply Nat.le_0_l].
  change (st_of (mkrl last_id [] [] false)) with (w_init last_id).
  assert (Hm : md_dispatch_dirty (mode_for conn) = true) by (destruct conn; reflexivity).
  rewrite <- (Hspec (mode_for conn) last_id Hm).
  destruct stop as [k|]; cbn [cutd firstn']; [now rewrite Nat.sub_0_r|reflexivity].
Qed.

(* the two entry points *)
Corollary read_run_read bc last_id chunks e stop :
  ending_ok e -> fitsb (bound_of EntryRead bc) (concat chunks) = true ->
  fst (read_run EntryRead bc last_id chunks e stop)
  = (firstn' stop (vis false (interp gosse_read last_id (concat chunks) e)), EndNormal).
Proof. intros He Hf. rewrite (read_run_spec EntryRead bc last_id chunks e stop He Hf). reflexivity. Qed.

Corollary read_run_conn bc last_id chunks e stop :
  ending_ok e -> fitsb (bound_of EntryConn bc) (concat chunks) = true ->
  fst (read_run EntryConn bc last_id chunks e stop)
  = (firstn' stop (vis true (interp gosse_conn last_id (concat chunks) e)), EndNormal).
Proof. intros He Hf. rewrite (read_run_spec EntryConn bc last_id chunks e stop He Hf). reflexivity. Qed.

Corollary read_run_fits en bc last_id chunks e stop :
  ending_ok e -> fitsb (bound_of en bc) (concat chunks) = true ->
  fst (read_run en bc last_id chunks e stop)
  = (firstn' stop (vis (en_conn en) (interp (mode_for (en_conn en)) last_id (concat chunks) e)), EndNormal).
Proof. intros He Hf. rewrite (read_run_spec en bc last_id chunks e stop He Hf). reflexivity. Qed.
