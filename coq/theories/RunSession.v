(* val-level entry points of the family "session" (C16).

   input  : (n0 shape (msg ...) (call ...) script presetopt)
              Upgrade on a recording, fault-injecting ResponseWriter of that shape (on which
              user code has put the preset Content-Type beforehand), then the calls on the Session
            (n1 shape (x<Last-Event-Id value> ...) onsopt (msg ...) (call ...) perropt script)
              one request through Server.ServeHTTP with a recording Provider that makes the
              calls on the subscription's client and returns nil / an error with that text
            (n2 (msg ...) (call ...) presetopt)
              the same through a real net/http server and client on the loopback interface
              (the preset is OnSession's); observed (n<status> x<Content-Type> x<body> (n<returned> ...))
     shape   = (n<FlushError?> n<Flush?> unwrapopt)     unwrapopt = () | (shape)
     msg     = (idopt typeopt z<retry ns> ((n<comment?> x<text>) ...))
     call    = (n0 n<msg index>) Send | (n1) Flush
     script  = (verdict ...), one per Write/Flush of the writer: () ok | (n<k> n<e>) fail
               e is an opaque, non-zero index here; the harness builds the error VALUE from it
               (e/1000 = its "character": its own opaque type, or a value that is / wraps a sentinel of
               net/http, io, context, net, os, syscall, the library) and projects what a call returned
               back to the index by identity (harness/cmd/impl-run/session_errs.go)
     onsopt  = () | (((x<topic> ...) n<ok> statusopt n<empty-non-nil topics?> presetopt))
     presetopt = () | ((x<Content-Type value> ...))   assigned to Header()["Content-Type"] before
                                       the session's first Send/Flush
     perropt = () | (x<text> n<kind> x<prefix>)   text = err.Error(); kind/prefix: which error value
                                       the harness builds (sentinels, wraps, the error characters
                                       above - see session.go); the
                                       server answers with the text whatever the error is
   output : (n1)                                        kind 0, Upgrade refused
            (n0 (n<returned> (entry ...)) ...)          kind 0, per call
            (subopt ((n<returned> (entry ...)) ...) (entry ...) (entry ...))
                                                        kind 1: subscription seen by the provider
                                                        = (((x<topic> ...) idopt)), the provider's
                                                        calls, OnSession's own writer calls, the
                                                        server's own writer calls
     entry   = (n0 x<name> x<value>) header set | (n1 x<bytes> verdict) Write
             | (n2 n<e>) Flush and the writer's outcome | (n3 n<code>) WriteHeader
     every per-call result of a session has a third element (n<depth> ...): for each Write / Flush entry of the
     call, in order, WHICH writer object the call was made on - its depth in the Unwrap chain of the shape,
     0 = the writer handed to Upgrade / ServeHTTP *)
From GoSse Require Import Base Lines Fields Message Session.
From GoSse.Gen Require Import Params.

(* ---- decoding ------------------------------------------------------------------ *)
Fixpoint dec_shape (fuel : nat) (v : val) : shape :=
  match fuel with
  | O => Shape false false None
  | S f =>
      Shape (as_bool (nth_val 0 v)) (as_bool (nth_val 1 v))
            (match nth_val 2 v with VL (x :: _) => Some (dec_shape f x) | _ => None end)
  end.
Definition shape_fuel : nat := 16%nat.

Definition dec_msg (v : val) : msg :=
  fold_left (fun m c => append_text m (as_bool (nth_val 0 c)) [as_b (nth_val 1 c)])
            (as_l (nth_val 3 v))
            (mkm [] (as_opt as_b (nth_val 0 v)) (as_opt as_b (nth_val 1 v)) (as_z (nth_val 2 v))).

Definition dec_verdict (v : val) : wverdict :=
  match v with VL [k; e] => WFail (as_nat k) (as_n e) | _ => WOk end.

Definition dec_call (pool : list msg) (v : val) : scall :=
  match as_n (nth_val 0 v) with
  | 0%N => CSend (nth (as_nat (nth_val 1 v)) pool msg_empty)
  | _ => CFlush
  end.

Definition dec_ons (v : val) : option on_session :=
  match v with
  | VL (o :: _) => Some (mkons (map as_b (as_l (nth_val 0 o))) (as_bool (nth_val 1 o)) (as_opt as_n (nth_val 2 o)))
  | _ => None
  end.

(* A Content-Type already on the response before the session's first Send/Flush (presetopt):
   user code assigned Header()["Content-Type"] = values.  For the session it changes NOTHING -
   doUpgrade assigns the header whatever is there (session.go:68), which is why [run_calls] has
   no such input; what OnSession assigned shows up in ITS OWN log, as the values joined by ","
   (how the recorder reports a header). *)
Fixpoint join_comma (l : list bytes) : bytes :=
  match l with
  | [] => []
  | [x] => x
  | x :: r => x ++ [44%N] ++ join_comma r
  end.
Definition ons_preset_log (onsopt : val) : list wcall :=
  match onsopt with
  | VL (o :: _) =>
      match nth_val 4 o with
      | VL (p :: _) => [LHeaderSet header_content_type (join_comma (map as_b (as_l p)))]
      | _ => []
      end
  | _ => []
  end.

(* ---- encoding ------------------------------------------------------------------ *)
Definition enc_verdict (v : wverdict) : val :=
  match v with WOk => VL [] | WFail k e => VL [vnat k; VN e] end.
Definition enc_wcall (c : wcall) : val :=
  match c with
  | LHeaderSet n v => VL [VN 0; VB n; VB v]
  | LWrite b v => VL [VN 1; VB b; enc_verdict v]
  | LFlush e => VL [VN 2; VN e]
  | LWriteHeader c => VL [VN 3; VN c]
  end.
(* the writer object the session talks to, session.go:132-145: the loop tests the writer at hand for FlushError, then
   for Flush, and only when it has neither goes on to what Unwrap() returns - the number of Unwrap steps taken *)
Fixpoint rw_depth (w : shape) : nat :=
  match w with
  | Shape fe fl u =>
      if fe then O else if fl then O
      else match u with Some w' => S (rw_depth w') | None => O end
  end.
(* every Write / Flush of a call goes to that one object (Session.Res) *)
Definition enc_cres (d : nat) (r : cres) : val :=
  VL [VN (fst r); VL (map enc_wcall (snd r)); VL (map (fun _ => vnat d) (filter is_op (snd r)))].
Definition vpanic_s : val := VB [112; 97; 110; 105; 99].

Definition run_session (i : val) : val :=
  match as_n (nth_val 0 i) with
  | 0%N =>
      let w := dec_shape shape_fuel (nth_val 1 i) in
      let pool := map dec_msg (as_l (nth_val 2 i)) in
      let calls := map (dec_call pool) (as_l (nth_val 3 i)) in
      let script := map dec_verdict (as_l (nth_val 4 i)) in
      match upgrade w [] with
      | None => VL [VN 1]
      | Some (k, _) =>
          let '(rs, _, ok) := run_calls (mksess (match k with RWFlushError => true | RWFlusher => false end) false script) calls in
          VL (VN 0 :: map (enc_cres (rw_depth w)) rs ++ (if ok then [] else [vpanic_s]))
      end
  | 2%N =>
      (* a real net/http server and client, nothing fails: the client sees the implicit 200,
         the Content-Type the session set, and everything the writer accepted *)
      let pool := map dec_msg (as_l (nth_val 1 i)) in
      let calls := map (dec_call pool) (as_l (nth_val 2 i)) in
      let '(rs, _, ok) := run_calls (mksess true false []) calls in
      let ct := match filter is_header_set (full_log rs) with LHeaderSet _ v :: _ => v | _ => [] end in
      VL [VN 200; VB ct; VB (accepted (full_log rs)); VL (map (fun r : cres => VN (fst r)) rs ++ (if ok then [] else [vpanic_s]))]
  | _ =>
      let w := dec_shape shape_fuel (nth_val 1 i) in
      let h := map as_b (as_l (nth_val 2 i)) in
      let ons := dec_ons (nth_val 3 i) in
      let pool := map dec_msg (as_l (nth_val 4 i)) in
      let calls := map (dec_call pool) (as_l (nth_val 5 i)) in
      let perr := as_opt as_b (nth_val 6 i) in
      let script := map dec_verdict (as_l (nth_val 7 i)) in
      let r := serve_http w h ons calls perr script in
      (* OnSession's own header assignment (it runs only when the request was upgraded) *)
      let pre := match upgrade w h with Some _ => ons_preset_log (nth_val 3 i) | None => [] end in
      VL [vopt (fun s : list bytes * field => VL [VL (map VB (fst s)); vopt VB (snd s)]) (sv_sub r);
          VL (map (enc_cres (rw_depth w)) (sv_results r) ++ (if sv_ok r then [] else [vpanic_s]));
          VL (map enc_wcall (pre ++ sv_user r));
          VL (map enc_wcall (sv_server r))]
  end.

(* ---- the oracle: the property text over the OBSERVED calls ------------------------ *)
Definition dec_wcall (v : val) : wcall :=
  match as_n (nth_val 0 v) with
  | 0%N => LHeaderSet (as_b (nth_val 1 v)) (as_b (nth_val 2 v))
  | 1%N => LWrite (as_b (nth_val 1 v)) (dec_verdict (nth_val 2 v))
  | 2%N => LFlush (as_n (nth_val 1 v))
  | _ => LWriteHeader (as_n (nth_val 1 v))
  end.
Definition dec_cres (v : val) : cres := (as_n (nth_val 0 v), map dec_wcall (as_l (nth_val 1 v))).

(* the header of the property text, literally: Content-Type: text/event-stream *)
Definition lit_content_type : bytes := [67; 111; 110; 116; 101; 110; 116; 45; 84; 121; 112; 101].
Definition lit_event_stream : bytes := [116; 101; 120; 116; 47; 101; 118; 101; 110; 116; 45; 115; 116; 114; 101; 97; 109].
(* every header a session sets is that one *)
Definition headers_literal (rs : list cres) : bool :=
  forallb (fun c => match c with
                    | LHeaderSet n v => bytes_eqb n lit_content_type && bytes_eqb v lit_event_stream
                    | _ => true
                    end) (full_log rs).

Definition has_write_header (code : N) (l : list wcall) : bool :=
  existsb (fun c => match c with LWriteHeader c' => (c' =? code)%N | _ => false end) l.

Definition field_eqb (a b : field) : bool :=
  match a, b with
  | Some x, Some y => bytes_eqb x y
  | None, None => true
  | _, _ => false
  end.

(* "The body [written to the response writer] is exactly the concatenation of the sent messages' encodings, Flush pushes
   everything sent so far": the response writer is the one handed to Upgrade / ServeHTTP.  Of "all ResponseWriter shapes
   (Flusher, FlushError, wrapped via Unwrap, none)" a layer that cannot flush is looked through; a layer that CAN flush -
   with or without reporting - is the writer: what the session writes and flushes must arrive AT it, not at something it
   wraps (which it may feed through a buffer, a compressor, a counter of its own).  So every Write / Flush of every call
   is made on the outermost layer of the chain that can flush - on the given writer itself whenever that one can flush -
   and each Write / Flush entry has its layer reported. *)
Fixpoint outermost_flusher (c : list (bool * bool)) : nat :=
  match c with
  | (fe, fl) :: r => if fe || fl then O else S (outermost_flusher r)
  | [] => O
  end.
Definition layers_ok (w : shape) (rs : list val) : bool :=
  let d := outermost_flusher (chain w) in
  forallb (fun r => let ds := as_l (nth_val 2 r) in
                    Nat.eqb (length ds) (nops (snd (dec_cres r))) &&
                    forallb (fun v => Nat.eqb (as_nat v) d) ds) rs.

Definition holds_session (i o : val) : bool :=
  match as_n (nth_val 0 i) with
  | 0%N =>
      let w := dec_shape shape_fuel (nth_val 1 i) in
      let pool := map dec_msg (as_l (nth_val 2 i)) in
      let calls := map (dec_call pool) (as_l (nth_val 3 i)) in
      if can_flush w then
        match as_l o with
        | VN 0%N :: rs => session_ok calls (map dec_cres rs) && headers_literal (map dec_cres rs) && layers_ok w rs
        | _ => false
        end
      else true (* Upgrade on a writer that cannot flush: the property speaks about ServeHTTP only *)
  | 2%N =>
      (* what the client received: 200, text/event-stream, the concatenation of the encodings *)
      let pool := map dec_msg (as_l (nth_val 1 i)) in
      let calls := map (dec_call pool) (as_l (nth_val 2 i)) in
      (as_n (nth_val 0 o) =? 200)%N &&
      bytes_eqb (as_b (nth_val 1 o)) content_type_value &&
      bytes_eqb (as_b (nth_val 2 o)) (concat (map call_wire calls)) &&
      forallb (fun v => (as_n v =? 0)%N) (as_l (nth_val 3 o))
  | _ =>
      let w := dec_shape shape_fuel (nth_val 1 i) in
      let h := map as_b (as_l (nth_val 2 i)) in
      let ons := dec_ons (nth_val 3 i) in
      let pool := map dec_msg (as_l (nth_val 4 i)) in
      let calls := map (dec_call pool) (as_l (nth_val 5 i)) in
      let perr := as_opt as_b (nth_val 6 i) in
      let sub := as_opt (fun s => (map as_b (as_l (nth_val 0 s)), as_opt as_b (nth_val 1 s))) (nth_val 0 o) in
      let rs := map dec_cres (as_l (nth_val 1 o)) in
      let server := map dec_wcall (as_l (nth_val 3 o)) in
      if negb (can_flush w) then
        (* the writer cannot flush: nobody is subscribed, the answer is 500 *)
        match sub with None => true | Some _ => false end && has_write_header 500 server
      else
        if negb (request_accepted ons) then
          (* rejected: no subscription, and the server itself writes nothing *)
          match sub with None => true | Some _ => false end &&
          match server with [] => true | _ => false end &&
          match rs with [] => true | _ => false end
        else
          match sub with
          | None => false
          | Some (topics, lei) =>
              field_eqb lei (expected_lei h) &&
              list_eqb bytes_eqb topics
                       (expected_topics ons) &&
              session_ok (firstn (length rs) calls) rs && headers_literal rs &&
              layers_ok w (as_l (nth_val 1 o)) &&
              (* the provider refused before anything was sent: the answer is 500 *)
              match perr with
              | Some _ => if sent_something (full_log rs) then true else has_write_header 500 server
              | None => true
              end
          end
  end.
