(* The ring buffer refines a list: [R q l] relates a queue to the list of its
   live entries, oldest first.  Index arithmetic is stated without [mod]
   (conditional subtraction, as the code does) so that [lia] closes it. *)
From GoSse Require Import Base Queue.
Local Open Scope nat_scope.

Section QueueProofs.
Context {T : Type}.
Implicit Types (q : queue T) (l : list T).

(* ---- list facts ---------------------------------------------------------- *)
Lemma upd_length {A} (l : list A) i v : length (upd l i v) = length l.
Proof. revert i; induction l as [|x l IH]; intros [|i]; cbn; auto. Qed.

Lemma nth_error_upd_eq {A} (l : list A) i v : i < length l -> nth_error (upd l i v) i = Some v.
Proof. revert i; induction l as [|x l IH]; intros [|i] H; cbn in *; try lia; auto. all: try (apply IH; lia). Qed.

Lemma nth_error_upd_neq {A} (l : list A) i j v : i <> j -> nth_error (upd l i v) j = nth_error l j.
Proof.
  revert i j; induction l as [|x l IH]; intros [|i] [|j] H; cbn; auto; try lia. all: try (apply IH; lia).
Qed.

Lemma nth_error_repeat {A} (x : A) n i : i < n -> nth_error (repeat x n) i = Some x.
Proof. revert i; induction n as [|n IH]; intros [|i] H; cbn; try lia; auto. all: try (apply IH; lia). Qed.

Lemma nth_error_firstn {A} (l : list A) n i : i < n -> nth_error (firstn n l) i = nth_error l i.
Proof.
  revert n i; induction l as [|x l IH]; intros [|n] [|i] H; cbn; try lia; auto.
  all: try (apply IH; lia).
Qed.

Lemma nth_error_skipn {A} (l : list A) n i : nth_error (skipn n l) i = nth_error l (n + i).
Proof.
  revert l; induction n as [|n IH]; intros [|x l]; cbn; auto. destruct i; reflexivity.
Qed.

(* ---- the window ---------------------------------------------------------- *)
(* index of the k-th live entry *)
Definition idx q (k : nat) : nat :=
  if head q + k <? qlen q then head q + k else head q + k - qlen q.

(* is slot i inside the live window? *)
Definition inw q (i : nat) : bool :=
  if head q + count q <=? qlen q then (head q <=? i) && (i <? head q + count q)
  else (head q <=? i) || (i <? head q + count q - qlen q).

Definition shape q : Prop :=
  count q <= qlen q /\
  ((qlen q = 0 /\ head q = 0 /\ tail q = 0) \/
   (head q < qlen q /\ tail q < qlen q /\ tail q = idx q (count q))).

(* the refinement relation *)
Definition R q l : Prop :=
  shape q /\ count q = length l /\
  (forall k, k < count q -> nth_error (buf q) (idx q k) = Some (nth_error l k)) /\
  (forall i, i < qlen q -> inw q i = false -> nth_error (buf q) i = Some None).

Ltac cases :=
  repeat match goal with
         | |- context [?a <? ?b] => destruct (Nat.ltb_spec a b)
         | |- context [?a <=? ?b] => destruct (Nat.leb_spec a b)
         | |- context [?a =? ?b] => destruct (Nat.eqb_spec a b)
         end.
Ltac hcases H :=
  repeat match type of H with
         | context [?a <? ?b] => destruct (Nat.ltb_spec a b)
         | context [?a <=? ?b] => destruct (Nat.leb_spec a b)
         | context [?a =? ?b] => destruct (Nat.eqb_spec a b)
         end.
Ltac simp := cbn [buf head tail count] in *; rewrite ?upd_length in *.

(* Prop forms of the window test, so that [lia] can use them *)
Lemma inw_true q i :
  inw q i = true <->
  ((head q + count q <= qlen q /\ head q <= i /\ i < head q + count q) \/
   (qlen q < head q + count q /\ (head q <= i \/ i < head q + count q - qlen q))).
Proof.
  unfold inw. destruct (Nat.leb_spec (head q + count q) (qlen q)).
  - rewrite andb_true_iff, Nat.leb_le, Nat.ltb_lt. lia.
  - rewrite orb_true_iff, Nat.leb_le, Nat.ltb_lt. lia.
Qed.

Lemma inw_false q i :
  inw q i = false <->
  ((head q + count q <= qlen q /\ (i < head q \/ head q + count q <= i)) \/
   (qlen q < head q + count q /\ i < head q /\ head q + count q - qlen q <= i)).
Proof.
  unfold inw. destruct (Nat.leb_spec (head q + count q) (qlen q)).
  - rewrite andb_false_iff, Nat.leb_gt, Nat.ltb_ge. lia.
  - rewrite orb_false_iff, Nat.leb_gt, Nat.ltb_ge. lia.
Qed.

Lemma idx_lt q k : shape q -> k <= count q -> 0 < qlen q -> idx q k < qlen q.
Proof. unfold shape, idx. intros [Hc [H|H]] Hk Hl; cases; lia. Qed.

Lemma idx_inj q j k : shape q -> j < count q -> k < count q -> idx q j = idx q k -> j = k.
Proof. unfold shape, idx. intros [Hc [H|H]] Hj Hk; cases; lia. Qed.

Lemma idx_inw q k : shape q -> k < count q -> inw q (idx q k) = true.
Proof. intros [Hc [H|H]] Hk; apply inw_true; unfold idx in *; cases; lia. Qed.

Lemma inw_idx q i : shape q -> i < qlen q -> inw q i = true ->
  exists k, k < count q /\ idx q k = i.
Proof.
  intros [Hc [H|H]] Hi Hw; [lia|]. apply inw_true in Hw.
  destruct (Nat.leb_spec (head q) i).
  - exists (i - head q). unfold idx in *. cases; lia.
  - exists (i + qlen q - head q). unfold idx in *. cases; lia.
Qed.

Lemma R_slot q l k : R q l -> k < count q -> exists v, nth_error l k = Some v /\ slot q (idx q k) = Some v.
Proof.
  intros (Hs & Hc & Hlive & _) Hk. specialize (Hlive k Hk).
  destruct (nth_error l k) as [v|] eqn:E.
  - exists v. split; [reflexivity|]. unfold slot. now rewrite Hlive.
  - apply nth_error_None in E. lia.
Qed.

(* ---- empty queue --------------------------------------------------------- *)
Lemma R_empty n : R (mkq (repeat (@None T) n) 0 0 0) [].
Proof.
  unfold R, shape, idx; simp. rewrite repeat_length. repeat split; try lia.
  - destruct n; [left; lia|right; cases; lia].
  - intros i Hi _. now apply nth_error_repeat.
Qed.

Lemma R_nil : R (mkq (@nil (option T)) 0 0 0) [].
Proof. apply (R_empty 0). Qed.

(* ---- enqueue ------------------------------------------------------------- *)
Lemma enqueue_notfull q l v :
  R q l -> count q < qlen q ->
  exists q', enqueue q v = Some q' /\ R q' (l ++ [v]) /\ qlen q' = qlen q.
Proof.
  intros (Hs & Hc & Hlive & Hdead) Hnf.
  pose proof Hs as [Hcl [Hz|(Hh & Ht & Htl)]]; [lia|].
  unfold enqueue. destruct (Nat.ltb_spec (tail q) (qlen q)) as [_|]; [|lia].
  assert (Hov : (head q <? S (tail q)) && (count q =? qlen q) = false).
  { apply andb_false_iff. right. apply Nat.eqb_neq. lia. }
  rewrite Hov.
  assert (Htidx : tail q = if head q + count q <? qlen q then head q + count q else head q + count q - qlen q)
    by exact Htl.
  assert (Hlive' : forall k, k < S (count q) ->
            nth_error (upd (buf q) (tail q) (Some v)) (idx q k) = Some (nth_error (l ++ [v]) k)).
  { intros k Hk. destruct (Nat.eq_dec k (count q)) as [->|Hne].
    - rewrite <- Htl. rewrite nth_error_upd_eq by lia.
      rewrite Hc, nth_error_app2, Nat.sub_diag by lia. reflexivity.
    - assert (Hk' : k < count q) by lia. specialize (Hlive k Hk').
      rewrite nth_error_upd_neq by (unfold idx; hcases Htidx; cases; lia).
      rewrite Hlive, nth_error_app1 by lia. reflexivity. }
  assert (Hdead' : forall i, i < qlen q ->
            ((head q + S (count q) <= qlen q /\ (i < head q \/ head q + S (count q) <= i)) \/
             (qlen q < head q + S (count q) /\ i < head q /\ head q + S (count q) - qlen q <= i)) ->
            nth_error (upd (buf q) (tail q) (Some v)) i = Some None).
  { intros i Hi Hw. rewrite nth_error_upd_neq by (hcases Htidx; lia).
    apply Hdead; [lia|]. apply inw_false. lia. }
  destruct (Nat.eqb_spec (S (tail q)) (qlen q)) as [Hwrap|Hnw]; eexists; (split; [reflexivity|]);
    (split; [|simp; reflexivity]).
  - unfold R, shape; simp. rewrite app_length; cbn [length].
    repeat split; try lia.
    + right. unfold idx; simp. hcases Htidx; cases; lia.
    + intros k Hk. specialize (Hlive' k Hk). unfold idx in *; simp. exact Hlive'.
    + intros i Hi Hw. apply inw_false in Hw; simp. apply Hdead'; lia.
  - unfold R, shape; simp. rewrite app_length; cbn [length].
    repeat split; try lia.
    + right. unfold idx; simp. hcases Htidx; cases; lia.
    + intros k Hk. specialize (Hlive' k Hk). unfold idx in *; simp. exact Hlive'.
    + intros i Hi Hw. apply inw_false in Hw; simp. apply Hdead'; lia.
Qed.

Lemma enqueue_full q x l v :
  R q (x :: l) -> count q = qlen q ->
  exists q', enqueue q v = Some q' /\ R q' (l ++ [v]) /\ qlen q' = qlen q.
Proof.
  intros (Hs & Hc & Hlive & Hdead) Hfull. cbn [length] in Hc.
  pose proof Hs as [Hcl [Hz|(Hh & Ht & Htl)]]; [lia|].
  assert (Hht : tail q = head q) by (unfold idx in Htl; hcases Htl; lia).
  unfold enqueue. destruct (Nat.ltb_spec (tail q) (qlen q)) as [_|]; [|lia].
  assert (Hov : (head q <? S (tail q)) && (count q =? qlen q) = true).
  { apply andb_true_iff. split; [apply Nat.ltb_lt; lia|apply Nat.eqb_eq; lia]. }
  rewrite Hov.
  assert (Hlive' : forall k, k < count q ->
            nth_error (upd (buf q) (tail q) (Some v))
              (if S (tail q) + k <? qlen q then S (tail q) + k else S (tail q) + k - qlen q)
            = Some (nth_error (l ++ [v]) k)).
  { intros k Hk. destruct (Nat.eq_dec k (count q - 1)) as [->|Hne].
    - replace (if S (tail q) + (count q - 1) <? qlen q then _ else _) with (tail q) by (cases; lia).
      rewrite nth_error_upd_eq by lia. rewrite nth_error_app2 by lia.
      replace (count q - 1 - length l) with 0 by lia. reflexivity.
    - assert (Hk' : S k < count q) by lia. specialize (Hlive (S k) Hk'). cbn [nth_error] in Hlive.
      rewrite nth_error_upd_neq by (cases; lia). rewrite nth_error_app1 by lia.
      rewrite <- Hlive. f_equal. unfold idx. cases; lia. }
  destruct (Nat.eqb_spec (S (tail q)) (qlen q)) as [Hwrap|Hnw]; eexists; (split; [reflexivity|]);
    (split; [|simp; reflexivity]).
  - unfold R, shape; simp. rewrite app_length; cbn [length].
    repeat split; try lia.
    + right. unfold idx; simp. cases; lia.
    + intros k Hk. specialize (Hlive' k Hk). unfold idx; simp.
      rewrite <- Hlive'. f_equal. cases; lia.
    + intros i Hi Hw. apply inw_false in Hw; simp. lia.
  - unfold R, shape; simp. rewrite app_length; cbn [length].
    repeat split; try lia.
    + right. unfold idx; simp. cases; lia.
    + intros k Hk. specialize (Hlive' k Hk). unfold idx; simp. exact Hlive'.
    + intros i Hi Hw. apply inw_false in Hw; simp. lia.
Qed.

Lemma dequeue_R q x l :
  R q (x :: l) -> exists q', dequeue q = Some q' /\ R q' l /\ qlen q' = qlen q.
Proof.
  intros (Hs & Hc & Hlive & Hdead). cbn [length] in Hc.
  pose proof Hs as [Hcl [Hz|(Hh & Ht & Htl)]]; [lia|].
  unfold dequeue.
  assert (Hg : (head q <? qlen q) && (0 <? count q) = true).
  { apply andb_true_iff. split; apply Nat.ltb_lt; lia. }
  rewrite Hg.
  assert (Htidx : tail q = if head q + count q <? qlen q then head q + count q else head q + count q - qlen q)
    by exact Htl.
  eexists; split; [reflexivity|]. split; [|simp; reflexivity].
  unfold R, shape; simp.
  repeat split; try lia.
  - right. unfold idx; simp. hcases Htidx; cases; lia.
  - intros k Hk. assert (Hk' : S k < count q) by lia. specialize (Hlive (S k) Hk'). cbn [nth_error] in Hlive.
    unfold idx in *; simp.
    rewrite nth_error_upd_neq by (cases; lia). rewrite <- Hlive. f_equal. cases; lia.
  - intros i Hi Hw. apply inw_false in Hw; simp.
    destruct (Nat.eq_dec i (head q)) as [->|Hne].
    + now rewrite nth_error_upd_eq by lia.
    + rewrite nth_error_upd_neq by lia. apply Hdead; [lia|]. apply inw_false.
      destruct (Nat.eqb_spec (S (head q)) (qlen q)); lia.
Qed.

(* reading the source of resize's copy *)
Lemma resize_src q l k :
  R q l -> 0 < qlen q -> k < (if 0 <? count q then count q else qlen q) ->
  nth_error (if head q <? tail q then slice (buf q) (head q) (tail q)
             else skipn (head q) (buf q) ++ firstn (tail q) (buf q)) k
  = nth_error (buf q) (idx q k).
Proof.
  intros (Hs & Hc & Hlive & Hdead) Hl Hk.
  pose proof Hs as [Hcl [Hz|(Hh & Ht & Htl)]]; [lia|].
  unfold idx in *.
  destruct (Nat.ltb_spec (head q) (tail q)) as [Hlt|Hge].
  - unfold slice. rewrite nth_error_firstn by (hcases Htl; hcases Hk; lia). rewrite nth_error_skipn. f_equal.
    hcases Htl; hcases Hk; cases; lia.
  - destruct (Nat.ltb_spec (head q + k) (qlen q)) as [Hin|Hout].
    + rewrite nth_error_app1 by (rewrite skipn_length; lia).
      now rewrite nth_error_skipn.
    + rewrite nth_error_app2 by (rewrite skipn_length; lia).
      rewrite skipn_length. rewrite nth_error_firstn by (hcases Htl; hcases Hk; lia). f_equal. lia.
Qed.

Lemma resize_src_len q l :
  R q l -> 0 < qlen q ->
  length (if head q <? tail q then slice (buf q) (head q) (tail q)
          else skipn (head q) (buf q) ++ firstn (tail q) (buf q))
  = (if 0 <? count q then count q else qlen q).
Proof.
  intros (Hs & Hc & Hlive & Hdead) Hl.
  pose proof Hs as [Hcl [Hz|(Hh & Ht & Htl)]]; [lia|].
  unfold idx in *.
  destruct (Nat.ltb_spec (head q) (tail q)) as [Hlt|Hge].
  - unfold slice. rewrite firstn_length, skipn_length. hcases Htl; cases; lia.
  - rewrite app_length, skipn_length, firstn_length. hcases Htl; cases; lia.
Qed.

Lemma resize_R q l n :
  R q l -> count q < n ->
  exists q', resize q n = Some q' /\ R q' l /\ qlen q' = n.
Proof.
  intros HR Hn. pose proof HR as (Hs & Hc & Hlive & Hdead).
  pose proof Hs as [Hcl Hsh].
  unfold resize.
  assert (Hg : (head q <=? qlen q) && (tail q <=? qlen q) = true).
  { apply andb_true_iff. split; apply Nat.leb_le; destruct Hsh as [?|?]; lia. }
  rewrite Hg. eexists; split; [reflexivity|].
  set (src := if head q <? tail q then slice (buf q) (head q) (tail q)
              else skipn (head q) (buf q) ++ firstn (tail q) (buf q)).
  assert (Hlenq : length (copy_into n src) = n).
  { unfold copy_into. rewrite app_length, firstn_length, repeat_length. lia. }
  split; [|cbn [buf]; exact Hlenq].
  unfold R, shape; cbn [buf head tail count]. rewrite Hlenq.
  repeat split; try lia.
  - right. unfold idx; cbn [buf head tail count]. rewrite Hlenq. cases; lia.
  - intros k Hk. unfold idx; cbn [buf head tail count]. rewrite Hlenq.
    replace (if 0 + k <? n then 0 + k else 0 + k - n) with k by (cases; lia).
    destruct (Nat.eq_dec (qlen q) 0) as [Hz|Hnz]; [lia|].
    assert (Hsl : length src = if 0 <? count q then count q else qlen q) by (apply (resize_src_len q l); auto; lia).
    unfold copy_into. rewrite nth_error_app1 by (rewrite firstn_length; hcases Hsl; lia).
    rewrite nth_error_firstn by lia. unfold src. rewrite (resize_src q l) by (auto; cases; lia).
    now apply Hlive.
  - intros i Hi Hw. apply inw_false in Hw; cbn [buf head tail count] in Hw. rewrite Hlenq in Hw.
    unfold copy_into.
    destruct (Nat.ltb_spec i (length src)) as [Hin|Hout].
    + destruct (Nat.eq_dec (qlen q) 0) as [Hz|Hnz].
      { exfalso. unfold src, slice in Hin. destruct (buf q); [|discriminate].
        destruct (head q <? tail q); rewrite ?skipn_nil, ?firstn_nil in Hin; cbn in Hin; lia. }
      assert (Hsl : length src = if 0 <? count q then count q else qlen q) by (apply (resize_src_len q l); auto; lia).
      assert (Hc0 : count q = 0) by (hcases Hsl; lia).
      rewrite Hc0 in Hsl; cbn in Hsl.
      rewrite nth_error_app1 by (rewrite firstn_length; lia).
      rewrite nth_error_firstn by lia. unfold src. rewrite (resize_src q l) by (auto; cases; lia).
      apply Hdead.
      * destruct Hsh as [?|?]; [lia|]. unfold idx. cases; lia.
      * apply inw_false. lia.
    + rewrite nth_error_app2 by (rewrite firstn_length; lia). rewrite firstn_length.
      apply nth_error_repeat. lia.
Qed.

End QueueProofs.
