(* val-level entry points of the family "callbacks" (C13).

   input  : (n0 n<start> (op ...))     a history applied to one real Connection; the first
                                       <start> operations happen before Connect, the others
                                       from another goroutine while connected
            (n1 ...)                   a concurrent scenario (see the harness): only the
                                       oracle's violation counters are observed
            (n2 n<seed>)               the concurrent scenarios once more in a race-enabled build:
                                       observed (n0) = the race detector reported nothing
            (n3 (round ...))           operations that meet: subscriptions to one type and removers
                                       released together by goroutines, events released after all of
                                       them have returned; format below at [meet_round]
     op   = (n0 x<type> n<label>)      SubscribeEvent / SubscribeMessages
            (n1 n<label>)              SubscribeToAll
            (n2 n<k>)                  call the remover returned by the k-th subscription
            (n3 x<type> n<more>)       an event of that type arrives (more, harness only: it arrives in one
                                       chunk with the event that follows, i.e. the parser holds several
                                       complete events at once)
            (n4 n<how>)                the request's context ends - cancelled by the harness goroutine between
                                       two events, or from inside the next callback invoked (how, and the kind
                                       of context given as the fourth element of the input: harness only).
                                       The scripted body keeps delivering, so events keep being parsed and
                                       dispatched.  The registry is not touched by it (client_connection.go:
                                       144-160, dispatch does not look at the context) and the property does not
                                       mention it: being subscribed ends with the remover.  For model and
                                       oracle this operation is a no-op.
   output : ((opres ...) (seen ...))
     opres = ((n<typed> n<all> n<types>) ((n<sub> n<label>) ...))
             registry sizes after the operation (VerifCallbackCount) and, for an event, who
             was invoked, sorted by subscription number (Go's map order is unspecified)
     seen  = (n<pos> ...)              per subscription, in subscription order: the positions
                                       of the events it was invoked for, in the order in
                                       which it saw them *)
From GoSse Require Import Base Callbacks.
Local Open Scope nat_scope.

(* ---- the model's output ---------------------------------------------------- *)
Definition enc_counts (c : nat * nat * nat) : val :=
  let '(a, b, d) := c in VL [vnat a; vnat b; vnat d].

Fixpoint insert_sub (x : sub) (l : list sub) : list sub :=
  match l with
  | [] => [x]
  | y :: r => if handle_id (fst x) <=? handle_id (fst y) then x :: l else y :: insert_sub x r
  end.
Definition sort_subs (l : list sub) : list sub := fold_right insert_sub [] l.

Definition enc_sub (e : sub) : val := VL [vnat (handle_id (fst e)); VN (snd e)].
Definition enc_invoked (c : list sub) : val := VL (map enc_sub (sort_subs c)).

(* the operation, with the removers resolved to the handles the model handed out *)
Definition dec_cb_op (handles : list handle) (o : val) : option op :=
  match as_n (nth_val 0 o) with
  | 0%N => Some (SubEvent (as_b (nth_val 1 o)) (as_n (nth_val 2 o)))
  | 1%N => Some (SubAll (as_n (nth_val 1 o)))
  | 2%N => match nth_error handles (as_nat (nth_val 1 o)) with Some h => Some (Remove h) | None => None end
  | 4%N => None   (* the request's context ends: no operation of the registry *)
  | _ => Some (Dispatch (as_b (nth_val 1 o)))
  end.

(* run the history; returns per-operation results and the invocation log (position, sub) *)
Fixpoint cb_exec (pos : nat) (r : reg) (handles : list handle) (ops : list val)
  : list val * list (nat * sub) :=
  match ops with
  | [] => ([], [])
  | o :: rest =>
      match dec_cb_op handles o with
      | None => let '(outs, log) := cb_exec (S pos) r handles rest in
                (VL [enc_counts (counts r); VL []] :: outs, log)
      | Some x =>
          let '(r', res) := step r x in
          let handles' := match res with OHandle h => handles ++ [h] | _ => handles end in
          let inv := match res with OInvoked c => c | _ => [] end in
          let '(outs, log) := cb_exec (S pos) r' handles' rest in
          (VL [enc_counts (counts r'); enc_invoked inv] :: outs, map (fun e => (pos, e)) inv ++ log)
      end
  end.

Definition count_subs (ops : list val) : nat :=
  length (filter (fun o => as_n (nth_val 0 o) <? 2)%N ops).

Definition seen_of (log : list (nat * sub)) (k : nat) : val :=
  VL (map (fun x : nat * sub => vnat (fst x)) (filter (fun x : nat * sub => handle_id (fst (snd x)) =? k) log)).

Definition n_conc_counters : nat := 6.

(* ---- kind 3: operations that meet ---------------------------------------------
   round = (x<type> n<pre> n<k> n<rm>): <pre> subscriptions to the type one after the other;
   then <k> more subscriptions to it and the removers of the first <rm> are called by
   goroutines released together; after ALL of them have returned a decoy event of another
   type and an event of the type are dispatched; then every remover is called and the event
   is dispatched once more.  Every interleaving of the calls that met amounts to an atomic
   history (C13_schedules_atomic) and what is observed - registry sizes, how often each
   subscription is invoked - is the same for all of them; the model runs one: the
   removers first, then the subscriptions.  A permanent subscribe-to-all witness is
   registered before the first round. *)
Fixpoint sub_n (n : nat) (t : bytes) (r : reg) : reg * list handle :=
  match n with
  | O => (r, [])
  | S m =>
      let '(r1, h) := add_subscriber t 0%N r in
      let '(r2, hs) := sub_n m t r1 in
      (r2, h :: hs)
  end.

Definition remove_all (hs : list handle) (r : reg) : reg := fold_left (fun r h => remove h r) hs r.

Definition times_invoked (inv : list sub) (h : handle) : nat :=
  length (filter (fun e : sub => handle_eqb (fst e) h) inv).

(* the type of the decoy event of a round on type t: "message" for the unnamed type, unnamed otherwise *)
Definition lit_message : bytes := [109; 101; 115; 115; 97; 103; 101]%N.
Definition decoy_type (t : bytes) : bytes := match t with [] => lit_message | _ => [] end.

Definition meet_round (witness : handle) (r : reg) (rd : val) : reg * val :=
  let t := as_b (nth_val 0 rd) in
  let pre := as_nat (nth_val 1 rd) in
  let k := as_nat (nth_val 2 rd) in
  let rm := Nat.min (as_nat (nth_val 3 rd)) pre in
  let '(r1, hpre) := sub_n pre t r in
  let r2 := remove_all (firstn rm hpre) r1 in
  let '(r3, hnew) := sub_n k t r2 in
  let hs := hpre ++ hnew in
  let decoy := dispatch (decoy_type t) r3 in
  let inv := dispatch t r3 in
  let r4 := remove_all hs r3 in
  let inv2 := dispatch t r4 in
  (r4, VL [enc_counts (counts r3);
           VL (map (fun h => vnat (times_invoked inv h)) hs);
           VL (map (fun h => vnat (times_invoked decoy h)) hs);
           enc_counts (counts r4);
           VL (map (fun h => vnat (times_invoked inv2 h)) hs);
           vnat (times_invoked (decoy ++ inv ++ inv2) witness)]).

Fixpoint meet_rounds (witness : handle) (r : reg) (rds : list val) : list val :=
  match rds with
  | [] => []
  | rd :: rest => let '(r', o) := meet_round witness r rd in o :: meet_rounds witness r' rest
  end.

Definition run_callbacks (i : val) : val :=
  match as_n (nth_val 0 i) with
  | 0%N =>
      let ops := as_l (nth_val 2 i) in
      let '(outs, log) := cb_exec 0 reg_empty [] ops in
      VL [VL outs; VL (map (seen_of log) (seq 0 (count_subs ops)))]
  | 1%N => VL (repeat (VN 0) n_conc_counters)
  | 3%N =>
      let '(r0, w) := add_subscriber_all 0%N reg_empty in
      VL (meet_rounds w r0 (as_l (nth_val 1 i)))
  | _ => VL [VN 0]     (* the race detector reports nothing *)
  end.

(* ---- the oracle, from the property text, over the OBSERVED behaviour -------------
   The k-th subscription of the history is subscription number k.  After every prefix the
   subscriptions in force are those added and not removed; an event must be passed to
   exactly those in force with its exact type or to-all, once each; sizes reported by the
   registry must be those of the set in force (nothing leaks after a removal); every
   subscription sees positions in increasing order and is invoked exactly at the events
   whose per-event list names it.  The end of the request's context (n4) is none of the
   operations the property names: it changes nothing about who is in force, so every event
   dispatched after it is owed to the same subscriptions as before it - no more, no less. *)
Record osub := mko { o_num : nat; o_all : bool; o_type : bytes; o_label : N }.

Definition oracle_step (st : nat * list osub) (o : val) : nat * list osub :=
  let '(n, L) := st in
  match as_n (nth_val 0 o) with
  | 0%N => (S n, L ++ [mko n false (as_b (nth_val 1 o)) (as_n (nth_val 2 o))])
  | 1%N => (S n, L ++ [mko n true [] (as_n (nth_val 1 o))])
  | 2%N => (n, filter (fun s => negb (o_num s =? as_nat (nth_val 1 o))) L)
  | _ => (n, L)
  end.

Definition o_receives (t : bytes) (s : osub) : bool := o_all s || bytes_eqb (o_type s) t.

Fixpoint distinct_types (L : list osub) (seen : list bytes) : nat :=
  match L with
  | [] => 0
  | s :: r =>
      if o_all s || existsb (bytes_eqb (o_type s)) seen then distinct_types r seen
      else S (distinct_types r (o_type s :: seen))
  end.

Definition oracle_counts (L : list osub) : val :=
  VL [vnat (length (filter (fun s => negb (o_all s)) L)); vnat (length (filter o_all L)); vnat (distinct_types L [])].

Definition val_eqb_simple : val -> val -> bool :=
  fix eqb (a b : val) {struct a} : bool :=
    match a, b with
    | VN x, VN y => (x =? y)%N
    | VZ x, VZ y => (x =? y)%Z
    | VB x, VB y => bytes_eqb x y
    | VL x, VL y =>
        (fix go (x y : list val) : bool :=
           match x, y with
           | [], [] => true
           | a' :: x', b' :: y' => eqb a' b' && go x' y'
           | _, _ => false
           end) x y
    | _, _ => false
    end.

Fixpoint oracle_ops (st : nat * list osub) (ops outs : list val) : bool :=
  match ops, outs with
  | [], [] => true
  | o :: ops', out :: outs' =>
      let st' := oracle_step st o in
      let L := snd st' in
      val_eqb_simple (nth_val 0 out) (oracle_counts L) &&
      (if (as_n (nth_val 0 o) =? 3)%N
       then val_eqb_simple (nth_val 1 out)
              (VL (map (fun s => VL [vnat (o_num s); VN (o_label s)]) (filter (o_receives (as_b (nth_val 1 o))) L)))
       else val_eqb_simple (nth_val 1 out) (VL [])) &&
      oracle_ops st' ops' outs'
  | _, _ => false
  end.

Fixpoint increasing (l : list N) : bool :=
  match l with
  | a :: ((b :: _) as r) => (a <? b)%N && increasing r
  | _ => true
  end.

(* subscription k was invoked exactly at the positions whose per-event list names it *)
Definition named_at (k : nat) (outs : list val) : list N :=
  flat_map (fun p : nat * val =>
              if existsb (fun e => (as_nat (nth_val 0 e) =? k)) (as_l (nth_val 1 (snd p)))
              then [N.of_nat (fst p)] else [])
           (combine (seq 0 (length outs)) outs).

(* Kind 3, from the property text.  When the round's events are released every Subscribe* call
   and every remover call of the round has returned, so the subscriptions in force are: the
   <pre> earlier ones except the first <rm> (their removers were called), and the <k> new ones -
   whatever the order in which the calls that met took effect.  The event must be passed exactly
   once to each of them and not to the removed ones; the decoy (another type) to none of them;
   after every remover has been called, the event to none of them; the registry holds exactly
   the subscriptions in force (one type entry if there is one, none otherwise) next to the
   to-all witness, which sees all three events of the round. *)
Definition all_eq (n : nat) (l : list val) : bool := forallb (fun v => (as_nat v =? n)) l.

Definition meet_round_ok (rd out : val) : bool :=
  let pre := as_nat (nth_val 1 rd) in
  let k := as_nat (nth_val 2 rd) in
  let rm := Nat.min (as_nat (nth_val 3 rd)) pre in
  let inforce := pre - rm + k in
  let got := as_l (nth_val 1 out) in
  val_eqb_simple (nth_val 0 out) (VL [vnat inforce; vnat 1; vnat (if inforce =? 0 then 0 else 1)]) &&
  (length got =? pre + k) &&
  all_eq 0 (firstn rm got) && all_eq 1 (skipn rm got) &&
  (length (as_l (nth_val 2 out)) =? pre + k) && all_eq 0 (as_l (nth_val 2 out)) &&
  val_eqb_simple (nth_val 3 out) (VL [vnat 0; vnat 1; vnat 0]) &&
  (length (as_l (nth_val 4 out)) =? pre + k) && all_eq 0 (as_l (nth_val 4 out)) &&
  val_eqb_simple (nth_val 5 out) (vnat 3).

Fixpoint meet_rounds_ok (rds outs : list val) : bool :=
  match rds, outs with
  | [], [] => true
  | rd :: rds', out :: outs' => meet_round_ok rd out && meet_rounds_ok rds' outs'
  | _, _ => false
  end.

Definition holds_callbacks (i o : val) : bool :=
  match as_n (nth_val 0 i) with
  | 3%N => match o with VL outs => meet_rounds_ok (as_l (nth_val 1 i)) outs | _ => false end
  | 0%N =>
      let ops := as_l (nth_val 2 i) in
      let outs := as_l (nth_val 0 o) in
      let seen := as_l (nth_val 1 o) in
      oracle_ops (0, []) ops outs &&
      (length seen =? count_subs ops) &&
      forallb (fun p : nat * val =>
                 let l := map as_n (as_l (snd p)) in
                 increasing l && list_eqb N.eqb l (named_at (fst p) outs))
              (combine (seq 0 (length seen)) seen)
  | 1%N => forallb (fun v => (as_n v =? 0)%N) (as_l o) && (length (as_l o) =? n_conc_counters)
  | _ => negb (as_n (nth_val 0 o) =? 1)%N   (* a data race was reported; (n2) = the detector could not be run *)
  end.
