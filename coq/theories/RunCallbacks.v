(* val-level entry points of the family "callbacks" (C13).

   input  : (n0 n<start> (op ...))     a history applied to one real Connection; the first
                                       <start> operations happen before Connect, the others
                                       from another goroutine while connected
            (n1 ...)                   a concurrent scenario (see the harness): only the
                                       oracle's violation counters are observed
            (n2 n<seed>)               the concurrent scenarios once more in a race-enabled build:
                                       observed (n0) = the race detector reported nothing
     op   = (n0 x<type> n<label>)      SubscribeEvent / SubscribeMessages
            (n1 n<label>)              SubscribeToAll
            (n2 n<k>)                  call the remover returned by the k-th subscription
            (n3 x<type>)               an event of that type arrives
   output : ((opres ...) (seen ...))
     opres = ((n<typed> n<all> n<types>) ((n<sub> n<label>) ...))
             registry sizes after the operation (VerifCallbackCount) and, for an event, who
             was invoked, sorted by subscription number (Go's map order is unspecified)
     seen  = (n<pos> ...)              per subscription, in subscription order: the positions
                                       of the events it was invoked for, in the order in
                                       which it saw them *)
From GoSse Require Import Base Callbacks.
Local Open Scope nat_scope.

(* ---- the model's output ---------------------------------------------------- *)
Definition enc_counts (c : nat * nat * nat) : val :=
  let '(a, b, d) := c in VL [vnat a; vnat b; vnat d].

Fixpoint insert_sub (x : sub) (l : list sub) : list sub :=
  match l with
  | [] => [x]
  | y :: r => if handle_id (fst x) <=? handle_id (fst y) then x :: l else y :: insert_sub x r
  end.
Definition sort_subs (l : list sub) : list sub := fold_right insert_sub [] l.

Definition enc_sub (e : sub) : val := VL [vnat (handle_id (fst e)); VN (snd e)].
Definition enc_invoked (c : list sub) : val := VL (map enc_sub (sort_subs c)).

(* the operation, with the removers resolved to the handles the model handed out *)
Definition dec_cb_op (handles : list handle) (o : val) : option op :=
  match as_n (nth_val 0 o) with
  | 0%N => Some (SubEvent (as_b (nth_val 1 o)) (as_n (nth_val 2 o)))
  | 1%N => Some (SubAll (as_n (nth_val 1 o)))
  | 2%N => match nth_error handles (as_nat (nth_val 1 o)) with Some h => Some (Remove h) | None => None end
  | _ => Some (Dispatch (as_b (nth_val 1 o)))
  end.

(* run the history; returns per-operation results and the invocation log (position, sub) *)
Fixpoint cb_exec (pos : nat) (r : reg) (handles : list handle) (ops : list val)
  : list val * list (nat * sub) :=
  match ops with
  | [] => ([], [])
  | o :: rest =>
      match dec_cb_op handles o with
      | None => let '(outs, log) := cb_exec (S pos) r handles rest in
                (VL [enc_counts (counts r); VL []] :: outs, log)
      | Some x =>
          let '(r', res) := step r x in
          let handles' := match res with OHandle h => handles ++ [h] | _ => handles end in
          let inv := match res with OInvoked c => c | _ => [] end in
          let '(outs, log) := cb_exec (S pos) r' handles' rest in
          (VL [enc_counts (counts r'); enc_invoked inv] :: outs, map (fun e => (pos, e)) inv ++ log)
      end
  end.

Definition count_subs (ops : list val) : nat :=
  length (filter (fun o => as_n (nth_val 0 o) <? 2)%N ops).

Definition seen_of (log : list (nat * sub)) (k : nat) : val :=
  VL (map (fun x : nat * sub => vnat (fst x)) (filter (fun x : nat * sub => handle_id (fst (snd x)) =? k) log)).

Definition n_conc_counters : nat := 6.

Definition run_callbacks (i : val) : val :=
  match as_n (nth_val 0 i) with
  | 0%N =>
      let ops := as_l (nth_val 2 i) in
      let '(outs, log) := cb_exec 0 reg_empty [] ops in
      VL [VL outs; VL (map (seen_of log) (seq 0 (count_subs ops)))]
  | 1%N => VL (repeat (VN 0) n_conc_counters)
  | _ => VL [VN 0]     (* the race detector reports nothing *)
  end.

(* ---- the oracle, from the property text, over the OBSERVED behaviour -------------
   The k-th subscription of the history is subscription number k.  After every prefix the
   subscriptions in force are those added and not removed; an event must be passed to
   exactly those in force with its exact type or to-all, once each; sizes reported by the
   registry must be those of the set in force (nothing leaks after a removal); every
   subscription sees positions in increasing order and is invoked exactly at the events
   whose per-event list names it. *)
Record osub := mko { o_num : nat; o_all : bool; o_type : bytes; o_label : N }.

Definition oracle_step (st : nat * list osub) (o : val) : nat * list osub :=
  let '(n, L) := st in
  match as_n (nth_val 0 o) with
  | 0%N => (S n, L ++ [mko n false (as_b (nth_val 1 o)) (as_n (nth_val 2 o))])
  | 1%N => (S n, L ++ [mko n true [] (as_n (nth_val 1 o))])
  | 2%N => (n, filter (fun s => negb (o_num s =? as_nat (nth_val 1 o))) L)
  | _ => (n, L)
  end.

Definition o_receives (t : bytes) (s : osub) : bool := o_all s || bytes_eqb (o_type s) t.

Fixpoint distinct_types (L : list osub) (seen : list bytes) : nat :=
  match L with
  | [] => 0
  | s :: r =>
      if o_all s || existsb (bytes_eqb (o_type s)) seen then distinct_types r seen
      else S (distinct_types r (o_type s :: seen))
  end.

Definition oracle_counts (L : list osub) : val :=
  VL [vnat (length (filter (fun s => negb (o_all s)) L)); vnat (length (filter o_all L)); vnat (distinct_types L [])].

Definition val_eqb_simple : val -> val -> bool :=
  fix eqb (a b : val) {struct a} : bool :=
    match a, b with
    | VN x, VN y => (x =? y)%N
    | VZ x, VZ y => (x =? y)%Z
    | VB x, VB y => bytes_eqb x y
    | VL x, VL y =>
        (fix go (x y : list val) : bool :=
           match x, y with
           | [], [] => true
           | a' :: x', b' :: y' => eqb a' b' && go x' y'
           | _, _ => false
           end) x y
    | _, _ => false
    end.

Fixpoint oracle_ops (st : nat * list osub) (ops outs : list val) : bool :=
  match ops, outs with
  | [], [] => true
  | o :: ops', out :: outs' =>
      let st' := oracle_step st o in
      let L := snd st' in
      val_eqb_simple (nth_val 0 out) (oracle_counts L) &&
      (if (as_n (nth_val 0 o) =? 3)%N
       then val_eqb_simple (nth_val 1 out)
              (VL (map (fun s => VL [vnat (o_num s); VN (o_label s)]) (filter (o_receives (as_b (nth_val 1 o))) L)))
       else val_eqb_simple (nth_val 1 out) (VL [])) &&
      oracle_ops st' ops' outs'
  | _, _ => false
  end.

Fixpoint increasing (l : list N) : bool :=
  match l with
  | a :: ((b :: _) as r) => (a <? b)%N && increasing r
  | _ => true
  end.

(* subscription k was invoked exactly at the positions whose per-event list names it *)
Definition named_at (k : nat) (outs : list val) : list N :=
  flat_map (fun p : nat * val =>
              if existsb (fun e => (as_nat (nth_val 0 e) =? k)) (as_l (nth_val 1 (snd p)))
              then [N.of_nat (fst p)] else [])
           (combine (seq 0 (length outs)) outs).

Definition holds_callbacks (i o : val) : bool :=
  match as_n (nth_val 0 i) with
  | 0%N =>
      let ops := as_l (nth_val 2 i) in
      let outs := as_l (nth_val 0 o) in
      let seen := as_l (nth_val 1 o) in
      oracle_ops (0, []) ops outs &&
      (length seen =? count_subs ops) &&
      forallb (fun p : nat * val =>
                 let l := map as_n (as_l (snd p)) in
                 increasing l && list_eqb N.eqb l (named_at (fst p) outs))
              (combine (seq 0 (length seen)) seen)
  | 1%N => forallb (fun v => (as_n v =? 0)%N) (as_l o) && (length (as_l o) =? n_conc_counters)
  | _ => negb (as_n (nth_val 0 o) =? 1)%N   (* a data race was reported; (n2) = the detector could not be run *)
  end.
