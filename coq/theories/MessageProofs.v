(* Proofs about message.go's model: byte accounting of WriteTo (C15), the text
   round trip (C15), single-line values from UnmarshalText (C14). *)
From GoSse Require Import Base Lines Fields Queue FieldParser Message ReplayersProofs.
From GoSse.Gen Require Import Params.
From Coq Require Import DecimalN DecimalPos DecimalFacts.
Local Open Scope nat_scope.

(* ---- run_writes ------------------------------------------------------------ *)
Definition is_fail (v : wverdict) : bool := match v with WFail _ _ => true | WOk => false end.
Definition script_ok (script : list wverdict) : Prop :=
  forall k e, In (WFail k e) script -> e <> 0%N.

(* the first failing verdict among the first [n] of the script: (index, k, e) *)
Fixpoint first_fail (n : nat) (script : list wverdict) : option (nat * nat * N) :=
  match n, script with
  | O, _ | _, [] => None
  | S n', WFail k e :: _ => Some (0, k, e)
  | S n', WOk :: r => match first_fail n' r with Some (i, k, e) => Some (S i, k, e) | None => None end
  end.

Lemma run_writes_spec calls : forall script,
  script_ok script ->
  let '(n, e, acc) := run_writes calls script in
  n = length acc /\
  match first_fail (length calls) script with
  | None => e = 0%N /\ acc = concat calls
  | Some (i, k, e') => e = e' /\ e <> 0%N /\
                       acc = concat (firstn i calls) ++ firstn k (nth i calls [])
  end.
Proof.
  induction calls as [|c rest IH]; intros script Hok; cbn [run_writes length first_fail].
  - split; [reflexivity|]. destruct script; split; reflexivity.
  - destruct script as [|[|k e] script'].
    + specialize (IH [] (fun _ _ H => match H with end)). cbn [tl].
      destruct (run_writes rest []) as [[n e] acc]. destruct IH as [Hn IH].
      assert (Hff : first_fail (length rest) [] = None) by (destruct (length rest); reflexivity).
      rewrite Hff in IH. destruct IH as [-> ->]. rewrite app_length. split; [lia|]. split; reflexivity.
    + cbn [tl]. assert (Hok' : script_ok script') by (intros k e H; apply (Hok k e); now right).
      specialize (IH script' Hok'). destruct (run_writes rest script') as [[n e] acc]. destruct IH as [Hn IH].
      rewrite app_length. split; [lia|].
      destruct (first_fail (length rest) script') as [[[i k] e']|].
      * destruct IH as (-> & Hne & ->). split; [reflexivity|]. split; [assumption|].
        cbn [firstn concat nth]. now rewrite app_assoc.
      * destruct IH as [-> ->]. split; reflexivity.
    + split; [rewrite firstn_length; reflexivity|]. split; [reflexivity|]. split; [apply (Hok k e); now left|].
      reflexivity.
Qed.

Lemma first_fail_some n script i k e :
  first_fail n script = Some (i, k, e) ->
  i < n /\ nth_error script i = Some (WFail k e) /\ forall j, j < i -> nth_error script j = Some WOk.
Proof.
  revert script i; induction n as [|n IH]; intros [|[|k' e'] script] i H; cbn in H; try discriminate.
  - destruct (first_fail n script) as [[[i' k''] e'']|] eqn:E; [|discriminate]. injection H as <- <- <-.
    destruct (IH script i' E) as (H1 & H2 & H3). split; [lia|]. split; [exact H2|].
    intros [|j] Hj; [reflexivity|]. apply H3. lia.
  - injection H as <- <- <-. split; [lia|]. split; [reflexivity|]. intros j Hj. lia.
Qed.

Lemma firstn_concat_prefix {A} (ls : list (list A)) i k :
  exists rest, concat ls = (concat (firstn i ls) ++ firstn k (nth i ls [])) ++ rest.
Proof.
  revert i; induction ls as [|l ls IH]; intros i.
  - exists []. destruct i, k; reflexivity.
  - destruct i as [|i]; cbn [firstn concat nth].
    + exists (skipn k l ++ concat ls). cbn. now rewrite app_assoc, firstn_skipn.
    + destruct (IH i) as (rest & Hr). exists rest. now rewrite Hr, !app_assoc.
Qed.

(* ---- WriteTo: exact byte accounting ----------------------------------------- *)
Lemma run_writes_err_iff calls script :
  script_ok script ->
  let '(n, e, acc) := run_writes calls script in
  (e = 0%N <-> first_fail (length calls) script = None).
Proof.
  intros Hok. pose proof (run_writes_spec calls script Hok) as H.
  destruct (run_writes calls script) as [[n e] acc]. destruct H as [_ H].
  destruct (first_fail (length calls) script) as [[[i k] e']|].
  - destruct H as (-> & Hne & _). split; [congruence|discriminate].
  - destruct H as [-> _]. split; reflexivity.
Qed.

Lemma script_ok_skipn c script : script_ok script -> script_ok (skipn c script).
Proof.
  intros Hok k e Hin. apply (Hok k e). revert script Hok Hin.
  induction c as [|c IH]; intros [|v s] Hok H; cbn in *; auto.
  right. apply IH; [|assumption]. intros k' e' H'. apply (Hok k' e'). now right.
Qed.

Lemma run_writes_app a : forall b script,
  script_ok script ->
  run_writes (a ++ b) script =
  let '(n, e, acc) := run_writes a script in
  if (e =? 0)%N then let '(n2, e2, acc2) := run_writes b (skipn (length a) script) in (n + n2, e2, acc ++ acc2)
  else (n, e, acc).
Proof.
  induction a as [|c a IH]; intros b script Hok; cbn [app run_writes length skipn].
  - destruct (run_writes b script) as [[n2 e2] acc2]. reflexivity.
  - destruct script as [|[|k e] script'].
    + cbn [tl]. rewrite (IH b [] Hok).
      destruct (run_writes a []) as [[n e] acc]. destruct (e =? 0)%N; [|reflexivity].
      replace (skipn (length a) []) with (@nil wverdict) by (destruct (length a); reflexivity).
      destruct (run_writes b []) as [[n2 e2] acc2]. now rewrite Nat.add_assoc, app_assoc.
    + cbn [tl]. assert (Hok' : script_ok script') by (intros k e H; apply (Hok k e); now right).
      rewrite (IH b script' Hok').
      destruct (run_writes a script') as [[n e] acc]. destruct (e =? 0)%N; [|reflexivity].
      destruct (run_writes b (skipn (length a) script')) as [[n2 e2] acc2]. now rewrite Nat.add_assoc, app_assoc.
    + assert (Hne : e <> 0%N) by (apply (Hok k e); now left). apply N.eqb_neq in Hne. now rewrite Hne.
Qed.

Lemma body_calls_shape m calls :
  body_calls m = Some calls -> calls = [] \/ 0 < length (concat calls).
Proof.
  unfold body_calls, retry_calls. intros H.
  destruct (m_id m) as [v|] eqn:Eid.
  { right. destruct ((millis_of (m_retry m) <=? 0)%Z); [|destruct (retry_digits _)]; try discriminate;
      injection H as <-; cbn [field_calls app concat]; rewrite app_length; unfold field_bytes_id; cbn; lia. }
  destruct (m_type m) as [v|] eqn:Ety.
  { right. destruct ((millis_of (m_retry m) <=? 0)%Z); [|destruct (retry_digits _)]; try discriminate;
      injection H as <-; cbn [field_calls app concat]; rewrite app_length; unfold field_bytes_event; cbn; lia. }
  cbn [field_calls app] in H.
  destruct ((millis_of (m_retry m) <=? 0)%Z).
  - injection H as <-. cbn [app]. destruct (m_chunks m) as [|c cs]; [now left|right].
    cbn [flat_map chunk_calls app concat]. rewrite app_length.
    destruct (c_comment c); unfold field_bytes_comment, field_bytes_data; cbn; lia.
  - destruct (retry_digits _); [|discriminate]. injection H as <-. right.
    cbn [app concat]. rewrite app_length. unfold field_bytes_retry; cbn; lia.
Qed.

(* WriteTo is "perform the Write calls of the encoding until one fails" *)
Lemma write_to_eq m script :
  script_ok script ->
  write_to m script = match write_calls m with Some calls => Some (run_writes calls script) | None => None end.
Proof.
  intros Hok. unfold write_to, write_calls. destruct (body_calls m) as [calls|] eqn:Eb; [|reflexivity].
  destruct (body_calls_shape m calls Eb) as [->|Hpos].
  { reflexivity. }
  destruct (Nat.eqb_spec (length (concat calls)) 0) as [Hz|_]; [lia|].
  rewrite (run_writes_app calls [newline_bytes] script Hok).
  pose proof (run_writes_spec calls script Hok) as H1.
  destruct (run_writes calls script) as [[n e] acc]. destruct H1 as [Hn H1].
  destruct (N.eqb_spec e 0) as [->|Hne]; cbn [negb]; [|reflexivity].
  destruct (first_fail (length calls) script) as [[[i k] e']|]; [destruct H1 as (-> & Hne & _); congruence|].
  destruct H1 as [_ ->]. rewrite <- Hn in Hpos.
  destruct (Nat.eqb_spec n 0); [lia|].
  destruct (run_writes [newline_bytes] (skipn (length calls) script)) as [[o e2] acc2]. reflexivity.
Qed.

(* C15: exact byte accounting against every failing writer *)
Theorem write_to_accounting m script calls w :
  script_ok script -> write_calls m = Some calls -> wire m = Some w ->
  exists n e acc, write_to m script = Some (n, e, acc) /\
    n = length acc /\ (exists rest, w = acc ++ rest) /\
    match first_fail (length calls) script with
    | None => e = 0%N /\ acc = w
    | Some (i, k, e') =>
        e = e' /\ e <> 0%N /\ acc = concat (firstn i calls) ++ firstn k (nth i calls []) /\
        nth_error script i = Some (WFail k e) /\ (forall j, j < i -> nth_error script j = Some WOk)
    end.
Proof.
  intros Hok Hc Hw. rewrite (write_to_eq m script Hok), Hc. unfold wire in Hw. rewrite Hc in Hw. injection Hw as <-.
  pose proof (run_writes_spec calls script Hok) as H1.
  destruct (run_writes calls script) as [[n e] acc]. destruct H1 as [Hn H1].
  exists n, e, acc. split; [reflexivity|]. split; [assumption|].
  destruct (first_fail (length calls) script) as [[[i k] e']|] eqn:Eff.
  - destruct H1 as (-> & Hne & ->). split; [apply firstn_concat_prefix|].
    apply first_fail_some in Eff as (Hi & Hnth & Hbefore). repeat split; auto.
  - destruct H1 as [-> ->]. split; [exists []; now rewrite List.app_nil_r|]. split; reflexivity.
Qed.

(* a message with nothing to write produces no bytes, and (0, nil) *)
Theorem write_to_empty m script :
  m_id m = None -> m_type m = None -> (millis_of (m_retry m) <= 0)%Z -> m_chunks m = [] ->
  wire m = Some [] /\ write_to m script = Some (0, 0%N, []).
Proof.
  intros H1 H2 H3 H4. unfold wire, write_calls, write_to, body_calls, retry_calls.
  rewrite H1, H2, H4. apply Z.leb_le in H3. rewrite H3. cbn. split; reflexivity.
Qed.

(* the 13-byte buffer suffices for every int64 duration *)
From Coq Require Import ZifyN ZifyNat ZifyBool.
Ltac Zify.zify_post_hook ::= Z.to_euclidean_division_equations.

Lemma digits_loop_fits slots : forall n acc, (n < 10 ^ N.of_nat slots)%N -> digits_loop slots n acc <> None.
Proof.
  induction slots as [|s IH]; intros n acc Hn; cbn [digits_loop].
  - cbn in Hn. assert (n = 0%N) by lia. subst. discriminate.
  - destruct (N.eqb_spec n 0); [discriminate|]. apply IH.
    rewrite Nat2N.inj_succ, N.pow_succ_r' in Hn. lia.
Qed.

Theorem retry_digits_fit d :
  (d < 9223372036854775808)%Z -> retry_calls d <> None.
Proof.
  intros Hd. unfold retry_calls. destruct (Z.leb_spec (millis_of d) 0); [discriminate|].
  assert (Hm : (millis_of d < 10000000000000)%Z).
  { unfold millis_of in *. lia. }
  unfold retry_digits.
  pose proof (digits_loop_fits retry_buf_len (Z.to_N (millis_of d)) []) as Hf.
  destruct (digits_loop retry_buf_len (Z.to_N (millis_of d)) []); [discriminate|].
  exfalso. apply Hf; [|reflexivity]. unfold retry_buf_len. cbn. change (10 ^ 13)%N with 10000000000000%N. lia.
Qed.

(* the digits written are the decimal representation: Horner gives the value back *)
Lemma horner_app a x y : horner a (x ++ y) = horner (horner a x) y.
Proof. revert a; induction x as [|b x IH]; intros a; cbn; auto. Qed.

Lemma digits_loop_spec slots : forall n acc r,
  digits_loop slots n acc = Some r ->
  exists pre, r = pre ++ acc /\ horner 0 pre = n /\ all_digits pre = true /\ (n <> 0%N -> pre <> []).
Proof.
  induction slots as [|s IH]; intros n acc r; cbn [digits_loop].
  - destruct (N.eqb_spec n 0) as [->|]; [|discriminate]. intros [= <-]. exists []. repeat split; auto; congruence.
  - destruct (N.eqb_spec n 0) as [->|Hn].
    + intros [= <-]. exists []. repeat split; auto; congruence.
    + intros H. destruct (IH _ _ _ H) as (pre & -> & Hh & Hd & _).
      exists (pre ++ [(48 + n mod 10)%N]). rewrite <- app_assoc. split; [reflexivity|].
      split; [rewrite horner_app, Hh; cbn [horner]; lia|].
      split.
      * unfold all_digits in *. rewrite forallb_app, Hd. cbn [forallb andb].
        assert (n mod 10 < 10)%N by (apply N.mod_lt; lia).
        destruct (N.leb_spec 48 (48 + n mod 10)), (N.leb_spec (48 + n mod 10) 57); cbn; try reflexivity; lia.
      * intros _. destruct pre; discriminate.
Qed.

(* ---- the text round trip ---------------------------------------------------- *)
Lemma newline_index_line line rest :
  no_nl line -> newline_index (line ++ LF :: rest) = (length line, 1).
Proof.
  induction 1 as [|b r Hb Hr IH]; cbn [app newline_index length].
  - reflexivity.
  - rewrite Hb, IH. reflexivity.
Qed.

Lemma next_chunk_line line rest :
  no_nl line -> next_chunk (line ++ LF :: rest) = (line, rest, true).
Proof.
  intros H. unfold next_chunk. rewrite (newline_index_line line rest H).
  rewrite firstn_app, Nat.sub_diag, firstn_all. cbn [firstn]. rewrite List.app_nil_r.
  rewrite skipn_app, skipn_all2 by lia. replace (length line + 1 - length line) with 1 by lia. reflexivity.
Qed.

(* one line that scans to a field: Next returns it and moves past the line *)
Lemma fp_next_line f line rest fld :
  fp_data f = line ++ LF :: rest -> no_nl line ->
  scan_segment (fp_keep_comments f) line = Some fld ->
  fp_next f = (Some fld, mkfp rest (fp_err f) true (fp_keep_comments f) (fp_remove_bom f)).
Proof.
  intros Hd Hnl Hs. unfold fp_next. rewrite Hd. rewrite app_length. cbn [length].
  replace (length line + S (length rest)) with (S (length line + length rest)) by lia.
  cbn [fp_next_fuel]. rewrite Hd. destruct (line ++ LF :: rest) eqn:E; [destruct line; discriminate|].
  rewrite <- E. rewrite (next_chunk_line line rest Hnl). now rewrite Hs.
Qed.

(* the lines of a message's wire form and the fields they scan to *)
Definition opt_list {A} (o : option A) : list A := match o with Some a => [a] | None => [] end.

Definition retry_field (d : Z) : option bytes :=
  if (millis_of d <=? 0)%Z then None else retry_digits (millis_of d).

Definition msg_lines (m : msg) : list (bytes * pfield) :=
  map (fun v => (field_bytes_id ++ v, mkpf FID v)) (opt_list (m_id m)) ++
  map (fun v => (field_bytes_event ++ v, mkpf FEvent v)) (opt_list (m_type m)) ++
  map (fun v => (field_bytes_retry ++ v, mkpf FRetry v)) (opt_list (retry_field (m_retry m))) ++
  map (fun c => ((if c_comment c then field_bytes_comment else field_bytes_data) ++ c_content c,
                 mkpf (if c_comment c then FComment else FData) (c_content c))) (m_chunks m).

Definition lines_text (ls : list bytes) : bytes := concat (map (fun l => l ++ [LF]) ls).

Lemma lines_text_app a b : lines_text (a ++ b) = lines_text a ++ lines_text b.
Proof. unfold lines_text. now rewrite map_app, concat_app. Qed.

Lemma field_calls_text fb f : concat (field_calls fb f) = lines_text (map (fun v => fb ++ v) (opt_list f)).
Proof.
  destruct f as [v|]; [|reflexivity]. unfold field_calls, opt_list, lines_text, newline_bytes.
  cbn [concat map]. rewrite ?List.app_nil_r, <- ?app_assoc. reflexivity.
Qed.

Lemma chunk_calls_text cs :
  concat (flat_map chunk_calls cs)
  = lines_text (map (fun c => (if c_comment c then field_bytes_comment else field_bytes_data) ++ c_content c) cs).
Proof.
  induction cs as [|c cs IH]; [reflexivity|]. cbn [flat_map map]. rewrite concat_app, IH.
  unfold lines_text at 2. cbn [map concat]. fold (lines_text (map (fun c0 => (if c_comment c0 then field_bytes_comment else field_bytes_data) ++ c_content c0) cs)).
  f_equal. unfold chunk_calls, newline_bytes. cbn [concat]. rewrite ?List.app_nil_r, <- ?app_assoc. reflexivity.
Qed.

Lemma body_calls_lines m calls :
  body_calls m = Some calls -> concat calls = lines_text (map fst (msg_lines m)).
Proof.
  unfold body_calls, retry_calls, msg_lines, retry_field. intros H.
  rewrite !map_app, !map_map. cbn [fst]. rewrite !lines_text_app.
  destruct ((millis_of (m_retry m) <=? 0)%Z).
  - injection H as <-. rewrite !concat_app, !field_calls_text, chunk_calls_text. reflexivity.
  - destruct (retry_digits (millis_of (m_retry m))) as [ds|]; [|discriminate].
    injection H as <-. rewrite !concat_app, !field_calls_text.
    f_equal. f_equal. cbn [concat]. rewrite chunk_calls_text.
    unfold lines_text at 2. unfold opt_list, newline_bytes. cbn [map concat].
    rewrite ?List.app_nil_r, <- ?app_assoc. reflexivity.
Qed.

(* well-formed (API-built) messages: every value and chunk is a single line *)
Definition msg_wf (m : msg) : Prop :=
  (forall v, m_id m = Some v -> no_nl v) /\ (forall v, m_type m = Some v -> no_nl v) /\
  Forall (fun c => no_nl (c_content c)) (m_chunks m).

Lemma all_digits_no_nl s : all_digits s = true -> no_nl s.
Proof.
  unfold all_digits, no_nl. rewrite forallb_forall, Forall_forall. intros H b Hb. specialize (H b Hb).
  apply andb_true_iff in H as [H1 H2]. apply N.leb_le in H1. unfold is_nl, LF, CR.
  destruct (N.eqb_spec b 10), (N.eqb_spec b 13); cbn; try reflexivity; lia.
Qed.

Lemma no_nl_app a b : no_nl a -> no_nl b -> no_nl (a ++ b).
Proof. unfold no_nl. intros. now apply Forall_app. Qed.

Lemma retry_field_digits d ds : retry_field d = Some ds -> all_digits ds = true /\ horner 0 ds = Z.to_N (millis_of d) /\ ds <> [].
Proof.
  unfold retry_field, retry_digits. destruct (Z.leb_spec (millis_of d) 0) as [|Hpos]; [discriminate|]. intros Hdl.
  destruct (digits_loop_spec _ _ _ _ Hdl) as (pre & -> & Hh & Hd & Hne). rewrite List.app_nil_r.
  split; [assumption|]. split; [assumption|]. apply Hne. lia.
Qed.

Lemma msg_lines_ok m :
  msg_wf m ->
  Forall (fun p : bytes * pfield => no_nl (fst p) /\ scan_segment true (fst p) = Some (snd p) /\ pf_name (snd p) <> FEnd)
         (msg_lines m).
Proof.
  intros (Hid & Hty & Hch). unfold msg_lines. repeat (apply Forall_app; split).
  - destruct (m_id m) as [v|]; constructor; [|constructor]. cbn [fst snd pf_name].
    split; [apply no_nl_app; [repeat constructor|now apply Hid]|]. split; [reflexivity|discriminate].
  - destruct (m_type m) as [v|]; constructor; [|constructor]. cbn [fst snd pf_name].
    split; [apply no_nl_app; [repeat constructor|now apply Hty]|]. split; [reflexivity|discriminate].
  - destruct (retry_field (m_retry m)) as [ds|] eqn:E; constructor; [|constructor]. cbn [fst snd pf_name].
    destruct (retry_field_digits _ _ E) as (Hd & _ & _).
    split; [apply no_nl_app; [repeat constructor|now apply all_digits_no_nl]|]. split; [reflexivity|discriminate].
  - induction Hch as [|c cs Hc Hcs IH]; constructor; [|exact IH]. cbn [fst snd pf_name].
    destruct (c_comment c).
    + split; [apply no_nl_app; [repeat constructor|assumption]|]. split; [reflexivity|discriminate].
    + split; [apply no_nl_app; [repeat constructor|assumption]|]. split; [reflexivity|discriminate].
Qed.

(* parsing the wire text gives back the fields, then the end-of-event field *)
Lemma fields_until_end_lines (ls : list (bytes * pfield)) : forall f tail_ fuel,
  Forall (fun p : bytes * pfield => no_nl (fst p) /\ scan_segment true (fst p) = Some (snd p) /\ pf_name (snd p) <> FEnd) ls ->
  fp_keep_comments f = true ->
  fp_data f = lines_text (map fst ls) ++ LF :: tail_ ->
  length ls < fuel ->
  exists f', fields_until_end fuel f = (map snd ls ++ [mkpf FEnd []], f') /\ fp_err f' = fp_err f.
Proof.
  induction ls as [|[l fld] ls IH]; intros f tail_ fuel Hall Hk Hd Hfuel.
  - destruct fuel as [|fuel]; [cbn in Hfuel; lia|]. cbn [fields_until_end map app].
    cbn in Hd. rewrite (fp_next_line f [] tail_ (mkpf FEnd [])); [|exact Hd|constructor|rewrite Hk; reflexivity].
    cbn [pf_name]. eexists; split; reflexivity.
  - destruct fuel as [|fuel]; [cbn in Hfuel; lia|]. cbn [fields_until_end map app fst snd].
    inversion Hall as [|? ? (Hnl & Hs & Hne) Hrest]; subst. cbn [fst snd] in *.
    unfold lines_text in Hd. cbn [map concat fst] in Hd. rewrite <- !app_assoc in Hd. cbn [app] in Hd.
    rewrite (fp_next_line f l (lines_text (map fst ls) ++ LF :: tail_) fld); [|exact Hd|exact Hnl|now rewrite Hk].
    destruct (pf_name fld) eqn:En; try congruence.
    all: destruct (IH (mkfp (lines_text (map fst ls) ++ LF :: tail_) (fp_err f) true (fp_keep_comments f) (fp_remove_bom f))
                    tail_ fuel Hrest Hk eq_refl ltac:(cbn [length] in Hfuel; lia)) as (f' & Hf' & He');
      rewrite Hf'; eexists; split; [reflexivity|exact He'].
Qed.

Lemma lines_text_length ls : length ls <= length (lines_text ls).
Proof.
  unfold lines_text. induction ls as [|l r IH]; cbn [map concat length]; [lia|].
  rewrite !app_length. cbn [length]. lia.
Qed.

(* what the unmarshalled message must be *)
Definition roundtrip_of (m : msg) : msg :=
  mkm (m_chunks m) (m_id m) (m_type m)
      (if (millis_of (m_retry m) <=? 0)%Z then 0%Z else (millis_of (m_retry m) * 1000000)%Z).

Lemma unmarshal_chunks cs : forall m0,
  unmarshal_fields (map (fun c => mkpf (if c_comment c then FComment else FData) (c_content c)) cs ++ [mkpf FEnd []]) m0
  = inl (mkm (m_chunks m0 ++ cs) (m_id m0) (m_type m0) (m_retry m0)).
Proof.
  induction cs as [|c cs IH]; intros m0; cbn [map app unmarshal_fields pf_name].
  - rewrite List.app_nil_r. now destruct m0.
  - destruct c as [content [|]]; cbn [c_comment c_content pf_name pf_value]; rewrite IH; cbn; now rewrite <- app_assoc.
Qed.

Lemma wrap64_small z : (0 <= z < 9223372036854775808)%Z -> wrap64 z = z.
Proof.
  intros H. unfold wrap64, two64z. rewrite Z.mod_small by lia.
  destruct (Z.ltb_spec z 9223372036854775808); [reflexivity|lia].
Qed.

Theorem unmarshal_wire m w :
  msg_wf m -> (forall v, m_id m = Some v -> has_nul v = false) ->
  (m_retry m < 9223372036854775808)%Z ->
  wire m = Some w -> w <> [] ->
  unmarshal w = UOk (roundtrip_of m).
Proof.
  intros Hwf Hnul Hretry Hw Hne.
  unfold wire, write_calls in Hw. destruct (body_calls m) as [calls|] eqn:Eb; [|discriminate].
  pose proof (body_calls_lines m calls Eb) as Hlines.
  destruct (Nat.eqb_spec (length (concat calls)) 0) as [Hz|Hnz]; injection Hw as <-; [congruence|].
  rewrite concat_app, Hlines. cbn [concat]. unfold newline_bytes. cbn [app].
  change (lines_text (map fst (msg_lines m)) ++ [10%N]) with (lines_text (map fst (msg_lines m)) ++ [LF]).
  set (ls := msg_lines m) in *.
  assert (Hls : ls <> []).
  { intros E. rewrite E in Hlines. cbn in Hlines. rewrite Hlines in Hnz. cbn in Hnz. lia. }
  (* no BOM at the start: the text starts with a field name or a colon *)
  assert (Hbom : is_prefix bom (lines_text (map fst ls) ++ [LF]) = false).
  { unfold ls, msg_lines in *. destruct (m_id m); [reflexivity|]. destruct (m_type m); [reflexivity|].
    destruct (retry_field (m_retry m)); [reflexivity|]. destruct (m_chunks m) as [|c cs]; [exfalso; apply Hls; reflexivity|].
    cbn. destruct (c_comment c); reflexivity. }
  unfold unmarshal.
  assert (Hf0 : fp_set_remove_bom (fp_keep (fp_new (lines_text (map fst ls) ++ [LF])) true) true
                = mkfp (lines_text (map fst ls) ++ [LF]) false false true true).
  { unfold fp_set_remove_bom, fp_keep, fp_new, do_remove_bom. cbn [fp_data fp_err fp_started fp_keep_comments fp_remove_bom].
    now rewrite Hbom. }
  rewrite Hf0.
  destruct (fields_until_end_lines ls (mkfp (lines_text (map fst ls) ++ [LF]) false false true true) []
              (S (length (lines_text (map fst ls) ++ [LF]))) (msg_lines_ok m Hwf) eq_refl eq_refl) as (f' & Hf' & He').
  { (* fuel: at least one byte per line *)
    rewrite app_length. cbn [length]. pose proof (lines_text_length (map fst ls)) as Hl.
    rewrite map_length in Hl. lia. }
  rewrite Hf'. cbn [fp_err] in He'. rewrite He'.
  (* interpret the fields *)
  unfold ls, msg_lines. rewrite !map_app, !map_map. cbn [snd]. rewrite <- !app_assoc.
  assert (Hres : forall m0,
            m_chunks m0 = [] ->
            unmarshal_fields
              (map (fun v => mkpf FID v) (opt_list (m_id m)) ++
               map (fun v => mkpf FEvent v) (opt_list (m_type m)) ++
               map (fun v => mkpf FRetry v) (opt_list (retry_field (m_retry m))) ++
               map (fun c => mkpf (if c_comment c then FComment else FData) (c_content c)) (m_chunks m) ++ [mkpf FEnd []]) m0
            = inl (mkm (m_chunks m)
                       (match m_id m with Some v => Some v | None => m_id m0 end)
                       (match m_type m with Some v => Some v | None => m_type m0 end)
                       (match retry_field (m_retry m) with
                        | Some _ => (millis_of (m_retry m) * 1000000)%Z | None => m_retry m0 end))).
  { intros m0 Hc0.
    destruct (m_id m) as [idv|] eqn:Eid; cbn [opt_list map app unmarshal_fields pf_name pf_value].
    1: rewrite (Hnul idv eq_refl).
    all: destruct (m_type m) as [tyv|] eqn:Ety; cbn [opt_list map app unmarshal_fields pf_name pf_value].
    all: destruct (retry_field (m_retry m)) as [ds|] eqn:Er; cbn [opt_list map app unmarshal_fields pf_name pf_value].
    all: try (destruct (retry_field_digits _ _ Er) as (Hd & Hh & Hnn); rewrite Hd;
              unfold parse_int_digits; destruct ds as [|d0 ds']; [congruence|]; rewrite Hh;
              assert (Hpos : (0 < millis_of (m_retry m))%Z)
                by (unfold retry_field in Er; destruct (Z.leb_spec (millis_of (m_retry m)) 0); [discriminate|assumption]);
              assert (Hlt : (Z.to_N (millis_of (m_retry m)) <? two63)%N = true)
                by (apply N.ltb_lt; unfold two63, millis_of in *; lia);
              rewrite Hlt, Z2N.id by lia;
              rewrite wrap64_small by (unfold millis_of in *; lia)).
    all: rewrite unmarshal_chunks; cbn [m_chunks m_id m_type m_retry]; rewrite ?Hc0; reflexivity. }
  unfold bytes in *. rewrite (Hres msg_empty eq_refl). cbn [m_chunks m_id m_type m_retry msg_empty].
  (* the result has at least one field *)
  unfold roundtrip_of. unfold ls, msg_lines, retry_field in *. clear Hres Hf' Hf0 Hbom Hlines.
  pose proof (retry_digits_fit (m_retry m) Hretry) as Hfit. unfold retry_calls in Hfit.
  destruct (Z.leb_spec (millis_of (m_retry m)) 0) as [Hle|Hgt].
  - destruct (m_id m), (m_type m), (m_chunks m); cbn [is_set negb andb orb Z.eqb]; try reflexivity.
    exfalso. apply Hls. reflexivity.
  - destruct (retry_digits (millis_of (m_retry m))) as [ds|]; [|congruence].
    destruct (Z.eqb_spec (millis_of (m_retry m) * 1000000) 0) as [E|_]; [lia|].
    destruct (m_id m), (m_type m), (m_chunks m); cbn [is_set negb andb orb]; reflexivity.
Qed.

(* ---- appendText: chunks are single lines ------------------------------------ *)
Lemma split_chunks_single fuel : forall c, Forall no_nl (split_chunks fuel c).
Proof.
  induction fuel as [|f IH]; intros c; cbn [split_chunks]; [constructor|].
  destruct c as [|b r]; [constructor|].
  pose proof (next_chunk_single (b :: r)) as Hs.
  destruct (next_chunk (b :: r)) as [[content rest] h]. cbn [fst] in Hs. constructor; [exact Hs|apply IH].
Qed.

Lemma msg_wf_empty : msg_wf msg_empty.
Proof. repeat split; try discriminate. constructor. Qed.

Lemma msg_wf_append m isc strs : msg_wf m -> msg_wf (append_text m isc strs).
Proof.
  intros (H1 & H2 & H3). unfold append_text. repeat split; cbn [m_id m_type m_chunks]; auto.
  apply Forall_app. split; [assumption|].
  induction strs as [|c cs IH]; cbn [flat_map]; [constructor|].
  apply Forall_app. split; [|exact IH].
  pose proof (split_chunks_single (length c) c) as Hs.
  induction Hs; cbn [map]; constructor; auto.
Qed.

Lemma msg_wf_set_id m v e : msg_wf m -> new_field v = (Some e, false) ->
  msg_wf (mkm (m_chunks m) (Some e) (m_type m) (m_retry m)).
Proof.
  intros (H1 & H2 & H3) Hn. repeat split; cbn [m_id m_type m_chunks]; auto.
  intros v' [= <-]. unfold new_field in Hn. destruct (is_single_line v) eqn:E; [|discriminate].
  injection Hn as <-. now apply is_single_line_spec.
Qed.

Lemma msg_wf_set_type m v e : msg_wf m -> new_field v = (Some e, false) ->
  msg_wf (mkm (m_chunks m) (m_id m) (Some e) (m_retry m)).
Proof.
  intros (H1 & H2 & H3) Hn. repeat split; cbn [m_id m_type m_chunks]; auto.
  intros v' [= <-]. unfold new_field in Hn. destruct (is_single_line v) eqn:E; [|discriminate].
  injection Hn as <-. now apply is_single_line_spec.
Qed.

(* the fuel given to the inner loop of appendText suffices: more fuel changes nothing *)
Lemma next_chunk_rest_shorter b r content rest h :
  next_chunk (b :: r) = (content, rest, h) -> length rest <= length r.
Proof.
  intros E. unfold next_chunk in E. pose proof (newline_index_bounds (b :: r)) as Hb.
  destruct (newline_index (b :: r)) as [i l] eqn:En. injection E as <- <- <-.
  rewrite skipn_length. cbn [length] in *.
  destruct l as [|l]; [|lia].
  assert (Hi : i = S (length r)).
  { pose proof (newline_index_zero_len (b :: r)) as Hz. rewrite En in Hz. cbn [snd] in Hz.
    pose proof (newline_index_no_nl (b :: r) (proj1 Hz eq_refl)) as Hn. rewrite En in Hn. now injection Hn. }
  lia.
Qed.

Lemma split_chunks_fuel_indep f1 : forall f2 c, length c <= f1 -> length c <= f2 -> split_chunks f1 c = split_chunks f2 c.
Proof.
  induction f1 as [|f1 IH]; intros f2 c H1 H2.
  - destruct c; [destruct f2; reflexivity|cbn in H1; lia].
  - destruct c as [|b r]; [destruct f2; reflexivity|]. destruct f2 as [|f2]; [cbn in H2; lia|].
    cbn [split_chunks length] in *.
    destruct (next_chunk (b :: r)) as [[content rest] h] eqn:E.
    pose proof (next_chunk_rest_shorter _ _ _ _ _ E) as Hlen.
    f_equal. apply IH; lia.
Qed.

Lemma split_chunks_fuel_ok fuel c : length c <= fuel -> split_chunks fuel c = split_chunks (length c) c.
Proof. intros H. apply split_chunks_fuel_indep; lia. Qed.

(* ---- C14: values set by Message.UnmarshalText are single lines --------------- *)
Lemma no_nl_skipn k s : no_nl s -> no_nl (skipn k s).
Proof.
  unfold no_nl. revert s; induction k as [|k IH]; intros [|b s] H; cbn; auto. inversion H; subst. now apply IH.
Qed.

Lemma no_nl_trim s : no_nl s -> no_nl (trim_first_space s).
Proof. unfold trim_first_space. destruct s as [|b r]; auto. destruct (b =? SP)%N; auto. intros H. now inversion H. Qed.

Lemma scan_segment_single keep chunk fld :
  no_nl chunk -> scan_segment keep chunk = Some fld -> no_nl (pf_value fld).
Proof.
  intros Hc. unfold scan_segment.
  destruct (match index_byte COLON chunk with Some p => max_field_name_length <? p | None => false end); [discriminate|].
  destruct (get_field_name _).
  - intros [= <-]. cbn [pf_value]. now apply no_nl_trim, no_nl_skipn.
  - destruct chunk as [|b r]; [intros [= <-]; constructor|].
    destruct (_ && keep); [|discriminate]. intros [= <-]. cbn [pf_value]. apply no_nl_trim.
    first [now apply no_nl_skipn | now inversion Hc].
Qed.

Lemma fp_next_fuel_single fuel : forall f fld f',
  fp_next_fuel fuel f = (Some fld, f') -> no_nl (pf_value fld).
Proof.
  induction fuel as [|fuel IH]; intros f fld f'; cbn [fp_next_fuel]; [discriminate|].
  destruct (fp_data f) as [|b r] eqn:Ed; [discriminate|].
  pose proof (next_chunk_single (b :: r)) as Hs.
  destruct (next_chunk (b :: r)) as [[chunk rem] has_nl]. cbn [fst] in Hs.
  destruct has_nl; [|discriminate].
  destruct (scan_segment (fp_keep_comments f) chunk) as [fl|] eqn:Es.
  - intros [= <- <-]. now apply (scan_segment_single _ _ _ Hs Es).
  - apply IH.
Qed.

Lemma fields_until_end_single fuel : forall f fs f',
  fields_until_end fuel f = (fs, f') -> Forall (fun fld => no_nl (pf_value fld)) fs.
Proof.
  induction fuel as [|fuel IH]; intros f fs f'; cbn [fields_until_end]; [intros [= <- <-]; constructor|].
  destruct (fp_next f) as [[fld|] f1] eqn:En; [|intros [= <- <-]; constructor].
  pose proof (fp_next_fuel_single _ _ _ _ En) as Hs.
  destruct (pf_name fld); try (intros [= <- <-]; repeat constructor; assumption).
  all: destruct (fields_until_end fuel f1) as [fs1 f2] eqn:E1; intros [= <- <-]; constructor; [assumption|now apply (IH f1 fs1 f2)].
Qed.

Lemma unmarshal_fields_single fs : forall m0 m,
  Forall (fun fld => no_nl (pf_value fld)) fs ->
  (forall v, m_id m0 = Some v -> no_nl v) -> (forall v, m_type m0 = Some v -> no_nl v) ->
  unmarshal_fields fs m0 = inl m ->
  (forall v, m_id m = Some v -> no_nl v) /\ (forall v, m_type m = Some v -> no_nl v).
Proof.
  induction fs as [|f fs IH]; intros m0 m Hall Hid Hty; cbn [unmarshal_fields].
  - intros [= <-]. split; assumption.
  - inversion Hall as [|? ? Hf Hrest]; subst.
    destruct (pf_name f).
    + apply IH; auto.
    + apply IH; auto. cbn. intros v [= <-]. assumption.
    + destruct (all_digits (pf_value f)); [|discriminate].
      destruct (parse_int_digits (pf_value f)); [|discriminate]. apply IH; auto.
    + destruct (has_nul (pf_value f)); apply IH; auto. cbn. intros v [= <-]. assumption.
    + apply IH; auto.
    + intros [= <-]. split; assumption.
Qed.

Theorem unmarshal_single_line p m :
  unmarshal p = UOk m -> (forall v, m_id m = Some v -> no_nl v) /\ (forall v, m_type m = Some v -> no_nl v).
Proof.
  unfold unmarshal.
  destruct (fields_until_end _ _) as [fs s'] eqn:E.
  pose proof (fields_until_end_single _ _ _ _ E) as Hall.
  destruct (unmarshal_fields fs msg_empty) as [m'|v] eqn:Eu; [|discriminate].
  destruct (_ || _); [discriminate|]. intros [= <-].
  apply (unmarshal_fields_single fs msg_empty m' Hall); auto; discriminate.
Qed.
