(* C15: the text round trip is stable - what UnmarshalText(MarshalText m) yields encodes to the very
   same bytes again and is its own round trip (a fixpoint after one step: only sub-millisecond parts of
   Retry are lost, once). *)
From GoSse Require Import Base Lines Fields FieldParser Message MessageProofs MessageApi.

Lemma millis_roundtrip d :
  millis_of (if (millis_of d <=? 0)%Z then 0%Z else (millis_of d * 1000000)%Z)
  = (if (millis_of d <=? 0)%Z then 0%Z else millis_of d).
Proof.
  destruct (millis_of d <=? 0)%Z eqn:E; [reflexivity|].
  unfold millis_of at 1. now rewrite Z.quot_mul by discriminate.
Qed.

Lemma retry_calls_roundtrip d :
  retry_calls (if (millis_of d <=? 0)%Z then 0%Z else (millis_of d * 1000000)%Z) = retry_calls d.
Proof.
  unfold retry_calls. cbv zeta. rewrite millis_roundtrip.
  destruct (millis_of d <=? 0)%Z eqn:E; [reflexivity|]. now rewrite E.
Qed.

Lemma body_calls_roundtrip m : body_calls (roundtrip_of m) = body_calls m.
Proof. unfold body_calls, roundtrip_of. cbn [m_retry m_id m_type m_chunks]. now rewrite retry_calls_roundtrip. Qed.

Lemma wire_roundtrip m : wire (roundtrip_of m) = wire m.
Proof. unfold wire, write_calls. now rewrite body_calls_roundtrip. Qed.

Lemma write_to_roundtrip m script : write_to (roundtrip_of m) script = write_to m script.
Proof. unfold write_to. now rewrite body_calls_roundtrip. Qed.

Lemma roundtrip_idempotent m : roundtrip_of (roundtrip_of m) = roundtrip_of m.
Proof.
  unfold roundtrip_of. cbn [m_retry m_id m_type m_chunks]. f_equal.
  rewrite millis_roundtrip. destruct (millis_of (m_retry m) <=? 0)%Z eqn:E; [reflexivity|]. now rewrite E.
Qed.

(* decode-then-encode is the identity on every encoding of an API-built message, and decoding is
   stable from the first round trip on *)
Theorem roundtrip_stable ops w :
  Forall retry_in_range ops ->
  (forall v, m_id (api_build ops) = Some v -> has_nul v = false) ->
  wire (api_build ops) = Some w -> w <> [] ->
  exists m', unmarshal w = UOk m' /\ wire m' = Some w /\ roundtrip_of m' = m' /\
             (forall script, write_to m' script = write_to (api_build ops) script).
Proof.
  intros Hr Hn Hw Hne. exists (roundtrip_of (api_build ops)).
  split; [now apply api_roundtrip|]. split; [now rewrite wire_roundtrip|].
  split; [apply roundtrip_idempotent|]. intros script. apply write_to_roundtrip.
Qed.
