(* C05: the composition server (publish order + replayer) -> wire -> cut transport -> client.
   Model.  Every published message has an ID (the replayer requires one), the replayer still
   holds everything the client has not received (the property's proviso), IDs are distinct. *)
From GoSse Require Import Base Lines Fields Queue FieldParser Message MessageProofs MessageApi Whatwg TextLines WireDecode PrefixDecode.
Local Open Scope nat_scope.

Definition mid (m : msg) : bytes := value (m_id m).
Definition wire' (m : msg) : bytes := match wire m with Some w => w | None => [] end.

(* what a replayer sends for a presented ID: the stored messages after the one with that ID;
   nothing when the ID is the newest one or unknown (C08 / C09 / C04) *)
Fixpoint resume (buf : list msg) (last : bytes) : list msg :=
  match buf with
  | [] => []
  | m :: r => if bytes_eqb (mid m) last then r else resume r last
  end.

(* one connection: the subscription was registered when [p] messages had been published, the
   response was cut (or ended) when [j] had; an abrupt cut lets the client read [c] body bytes
   and then a read error; a handler that returns ends the body cleanly after what it sent *)
Record conn := mkconn { cn_p : nat; cn_j : nat; cn_cut : option (nat * serr) }.

Definition body_msgs (order : list msg) (last : bytes) (cn : conn) : list msg :=
  resume (firstn (cn_p cn) order) last ++ skipn (cn_p cn) (firstn (cn_j cn) order).

Definition client_conn (last : bytes) (ms : list msg) (cut : option (nat * serr)) : list yield :=
  match cut with
  | Some (c, e) => interp gosse_conn last (firstn c (concat (map wire' ms))) (ReadError e)
  | None => interp gosse_conn last (concat (map wire' ms)) CleanEOF
  end.

(* Connection.lastEventID: the ID of the last dispatched event, else unchanged (C10) *)
Definition last_of (evs : list event) (last : bytes) : bytes :=
  match rev evs with e :: _ => ev_id e | [] => last end.

Fixpoint run_conns (order : list msg) (last : bytes) (conns : list conn) : list event :=
  match conns with
  | [] => []
  | cn :: r =>
      let evs := events_of (client_conn last (body_msgs order last cn) (cn_cut cn)) in
      evs ++ run_conns order (last_of evs last) r
  end.

(* physically possible runs: the server had published at least what the client had received
   when the client reconnected, and does not unpublish *)
Fixpoint valid_conns (order : list msg) (i : nat) (last : bytes) (conns : list conn) : Prop :=
  match conns with
  | [] => True
  | cn :: r =>
      let evs := events_of (client_conn last (body_msgs order last cn) (cn_cut cn)) in
      i <= cn_p cn /\ cn_p cn <= cn_j cn /\ cn_j cn <= length order /\
      valid_conns order (i + length evs) (last_of evs last) r
  end.

(* the event a published message must arrive as *)
Definition event_of (m : msg) : event := mkev (mid m) (value (m_type m)) (join_lf (msg_datas m)).
