(* C02: what the specification interpreter (Whatwg.v) makes of the wire form of
   API-built messages, alone or concatenated: no injection. *)
From GoSse Require Import Base Lines Fields Queue FieldParser Message MessageProofs MessageApi Whatwg.
From GoSse.Gen Require Import Params.
From Coq Require Import ZifyN ZifyNat ZifyBool.
Local Open Scope nat_scope.

(* ---- the interpreter on whole lines ---------------------------------------- *)
Definition clean (st : wst) : Prop := w_line st = [] /\ w_after_cr st = false.

Lemma feed_all_app md : forall a b st,
  feed_all md st (a ++ b) =
  let '(st', ys) := feed_all md st a in let '(st'', ys') := feed_all md st' b in (st'', ys ++ ys').
Proof.
  induction a as [|x a IH]; intros b st; cbn [app feed_all].
  - destruct (feed_all md st b). reflexivity.
  - destruct (feed md st x) as [st1 y1]. rewrite IH.
    destruct (feed_all md st1 a) as [st2 y2]. destruct (feed_all md st2 b) as [st3 y3].
    now rewrite app_assoc.
Qed.

Lemma feed_all_nonl md : forall l st,
  no_nl l -> w_after_cr st = false ->
  feed_all md st l = (mkw (w_line st ++ l) false (w_data st) (w_type st) (w_last_id st) (w_dirty st), []).
Proof.
  induction l as [|b l IH]; intros st Hnl Hcr; cbn [feed_all].
  - rewrite List.app_nil_r. destruct st; cbn in *; subst; reflexivity.
  - inversion Hnl as [|? ? Hb Hl]; subst. unfold feed. rewrite Hcr. cbn [andb].
    unfold is_nl in Hb. rewrite Hb. rewrite IH; [|assumption|reflexivity].
    cbn [w_line w_data w_type w_last_id w_dirty]. now rewrite <- app_assoc.
Qed.

Lemma process_line_clean md st l st' ys :
  clean st -> process_line md st l = (st', ys) -> clean st'.
Proof.
  intros [H1 H2]. unfold process_line, clean.
  destruct l as [|b r].
  - unfold dispatch. destruct (md_dispatch_dirty md); [destruct (w_dirty st)|destruct (w_data st)];
      intros [= <- <-]; cbn; auto.
  - destruct (N.eqb b COLON); [intros [= <- <-]; auto|].
    destruct (split_colon (b :: r)) as [name v]. unfold process_field.
    repeat match goal with
           | |- context [if ?c then _ else _] => destruct c
           | |- context [match retry_value ?a ?b with _ => _ end] => destruct (retry_value a b)
           end; intros [= <- <-]; cbn; auto.
Qed.

Lemma feed_line md st l :
  clean st -> no_nl l -> feed_all md st (l ++ [LF]) = process_line md st l.
Proof.
  intros [H1 H2] Hnl. rewrite feed_all_app, (feed_all_nonl md l st Hnl H2). cbn [feed_all].
  unfold feed. cbn [w_after_cr andb w_line w_data w_type w_last_id w_dirty].
  change (LF =? LF)%N with true. cbn [orb]. change (LF =? CR)%N with false.
  rewrite H1. cbn [app].
  replace (mkw [] false (w_data st) (w_type st) (w_last_id st) (w_dirty st)) with st
    by (destruct st; cbn in *; subst; reflexivity).
  destruct (process_line md st l) as [st' ys]. now rewrite List.app_nil_r.
Qed.

(* ---- lines as fields ---------------------------------------------------------- *)
Definition field_effect (md : mode) (st : wst) (f : pfield) : wst * list yield :=
  match pf_name f with
  | FID => process_field md st s_id (pf_value f)
  | FEvent => process_field md st s_event (pf_value f)
  | FRetry => process_field md st s_retry (pf_value f)
  | FData => process_field md st s_data (pf_value f)
  | FComment => (st, [])
  | FEnd => dispatch md st
  end.

Fixpoint run_pfields (md : mode) (st : wst) (fs : list pfield) : wst * list yield :=
  match fs with
  | [] => (st, [])
  | f :: r => let '(st', ys) := field_effect md st f in
              let '(st'', ys') := run_pfields md st' r in (st'', ys ++ ys')
  end.

Lemma msg_line_effect md st m p :
  In p (msg_lines m) -> process_line md st (fst p) = field_effect md st (snd p).
Proof.
  unfold msg_lines. rewrite !in_app_iff, !in_map_iff.
  intros [(v & <- & _)|[(v & <- & _)|[(v & <- & _)|(c & <- & _)]]]; cbn [fst snd].
  - reflexivity.
  - reflexivity.
  - reflexivity.
  - destruct (c_comment c); reflexivity.
Qed.

Lemma field_effect_clean md st f st' ys : clean st -> field_effect md st f = (st', ys) -> clean st'.
Proof.
  intros Hc. unfold field_effect.
  destruct (pf_name f);
    try (unfold process_field;
         repeat match goal with
                | |- context [if ?c then _ else _] => destruct c
                | |- context [match retry_value ?a ?b with _ => _ end] => destruct (retry_value a b)
                end; intros [= <- <-]; destruct Hc; split; cbn; auto).
  all: try (intros [= <- <-]; exact Hc).
  - apply (process_line_clean md st [] st' ys Hc).
Qed.

Lemma feed_msg_lines md m : forall (ls : list (bytes * pfield)) st,
  (forall p, In p ls -> In p (msg_lines m)) -> Forall (fun p : bytes * pfield => no_nl (fst p)) ls -> clean st ->
  feed_all md st (lines_text (map fst ls)) = run_pfields md st (map snd ls).
Proof.
  induction ls as [|p ls IH]; intros st Hin Hnl Hc; [reflexivity|].
  unfold lines_text. cbn [map concat run_pfields]. fold (lines_text (map fst ls)).
  inversion Hnl as [|? ? Hp Hrest]; subst.
  rewrite feed_all_app, (feed_line md st (fst p) Hc Hp), (msg_line_effect md st m p) by (apply Hin; now left).
  destruct (field_effect md st (snd p)) as [st1 y1] eqn:E.
  rewrite IH; [reflexivity| |assumption|].
  - intros q Hq. apply Hin. now right.
  - exact (field_effect_clean md st (snd p) st1 y1 Hc E).
Qed.

Definition msg_pfields (m : msg) : list pfield := map snd (msg_lines m) ++ [mkpf FEnd []].

(* the interpreter on one message's wire form = the interpreter on its fields *)
Theorem feed_wire md m w st :
  msg_wf m -> wire m = Some w -> w <> [] -> clean st ->
  feed_all md st w = run_pfields md st (msg_pfields m).
Proof.
  intros Hwf Hw Hne Hc. unfold wire, write_calls in Hw.
  destruct (body_calls m) as [calls|] eqn:Eb; [|discriminate].
  pose proof (body_calls_lines m calls Eb) as Hl.
  destruct (Nat.eqb_spec (length (concat calls)) 0) as [Hz|Hnz]; injection Hw as <-; [congruence|].
  rewrite concat_app, Hl. unfold newline_bytes. cbn [concat]. rewrite List.app_nil_r.
  rewrite feed_all_app.
  pose proof (msg_lines_ok m Hwf) as Hok.
  rewrite (feed_msg_lines md m (msg_lines m) st); auto.
  2:{ eapply Forall_impl; [|exact Hok]. intros p (H & _). exact H. }
  unfold msg_pfields.
  assert (Hrun : forall fs st0, clean st0 ->
            let '(st1, y1) := run_pfields md st0 fs in
            clean st1 /\ run_pfields md st0 (fs ++ [mkpf FEnd []]) =
                         let '(st2, y2) := dispatch md st1 in (st2, y1 ++ y2)).
  { induction fs as [|f fs IH]; intros st0 Hc0; cbn [run_pfields app].
    - split; [assumption|]. unfold field_effect. cbn [pf_name]. destruct (dispatch md st0). now rewrite List.app_nil_r.
    - destruct (field_effect md st0 f) as [sa ya] eqn:Ef.
      pose proof (field_effect_clean md st0 f sa ya Hc0 Ef) as Hca.
      specialize (IH sa Hca). destruct (run_pfields md sa fs) as [sb yb]. destruct IH as [Hcb IH].
      split; [assumption|]. rewrite IH. destruct (dispatch md sb). now rewrite app_assoc. }
  specialize (Hrun (map snd (msg_lines m)) st Hc).
  destruct (run_pfields md st (map snd (msg_lines m))) as [st1 y1]. destruct Hrun as [Hc1 ->].
  pose proof (feed_line md st1 [] Hc1 ltac:(constructor)) as Hf. cbn [app] in Hf.
  change [LF] with [10%N] in Hf. rewrite Hf. cbn [process_line]. reflexivity.
Qed.

(* ---- closed form: one message's fields from the canonical between-events state ---- *)
Definition cst (last : bytes) : wst := mkw [] false [] [] last false.

Definition msg_datas (m : msg) : list bytes :=
  map c_content (filter (fun c => negb (c_comment c)) (m_chunks m)).
Definition data_buf (ds : list bytes) : bytes := concat (map (fun l => l ++ [LF]) ds).
Definition msg_last (last : bytes) (m : msg) : bytes := match m_id m with Some v => v | None => last end.
Definition msg_retry_yield (md : mode) (m : msg) : list yield :=
  match retry_field (m_retry m) with
  | Some ds => match retry_value md ds with Some n => [YRetry n] | None => [] end
  | None => []
  end.
Definition nonempty {A} (l : list A) : bool := match l with [] => false | _ => true end.
Definition msg_dirty (md : mode) (m : msg) : bool :=
  is_set (m_id m) || is_set (m_type m) || (nonempty (msg_retry_yield md m) && md_retry_dirties md)
  || nonempty (msg_datas m).
Definition msg_event (md : mode) (last : bytes) (m : msg) : event :=
  mkev (msg_last last m)
       (match value (m_type m) with [] => md_default_type md | t => t end)
       (strip_last_lf (data_buf (msg_datas m))).
Definition msg_dispatches (md : mode) (m : msg) : bool :=
  if md_dispatch_dirty md then msg_dirty md m else nonempty (msg_datas m).
Definition msg_yields (md : mode) (last : bytes) (m : msg) : list yield :=
  msg_retry_yield md m ++ (if msg_dispatches md m then [YEv (msg_event md last m)] else []).

Lemma run_pfields_app md : forall a b st,
  run_pfields md st (a ++ b) =
  let '(st', ys) := run_pfields md st a in let '(st'', ys') := run_pfields md st' b in (st'', ys ++ ys').
Proof.
  induction a as [|x a IH]; intros b st; cbn [app run_pfields].
  - destruct (run_pfields md st b). reflexivity.
  - destruct (field_effect md st x) as [st1 y1]. rewrite IH.
    destruct (run_pfields md st1 a) as [st2 y2]. destruct (run_pfields md st2 b) as [st3 y3].
    now rewrite app_assoc.
Qed.

Lemma msg_pfields_eq m :
  msg_pfields m =
  map (mkpf FID) (opt_list (m_id m)) ++ map (mkpf FEvent) (opt_list (m_type m)) ++
  map (mkpf FRetry) (opt_list (retry_field (m_retry m))) ++
  map (fun c => mkpf (if c_comment c then FComment else FData) (c_content c)) (m_chunks m) ++ [mkpf FEnd []].
Proof.
  unfold msg_pfields, msg_lines. rewrite !map_app, !map_map. cbn [snd]. now rewrite <- !app_assoc.
Qed.

Lemma run_chunks md : forall cs d t l dirty,
  run_pfields md (mkw [] false d t l dirty)
    (map (fun c => mkpf (if c_comment c then FComment else FData) (c_content c)) cs)
  = (mkw [] false (d ++ data_buf (map c_content (filter (fun c => negb (c_comment c)) cs))) t l
         (dirty || nonempty (filter (fun c => negb (c_comment c)) cs)), []).
Proof.
  induction cs as [|c cs IH]; intros d t l dirty; cbn [map run_pfields filter].
  - cbn. now rewrite List.app_nil_r, orb_false_r.
  - destruct c as [content [|]]; cbn [c_comment c_content negb]; unfold field_effect; cbn [pf_name pf_value].
    + rewrite IH. reflexivity.
    + unfold process_field. change (bytes_eqb s_data s_event) with false. change (bytes_eqb s_data s_data) with true.
      cbn [w_line w_after_cr w_data w_type w_last_id w_dirty]. rewrite IH. cbn [app map nonempty].
      unfold data_buf. cbn [map concat]. rewrite <- !app_assoc. cbn [app]. now rewrite orb_true_r.
Qed.

Lemma data_buf_nil ds : data_buf ds = [] -> ds = [].
Proof. destruct ds as [|d ds]; [reflexivity|]. unfold data_buf. cbn. destruct d; discriminate. Qed.

Lemma nonempty_map {A B} (f : A -> B) l : nonempty (map f l) = nonempty l.
Proof. destruct l; reflexivity. Qed.

Theorem run_msg md last m :
  (forall v, m_id m = Some v -> has_nul v = false) ->
  run_pfields md (cst last) (msg_pfields m) = (cst (msg_last last m), msg_yields md last m).
Proof.
  intros Hnul. rewrite msg_pfields_eq. unfold cst, msg_yields, msg_dispatches, msg_dirty, msg_event, msg_last, msg_retry_yield, msg_datas.
  rewrite run_pfields_app.
  (* id *)
  assert (Hid : run_pfields md (mkw [] false [] [] last false) (map (mkpf FID) (opt_list (m_id m)))
                = (mkw [] false [] [] (match m_id m with Some v => v | None => last end) (is_set (m_id m)), [])).
  { destruct (m_id m) as [v|] eqn:Ei; [|reflexivity]. cbn [opt_list map run_pfields]. unfold field_effect. cbn [pf_name pf_value].
    unfold process_field. change (bytes_eqb s_id s_event) with false. change (bytes_eqb s_id s_data) with false.
    change (bytes_eqb s_id s_id) with true. specialize (Hnul v eq_refl). unfold has_nul in Hnul.
    cbn [andb orb]. rewrite Hnul. reflexivity. }
  rewrite Hid. rewrite run_pfields_app.
  assert (Hty : forall l d, run_pfields md (mkw [] false [] [] l d) (map (mkpf FEvent) (opt_list (m_type m)))
                = (mkw [] false [] (value (m_type m)) l (d || is_set (m_type m)), [])).
  { intros l d. destruct (m_type m) as [v|]; cbn [opt_list map run_pfields value is_set].
    - unfold field_effect. cbn [pf_name pf_value]. unfold process_field. change (bytes_eqb s_event s_event) with true.
      cbn. now rewrite orb_true_r.
    - now rewrite orb_false_r. }
  rewrite Hty. rewrite run_pfields_app.
  set (ry := match retry_field (m_retry m) with
             | Some ds => match retry_value md ds with Some n => [YRetry n] | None => [] end
             | None => [] end).
  assert (Hre : forall t l d, run_pfields md (mkw [] false [] t l d) (map (mkpf FRetry) (opt_list (retry_field (m_retry m))))
                = (mkw [] false [] t l (d || (nonempty ry && md_retry_dirties md)), ry)).
  { intros t l d. subst ry. destruct (retry_field (m_retry m)) as [ds|]; cbn [opt_list map run_pfields].
    - unfold field_effect. cbn [pf_name pf_value]. unfold process_field.
      change (bytes_eqb s_retry s_event) with false. change (bytes_eqb s_retry s_data) with false.
      change (bytes_eqb s_retry s_id) with false. change (bytes_eqb s_retry s_retry) with true. cbn [andb orb].
      destruct (retry_value md ds) as [n|]; cbn [nonempty andb w_line w_after_cr w_data w_type w_last_id w_dirty].
      + reflexivity.
      + now rewrite orb_false_r.
    - cbn. now rewrite orb_false_r. }
  rewrite Hre. rewrite run_pfields_app, run_chunks. cbn [app run_pfields]. unfold field_effect. cbn [pf_name].
  rewrite !nonempty_map. set (datas := filter (fun c => negb (c_comment c)) (m_chunks m)).
  unfold dispatch. cbn [w_line w_after_cr w_data w_type w_last_id w_dirty].
  destruct (md_dispatch_dirty md).
  - destruct (false || is_set (m_id m) || is_set (m_type m) || (nonempty ry && md_retry_dirties md) || nonempty datas) eqn:Ed.
    + cbn [orb] in Ed. rewrite Ed. now rewrite !List.app_nil_r.
    + cbn [orb] in Ed. rewrite Ed. rewrite !List.app_nil_r.
      apply orb_false_iff in Ed as [Ed Hd]. apply orb_false_iff in Ed as [Ed _]. apply orb_false_iff in Ed as [Ei Et].
      destruct (m_id m); [discriminate|]. destruct (m_type m); [discriminate|]. destruct datas; [|discriminate]. reflexivity.
  - destruct (data_buf (map c_content datas)) eqn:Eb.
    + apply data_buf_nil in Eb. destruct datas; [|discriminate]. cbn [nonempty]. now rewrite !List.app_nil_r.
    + destruct datas; [discriminate|]. cbn [nonempty]. now rewrite !List.app_nil_r.
Qed.

(* ---- sequences of messages -------------------------------------------------- *)
Fixpoint all_yields (md : mode) (last : bytes) (ms : list msg) : list yield :=
  match ms with
  | [] => []
  | m :: r => msg_yields md last m ++ all_yields md (msg_last last m) r
  end.

(* the events a sequence of messages must decode to *)
Fixpoint expected_events (md : mode) (last : bytes) (ms : list msg) : list event :=
  match ms with
  | [] => []
  | m :: r => (if msg_dispatches md m then [msg_event md last m] else [])
              ++ expected_events md (msg_last last m) r
  end.

Lemma events_of_app a b : events_of (a ++ b) = events_of a ++ events_of b.
Proof. unfold events_of. now rewrite flat_map_app. Qed.

Lemma events_of_all_yields md : forall ms last, events_of (all_yields md last ms) = expected_events md last ms.
Proof.
  induction ms as [|m r IH]; intros last; cbn [all_yields expected_events]; [reflexivity|].
  rewrite events_of_app, IH. f_equal. unfold msg_yields. rewrite events_of_app.
  unfold msg_retry_yield. destruct (retry_field (m_retry m)) as [ds|]; [destruct (retry_value md ds)|];
    destruct (msg_dispatches md m); reflexivity.
Qed.

(* a message with nothing to write *)
Lemma wire_nil m : wire m = Some [] -> msg_lines m = [].
Proof.
  unfold wire, write_calls. destruct (body_calls m) as [calls|] eqn:Eb; [|discriminate].
  pose proof (body_calls_lines m calls Eb) as Hl.
  destruct (Nat.eqb_spec (length (concat calls)) 0) as [Hz|Hnz].
  - intros _. rewrite Hl in Hz. pose proof (lines_text_length (map fst (msg_lines m))) as Hlen.
    rewrite map_length in Hlen. destruct (msg_lines m); [reflexivity|cbn [length] in Hlen; lia].
  - intros [= H]. rewrite concat_app in H. apply app_eq_nil in H as [_ H]. discriminate.
Qed.

Lemma msg_lines_nil m : msg_lines m = [] ->
  m_id m = None /\ m_type m = None /\ retry_field (m_retry m) = None /\ m_chunks m = [].
Proof.
  unfold msg_lines. intros H.
  apply app_eq_nil in H as [H1 H]. apply app_eq_nil in H as [H2 H]. apply app_eq_nil in H as [H3 H4].
  repeat split.
  - destruct (m_id m); [discriminate|reflexivity].
  - destruct (m_type m); [discriminate|reflexivity].
  - destruct (retry_field (m_retry m)); [discriminate|reflexivity].
  - destruct (m_chunks m); [reflexivity|discriminate].
Qed.

Lemma empty_msg_invisible md last m : wire m = Some [] -> msg_yields md last m = [] /\ msg_last last m = last.
Proof.
  intros H. apply wire_nil, msg_lines_nil in H as (H1 & H2 & H3 & H4).
  unfold msg_yields, msg_dispatches, msg_dirty, msg_retry_yield, msg_last, msg_datas. rewrite H1, H2, H3, H4. cbn.
  destruct (md_dispatch_dirty md); split; reflexivity.
Qed.

Definition msg_ok (m : msg) : Prop := msg_wf m /\ (forall v, m_id m = Some v -> has_nul v = false).

Theorem feed_wires md : forall ms ws last,
  Forall msg_ok ms -> Forall2 (fun m w => wire m = Some w) ms ws ->
  feed_all md (cst last) (concat ws) = (cst (fold_left msg_last ms last), all_yields md last ms).
Proof.
  induction ms as [|m ms IH]; intros ws last Hok Hw; inversion Hw as [|? w ? ws' Hm Hrest]; subst; [reflexivity|].
  inversion Hok as [|? ? [Hwf Hnul] Hoks]; subst.
  cbn [concat fold_left all_yields]. rewrite feed_all_app.
  destruct w as [|b w'].
  - destruct (empty_msg_invisible md last m Hm) as [-> ->]. cbn [feed_all app]. rewrite (IH ws' last Hoks Hrest). reflexivity.
  - rewrite (feed_wire md m (b :: w') (cst last) Hwf Hm ltac:(discriminate) ltac:(split; reflexivity)).
    rewrite (run_msg md last m Hnul). rewrite (IH ws' _ Hoks Hrest). reflexivity.
Qed.

(* the wire form never starts with a byte order mark *)
Definition no_bom_start (s : bytes) : Prop := match s with a :: _ => a <> 239%N | [] => True end.
Lemma strip_bom_id s : no_bom_start s -> strip_bom s = s.
Proof.
  destruct s as [|a [|b [|c r]]]; try reflexivity. cbn [no_bom_start strip_bom]. intros H.
  destruct (N.eqb_spec a 239); [contradiction|reflexivity].
Qed.

Lemma wire_no_bom m w : wire m = Some w -> no_bom_start w.
Proof.
  unfold wire, write_calls. destruct (body_calls m) as [calls|] eqn:Eb; [|discriminate].
  pose proof (body_calls_lines m calls Eb) as Hl.
  destruct (Nat.eqb_spec (length (concat calls)) 0) as [Hz|Hnz]; intros [= <-]; [exact I|].
  rewrite concat_app, Hl. unfold msg_lines.
  destruct (m_id m); [cbn; discriminate|]. destruct (m_type m); [cbn; discriminate|].
  destruct (retry_field (m_retry m)); [cbn; discriminate|].
  destruct (m_chunks m) as [|c cs]; [cbn; discriminate|]. destruct c as [content [|]]; cbn; discriminate.
Qed.

Lemma concat_no_bom (ms : list msg) : forall ws, Forall2 (fun m w => wire m = Some w) ms ws -> no_bom_start (concat ws).
Proof.
  induction ms as [|m ms IH]; intros ws Hw; inversion Hw as [|? w ? ws' Hm Hrest]; subst; [exact I|].
  cbn [concat]. destruct w as [|b w']; [cbn [app]; now apply IH|].
  apply wire_no_bom in Hm. exact Hm.
Qed.

(* C02, for every mode of the specification interpreter (the standard itself, and go-sse's
   documented adaptations): the concatenated wire forms decode to exactly the expected events *)
Theorem wires_decode md ms ws last :
  Forall msg_ok ms -> Forall2 (fun m w => wire m = Some w) ms ws ->
  events_of (interp md last (concat ws) CleanEOF) = expected_events md last ms.
Proof.
  intros Hok Hw. unfold interp. rewrite (strip_bom_id _ (concat_no_bom ms ws Hw)).
  change (w_init last) with (cst last). rewrite (feed_wires md ms ws last Hok Hw).
  rewrite events_of_app, events_of_all_yields.
  replace (events_of (finish md (cst (fold_left msg_last ms last)) CleanEOF)) with (@nil event);
    [now rewrite List.app_nil_r|].
  unfold finish. destruct (md_flush_at_eof md); [|reflexivity]. cbn [w_line cst].
  unfold dispatch. cbn [w_dirty w_data cst]. destruct (md_dispatch_dirty md); cbn [snd app]; destruct (md_eof_is_error md); reflexivity.
Qed.

(* nothing but events, retry notifications and (for a connection) the final io.EOF comes out *)
Theorem wires_decode_yields md ms ws last :
  Forall msg_ok ms -> Forall2 (fun m w => wire m = Some w) ms ws ->
  interp md last (concat ws) CleanEOF =
  all_yields md last ms ++ (if md_flush_at_eof md && md_eof_is_error md then [YErr EEOF] else []).
Proof.
  intros Hok Hw. unfold interp. rewrite (strip_bom_id _ (concat_no_bom ms ws Hw)).
  change (w_init last) with (cst last). rewrite (feed_wires md ms ws last Hok Hw). f_equal.
  unfold finish. destruct (md_flush_at_eof md); [|reflexivity]. cbn [w_line cst andb].
  unfold dispatch. cbn [w_dirty w_data cst]. destruct (md_dispatch_dirty md); cbn [snd app]; reflexivity.
Qed.

(* ---- readable forms used by the property statements ---------------------------- *)
From GoSse Require Import TextLines.

Lemma append_text_lines m c strs :
  m_chunks (append_text m c strs) = m_chunks m ++ flat_map (fun s => map (fun x => mkc x c) (text_lines s)) strs.
Proof.
  unfold append_text. cbn [m_chunks]. f_equal. induction strs as [|s r IH]; [reflexivity|].
  cbn [flat_map]. now rewrite IH, (split_chunks_text_lines (length s) s (le_n _)).
Qed.

Lemma text_lines_single s : Forall no_nl (text_lines s).
Proof. rewrite <- (split_chunks_text_lines (length s) s (le_n _)). apply split_chunks_single. Qed.

Lemma msg_datas_append m c strs :
  msg_datas (append_text m c strs) = msg_datas m ++ (if c then [] else flat_map text_lines strs).
Proof.
  unfold msg_datas. rewrite append_text_lines, filter_app, map_app. f_equal.
  induction strs as [|s r IH]; [now destruct c|]. cbn [flat_map]. rewrite filter_app, map_app, IH.
  destruct c.
  - replace (filter (fun c0 => negb (c_comment c0)) (map (fun x => mkc x true) (text_lines s))) with (@nil chunk); [reflexivity|].
    induction (text_lines s); [reflexivity|]. cbn. assumption.
  - f_equal. induction (text_lines s) as [|x l IHl]; [reflexivity|]. cbn. now rewrite IHl.
Qed.

Lemma msg_event_data md last m : ev_data (msg_event md last m) = join_lf (msg_datas m).
Proof. unfold msg_event. cbn [ev_data]. apply strip_data_buf. Qed.

Lemma strict_dispatches m : msg_dispatches strict m = nonempty (msg_datas m).
Proof. reflexivity. Qed.

Lemma api_build_ok ops :
  (forall v, m_id (api_build ops) = Some v -> has_nul v = false) -> msg_ok (api_build ops).
Proof. intros H. split; [apply api_build_wf|exact H]. Qed.
