(* Specification of the replayers, written from the property text, not from the
   code: a replayer is the list of stored entries, oldest first. *)
From GoSse Require Import Base Fields Queue Replayers.
Local Open Scope nat_scope.

Definition lastn {A} (n : nat) (l : list A) : list A := skipn (length l - n) l.

(* position of the first stored entry carrying the ID *)
Fixpoint find_pos (l : list entry) (id : bytes) : option nat :=
  match l with
  | [] => None
  | e :: r => if bytes_eqb (e_id e) id then Some 0%nat
              else match find_pos r id with Some p => Some (S p) | None => None end
  end.

(* which stored entries a Replay considers: [None] = nothing, no call on the
   writer at all.  The ID of a buffered, non-newest entry: the entries after it.
   Newest, never issued, unset: nothing.  Automatic mode only: a numeral that
   was issued before the oldest buffered ID (an evicted ID): the whole buffer
   (the property is silent about this case; it documents the code). *)
Definition spec_resume (l : list entry) (id : field) (auto : bool) : option (list entry) :=
  match id with
  | None => None
  | Some v =>
      match find_pos l v with
      | Some p => if S p =? length l then None else Some (skipn (S p) l)
      | None =>
          if auto then
            match parse_issued v, l with
            | Some n, h :: _ =>
                match parse_uint (e_id h) with
                | Some f => if (n <? f)%N then Some l else None
                | None => None
                end
            | _, _ => None
            end
          else None
      end
  end.

(* Send each, stopping at the first error; Flush iff every Send succeeded *)
Fixpoint spec_sends (es : list entry) (script : list N) : list wcall * N :=
  match es with
  | [] => let '(v, _) := next_verdict script in ([CFlush], v)
  | m :: r =>
      let '(v, script') := next_verdict script in
      if (v =? 0)%N then let '(calls, res) := spec_sends r script' in (CSend (e_tok m) (e_id m) :: calls, res)
      else ([CSend (e_tok m) (e_id m)], v)
  end.

Definition spec_replay (l : list entry) (keep : entry -> bool) (id : field) (auto : bool) (script : list N)
  : list wcall * N :=
  match spec_resume l id auto with
  | None => ([], 0%N)
  | Some es => spec_sends (filter keep es) script
  end.

(* ---- FiniteReplayer: the last N accepted puts ----------------------------- *)
Record fspec := mkfs { fs_l : list entry; fs_next : option N; fs_cap : nat }.

Definition fs_new (n : nat) (auto : bool) : fspec := mkfs [] (if auto then Some 0%N else None) n.

Definition spec_put_id (m_id : field) (next : option N) (topics : list bytes) : put_err + (bytes * option N) :=
  match topics with
  | [] => inl ENoTopic
  | _ => match next, m_id with
         | None, None => inl ENoID
         | None, Some id => inr (id, None)
         | Some _, Some _ => inl EHasID
         | Some n, None => inr (format_uint n, Some (n + 1)%N)
         end
  end.

Definition fs_put (s : fspec) (m_id : field) (tok : N) (topics : list bytes) : fspec * put_res :=
  match spec_put_id m_id (fs_next s) topics with
  | inl e => (s, PutErr e)
  | inr (id, next') =>
      (mkfs (lastn (fs_cap s) (fs_l s ++ [mke id topics tok 0%Z])) next' (fs_cap s), PutOk id)
  end.

Definition fs_replay (s : fspec) (last_id : field) (topics : list bytes) (script : list N) : list wcall * N :=
  spec_replay (fs_l s) (fun m => topics_intersect topics (e_topics m)) last_id (is_some (fs_next s)) script.

(* ---- ValidReplayer: the accepted puts not yet collected ------------------- *)
Record vspec := mkvs { vs_l : list entry; vs_next : option N; vs_lastgc : option Z; vs_gci : Z; vs_ttl : Z }.

Definition vs_new (ttl : Z) (auto : bool) (gci : option Z) : vspec :=
  mkvs [] (if auto then Some 0%N else None) None (match gci with Some g => g | None => ttl / 4 end)%Z ttl.

(* a collection at [now] removes the leading entries whose expiry is not after now *)
Fixpoint collect (l : list entry) (now : Z) : list entry :=
  match l with
  | [] => []
  | e :: r => if (now <? e_exp e)%Z then l else collect r now
  end.

Definition vs_put (s : vspec) (now : Z) (m_id : field) (tok : N) (topics : list bytes) : vspec * put_res :=
  match topics with
  | [] => (s, PutErr ENoTopic)
  | _ =>
      let lastgc := match vs_lastgc s with Some l => l | None => now end in
      let due := (0 <? vs_gci s)%Z && (vs_gci s <=? now - lastgc)%Z in
      let l1 := if due then collect (vs_l s) now else vs_l s in
      let lastgc1 := if due then now else lastgc in
      match spec_put_id m_id (vs_next s) topics with
      | inl e => (mkvs l1 (vs_next s) (Some lastgc1) (vs_gci s) (vs_ttl s), PutErr e)
      | inr (id, next') =>
          (mkvs (l1 ++ [mke id topics tok (now + vs_ttl s)]) next' (Some lastgc1) (vs_gci s) (vs_ttl s), PutOk id)
      end
  end.

Definition vs_gc (s : vspec) (now : Z) : vspec :=
  mkvs (collect (vs_l s) now) (vs_next s) (vs_lastgc s) (vs_gci s) (vs_ttl s).

Definition vs_replay (s : vspec) (now : Z) (last_id : field) (topics : list bytes) (script : list N) : list wcall * N :=
  spec_replay (vs_l s) (fun m => (now <? e_exp m)%Z && topics_intersect topics (e_topics m))
              last_id (is_some (vs_next s)) script.

(* ---- histories ----------------------------------------------------------- *)
Definition fs_step (s : fspec) (op : fop) : fspec * rout :=
  match op with
  | FPut m_id tok topics => let '(s', r) := fs_put s m_id tok topics in (s', OPut r)
  | FReplay id topics script => (s, OReplay (fs_replay s id topics script))
  end.

Fixpoint fs_run (s : fspec) (ops : list fop) : list rout :=
  match ops with
  | [] => []
  | op :: rest => let '(s', o) := fs_step s op in o :: fs_run s' rest
  end.

Definition vs_step (s : vspec) (op : vop) : vspec * rout :=
  match op with
  | VPut now m_id tok topics => let '(s', r) := vs_put s now m_id tok topics in (s', OPut r)
  | VReplay now id topics script => (s, OReplay (vs_replay s now id topics script))
  | VGC now => (vs_gc s now, OGC)
  | VSetGCI _ g => (mkvs (vs_l s) (vs_next s) (vs_lastgc s) g (vs_ttl s), OGC)
  end.

Fixpoint vs_run (s : vspec) (ops : list vop) : list rout :=
  match ops with
  | [] => []
  | op :: rest => let '(s', o) := vs_step s op in o :: vs_run s' rest
  end.

(* the spec state after a history *)
Fixpoint fs_after (s : fspec) (ops : list fop) : fspec :=
  match ops with [] => s | op :: rest => fs_after (fst (fs_step s op)) rest end.
Fixpoint vs_after (s : vspec) (ops : list vop) : vspec :=
  match ops with [] => s | op :: rest => vs_after (fst (vs_step s op)) rest end.
