(* The finite local view of one subscriber, its local transition relation, the boolean invariant
   [ok] and its preservation, proved by an exhaustive sweep (vm_compute over 6272 x 38 cases,
   lifted with forallb_forall).  Definitions here are about the VIEW only; JoeProj.v proves that
   every step of the LTS projects to a local transition. *)
From GoSse Require Import Base JoeLts.
Local Open Scope nat_scope.

(* what the loop is doing, seen from subscriber j *)
Inductive view :=
| VTop | VIdle
| VBusy          (* working on a publish, or on another subscriber's (un)subscription *)
| VFlushing | VFailing | VRemoving        (* the fan-out is at j *)
| VGotSub | VReplaying | VRejecting | VRegistering   (* j's subscription is being handled *)
| VGotUnsub
| VExiting | VExited | VPanicked.

Inductive lpc := LS0 | LSel1 | LSel2 | LSel3 | LDrain | LRetNone | LRetSome.

Inductive life := NeverReg | Reg | Removed.

Record local := mkL {
  l_view : view;
  l_todo : bool;     (* j is among the matching subscribers the fan-out has not reached yet *)
  l_reg : bool;      (* j in j.subscribers *)
  l_pc : lpc;
  l_ctx : bool;
  l_buf : bool;      (* done_j holds an error *)
  l_closed : bool;   (* done_j is closed *)
  l_fail : bool;     (* the loop recorded a failure for j *)
  l_life : life      (* registration history of j: never registered / registered once / removed *)
}.

Definition w_view (x : local) (v : view) : local :=
  mkL v (l_todo x) (l_reg x) (l_pc x) (l_ctx x) (l_buf x) (l_closed x) (l_fail x) (l_life x).
Definition w_lpc (x : local) (v : lpc) : local :=
  mkL (l_view x) (l_todo x) (l_reg x) v (l_ctx x) (l_buf x) (l_closed x) (l_fail x) (l_life x).
Definition l_panic (x : local) : local :=
  mkL VPanicked false (l_reg x) (l_pc x) (l_ctx x) (l_buf x) (l_closed x) (l_fail x) (l_life x).

(* kinds of steps, seen from j *)
Inductive lk :=
(* somebody else's step *)
| KNone                      (* no effect on j's view *)
| KIdleBusy                  (* the loop leaves the select for another thread *)
| KTopIdle | KBusyIdle       (* loop.idle *)
| KBusyTop                   (* another subscriber's (un)subscription is finished *)
| KIdleExiting               (* the loop saw j.done closed *)
| KExit                      (* closeSubscribers done (nobody registered), close(j.closed) *)
| KErrs (m : bool)           (* fan-out of a message starts; m = j's topics match *)
(* j's own thread *)
| KEnter | KClosed | KSubSend | KDone | KCtx | KUnsub | KCancel
(* the loop acting on j *)
| KSend (ok : bool) | KFlush (ok : bool) | KFail
| KRemoveFan | KRemoveUnsub | KRemoveExit | KSkipFan | KSkipUnsub
| KReplay | KReplayedOk | KReplayedErr | KReplayedPanic | KReject | KRegA | KRegB.

(* close(done_j) on the local view *)
Definition l_close (x : local) (v : view) (removal : bool) : option local :=
  if l_closed x then Some (l_panic x)
  else Some (mkL v (l_todo x) (l_reg x) (l_pc x) (l_ctx x) (l_buf x) true (l_fail x)
                 (if removal then Removed else l_life x)).
(* done_j <- err *)
Definition l_send (x : local) (k : local -> option local) : option local :=
  if l_closed x then Some (l_panic x)
  else if l_buf x then None
  else k (mkL (l_view x) (l_todo x) (l_reg x) (l_pc x) (l_ctx x) true (l_closed x) true (l_life x)).
Definition l_unreg (x : local) : local :=
  mkL (l_view x) (l_todo x) false (l_pc x) (l_ctx x) (l_buf x) (l_closed x) (l_fail x) (l_life x).

Definition lstep (k : lk) (x : local) : option local :=
  match k with
  | KNone => Some x
  | KIdleBusy => match l_view x with VIdle => Some (w_view x VBusy) | _ => None end
  | KTopIdle => match l_view x with VTop => Some (w_view x VIdle) | _ => None end
  | KBusyIdle => match l_view x, l_todo x with VBusy, false => Some (w_view x VIdle) | _, _ => None end
  | KBusyTop => match l_view x, l_todo x with VBusy, false => Some (w_view x VTop) | _, _ => None end
  | KIdleExiting => match l_view x with VIdle => Some (w_view x VExiting) | _ => None end
  | KExit => match l_view x, l_reg x with VExiting, false => Some (w_view x VExited) | _, _ => None end
  | KErrs m =>
      match l_view x, l_todo x with
      | VBusy, false => Some (mkL VBusy (l_reg x && m) (l_reg x) (l_pc x) (l_ctx x) (l_buf x) (l_closed x) (l_fail x) (l_life x))
      | _, _ => None end
  | KEnter => match l_pc x with LS0 => Some (w_lpc x LSel1) | _ => None end
  | KClosed => match l_pc x with LSel1 => Some (w_lpc x LRetSome) | _ => None end
  | KSubSend => match l_pc x, l_view x with
                | LSel1, VIdle => Some (w_view (w_lpc x LSel2) VGotSub)
                | _, _ => None end
  | KDone => match l_pc x with
             | LSel2 | LSel3 | LDrain =>
                 if l_buf x then Some (mkL (l_view x) (l_todo x) (l_reg x) LRetSome (l_ctx x) false (l_closed x) (l_fail x) (l_life x))
                 else if l_closed x then Some (w_lpc x LRetNone) else None
             | _ => None end
  | KCtx => match l_pc x with LSel2 => if l_ctx x then Some (w_lpc x LSel3) else None | _ => None end
  | KUnsub => match l_pc x, l_view x with
              | LSel3, VIdle => Some (w_view (w_lpc x LDrain) VGotUnsub)
              | _, _ => None end
  | KCancel => Some (mkL (l_view x) (l_todo x) (l_reg x) (l_pc x) true (l_buf x) (l_closed x) (l_fail x) (l_life x))
  | KSend ok =>
      match l_view x, l_todo x with
      | VBusy, true => Some (mkL (if ok then VFlushing else VFailing) false (l_reg x) (l_pc x) (l_ctx x) (l_buf x) (l_closed x) (l_fail x) (l_life x))
      | _, _ => None end
  | KFlush ok => match l_view x with VFlushing => Some (w_view x (if ok then VBusy else VFailing)) | _ => None end
  | KFail => match l_view x with VFailing => l_send x (fun y => Some (w_view y VRemoving)) | _ => None end
  | KRemoveFan => match l_view x, l_reg x with VRemoving, true => l_close (l_unreg x) VBusy true | _, _ => None end
  | KRemoveUnsub => match l_view x, l_reg x with VGotUnsub, true => l_close (l_unreg x) VTop true | _, _ => None end
  | KRemoveExit => match l_view x, l_reg x with VExiting, true => l_close (l_unreg x) VExiting true | _, _ => None end
  | KSkipFan => match l_view x, l_reg x with VRemoving, false => Some (w_view x VBusy) | _, _ => None end
  | KSkipUnsub => match l_view x, l_reg x with VGotUnsub, false => Some (w_view x VTop) | _, _ => None end
  | KReplay => match l_view x with VGotSub => Some (w_view x VReplaying) | _ => None end
  | KReplayedOk | KReplayedPanic => match l_view x with VReplaying => Some (w_view x VRegistering) | _ => None end
  | KReplayedErr => match l_view x with VReplaying => Some (w_view x VRejecting) | _ => None end
  | KReject => match l_view x with VRejecting => l_send x (fun y => l_close y VTop false) | _ => None end
  | KRegA => match l_view x with
             | VRegistering => Some (mkL VTop (l_todo x) true (l_pc x) (l_ctx x) (l_buf x) (l_closed x) (l_fail x)
                                      (match l_life x with Removed => Removed | _ => Reg end))
             | _ => None end
  | KRegB => match l_view x with
             | VGotSub => Some (mkL VTop (l_todo x) true (l_pc x) (l_ctx x) (l_buf x) (l_closed x) (l_fail x)
                                      (match l_life x with Removed => Removed | _ => Reg end))
             | _ => None end
  end.

(* ---- the invariant -------------------------------------------------------- *)
Definition view_eqb (a b : view) : bool :=
  match a, b with
  | VTop, VTop | VIdle, VIdle | VBusy, VBusy | VFlushing, VFlushing | VFailing, VFailing
  | VRemoving, VRemoving | VGotSub, VGotSub | VReplaying, VReplaying | VRejecting, VRejecting
  | VRegistering, VRegistering | VGotUnsub, VGotUnsub | VExiting, VExiting | VExited, VExited
  | VPanicked, VPanicked => true
  | _, _ => false end.
Definition lpc_eqb (a b : lpc) : bool :=
  match a, b with
  | LS0, LS0 | LSel1, LSel1 | LSel2, LSel2 | LSel3, LSel3 | LDrain, LDrain | LRetNone, LRetNone | LRetSome, LRetSome => true
  | _, _ => false end.

Definition life_eqb (a b : life) : bool :=
  match a, b with NeverReg, NeverReg | Reg, Reg | Removed, Removed => true | _, _ => false end.
Definition v_in (v : view) (l : list view) : bool := existsb (view_eqb v) l.
Definition p_in (v : lpc) (l : list lpc) : bool := existsb (lpc_eqb v) l.

Definition subscribing : list view := [VGotSub; VReplaying; VRejecting; VRegistering].
Definition returned_pc : list lpc := [LRetNone; LRetSome].
Definition waiting_pc : list lpc := [LSel2; LSel3; LDrain].

Definition ok (x : local) : bool :=
  let v := l_view x in let t := l_todo x in let r := l_reg x in let p := l_pc x in
  let b := l_buf x in let d := l_closed x in let f := l_fail x in
  negb (view_eqb v VPanicked)
  (* in the todo list only while registered, and only while the fan-out is elsewhere *)
  && implb t (r && view_eqb v VBusy)
  (* the fan-out is at j: j is registered (until removed), waiting, its done open *)
  && implb (v_in v [VFlushing; VFailing]) (r && negb b)
  (* registered: done open, and empty unless the loop is between done<-err and the removal *)
  && implb r (negb d && (negb b || view_eqb v VRemoving))
  && implb r (p_in p waiting_pc || (view_eqb v VRemoving && lpc_eqb p LRetSome))
  && implb (view_eqb v VRemoving && r) (b || lpc_eqb p LRetSome)
  (* the recorded failure is either still in the buffer or has been returned *)
  && implb b f && implb f (b || lpc_eqb p LRetSome)
  (* while its subscription is being handled: waiting, untouched *)
  && implb (v_in v subscribing) (p_in p [LSel2; LSel3] && negb r && negb b && negb d && negb f)
  (* before the hand-over: nothing *)
  && implb (p_in p [LS0; LSel1]) (negb r && negb b && negb d && negb f && negb t
                                  && negb (v_in v ([VFlushing; VFailing; VRemoving; VGotUnsub] ++ subscribing)))
  (* nil was returned: done was closed and empty, no failure was or will be recorded *)
  && implb (lpc_eqb p LRetNone) (negb b && negb f && d)
  (* a returned call is never touched again *)
  && implb (p_in p returned_pc) (negb t && negb (v_in v ([VFlushing; VFailing] ++ subscribing)))
  (* the unsubscription hand-off *)
  && implb (view_eqb v VGotUnsub) (p_in p [LDrain; LRetNone; LRetSome])
  && implb (lpc_eqb p LDrain) (view_eqb v VGotUnsub || d)
  && implb (p_in p [LSel3; LDrain]) (l_ctx x)
  (* a waiting call that is neither registered nor being registered has its done closed *)
  && implb (p_in p waiting_pc) (r || d || v_in v subscribing)
  && implb (view_eqb v VRemoving && negb r) d
  && implb (view_eqb v VRemoving) f
  (* after the loop has exited nobody is registered *)
  && implb (view_eqb v VExited) (negb r)
  && implb (view_eqb v VGotUnsub) (l_ctx x)
  (* registered exactly between the registration and the removal; registered at most once *)
  && Bool.eqb r (life_eqb (l_life x) Reg)
  && implb (v_in v subscribing || p_in p [LS0; LSel1]) (life_eqb (l_life x) NeverReg).

(* ---- the finite sweep ----------------------------------------------------- *)
Definition all_view : list view :=
  [VTop; VIdle; VBusy; VFlushing; VFailing; VRemoving; VGotSub; VReplaying; VRejecting; VRegistering;
   VGotUnsub; VExiting; VExited; VPanicked].
Definition all_lpc : list lpc := [LS0; LSel1; LSel2; LSel3; LDrain; LRetNone; LRetSome].
Definition all_bool : list bool := [true; false].
Definition all_life : list life := [NeverReg; Reg; Removed].
Definition all_local : list local :=
  flat_map (fun v => flat_map (fun t => flat_map (fun r => flat_map (fun p => flat_map (fun c =>
  flat_map (fun b => flat_map (fun d => flat_map (fun f => map (fun g => mkL v t r p c b d f g) all_life) all_bool) all_bool) all_bool)
  all_bool) all_lpc) all_bool) all_bool) all_view.
Definition all_lk : list lk :=
  [KNone; KIdleBusy; KTopIdle; KBusyIdle; KBusyTop; KIdleExiting; KExit; KErrs true; KErrs false;
   KEnter; KClosed; KSubSend; KDone; KCtx; KUnsub; KCancel;
   KSend true; KSend false; KFlush true; KFlush false; KFail;
   KRemoveFan; KRemoveUnsub; KRemoveExit; KSkipFan; KSkipUnsub;
   KReplay; KReplayedOk; KReplayedErr; KReplayedPanic; KReject; KRegA; KRegB].

Lemma all_local_complete x : In x all_local.
Proof.
  destruct x as [v t r p c b d f g]. unfold all_local.
  apply in_flat_map; exists v; split; [destruct v; cbn; tauto|].
  apply in_flat_map; exists t; split; [destruct t; cbn; tauto|].
  apply in_flat_map; exists r; split; [destruct r; cbn; tauto|].
  apply in_flat_map; exists p; split; [destruct p; cbn; tauto|].
  apply in_flat_map; exists c; split; [destruct c; cbn; tauto|].
  apply in_flat_map; exists b; split; [destruct b; cbn; tauto|].
  apply in_flat_map; exists d; split; [destruct d; cbn; tauto|].
  apply in_flat_map; exists f; split; [destruct f; cbn; tauto|].
  apply in_map. destruct g; cbn; tauto.
Qed.

Lemma all_lk_complete k : In k all_lk.
Proof. destruct k; try match goal with b : bool |- _ => destruct b end; cbn; tauto. Qed.

Definition preserved_at (k : lk) (x : local) : bool :=
  implb (ok x) (match lstep k x with Some x' => ok x' | None => true end).

(* counterexamples to inductiveness, for development *)
Definition failing : list (lk * local) :=
  flat_map (fun k => flat_map (fun x => if preserved_at k x then [] else [(k, x)]) all_local) all_lk.
