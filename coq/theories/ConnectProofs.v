(* Lemmas about the Connect model (Connect.v).  Part 1: what the specification [interp gosse_conn]
   hands to a Connection - events and retry fields, then exactly one error, which is the one the
   property text names. *)
From Coq Require Import ZifyBool ZifyNat.
From GoSse Require Import Base Whatwg Backoff BackoffProofs Connect.
From GoSse.Gen Require Import Params.
Local Open Scope Z_scope.

Definition no_err (ys : list yield) : Prop := forall e, ~ In (YErr e) ys.

Lemma no_err_nil : no_err []. Proof. intros e []. Qed.
Lemma no_err_app a b : no_err a -> no_err b -> no_err (a ++ b).
Proof. intros Ha Hb e Hin. apply in_app_or in Hin as [H|H]; [eapply Ha|eapply Hb]; eassumption. Qed.

Ltac solve_no_err := let e := fresh "e" in let Hin := fresh "Hin" in
  intros e Hin; cbn in Hin; intuition discriminate.

Lemma dispatch_no_err m st : no_err (snd (dispatch m st)).
Proof.
  unfold dispatch. destruct (md_dispatch_dirty m).
  - destruct (w_dirty st); cbn [snd]; solve_no_err.
  - destruct (w_data st); cbn [snd]; solve_no_err.
Qed.

Lemma dispatch_line m st : w_line (fst (dispatch m st)) = w_line st.
Proof.
  unfold dispatch. destruct (md_dispatch_dirty m).
  - destruct (w_dirty st); reflexivity.
  - destruct (w_data st); reflexivity.
Qed.

Lemma dispatch_after_cr m st : w_after_cr (fst (dispatch m st)) = w_after_cr st.
Proof.
  unfold dispatch. destruct (md_dispatch_dirty m).
  - destruct (w_dirty st); reflexivity.
  - destruct (w_data st); reflexivity.
Qed.

Lemma process_field_facts m st name value :
  no_err (snd (process_field m st name value)) /\
  w_line (fst (process_field m st name value)) = w_line st /\
  w_after_cr (fst (process_field m st name value)) = w_after_cr st.
Proof.
  unfold process_field.
  destruct (bytes_eqb name s_event); [cbn; repeat split; apply no_err_nil|].
  destruct (bytes_eqb name s_data); [cbn; repeat split; apply no_err_nil|].
  destruct (bytes_eqb name s_id).
  { destruct (existsb _ value); cbn; repeat split; apply no_err_nil. }
  destruct (bytes_eqb name s_retry).
  { destruct (retry_value m value); cbn; repeat split; try apply no_err_nil. solve_no_err. }
  cbn; repeat split; apply no_err_nil.
Qed.

Lemma process_line_facts m st line :
  no_err (snd (process_line m st line)) /\
  w_line (fst (process_line m st line)) = w_line st /\
  w_after_cr (fst (process_line m st line)) = w_after_cr st.
Proof.
  unfold process_line. destruct line as [|b l].
  - repeat split; [apply dispatch_no_err|apply dispatch_line|apply dispatch_after_cr].
  - destruct (b =? COLON)%N; [cbn; repeat split; apply no_err_nil|].
    destruct (split_colon (b :: l)) as [name v]. apply process_field_facts.
Qed.

(* the invariant of the line splitter: right after a CR the line buffer is empty *)
Definition cr_inv (st : wst) : Prop := w_after_cr st = true -> w_line st = [].

Lemma feed_facts m st b :
  cr_inv st ->
  no_err (snd (feed m st b)) /\ cr_inv (fst (feed m st b)) /\
  (w_line (fst (feed m st b)) = [] <-> is_eol b = true).
Proof.
  intros Hinv. unfold feed, is_eol.
  destruct (w_after_cr st && (b =? LF)%N) eqn:E1.
  - apply andb_true_iff in E1 as [Ea Eb]. cbn [fst snd w_line w_after_cr].
    split; [apply no_err_nil|]. split; [intros H; discriminate|].
    rewrite Eb. cbn [orb]. split; [reflexivity|]. intros _. now apply Hinv.
  - destruct ((b =? LF)%N || (b =? CR)%N) eqn:E2.
    + set (st0 := mkw [] (b =? CR)%N (w_data st) (w_type st) (w_last_id st) (w_dirty st)).
      destruct (process_line_facts m st0 (w_line st)) as (Hn & Hl & Ha).
      destruct (process_line m st0 (w_line st)) as [st' ys]. cbn [fst snd] in *.
      split; [exact Hn|]. split.
      * intros _. rewrite Hl. reflexivity.
      * rewrite Hl. cbn [st0 w_line]. split; reflexivity.
    + cbn [fst snd w_line w_after_cr]. split; [apply no_err_nil|]. split; [intros H; discriminate|].
      split; [|intros H; discriminate]. intros H. destruct (w_line st); discriminate.
Qed.

Lemma feed_all_app m st a b :
  feed_all m st (a ++ b) =
  let '(st1, y1) := feed_all m st a in let '(st2, y2) := feed_all m st1 b in (st2, y1 ++ y2).
Proof.
  revert st; induction a as [|x a IH]; intros st; cbn [app feed_all].
  - destruct (feed_all m st b); reflexivity.
  - destruct (feed m st x) as [st' ys]. rewrite IH.
    destruct (feed_all m st' a) as [st1 y1]. destruct (feed_all m st1 b) as [st2 y2].
    now rewrite app_assoc.
Qed.

Lemma feed_all_facts m s : forall st,
  cr_inv st ->
  no_err (snd (feed_all m st s)) /\ cr_inv (fst (feed_all m st s)).
Proof.
  induction s as [|b s IH]; intros st Hinv; cbn [feed_all].
  - split; [apply no_err_nil|assumption].
  - destruct (feed_facts m st b Hinv) as (Hn & Hi & _).
    destruct (feed m st b) as [st' ys]. cbn [fst snd] in *.
    destruct (IH st' Hi) as (Hn' & Hi'). destruct (feed_all m st' s) as [st'' ys']. cbn [fst snd] in *.
    split; [now apply no_err_app|assumption].
Qed.

(* the line buffer at the end of a stream is empty iff the stream is empty or ends with CR / LF *)
Lemma feed_all_line m s lid :
  w_line (fst (feed_all m (w_init lid) s)) = [] <-> ends_mid_line s = false.
Proof.
  assert (Hinit : cr_inv (w_init lid)) by (intros H; discriminate).
  induction s as [|b r _] using rev_ind.
  - cbn. split; reflexivity.
  - unfold ends_mid_line. rewrite rev_app_distr. cbn [rev app].
    rewrite feed_all_app.
    destruct (feed_all_facts m r (w_init lid) Hinit) as (_ & Hi).
    destruct (feed_all m (w_init lid) r) as [st1 y1]. cbn [fst] in Hi.
    cbn [feed_all]. destruct (feed_facts m st1 b Hi) as (_ & _ & Hl).
    destruct (feed m st1 b) as [st2 y2]. cbn [fst] in *.
    rewrite Hl. destruct (is_eol b); cbn; split; congruence.
Qed.

(* THE STRUCTURE of what a Connection is handed: events / retry fields, then exactly one error,
   which is [stream_error body en] *)
Lemma interp_conn_structure lid body en :
  exists ys, no_err ys /\ interp gosse_conn lid body en = ys ++ [YErr (stream_error body en)].
Proof.
  unfold interp.
  assert (Hinit : cr_inv (w_init lid)) by (intros H; discriminate).
  destruct (feed_all_facts gosse_conn (strip_bom body) (w_init lid) Hinit) as (Hn & _).
  pose proof (feed_all_line gosse_conn (strip_bom body) lid) as Hl.
  destruct (feed_all gosse_conn (w_init lid) (strip_bom body)) as [st ys]. cbn [fst snd] in *.
  destruct en as [|err]; cbn [finish stream_error].
  - cbn [gosse_conn md_flush_at_eof md_eof_is_error].
    destruct (ends_mid_line (strip_bom body)) eqn:Em.
    + destruct (w_line st) eqn:El; [destruct Hl as [Hl _]; specialize (Hl eq_refl); discriminate|].
      exists ys. split; [assumption|reflexivity].
    + destruct Hl as [_ Hl]. rewrite (Hl eq_refl).
      exists (ys ++ snd (dispatch gosse_conn st)). split.
      * apply no_err_app; [assumption|apply dispatch_no_err].
      * now rewrite app_assoc.
  - exists ys. split; [assumption|reflexivity].
Qed.
