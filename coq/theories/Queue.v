(* replay.go:252-374 — queue[T]: enqueue, dequeue, resize, each, findIDInQueue,
   written index for index after the Go code.  A Go slot holding the zero value
   is [None].  Every place where the Go code would panic (index out of range,
   nil message dereference) returns [None] from the operation. *)
From GoSse Require Import Base.
From Coq Require Import DecimalN DecimalFacts.
Local Open Scope nat_scope.

Section Queue.
Context {T : Type}.

Record queue := mkq { buf : list (option T); head : nat; tail : nat; count : nat }.

Notation qlen q := (length (buf q)).

Fixpoint upd {A} (l : list A) (i : nat) (v : A) : list A :=
  match l, i with
  | [], _ => []
  | _ :: t, O => v :: t
  | x :: t, S j => x :: upd t j v
  end.

(* replay.go:280-299 *)
Definition enqueue (q : queue) (v : T) : option queue :=
  if tail q <? qlen q then
    let b := upd (buf q) (tail q) (Some v) in
    let t1 := S (tail q) in
    let overwritten := (head q <? t1) && (count q =? qlen q) in
    let h1 := if overwritten then t1 else head q in
    let c1 := if overwritten then count q else S (count q) in
    if t1 =? qlen q
    then Some (mkq b (if overwritten then 0 else h1) 0 c1)
    else Some (mkq b h1 t1 c1)
  else None.

(* replay.go:301-310; count-- on an empty queue would make the Go int negative:
   callers only dequeue when count > 0, an empty dequeue is a model panic *)
Definition dequeue (q : queue) : option queue :=
  if (head q <? qlen q) && (0 <? count q) then
    let b := upd (buf q) (head q) None in
    let h1 := S (head q) in
    Some (mkq b (if h1 =? qlen q then 0 else h1) (tail q) (count q - 1))
  else None.

Definition slice {A} (l : list A) (a b : nat) : list A := firstn (b - a) (skipn a l).

(* copy(dst, src) into a fresh zeroed dst of length n *)
Definition copy_into {A} (n : nat) (src : list (option A)) : list (option A) :=
  firstn n src ++ repeat None (n - length src).

(* replay.go:312-324; slice expressions panic when out of range *)
Definition resize (q : queue) (n : nat) : option queue :=
  if (head q <=? qlen q) && (tail q <=? qlen q) then
    let src := if head q <? tail q then slice (buf q) (head q) (tail q)
               else skipn (head q) (buf q) ++ firstn (tail q) (buf q) in
    Some (mkq (copy_into n src) 0 (count q) (count q))
  else None.

(* replay.go:257-278: the indices each(startAt) visits, in order *)
Definition each_idx (q : queue) (s : nat) : list nat :=
  if s <? tail q then seq s (tail q - s)
  else seq s (qlen q - s) ++ seq 0 (tail q).

(* reading slot i: out of range or a nil message is a panic *)
Definition slot (q : queue) (i : nat) : option T :=
  match nth_error (buf q) i with Some (Some v) => Some v | _ => None end.

End Queue.
Arguments queue : clear implicits.
Notation qlen q := (length (buf q)).

(* ---- decimal IDs: strconv.FormatUint / ParseUint ------------------------- *)

Fixpoint uint_bytes (d : Decimal.uint) : bytes :=
  match d with
  | Decimal.Nil => []
  | Decimal.D0 r => 48 :: uint_bytes r | Decimal.D1 r => 49 :: uint_bytes r
  | Decimal.D2 r => 50 :: uint_bytes r | Decimal.D3 r => 51 :: uint_bytes r
  | Decimal.D4 r => 52 :: uint_bytes r | Decimal.D5 r => 53 :: uint_bytes r
  | Decimal.D6 r => 54 :: uint_bytes r | Decimal.D7 r => 55 :: uint_bytes r
  | Decimal.D8 r => 56 :: uint_bytes r | Decimal.D9 r => 57 :: uint_bytes r
  end%N.

Fixpoint bytes_uint (s : bytes) : option Decimal.uint :=
  match s with
  | [] => Some Decimal.Nil
  | b :: r =>
      match bytes_uint r with
      | None => None
      | Some d =>
          match b with
          | 48 => Some (Decimal.D0 d) | 49 => Some (Decimal.D1 d) | 50 => Some (Decimal.D2 d)
          | 51 => Some (Decimal.D3 d) | 52 => Some (Decimal.D4 d) | 53 => Some (Decimal.D5 d)
          | 54 => Some (Decimal.D6 d) | 55 => Some (Decimal.D7 d) | 56 => Some (Decimal.D8 d)
          | 57 => Some (Decimal.D9 d) | _ => None
          end%N
      end
  end.

(* strconv.FormatUint(n, 10) *)
Definition format_uint (n : N) : bytes := uint_bytes (N.to_uint n).

Definition two64 : N := 18446744073709551616%N.

(* strconv.ParseUint(s, 10, 64): digits only, non-empty, < 2^64 *)
Definition parse_uint (s : bytes) : option N :=
  match s with
  | [] => None
  | _ => match bytes_uint s with
         | None => None
         | Some d => let n := N.of_uint d in if (n <? two64)%N then Some n else None
         end
  end.

(* the presented ID in the form that was issued: ParseUint succeeds and
   FormatUint gives the same string back (replay.go, after the canonical-form fix) *)
Definition parse_issued (s : bytes) : option N :=
  match parse_uint s with
  | Some n => if bytes_eqb (format_uint n) s then Some n else None
  | None => None
  end.
