(* session.go and server.go:131-222: Session.Send / Flush / doUpgrade, getResponseWriter,
   Upgrade, Server.ServeHTTP / getSubscription.

   The http.ResponseWriter is the ENVIRONMENT: it is represented by the log of the calls
   made on it and a script of verdicts, one per Write or Flush call in call order
   ([WOk] = the call succeeds; [WFail k e] = a Write accepts k bytes and fails with error
   e, a Flush fails with error e).  Nothing about net/http is assumed beyond that; the
   theorems hold for every script.  Definitions only. *)
From GoSse Require Import Base Lines Fields Message.
From GoSse.Gen Require Import Params.
Local Open Scope nat_scope.

Inductive wcall :=
| LHeaderSet (name value : bytes)       (* w.Header()[name] = []string{value} *)
| LWrite (b : bytes) (v : wverdict)     (* w.Write(b) and what the writer answered *)
| LFlush (e : N)                        (* the writer's flush and its outcome (0 = nil) *)
| LWriteHeader (code : N).              (* w.WriteHeader(code) *)

(* ---- getResponseWriter, session.go:132-160 ---------------------------------- *)
(* what a writer value offers: FlushError() error, Flush(), Unwrap() *)
Inductive shape := Shape (flush_error flusher : bool) (unwrap : option shape).

(* flusherErrorWrapper: Flush returns what FlushError returns;
   flusherWrapper: Flush calls the writer's Flush and returns nil *)
Inductive rw_kind := RWFlushError | RWFlusher.

(* the type switch tests FlushError first, then Flush, then Unwrap *)
Fixpoint get_response_writer (w : shape) : option rw_kind :=
  match w with
  | Shape fe fl u =>
      if fe then Some RWFlushError
      else if fl then Some RWFlusher
      else match u with Some w' => get_response_writer w' | None => None end
  end.

(* ---- Session, session.go:29-76 ---------------------------------------------- *)
(* [s_reports]: Res is a flusherErrorWrapper (flush errors reach the session);
   [s_did] = didUpgrade; [s_script] = the verdicts the writer has not played yet *)
Record sess := mksess { s_reports : bool; s_did : bool; s_script : list wverdict }.

(* s.Res.Flush(): one writer operation.  Through flusherWrapper the writer's Flush has no
   result: whatever the verdict says, nothing fails as far as anyone can tell. *)
Definition res_flush (s : sess) : sess * N * list wcall :=
  let e := match s_script s with WFail _ e :: _ => if s_reports s then e else 0%N | _ => 0%N end in
  (mksess (s_reports s) (s_did s) (tl (s_script s)), e, [LFlush e]).

(* doUpgrade, session.go:66-76 *)
Definition do_upgrade (s : sess) : sess * N * list wcall :=
  if s_did s then (s, 0%N, [])
  else
    let '(s1, e, l) := res_flush s in
    let l' := LHeaderSet header_content_type content_type_value :: l in
    if (e =? 0)%N then (mksess (s_reports s1) true (s_script s1), 0%N, l')
    else (s1, e, l').

(* the Write calls of a list of buffers against the script, up to the first failure *)
Fixpoint writes_log (calls : list bytes) (script : list wverdict) : list wcall :=
  match calls with
  | [] => []
  | c :: rest =>
      match script with
      | WFail k e :: _ => [LWrite c (WFail k e)]
      | _ => LWrite c WOk :: writes_log rest (tl script)
      end
  end.

(* the Write calls Message.WriteTo performs (message.go:181-208), same structure as [write_to] *)
Definition write_to_log (m : msg) (script : list wverdict) : option (list wcall) :=
  match body_calls m with
  | None => None
  | Some calls =>
      let '(n, e, _) := run_writes calls script in
      let l := writes_log calls script in
      if negb (e =? 0)%N then Some l
      else if n =? 0 then Some l
      else Some (l ++ writes_log [newline_bytes] (skipn (length calls) script))
  end.

(* Send, session.go:44-52.  [None] = WriteTo panics (never for an int64 Retry: retry_digits_fit) *)
Definition session_send (s : sess) (m : msg) : option (sess * N * list wcall) :=
  let '(s1, e, l1) := do_upgrade s in
  if negb (e =? 0)%N then Some (s1, e, l1)
  else
    match write_to m (s_script s1), write_to_log m (s_script s1) with
    | Some (_, e2, _), Some l2 =>
        Some (mksess (s_reports s1) (s_did s1) (skipn (length l2) (s_script s1)), e2, l1 ++ l2)
    | _, _ => None
    end.

(* Flush, session.go:55-64 *)
Definition session_flush (s : sess) : sess * N * list wcall :=
  let prev := s_did s in
  let '(s1, e, l1) := do_upgrade s in
  if negb (e =? 0)%N then (s1, e, l1)
  else if Bool.eqb prev (s_did s1) then
         let '(s2, e2, l2) := res_flush s1 in (s2, e2, l1 ++ l2)
       else (s1, 0%N, l1).

Inductive scall := CSend (m : msg) | CFlush.

(* one result per call: what it returned and the writer calls it made *)
Definition cres := (N * list wcall)%type.

(* a sequence of calls on one session; the flag is false if a WriteTo panicked (the run stops there) *)
Fixpoint run_calls (s : sess) (calls : list scall) : list cres * sess * bool :=
  match calls with
  | [] => ([], s, true)
  | CSend m :: rest =>
      match session_send s m with
      | None => ([], s, false)
      | Some (s', e, l) => let '(rs, sf, ok) := run_calls s' rest in ((e, l) :: rs, sf, ok)
      end
  | CFlush :: rest =>
      let '(s', e, l) := session_flush s in
      let '(rs, sf, ok) := run_calls s' rest in ((e, l) :: rs, sf, ok)
  end.

Definition full_log (rs : list cres) : list wcall := concat (map snd rs).

(* ---- reading a log ----------------------------------------------------------- *)
(* the bytes the writer accepted in a call *)
Definition accepted_of (c : wcall) : bytes :=
  match c with
  | LWrite b WOk => b
  | LWrite b (WFail k _) => firstn k b
  | _ => []
  end.
Definition accepted (l : list wcall) : bytes := concat (map accepted_of l).

(* the error the writer answered a call with (0 = none) *)
Definition call_error (c : wcall) : N :=
  match c with
  | LWrite _ (WFail _ e) => e
  | LFlush e => e
  | _ => 0%N
  end.
Fixpoint first_error (l : list wcall) : N :=
  match l with
  | [] => 0%N
  | c :: r => if (call_error c =? 0)%N then first_error r else call_error c
  end.

Definition is_write (c : wcall) : bool := match c with LWrite _ _ => true | _ => false end.
Definition is_header_set (c : wcall) : bool := match c with LHeaderSet _ _ => true | _ => false end.
Definition is_ct_set (c : wcall) : bool :=
  match c with
  | LHeaderSet n v => bytes_eqb n header_content_type && bytes_eqb v content_type_value
  | _ => false
  end.

(* The protocol of the upgrade, as an automaton over the log (this is the property text:
   "the Content-Type text/event-stream header is set and flushed before the first event
   byte and only once"):
     UNone    nothing set           - a Write here is a violation
     USet     header set, not yet successfully flushed - a Write here is a violation
     UDone    header flushed        - setting a header again is a violation *)
Inductive ustate := UNone | USet | UDone.

Definition ustep (st : ustate) (c : wcall) : option ustate :=
  match st, c with
  | UDone, LHeaderSet _ _ => None
  | UDone, _ => Some UDone
  | _, LWrite _ _ => None
  | _, LHeaderSet n v =>
      if bytes_eqb n header_content_type
      then (if bytes_eqb v content_type_value then Some USet else Some UNone)
      else Some st
  | USet, LFlush e => if (e =? 0)%N then Some UDone else Some USet
  | UNone, LFlush _ => Some UNone
  | _, LWriteHeader _ => Some st
  end.

Fixpoint urun (st : ustate) (l : list wcall) : option ustate :=
  match l with
  | [] => Some st
  | c :: r => match ustep st c with Some st' => urun st' r | None => None end
  end.

(* after this log, has everything written been flushed?  (a successful flush after the last Write) *)
Fixpoint flushed (acc : bool) (l : list wcall) : bool :=
  match l with
  | [] => acc
  | LWrite _ _ :: r => flushed false r
  | LFlush e :: r => flushed (if (e =? 0)%N then true else acc) r
  | _ :: r => flushed acc r
  end.

(* ---- Upgrade, session.go:84-100 ---------------------------------------------- *)
(* [h] = the values of the request's Last-Event-Id header *)
Definition upgrade (w : shape) (h : list bytes) : option (rw_kind * field) :=
  match get_response_writer w with
  | None => None
  | Some k => Some (k, upgrade_id h)
  end.

(* ---- ServeHTTP, server.go:131-179; getSubscription, server.go:210-222 -------- *)
(* what OnSession did: the topics and the verdict it returned, and the response it wrote
   itself (a status code, if any) *)
Record on_session := mkons { os_topics : list bytes; os_ok : bool; os_status : option N }.

Definition get_subscription (lei : field) (ons : option on_session) : list bytes * field * bool :=
  match ons with
  | Some o =>
      ((match os_topics o with
        | _ :: _ => if os_ok o then os_topics o else [default_topic]
        | [] => [default_topic]
        end), lei, os_ok o)
  | None => ([default_topic], lei, true)
  end.

(* net/http's http.Error(w, msg, code): header, status line, message and newline in one Write *)
Definition http_error_content_type : bytes :=
  [116; 101; 120; 116; 47; 112; 108; 97; 105; 110; 59; 32; 99; 104; 97; 114; 115; 101; 116; 61; 117; 116; 102; 45; 56]%N.
Definition http_error (msg : bytes) (code : N) (script : list wverdict) : list wcall :=
  [LHeaderSet header_content_type http_error_content_type; LWriteHeader code]
  ++ writes_log [msg ++ [LF]] script.

Record serve_res := mkserve {
  sv_sub : option (list bytes * field);   (* Topics and LastEventID the provider was given *)
  sv_results : list cres;                 (* the provider's Send/Flush calls on the session *)
  sv_user : list wcall;                   (* what OnSession wrote itself *)
  sv_server : list wcall;                 (* what the server wrote itself (not through the session) *)
  sv_ok : bool                            (* false = a WriteTo panicked *)
}.

(* [prov] = the calls the provider makes on the subscription's client, [perr] = the text of
   the error Subscribe returns ([None] = nil) *)
Definition serve_http (w : shape) (h : list bytes) (ons : option on_session)
           (prov : list scall) (perr : option bytes) (script : list wverdict) : serve_res :=
  match upgrade w h with
  | None =>
      mkserve None [] [] (http_error serve_unsupported_message serve_unsupported_status script) true
  | Some (k, lei) =>
      let user := match ons with
                  | Some o => match os_status o with Some c => [LWriteHeader c] | None => [] end
                  | None => []
                  end in
      let '(topics, lei', ok) := get_subscription lei ons in
      if negb ok then mkserve None [] user [] true
      else
        let s0 := mksess (match k with RWFlushError => true | RWFlusher => false end) false script in
        let '(rs, sf, fine) := run_calls s0 prov in
        let server := match perr with
                      | Some msg => if fine then http_error msg serve_provider_error_status (s_script sf) else []
                      | None => []
                      end in
        mkserve (Some (topics, lei')) rs user server fine
  end.

(* ---- specification vocabulary for ServeHTTP (from the property text) ------------- *)
(* is there a writer that can flush anywhere in the Unwrap chain? *)
Fixpoint can_flush (w : shape) : bool :=
  match w with
  | Shape fe fl u => fe || fl || match u with Some w' => can_flush w' | None => false end
  end.

(* the layers of the Unwrap chain, outermost first: (has FlushError, has Flush) *)
Fixpoint chain (w : shape) : list (bool * bool) :=
  match w with
  | Shape fe fl u => (fe, fl) :: match u with Some w' => chain w' | None => [] end
  end.

(* the request's Last-Event-ID: the first value when present, non-empty and a single line *)
Definition expected_lei (h : list bytes) : field :=
  match h with
  | v :: _ => match v with [] => None | _ => if no_nlb v then Some v else None end
  | [] => None
  end.

(* the topics chosen by OnSession, DefaultTopic if none *)
Definition expected_topics (ons : option on_session) : list bytes :=
  match ons with
  | Some o => match os_topics o with [] => [default_topic] | t => t end
  | None => [default_topic]
  end.

Definition request_accepted (ons : option on_session) : bool :=
  match ons with Some o => os_ok o | None => true end.

(* did anything reach the client: a Write or a successful flush *)
Definition sent_something (l : list wcall) : bool :=
  existsb (fun c => match c with LWrite _ _ => true | LFlush e => (e =? 0)%N | _ => false end) l.

(* the bytes a call is meant to put on the wire *)
Definition call_wire (c : scall) : bytes :=
  match c with
  | CSend m => match wire m with Some w => w | None => [] end
  | CFlush => []
  end.

(* ---- the property text for one session, as a check over per-call results ---------- *)
Fixpoint is_prefix_of (p s : bytes) : bool :=
  match p, s with
  | [], _ => true
  | x :: p', y :: s' => (x =? y)%N && is_prefix_of p' s'
  | _, [] => false
  end.

(* The calls of one session, in order, with the log before them:
   - a Send's accepted bytes are the message's encoding if it returned nil, a prefix of it otherwise;
   - a Flush that returned nil leaves a successful writer flush after the last Write;
   - every call returns the first error the writer answered during it (nil if none). *)
Fixpoint calls_ok (before : list wcall) (calls : list scall) (rs : list cres) : bool :=
  match calls, rs with
  | [], [] => true
  | c :: calls', (e, seg) :: rs' =>
      (e =? first_error seg)%N &&
      match c with
      | CSend m =>
          match wire m with
          | Some w => if (e =? 0)%N then bytes_eqb (accepted seg) w else is_prefix_of (accepted seg) w
          | None => false
          end
      | CFlush =>
          bytes_eqb (accepted seg) [] && (if (e =? 0)%N then flushed false (before ++ seg) else true)
      end &&
      calls_ok (before ++ seg) calls' rs'
  | _, _ => false
  end.

Definition session_ok (calls : list scall) (rs : list cres) : bool :=
  match urun UNone (full_log rs) with Some _ => true | None => false end && calls_ok [] calls rs.


(* the k-th Write/Flush recorded in a log was answered by the k-th verdict of the script
   (no verdict left = the call succeeds); a writer reached through plain Flush() reports nothing *)
Definition verdict_eqb (a b : wverdict) : bool :=
  match a, b with
  | WOk, WOk => true
  | WFail k e, WFail k' e' => (k =? k') && (e =? e')%N
  | _, _ => false
  end.
Definition flush_outcome (reports : bool) (v : wverdict) : N :=
  match v with WFail _ e => if reports then e else 0%N | WOk => 0%N end.
Fixpoint plays (reports : bool) (l : list wcall) (script : list wverdict) : bool :=
  match l with
  | [] => true
  | LWrite _ v :: r => verdict_eqb v (hd WOk script) && plays reports r (tl script)
  | LFlush e :: r => (e =? flush_outcome reports (hd WOk script))%N && plays reports r (tl script)
  | _ :: r => plays reports r script
  end.
Definition is_op (c : wcall) : bool := match c with LWrite _ _ | LFlush _ => true | _ => false end.
Definition nops (l : list wcall) : nat := length (filter is_op l).
