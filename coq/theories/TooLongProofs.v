(* C20_intact on the model stack, for every reader script and WITHOUT any hypothesis on the sizes:
   read_run yields either the whole interpretation, or - at one of the offsets [RunParse.toolong_points] at which a
   group (with the blank lines before it) does not fit the limit - the specification's yields for the stream up to
   that offset followed by ErrTooLong.  Never a truncated or partial event. *)
From GoSse Require Import Base Lines FieldParser Whatwg WhatwgLines Split Scanner Reader ReadLoop Yields
     LineStepProofs ReadLoopProofs SplitProofs ScannerProofs PathProofs FieldLinesProofs ParserSizeProofs RunParse
     GroupProofs ScanMoreProofs ParserFieldsProofs ParserTopProofs.
From GoSse.Gen Require Import Params.
From Coq Require Import ZifyN ZifyNat ZifyBool.
Local Open Scope nat_scope.

(* the consumed prefix [C] against the prefix [Clo] that ends at the early end of the last group: they differ by
   the LF of a CR LF that was taken together with the group *)
Definition slack (C Clo : bytes) : Prop := C = Clo \/ exists Q, Clo = Q ++ [CR] /\ C = Clo ++ [LF].

Lemma slack_len C Clo : slack C Clo -> length Clo <= length C.
Proof. intros [->|(Q & _ & ->)]; [lia|rewrite app_length; lia]. Qed.

Lemma hi_of_ge c b r : (c <= hi_of c b r)%N.
Proof. unfold hi_of. destruct (_ && _); lia. Qed.

(* ---- where a run that ends with ErrTooLong stops ------------------------------------------------------------------ *)
Lemma tpath_points B s : forall R P, tpath B R P ->
  forall C Clo hi a, s = C ++ R -> slack C Clo -> (N.of_nat (length C) <= hi)%N ->
    (forall off, In off (toolong_points B (group_needs (ge' R (N.of_nat (length C)) (true, false, a))
                                                   (N.of_nat (length s)) (N.of_nat (length Clo)) hi)) ->
                 In off (toolong_points B (stream_needs s))) ->
    exists Clo', slack (C ++ P) Clo' /\ In (N.of_nat (length Clo')) (toolong_points B (stream_needs s)).
Proof.
  induction 1 as [R [Hlen Hmore]|R n0 eof adv tok P' Hn0 HnB Hsf Hm Hpath IH]; intros C Clo hi a Hs Hsl Hhi Hinv.
  - (* ErrTooLong here *)
    exists Clo. split; [rewrite app_nil_r; exact Hsl|]. apply Hinv.
    pose proof (slack_len _ _ Hsl) as Hlo.
    assert (HlS : length s = length C + length R) by (rewrite Hs; apply app_length).
    assert (Hq : exists st', quiet (firstn (N.to_nat B) R) (true, false, a) st').
    { destruct Hmore as [-> | Hmo]; [eexists; apply quiet_nil|now apply sf_more_quiet]. }
    destruct Hq as [st' Hq].
    pose proof (Hq (skipn (N.to_nat B) R) (N.of_nat (length C))) as Hge. rewrite firstn_skipn, Hlen in Hge.
    pose proof (ge'_pos (skipn (N.to_nat B) R) (N.of_nat (length C) + N.of_nat (N.to_nat B))%N st') as Hpos.
    rewrite Hge.
    assert (HlR : N.to_nat B <= length R) by (rewrite <- Hlen, firstn_length; lia).
    destruct (ge' (skipn (N.to_nat B) R) (N.of_nat (length C) + N.of_nat (N.to_nat B))%N st') as [|[c h] E];
      cbn [group_needs toolong_points]; apply in_or_app; left.
    + assert (Hlt : (B <? N.of_nat (length s) - N.of_nat (length Clo) + 1)%N = true) by (clear - Hlo HlS HlR; lia).
      rewrite Hlt. now left.
    + inversion Hpos as [|? ? Hc _]; subst. cbn [fst] in Hc.
      assert (Hlt : (B <? c - N.of_nat (length Clo))%N = true) by (clear - Hlo Hc; lia).
      rewrite Hlt. now left.
  - (* a token first *)
    assert (Hm' : adv < length (firstn n0 R) \/ eof = false) by (rewrite firstn_length_le by exact Hn0; exact Hm).
    destruct (sf_tok_end _ _ _ _ Hsf Hm' a) as (k & b & r' & a' & Hsk & Hb & Hk0 & Hq & Ha & Hadv).
    set (d := firstn n0 R) in *. set (x := skipn n0 R).
    set (F := firstn k d) in *.
    assert (HR : R = F ++ b :: (r' ++ x)).
    { rewrite <- (firstn_skipn n0 R) at 1. fold d x. rewrite <- (firstn_skipn k d) at 1. fold F. rewrite Hsk, <- app_assoc. reflexivity. }
    assert (Hkn : k < n0).
    { pose proof (skipn_length k d) as Hl. rewrite Hsk in Hl. cbn [length] in Hl.
      assert (length d = n0) by (apply firstn_length_le; exact Hn0). lia. }
    assert (Hkd : length F = k).
    { apply firstn_length_le. assert (length d = n0) by (apply firstn_length_le; exact Hn0). lia. }
    pose proof (Hq (b :: r' ++ x) (N.of_nat (length C))) as Hge. rewrite <- HR, Hkd in Hge.
    rewrite ge'_cons, Ha, Hb in Hge. cbv iota in Hge.
    set (c := (N.of_nat (length C) + N.of_nat k + 1)%N) in *.
    pose proof (slack_len _ _ Hsl) as Hlo.
    assert (Hinv' : forall off, In off (toolong_points B (group_needs (ge' (r' ++ x) c (true, false, (b =? CR)%N))
                                         (N.of_nat (length s)) c (hi_of c b (r' ++ x)))) ->
                                In off (toolong_points B (stream_needs s))).
    { intros off Hin. apply Hinv. rewrite Hge. cbn [group_needs toolong_points]. apply in_or_app. right.
      assert (Hle : (c - hi <=? B)%N = true) by (clear - Hhi HnB Hkn; unfold c; lia).
      rewrite Hle. exact Hin. }
    assert (HF0 : firstn k R = F).
    { rewrite HR. rewrite <- Hkd at 1. rewrite <- (Nat.add_0_r (length F)), firstn_app_2. cbn [firstn]. apply app_nil_r. }
    destruct Hadv as [-> | (-> & -> & r'' & ->)].
    + (* the token ends at the group end *)
      assert (HF1 : firstn (S k) R = F ++ [b]).
      { rewrite HR. replace (S k) with (length F + 1) by lia. rewrite firstn_app_2. reflexivity. }
      assert (HS1 : skipn (S k) R = r' ++ x).
      { rewrite HR. replace (S k) with (length F + 1) by lia. now rewrite skipn_app_exact. }
      assert (HlC : N.of_nat (length (C ++ firstn (S k) R)) = c).
      { rewrite HF1, !app_length, Hkd. cbn [length]. unfold c. lia. }
      destruct (IH (C ++ firstn (S k) R) (C ++ firstn (S k) R) (hi_of c b (r' ++ x)) (b =? CR)%N) as (Clo' & Hsl' & Hin').
      * rewrite <- app_assoc, firstn_skipn. exact Hs.
      * left. reflexivity.
      * rewrite HlC. apply hi_of_ge.
      * rewrite HlC, HS1. exact Hinv'.
      * exists Clo'. split; [rewrite app_assoc; exact Hsl'|exact Hin'].
    + (* CR LF taken whole *)
      assert (HF1 : firstn (S k) R = F ++ [CR]).
      { rewrite HR. replace (S k) with (length F + 1) by lia. rewrite firstn_app_2. reflexivity. }
      assert (HF2 : firstn (S (S k)) R = F ++ [CR; LF]).
      { rewrite HR. replace (S (S k)) with (length F + 2) by lia. rewrite firstn_app_2. reflexivity. }
      assert (HS2 : skipn (S (S k)) R = r'' ++ x).
      { rewrite HR. replace (S (S k)) with (length F + 2) by lia. now rewrite skipn_app_exact. }
      assert (HlC : N.of_nat (length (C ++ firstn (S (S k)) R)) = (c + 1)%N).
      { rewrite HF2, !app_length, Hkd. cbn [length]. unfold c. lia. }
      assert (HlClo : N.of_nat (length (C ++ firstn (S k) R)) = c).
      { rewrite HF1, !app_length, Hkd. cbn [length]. unfold c. lia. }
      destruct (IH (C ++ firstn (S (S k)) R) (C ++ firstn (S k) R) (c + 1)%N false) as (Clo' & Hsl' & Hin').
      * rewrite <- app_assoc, firstn_skipn. exact Hs.
      * right. exists (C ++ F). split; [rewrite HF1; apply app_assoc|].
        rewrite HF1, HF2. rewrite <- !app_assoc. reflexivity.
      * rewrite HlC. lia.
      * rewrite HlC, HlClo, HS2.
        change ((LF :: r'') ++ x) with (LF :: r'' ++ x) in Hinv'.
        rewrite ge'_cons in Hinv'. change ((CR =? CR)%N && (LF =? LF)%N) with true in Hinv'. cbv iota in Hinv'.
        assert (Hhi' : hi_of c CR (LF :: r'' ++ x) = (c + 1)%N) by reflexivity.
        rewrite Hhi' in Hinv'. exact Hinv'.
      * exists Clo'. split; [rewrite app_assoc; exact Hsl'|exact Hin'].
Qed.

(* ---- the lines of the two prefixes are the same --------------------------------------------------------------------- *)
Lemma is_prefix_app_out p : forall Q x t, ~ In x p -> is_prefix p (Q ++ x :: t) = is_prefix p Q.
Proof.
  induction p as [|a p IH]; intros Q x t Hx; [reflexivity|].
  destruct Q as [|b Q]; cbn [app is_prefix].
  - destruct (a =? x)%N eqn:E; [apply N.eqb_eq in E; subst; exfalso; apply Hx; now left|reflexivity].
  - rewrite IH; [reflexivity|]. intros Hi. apply Hx. now right.
Qed.

Lemma strip_bom_app_nl Q x t : is_nl x = true -> strip_bom (Q ++ x :: t) = unbom Q ++ x :: t.
Proof.
  intros Hx. rewrite strip_bom_prefix, is_prefix_app_out.
  - unfold unbom. destruct (is_prefix bom Q) eqn:E; [|reflexivity].
    apply skipn_app_le. apply is_prefix_len in E. exact E.
  - intros Hi. cbn in Hi. destruct Hi as [<-|[<-|[<-|[]]]]; discriminate.
Qed.

Lemma wlines'_cr_lf X : forall a, fst (wlines' a (X ++ [CR])) = fst (wlines' a (X ++ [CR; LF])).
Proof.
  induction X as [|b X IH]; intros a.
  - cbn [app]. destruct a; reflexivity.
  - cbn [app]. unfold wlines'. destruct (a && (b =? LF)%N).
    + specialize (IH false). rewrite !wlines'_false in IH. exact IH.
    + destruct (is_nl b) eqn:Hb.
      * rewrite !(wlines_nl b _ Hb). cbn [fst]. f_equal. apply IH.
      * rewrite !(wlines_non_nl b _ Hb). specialize (IH false). rewrite !wlines'_false in IH.
        destruct (wlines (X ++ [CR])) as [[|l ls] tl], (wlines (X ++ [CR; LF])) as [[|l2 ls2] tl2]; cbn [fst] in *;
          try discriminate; try reflexivity. injection IH as -> ->. reflexivity.
Qed.

Lemma slack_lines C Clo : slack C Clo -> fst (wlines (strip_bom Clo)) = fst (wlines (strip_bom C)).
Proof.
  intros [->|(Q & -> & ->)]; [reflexivity|]. rewrite <- app_assoc. cbn [app].
  rewrite !strip_bom_app_nl by reflexivity.
  pose proof (wlines'_cr_lf (unbom Q) false) as H. rewrite !wlines'_false in H. exact H.
Qed.

(* ---- the read loop on top ---------------------------------------------------------------------------------------------- *)
Lemma read_run_of_fields en bc last_id chunks e stop fs err :
  pf_run (make_parser en bc (mkrd chunks e 0)) fs err ->
  fst (read_run en bc last_id chunks e stop)
  = (fold_fields (en_conn en) (negb (en_conn en)) stop fs err (mkrl last_id [] [] false) 0, EndNormal).
Proof.
  intros Hrun. unfold read_run. fold (en_conn en).
  set (p := make_parser en bc (mkrd chunks e 0)) in *.
  destruct (make_parser_inv en bc chunks e) as [Hinv Hfpd]. fold p in Hinv, Hfpd.
  pose proof (pf_run_len _ p _ _ Hrun Hinv) as Hlen.
  assert (Hfuel : length fs < read_fuel p).
  { unfold read_fuel. unfold p_measure, p_rest, rest_of, rd_rest in *. rewrite app_length in Hlen.
    clear - Hlen Hfpd. rewrite Hfpd in *. cbn [length] in *. lia. }
  exact (read_loop_pf p _ _ Hrun (read_fuel p) (en_conn en) (negb (en_conn en)) stop (mkrl last_id [] [] false) 0 Hfuel).
Qed.

Theorem read_run_gen en bc last_id chunks e stop : ending_ok e ->
  (may_complete (bound_of en bc) (concat chunks) = true /\
   fst (read_run en bc last_id chunks e stop)
   = (firstn' stop (vis (en_conn en) (interp (mode_for (en_conn en)) last_id (concat chunks) e)), EndNormal))
  \/ exists off, In off (toolong_points (bound_of en bc) (stream_needs (concat chunks))) /\
       fst (read_run en bc last_id chunks e stop)
       = (firstn' stop (vis (en_conn en)
            (snd (run_lines (mode_for (en_conn en)) (w_init last_id)
                            (fst (wlines (strip_bom (firstn (N.to_nat off) (concat chunks))))))
             ++ [YErr ETooLong])), EndNormal).
Proof.
  intros He. set (conn := en_conn en). set (s := concat chunks).
  assert (Hm : md_dispatch_dirty (mode_for conn) = true) by (destruct conn; reflexivity).
  destruct (parser_fields_gen en bc chunks e He) as [(LS & tl & Hrun & Hspec & Hcp & HB0)|(LS & P & Hrun & Hpath & Hspec)].
  - left. split; [exact (cpath_may_complete _ _ HB0 Hcp)|]. rewrite (read_run_of_fields en bc last_id chunks e stop _ _ Hrun). f_equal. fold conn.
    rewrite (fold_lines conn stop LS (mkrl last_id [] [] false) 0 tl e); [|left; reflexivity|exact He|intros; apply Nat.le_0_l].
    change (st_of (mkrl last_id [] [] false)) with (w_init last_id).
    rewrite <- (Hspec (mode_for conn) last_id Hm).
    destruct stop as [k|]; cbn [cutd firstn']; [now rewrite Nat.sub_0_r|reflexivity].
  - right. fold s in Hpath.
    destruct (tpath_points (bound_of en bc) s s P Hpath [] [] 0%N false eq_refl (or_introl eq_refl) (N.le_refl _))
      as (Clo & Hsl & Hin).
    { intros off Hin. exact Hin. }
    cbn [app] in Hsl.
    exists (N.of_nat (length Clo)). split; [exact Hin|].
    rewrite (read_run_of_fields en bc last_id chunks e stop _ _ Hrun). f_equal. fold conn.
    change (Some ETooLong) with (end_err [] (ReadError ETooLong)).
    rewrite (fold_lines conn stop LS (mkrl last_id [] [] false) 0 [] (ReadError ETooLong));
      [|left; reflexivity|discriminate|intros; apply Nat.le_0_l].
    change (st_of (mkrl last_id [] [] false)) with (w_init last_id).
    (* the lines handed out are those of the consumed prefix P ... *)
    pose proof (Hspec (ReadError ETooLong) (mode_for conn) last_id Hm) as Hs1.
    rewrite <- interp_lines_eq in Hs1. unfold interp_lines in Hs1.
    (* ... which are those of the stream up to the early end of the last group *)
    destruct (tpath_prefix _ _ _ Hpath) as [R1 HsP].
    assert (Hfn : firstn (N.to_nat (N.of_nat (length Clo))) s = Clo).
    { rewrite Nat2N.id, HsP.
      destruct Hsl as [->|(Q & HQ & ->)]; [apply firstn_app_len|rewrite <- !app_assoc; apply firstn_app_len]. }
    fold s. rewrite Hfn, (slack_lines P Clo Hsl).
    destruct (wlines (strip_bom P)) as [lsP tlP]. cbn [fst].
    destruct (run_lines (mode_for conn) (w_init last_id) lsP) as [st1 ys1].
    destruct (run_lines (mode_for conn) (w_init last_id) LS) as [st2 ys2].
    cbn [finish snd] in *. apply app_inv_tail in Hs1. subst ys2.
    destruct stop as [k|]; cbn [cutd firstn']; [now rewrite Nat.sub_0_r|reflexivity].
Qed.

(* under the limit (strict reading) there is no such offset *)
Lemma toolong_points_fits L needs :
  forallb (fun x : N * N * N => (snd (fst x) <=? L)%N) needs = true -> toolong_points L needs = [].
Proof.
  induction needs as [|[[start need_lo] need_hi] rest IH]; [reflexivity|].
  cbn [forallb toolong_points fst snd]. intros H. apply andb_true_iff in H as [H1 H2].
  assert (Hlt : (L <? need_lo)%N = false) by lia. rewrite Hlt, (IH H2). cbn [app]. destruct (need_hi <=? L)%N; reflexivity.
Qed.

Theorem fits_no_toolong_points L s : fitsb L s = true -> toolong_points L (stream_needs s) = [].
Proof. apply toolong_points_fits. Qed.

(* sse.Read starts with an empty last event ID *)
Corollary read_run_read_nil bc chunks e stop :
  ending_ok e -> fitsb (bound_of EntryRead bc) (concat chunks) = true ->
  fst (read_run EntryRead bc [] chunks e stop)
  = (firstn' stop (vis false (interp gosse_read [] (concat chunks) e)), EndNormal).
Proof. apply read_run_read. Qed.
