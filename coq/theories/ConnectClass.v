(* Lemmas about the Connect model, part 5: why Connect returns (C11), and the history its backoff
   controller sees (the link to C12's schedule theorem). *)
From Coq Require Import ZifyBool ZifyNat.
From GoSse Require Import Base Whatwg Backoff BackoffProofs Connect ConnectProofs ConnectStep ConnectTop.
From GoSse.Gen Require Import Params.

(* ---- the controller's history during a script (specification side) ---------------------------- *)
(* what the controller sees during an attempt before next() is consulted: a validated response
   resets it, every valid retry field resets it to the field's value *)
Definition attempt_prefix_hops (lid : bytes) (st : step) : list hop :=
  match st_attempt st with
  | AStream body en => HSuccess :: retries_of (interp gosse_conn lid body en)
  | _ => []
  end.

(* ... and the consultation itself, when the attempt is retryable *)
Definition attempt_hops (lid : bytes) (st : step) : list hop :=
  attempt_prefix_hops lid st ++
  match attempt_error (st_attempt st) with
  | Some _ => [HFail (st_elapsed st) (st_u st)]
  | None => []
  end.

Fixpoint script_hops (lid : bytes) (script : list step) : list hop :=
  match script with
  | [] => []
  | st :: rest => attempt_hops lid st ++ script_hops (id_after_attempt lid (st_attempt st)) rest
  end.

(* the controller right before next() is consulted after attempt number n (from 1), computed from
   the specification-side history: bc_run over the hops of the first n-1 attempts and the prefix
   hops of the n-th *)
Definition next_state (b : backoff) (c : bctl) (lid : bytes) (script : list step) (n : nat) : option bctl :=
  match n with
  | O => None
  | S m =>
      match nth_error script m with
      | None => None
      | Some st =>
          Some (fst (bc_run_from b c (script_hops lid (firstn m script) ++
                                      attempt_prefix_hops (id_after lid (firstn m script)) st)))
      end
  end.

Definition last_next (cfg : ccfg) (script : list step) (n : nat) : option bctl :=
  let b := merge_defaults (cc_backoff cfg) in next_state b (bc_new b) [] script n.

Lemma prefix_hops_run b c lid st :
  bc_run_from b c (attempt_prefix_hops lid st) = (bc_before_next b c lid (st_attempt st), []).
Proof.
  unfold attempt_prefix_hops, bc_before_next. destruct (st_attempt st) as [e| |e|body en]; try reflexivity.
  cbn [bc_run_from bc_step]. rewrite bc_fold_run. reflexivity.
Qed.

Lemma attempt_hops_run b c lid st err :
  attempt_error (st_attempt st) = Some err ->
  bc_run_from b c (attempt_hops lid st) =
  (fst (bc_next b (bc_before_next b c lid (st_attempt st)) (st_elapsed st) (st_u st)),
   [snd (bc_next b (bc_before_next b c lid (st_attempt st)) (st_elapsed st) (st_u st))]).
Proof.
  intros Ha. unfold attempt_hops. rewrite Ha, bc_run_from_app, prefix_hops_run.
  cbn [bc_run_from bc_step].
  destruct (bc_next b (bc_before_next b c lid (st_attempt st)) (st_elapsed st) (st_u st)); reflexivity.
Qed.

Lemma reset_request_keeps k s s1 :
  reset_request k s = inl s1 -> cs_last_id s1 = cs_last_id s /\ cs_bc s1 = cs_bc s.
Proof.
  unfold reset_request. destruct (negb (cs_is_retry s)).
  - intros H. injection H as <-. split; reflexivity.
  - unfold reset_body. destruct k as [| |[| |after e]]; intros H; try discriminate;
      try (injection H as <-; split; reflexivity).
    destruct (cs_gb_calls s <? after)%nat; [|discriminate]. injection H as <-. split; reflexivity.
Qed.

(* ---- classification ----------------------------------------------------------------------------- *)
Definition decided_by_last (cfg : ccfg) (b : backoff) (c0 : bctl) (lid : bytes) (script : list step)
                           (n : nat) (r : cret) : Prop :=
  exists st, nth_error script (n - 1) = Some st /\ (0 < n)%nat /\
    match attempt_error (st_attempt st) with
    | None => r = (match st_attempt st with ARejected e => RConn RsValidate (CE (EReader e)) | _ => RCtx end)
    | Some err =>
        exists c, next_state b c0 lid script n = Some c /\
          match snd (bc_next b c (st_elapsed st) (st_u st)) with
          | None => r = err
          | Some w => wait_cancelled cfg w = true /\ r = RCtx
          end
    end.

Lemma loop_classification cfg b script : forall s tr r,
  connect_loop cfg b s script = (tr, Some r) ->
  let n := length (requests tr) in
  (forall k a, (S k < n)%nat -> nth_error (map st_attempt script) k = Some a -> attempt_error a <> None) /\
  ((exists e, r = RConn RsReset e) \/ decided_by_last cfg b (cs_bc s) (cs_last_id s) script n r).
Proof.
  induction script as [|st rest IH]; intros s tr r Hrun; cbv zeta.
  - rewrite connect_loop_nil in Hrun. destruct (reset_request _ s) as [s1|e]; [discriminate|].
    injection Hrun as <- <-. cbn. split; [intros; lia|]. left. now exists e.
  - rewrite connect_loop_cons in Hrun.
    destruct (reset_request (cc_body cfg) s) as [s1|e] eqn:Er.
    2:{ injection Hrun as <- <-. cbn. split; [intros; lia|]. left. now exists e. }
    destruct (reset_request_keeps _ _ _ Er) as [Hl1 Hc1].
    pose proof (attempt_step_spec cfg b s1 st) as Hs. cbv zeta in Hs. rewrite Hl1, Hc1 in Hs.
    fold (attempt_events (cs_last_id s) (st_attempt st)) in Hs.
    set (lid := cs_last_id s) in *. set (c0 := cs_bc s) in *.
    assert (Hreq : forall tail, requests tail = [] ->
              length (requests (TRequest (cs_hdr s1) (cs_body s1) :: attempt_events lid (st_attempt st) ++ tail)) = 1%nat).
    { intros tail Ht. cbn [requests flat_map app]. fold (requests (attempt_events lid (st_attempt st) ++ tail)).
      rewrite requests_app, requests_attempt_events, Ht. reflexivity. }
    assert (Hreq2 : forall tail tr', requests tail = [] ->
              length (requests (TRequest (cs_hdr s1) (cs_body s1) :: (attempt_events lid (st_attempt st) ++ tail) ++ tr'))
              = (1 + length (requests tr'))%nat).
    { intros tail tr' Ht. cbn [requests flat_map app].
      fold (requests ((attempt_events lid (st_attempt st) ++ tail) ++ tr')).
      rewrite !requests_app, requests_attempt_events, Ht. reflexivity. }
    assert (Hreq0 : length (requests (TRequest (cs_hdr s1) (cs_body s1) :: attempt_events lid (st_attempt st))) = 1%nat).
    { rewrite <- (app_nil_r (attempt_events _ _)). now apply Hreq. }
    destruct (attempt_error (st_attempt st)) as [err|] eqn:Ea.
    + pose proof (prefix_hops_run b c0 lid st) as Hp.
      destruct (bc_next b (bc_before_next b c0 lid (st_attempt st)) (st_elapsed st) (st_u st)) as [c' ans] eqn:En.
      assert (Hlast1 : forall r', match ans with None => r' = err | Some w => wait_cancelled cfg w = true /\ r' = RCtx end ->
                 decided_by_last cfg b c0 lid (st :: rest) 1 r').
      { intros r' Hr'. exists st. split; [reflexivity|]. split; [lia|]. rewrite Ea.
        eexists. split; [cbn [next_state nth_error firstn script_hops app id_after fold_left]; rewrite Hp; reflexivity|].
        cbn [fst]. rewrite En. exact Hr'. }
      destruct ans as [w|].
      * destruct (wait_cancelled cfg w) eqn:Ew.
        -- rewrite Hs in Hrun. injection Hrun as <- <-. rewrite (Hreq _ (requests_onretry _ _ _)).
           split; [intros; lia|]. right. apply Hlast1. split; [first [assumption|reflexivity]|reflexivity].
        -- destruct Hs as (s' & Hs & Hl' & Hc' & _). rewrite Hs in Hrun.
           destruct (connect_loop cfg b s' rest) as [tr' r'] eqn:El. injection Hrun as <- ->.
           specialize (IH s' tr' r El). cbv zeta in IH. destruct IH as [IH1 IH2].
           rewrite (Hreq2 _ _ (requests_onretry _ _ _)).
           set (n' := length (requests tr')) in *. split.
           ++ intros k a Hk Hn. destruct k as [|k].
              ** cbn in Hn. injection Hn as <-. rewrite Ea. discriminate.
              ** cbn [map nth_error] in Hn. apply (IH1 k a); [lia|assumption].
           ++ destruct IH2 as [IH2|(st' & Hn' & Hpos & IH2)]; [now left|right].
              exists st'. replace (1 + n' - 1)%nat with (S (n' - 1)) by lia. cbn [nth_error].
              split; [assumption|]. split; [lia|].
              destruct (attempt_error (st_attempt st')) as [err'|]; [|assumption].
              destruct IH2 as (c & Hc & IH2). exists c. split; [|assumption].
              replace (1 + n')%nat with (S (S (n' - 1))) by lia.
              destruct n' as [|m]; [lia|]. cbn [Nat.sub] in *. rewrite Nat.sub_0_r in *.
              cbn [next_state] in Hc |- *. cbn [nth_error]. destruct (nth_error rest m) as [stm|]; [|discriminate].
              injection Hc as <-. f_equal. cbn [firstn script_hops]. rewrite <- app_assoc.
              rewrite bc_run_from_app, (attempt_hops_run b c0 lid st err Ea), En. cbn [fst snd].
              rewrite Hc', Hl'.
              replace (id_after lid (st :: firstn m rest)) with (id_after (id_after_attempt lid (st_attempt st)) (firstn m rest))
                by reflexivity.
              destruct (bc_run_from b c' _) as [c2 o2]. reflexivity.
      * rewrite Hs in Hrun. injection Hrun as <- <-. rewrite Hreq0.
        split; [intros; lia|]. right. now apply Hlast1.
    + rewrite Hs in Hrun. injection Hrun as <- <-. rewrite Hreq0.
      split; [intros; lia|]. right. exists st. split; [reflexivity|]. split; [lia|]. rewrite Ea. reflexivity.
Qed.

Theorem run_classification cfg script tr r :
  cc_cancel_before cfg = false ->
  connect_run cfg script = (tr, Some r) ->
  let n := length (requests tr) in
  (forall k a, (S k < n)%nat -> nth_error (map st_attempt script) k = Some a -> attempt_error a <> None) /\
  ((exists e, r = RConn RsReset e) \/
   exists st, nth_error script (n - 1) = Some st /\ (0 < n)%nat /\
     match attempt_error (st_attempt st) with
     | None => r = (match st_attempt st with ARejected e => RConn RsValidate (CE (EReader e)) | _ => RCtx end)
     | Some err =>
         exists c, last_next cfg script n = Some c /\
           match snd (bc_next (merge_defaults (cc_backoff cfg)) c (st_elapsed st) (st_u st)) with
           | None => r = err
           | Some w => wait_cancelled cfg w = true /\ r = RCtx
           end
     end).
Proof.
  intros Hc. unfold connect_run. rewrite Hc. intros Hrun.
  exact (loop_classification cfg _ script _ tr r Hrun).
Qed.

Theorem run_cancel_before cfg script :
  cc_cancel_before cfg = true -> connect_run cfg script = ([], Some RCtx).
Proof. intros H. unfold connect_run. now rewrite H. Qed.
