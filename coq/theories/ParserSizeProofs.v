(* C20, on the whole model stack (Scanner + Split + FieldParser + Parser + read loop), for every reader
   script, every buffer configuration, both entry points and every early-stop position:
   - no Panic outcome (ErrAdvanceTooFar, bufio's "too many empty tokens") and no OutOfFuel: the fuel
     every layer takes is sufficient (read_run_fuel_ok);
   - at every point between two fields, and at the end: bytes pulled = bytes consumed by tokens
     + bytes buffered, and bytes buffered <= max(maxTokenSize, cap(buf)). *)
From GoSse Require Import Base Lines FieldParser Whatwg WhatwgLines Split Scanner Reader ReadLoop
     SplitProofs ScannerProofs.
From GoSse.Gen Require Import Params.
From Coq Require Import ZifyN ZifyNat ZifyBool.
Local Open Scope nat_scope.

(* ---- the field parser consumes what it returns ------------------------------------------------------- *)
Lemma fp_next_fuel_shrinks fuel : forall f,
  match fp_next_fuel fuel f with
  | (Some _, f') => length (fp_data f') < length (fp_data f)
  | (None, f') => length (fp_data f') <= length (fp_data f)
  end.
Proof.
  induction fuel as [|fuel IH]; intros f; cbn [fp_next_fuel]; [lia|].
  destruct (fp_data f) as [|b d] eqn:Ed; [rewrite ?Ed; cbn [length]; lia|].
  destruct (next_chunk (b :: d)) as [[chunk rem] has_nl] eqn:En.
  destruct has_nl.
  - pose proof (next_chunk_shorter (b :: d) chunk rem true ltac:(discriminate) En eq_refl) as Hs.
    destruct (scan_segment (fp_keep_comments f) chunk).
    + cbn [fp_data]. exact Hs.
    + specialize (IH (mkfp rem (fp_err f) true (fp_keep_comments f) (fp_remove_bom f))).
      cbn [fp_data] in IH. destruct (fp_next_fuel fuel _) as [[fld|] f']; lia.
  - cbn [fp_data]. rewrite ?Ed. lia.
Qed.

Lemma fp_reset_length f tok : length (fp_data (fp_reset f tok)) <= length tok.
Proof.
  unfold fp_reset, do_remove_bom. cbn [fp_remove_bom fp_started fp_data].
  destruct (_ && _); cbn [fp_data]; [rewrite skipn_length|]; lia.
Qed.

(* ---- Parser.Next ----------------------------------------------------------------------------------------- *)
Definition p_rest (p : parser) : bytes := rest_of (p_sc p) (p_rd p).
Definition p_measure (p : parser) : nat := length (fp_data (p_fp p)) + length (p_rest p).

(* bytes pulled = bytes consumed + bytes buffered <= B *)
Definition bounded (B : N) (p : parser) : Prop :=
  (N.of_nat (length (sc_data (p_sc p))) <= B)%N /\
  (sc_off (p_sc p) + N.of_nat (length (sc_data (p_sc p))) = rd_pulled (p_rd p))%N.

Definition next_post (B : N) (p : parser) (res : next_out * parser) : Prop :=
  let '(out, p') := res in
  match out with
  | NextField _ => sc_inv B (p_sc p') (p_rd p') /\ p_measure p' < p_measure p
  | NextFalse => bounded B p'
  | NextPanic | NextOutOfFuel => False
  end.

Lemma sc_inv_bounded B p : sc_inv B (p_sc p) (p_rd p) -> bounded B p.
Proof. intros (_ & H1 & H2 & _ & H4 & _). split; [lia|exact H4]. Qed.

Lemma parser_next_fuel_spec B n : forall p,
  sc_inv B (p_sc p) (p_rd p) -> length (p_rest p) + 2 <= n ->
  next_post B p (parser_next_fuel n p).
Proof.
  induction n as [|n IH]; intros p Hinv Hn; [lia|].
  cbn [parser_next_fuel].
  pose proof (fp_next_fuel_shrinks (length (fp_data (p_fp p))) (p_fp p)) as Hfp.
  unfold fp_next. destruct (fp_next_fuel _ (p_fp p)) as [[fld|] f'].
  - cbn [next_post p_sc p_rd]. split; [exact Hinv|]. unfold p_measure, p_rest. cbn [p_fp p_sc p_rd]. lia.
  - pose proof (scan_spec B (p_first p, f') (p_sc p) (p_rd p) Hinv) as Hpost.
    destruct (scan parser_split (p_first p, f') (p_sc p) (p_rd p)) as [[[out [first' f'']] sc'] rd'].
    destruct Hpost as (_ & _ & Hpost).
    destruct out; [| |contradiction|contradiction].
    + (* a token *)
      destruct Hpost as (Hinv' & nls & tok & Htok & Hrest & _ & Hpos & _).
      rewrite Htok.
      set (f4 := fp_reset _ tok).
      pose proof (fp_reset_length (if fp_started f'' then fp_set_remove_bom f'' false else f'') tok) as Hlen4.
      fold f4 in Hlen4.
      set (p1 := mkp sc' rd' f4 first' (p_sc_nil p)).
      assert (Hr : length (p_rest p) = length nls + length tok + length (p_rest p1)).
      { unfold p_rest at 1. rewrite Hrest, !app_length. unfold p1, p_rest. cbn [p_sc p_rd]. lia. }
      specialize (IH p1 Hinv' ltac:(lia)).
      destruct (parser_next_fuel n p1) as [out1 p2]. unfold next_post in *.
      destruct out1; try assumption.
      destruct IH as [Hi Hm]. split; [exact Hi|].
      unfold p_measure in *. unfold p1 in Hm at 1. cbn [p_fp] in Hm. lia.
    + destruct Hpost as (_ & Hb & Ho & _). cbn [next_post]. split; cbn [p_sc p_rd]; assumption.
Qed.

Lemma parser_next_spec B p :
  sc_inv B (p_sc p) (p_rd p) -> next_post B p (parser_next p).
Proof.
  intros Hinv. apply parser_next_fuel_spec; [exact Hinv|].
  unfold parser_fuel, p_rest, rest_of, rd_rest. rewrite app_length. lia.
Qed.

(* ---- the read loop ----------------------------------------------------------------------------------------- *)
Lemma read_loop_bounded B fuel : forall on_retry ignore_eof stop p s d,
  sc_inv B (p_sc p) (p_rd p) -> p_measure p < fuel ->
  let '(ys, e, p') := read_loop fuel on_retry ignore_eof stop p s d in
  e = EndNormal /\ bounded B p'.
Proof.
  induction fuel as [|fuel IH]; intros on_retry ignore_eof stop p s d Hinv Hf; [lia|].
  cbn [read_loop].
  pose proof (parser_next_spec B p Hinv) as Hpost.
  destruct (parser_next p) as [out p1]. unfold next_post in Hpost.
  destruct out as [f| | |]; [| |contradiction|contradiction].
  - destruct Hpost as [Hinv1 Hm].
    destruct (rl_field on_retry s f) as [s' [|n|]].
    + apply IH; [exact Hinv1|lia].
    + specialize (IH on_retry ignore_eof stop p1 s' d Hinv1 ltac:(lia)).
      destruct (read_loop fuel on_retry ignore_eof stop p1 s' d) as [[ys e] p2]. exact IH.
    + destruct (consumer_refuses stop d).
      * split; [reflexivity|]. now apply sc_inv_bounded.
      * specialize (IH on_retry ignore_eof stop p1 (rl_cleared s') (S d) Hinv1 ltac:(lia)).
        destruct (read_loop fuel on_retry ignore_eof stop p1 (rl_cleared s') (S d)) as [[ys e] p2]. exact IH.
  - destruct (rl_dirty s && _ && consumer_refuses stop d); split; try reflexivity; exact Hpost.
Qed.

(* ---- the entry points ---------------------------------------------------------------------------------------- *)
(* L = max(maxTokenSize, cap(buf)) of the scanner the entry point sets up *)
Definition bound_of (en : entry) (bc : bufcfg) : N :=
  let sc := p_sc (make_parser en bc (mkrd [] CleanEOF 0)) in N.max (sc_max sc) (sc_cap sc).

Lemma make_parser_inv en bc chunks e :
  let p := make_parser en bc (mkrd chunks e 0) in
  sc_inv (bound_of en bc) (p_sc p) (p_rd p) /\ fp_data (p_fp p) = [].
Proof.
  unfold bound_of, make_parser.
  destruct en; [destruct (0 <? bc_max bc)%Z|destruct (bc_has_buf bc || (0 <? bc_max bc)%Z)];
    unfold parser_buffer, parser_new, sc_buffer, sc_new, sc_inv;
    cbn [p_sc p_rd p_fp sc_done sc_start sc_data sc_cap sc_max sc_off sc_err rd_pulled length fp_data
         fp_set_remove_bom fp_new do_remove_bom fp_remove_bom fp_started andb negb];
    (split; [repeat split; try lia; left; reflexivity|]);
    try reflexivity; unfold fp_set_remove_bom, do_remove_bom; cbn; reflexivity.
Qed.

(* the documented limit: ReadConfig.MaxEventSize, or max(maxSize, cap(buf)) of Connection.Buffer, else 64 KiB *)
Lemma bound_of_read bc : bound_of EntryRead bc = if (0 <? bc_max bc)%Z then Z.to_N (bc_max bc) else 65536%N.
Proof. unfold bound_of, make_parser. destruct (0 <? bc_max bc)%Z; cbn; [lia|reflexivity]. Qed.

Lemma bound_of_conn bc : bound_of EntryConn bc =
  if bc_has_buf bc || (0 <? bc_max bc)%Z
  then N.max (Z.to_N (bc_max bc)) (if bc_has_buf bc then bc_cap bc else 0%N) else 65536%N.
Proof. unfold bound_of, make_parser. destruct (bc_has_buf bc || (0 <? bc_max bc)%Z); cbn; reflexivity. Qed.

Theorem read_run_bounded en bc last_id chunks e stop :
  let '(ys, fin, p) := read_run en bc last_id chunks e stop in
  fin = EndNormal /\ bounded (bound_of en bc) p.
Proof.
  unfold read_run.
  destruct (make_parser_inv en bc chunks e) as [Hinv Hfp].
  apply read_loop_bounded; [exact Hinv|].
  unfold read_fuel, p_measure, p_rest, rest_of, rd_rest. rewrite Hfp, app_length. cbn [length]. lia.
Qed.
