(* Lemmas about the Connect model, part 7: the context's error is returned iff the context was done
   where the code observes it (C11). *)
From Coq Require Import ZifyBool ZifyNat.
From GoSse Require Import Base Whatwg Backoff BackoffProofs Connect ConnectProofs ConnectStep ConnectTop ConnectBody ConnectClass.
From GoSse.Gen Require Import Params.

(* moving [next_state] past a first attempt that was retried *)
Lemma next_state_shift b c0 lid st rest m err :
  attempt_error (st_attempt st) = Some err ->
  next_state b c0 lid (st :: rest) (S (S m)) =
  next_state b (fst (bc_next b (bc_before_next b c0 lid (st_attempt st)) (st_elapsed st) (st_u st)))
             (id_after_attempt lid (st_attempt st)) rest (S m).
Proof.
  intros Ea. cbn [next_state nth_error]. destruct (nth_error rest m) as [stm|]; [|reflexivity].
  f_equal. cbn [firstn script_hops]. rewrite <- app_assoc.
  rewrite bc_run_from_app, (attempt_hops_run b c0 lid st err Ea). cbn [fst snd].
  replace (id_after lid (st :: firstn m rest)) with (id_after (id_after_attempt lid (st_attempt st)) (firstn m rest))
    by reflexivity.
  destruct (bc_run_from b _ _) as [c2 o2]. reflexivity.
Qed.

(* a run that ends with a body-reset error: its last request's attempt was retryable, next() granted a
   wait, and the context was not cancelled during it *)
Definition granted_last (cfg : ccfg) (b : backoff) (c0 : bctl) (lid : bytes) (script : list step) (n : nat) : Prop :=
  exists st err c w,
    nth_error script (n - 1) = Some st /\ attempt_error (st_attempt st) = Some err /\
    next_state b c0 lid script n = Some c /\ snd (bc_next b c (st_elapsed st) (st_u st)) = Some w /\
    wait_cancelled cfg w = false.

Lemma loop_reset_last cfg b script : forall s tr e,
  connect_loop cfg b s script = (tr, Some (RConn RsReset e)) ->
  let n := length (requests tr) in n = O \/ granted_last cfg b (cs_bc s) (cs_last_id s) script n.
Proof.
  induction script as [|st rest IH]; intros s tr e Hrun; cbv zeta.
  - rewrite connect_loop_nil in Hrun. destruct (reset_request _ s); [discriminate|].
    injection Hrun as <- _. now left.
  - rewrite connect_loop_cons in Hrun.
    destruct (reset_request (cc_body cfg) s) as [s1|e1] eqn:Er.
    2:{ injection Hrun as <- _. now left. }
    destruct (reset_request_keeps _ _ _ Er) as [Hl1 Hc1].
    pose proof (attempt_step_spec cfg b s1 st) as Hs. cbv zeta in Hs. rewrite Hl1, Hc1 in Hs.
    fold (attempt_events (cs_last_id s) (st_attempt st)) in Hs.
    set (lid := cs_last_id s) in *. set (c0 := cs_bc s) in *.
    destruct (attempt_step cfg b s1 st) as [items r0|items s'] eqn:Hstep.
    { injection Hrun as _ ->. exfalso. exact (attempt_step_no_reset _ _ _ _ _ _ Hstep e eq_refl). }
    destruct (connect_loop cfg b s' rest) as [tr' r'] eqn:El. injection Hrun as <- ->.
    destruct (attempt_error (st_attempt st)) as [err|] eqn:Ea; [|discriminate].
    pose proof (prefix_hops_run b c0 lid st) as Hp.
    destruct (bc_next b (bc_before_next b c0 lid (st_attempt st)) (st_elapsed st) (st_u st)) as [c' ans] eqn:En.
    destruct ans as [w|]; [|discriminate].
    destruct (wait_cancelled cfg w) eqn:Ew; [discriminate|].
    destruct Hs as (s2 & Hs & Hl' & Hc' & _). injection Hs as -> ->.
    assert (Hlen : length (requests ((TRequest (cs_hdr s1) (cs_body s1) :: attempt_events lid (st_attempt st) ++
                      (if cc_on_retry cfg then [TOnRetry err w] else [])) ++ tr')) = S (length (requests tr'))).
    { rewrite requests_app, app_length. cbn [requests flat_map app].
      fold (requests (attempt_events lid (st_attempt st) ++ (if cc_on_retry cfg then [TOnRetry err w] else []))).
      rewrite requests_app, requests_attempt_events, requests_onretry. reflexivity. }
    rewrite Hlen. right.
    destruct (IH s2 tr' e El) as [H0|(st' & err' & c & w' & Hn' & Ha' & Hns & Hw' & Hcan)].
    + cbv zeta in H0. rewrite H0. exists st, err, (bc_before_next b c0 lid (st_attempt st)), w.
      split; [reflexivity|]. split; [assumption|]. split.
      * cbn [next_state nth_error firstn script_hops app id_after fold_left]. now rewrite Hp.
      * rewrite En. split; [reflexivity|assumption].
    + set (n' := length (requests tr')) in *.
      assert (Hpos : (0 < n')%nat).
      { destruct n'; [|lia]. cbn in Hns. discriminate. }
      exists st', err', c, w'. replace (S n' - 1)%nat with (S (n' - 1)) by lia. cbn [nth_error].
      split; [assumption|]. split; [assumption|]. split; [|split; assumption].
      replace (S n') with (S (S (n' - 1))) by lia.
      rewrite (next_state_shift b c0 lid st rest (n' - 1) err Ea), En. cbn [fst].
      replace (S (n' - 1)) with n' by lia. rewrite <- Hc', <- Hl'. exact Hns.
Qed.

(* where the code observes a done context: in the request, in the body read, or in the select of a
   granted wait - each time at the last request of the run *)
Definition ctx_observed (cfg : ccfg) (script : list step) (n : nat) : Prop :=
  exists st, nth_error script (n - 1) = Some st /\ (0 < n)%nat /\
    (st_attempt st = ACtxErr \/
     (exists body en, st_attempt st = AStream body en /\ stream_error body en = ECtx) \/
     (exists err c w, attempt_error (st_attempt st) = Some err /\ last_next cfg script n = Some c /\
        snd (bc_next (merge_defaults (cc_backoff cfg)) c (st_elapsed st) (st_u st)) = Some w /\
        wait_cancelled cfg w = true)).

Lemma attempt_error_conn a err : attempt_error a = Some err -> exists rs e, err = RConn rs e.
Proof.
  unfold attempt_error. destruct a as [e| |e|body en]; try discriminate.
  - intros H. injection H as <-. eexists _, _. reflexivity.
  - destruct (is_ctx _); [discriminate|]. intros H. injection H as <-. eexists _, _. reflexivity.
Qed.

Theorem run_ctx_iff cfg script tr r :
  cc_cancel_before cfg = false ->
  connect_run cfg script = (tr, Some r) ->
  (r = RCtx <-> ctx_observed cfg script (length (requests tr))).
Proof.
  intros Hc Hrun. destruct (run_classification cfg script tr r Hc Hrun) as [_ Hcl]. cbv zeta in Hcl.
  set (n := length (requests tr)) in *. split.
  - intros ->. destruct Hcl as [[e He]|(st & Hn & Hpos & Hcl)]; [discriminate|].
    exists st. split; [assumption|]. split; [assumption|].
    destruct (attempt_error (st_attempt st)) as [err|] eqn:Ea.
    + destruct Hcl as (c & Hc' & Hcl). right; right.
      destruct (snd (bc_next _ c (st_elapsed st) (st_u st))) as [w|] eqn:En.
      * destruct Hcl as [Hw _]. exists err, c, w. repeat split; assumption.
      * destruct (attempt_error_conn _ _ Ea) as (rs & e & ->). discriminate.
    + unfold attempt_error in Ea. destruct (st_attempt st) as [e| |e|body en]; try discriminate.
      * now left.
      * right; left. exists body, en. split; [reflexivity|].
        destruct (stream_error body en); try discriminate. reflexivity.
  - intros (st & Hn & Hpos & Hobs).
    destruct Hcl as [[e He]|(st' & Hn' & _ & Hcl)].
    + (* a reset failure: the last request's attempt was retried, and the wait was not cancelled *)
      exfalso. subst r. revert Hrun. unfold connect_run. rewrite Hc. intros Hrun.
      destruct (loop_reset_last cfg _ script _ tr e Hrun) as [H0|(st' & err' & c' & w' & Hn' & Ha' & Hns & Hw' & Hcan)].
      * cbv zeta in H0. fold n in H0. lia.
      * fold n in Hn', Hns. rewrite Hn in Hn'. injection Hn' as <-.
        destruct Hobs as [Ha|[(body & en & Ha & He)|(err & c & w & Ha & Hc' & Hw & Hcan')]].
        -- rewrite Ha in Ha'. discriminate.
        -- rewrite Ha in Ha'. unfold attempt_error in Ha'. rewrite He in Ha'. discriminate.
        -- unfold last_next in Hc'. cbn [connect_init cs_bc cs_last_id] in Hns. rewrite Hns in Hc'.
           injection Hc' as <-. rewrite Hw in Hw'. injection Hw' as <-. congruence.
    + rewrite Hn in Hn'. injection Hn' as <-.
      destruct Hobs as [Ha|[(body & en & Ha & He)|(err & c & w & Ha & Hc' & Hw & Hcan)]].
      * rewrite Ha in Hcl. exact Hcl.
      * rewrite Ha in Hcl. unfold attempt_error in Hcl. rewrite He in Hcl. exact Hcl.
      * rewrite Ha in Hcl. destruct Hcl as (c2 & Hc2 & Hcl). rewrite Hc' in Hc2. injection Hc2 as <-.
        rewrite Hw in Hcl. now destruct Hcl.
Qed.
