(* Small facts about the specification-side functions of Connect.v, spelled out for the property files. *)
From GoSse Require Import Base Whatwg Backoff Connect.
Local Open Scope N_scope.

(* attempts that dispatch nothing leave the ID alone: failures, rejections, cancelled requests *)
Lemma id_after_non_stream lid a :
  (forall body en, a <> AStream body en) -> id_after_attempt lid a = lid.
Proof. intros H. destruct a; try reflexivity. exfalso. eapply H. reflexivity. Qed.

(* ... and so does a stream without a dispatched event *)
Lemma id_after_no_event lid body en :
  events_of (interp gosse_conn lid body en) = [] -> id_after_attempt lid (AStream body en) = lid.
Proof. intros H. unfold id_after_attempt. rewrite H. reflexivity. Qed.

Lemma id_after_last_event lid body en evs e :
  events_of (interp gosse_conn lid body en) = evs ++ [e] -> id_after_attempt lid (AStream body en) = ev_id e.
Proof. intros H. unfold id_after_attempt. rewrite H, rev_app_distr. reflexivity. Qed.

Lemma stream_error_read_error body e : stream_error body (ReadError e) = e.
Proof. reflexivity. Qed.

Lemma stream_error_clean body :
  stream_error body CleanEOF = if ends_mid_line (strip_bom body) then EUnexpectedEOF else EEOF.
Proof. reflexivity. Qed.

(* ends_mid_line: the (BOM-stripped) stream is non-empty and its last byte is neither CR nor LF *)
Lemma ends_mid_line_spec s : ends_mid_line s = true <-> exists pre b, s = pre ++ [b] /\ b <> LF /\ b <> CR.
Proof.
  unfold ends_mid_line. split.
  - destruct (rev s) as [|b r] eqn:E; [discriminate|]. intros H.
    exists (rev r), b. split.
    + rewrite <- (rev_involutive s), E. reflexivity.
    + unfold is_eol in H. split; intros ->; discriminate.
  - intros (pre & b & -> & H1 & H2). rewrite rev_app_distr. cbn [rev app]. unfold is_eol.
    destruct (N.eqb_spec b LF); [contradiction|]. destruct (N.eqb_spec b CR); [contradiction|]. reflexivity.
Qed.
