(* Lemmas about the Connect model, part 8: the same Connection connected AGAIN.
   [connect_loop_st] (Connect.v) also returns the Connection as the call leaves it; [connect_calls]
   runs one script per Connect call, each call from the state the previous one left (lastEventID,
   isRetry, the request's header and body), with a backoff controller of its own.
   Shown here: what a returned call leaves behind (isRetry set, lastEventID = the ID after the attempts
   it made, one GetBody result per request), that every later call is [connect_loop] from such a state -
   so that every single-call lemma stated for an arbitrary state applies to it -, and the C10 clauses over
   the requests of ALL calls: they are the requests of one call over the attempts made. *)
From Coq Require Import ZifyBool ZifyNat.
From GoSse Require Import Base Whatwg Backoff BackoffProofs Connect ConnectProofs ConnectStep ConnectTop ConnectBody ConnectClass ConnectSchedule.
From GoSse.Gen Require Import Params.

(* ---- the Connection at the end of an attempt ---------------------------------------------------- *)
(* equal but for the backoff controller (which does not outlive the call) *)
Definition conn_eq (s t : cstate) : Prop :=
  cs_last_id s = cs_last_id t /\ cs_is_retry s = cs_is_retry t /\ cs_hdr s = cs_hdr t /\
  cs_body s = cs_body t /\ cs_gb_calls s = cs_gb_calls t.

(* the trace and return value of one iteration are [attempt_step]'s; the state when the iteration
   returns differs from [s1] only in lastEventID *)
Lemma connect_loop_st_cons cfg b s st rest :
  match reset_request (cc_body cfg) s with
  | inr e => connect_loop_st cfg b s (st :: rest) = ([], Some (RConn RsReset e), s)
  | inl s1 =>
      match attempt_step cfg b s1 st with
      | OReturn items r =>
          exists s', connect_loop_st cfg b s (st :: rest) = (items, Some r, s') /\
            conn_eq s' (cs_with_id s1 (id_after_attempt (cs_last_id s1) (st_attempt st)))
      | OContinue items s2 =>
          connect_loop_st cfg b s (st :: rest) =
          let '(tr, r, s') := connect_loop_st cfg b s2 rest in (items ++ tr, r, s')
      end
  end.
Proof.
  cbn [connect_loop_st]. destruct (reset_request (cc_body cfg) s) as [s1|e]; [|reflexivity].
  unfold attempt_step, retry_step.
  destruct (st_attempt st) as [e| |e|body en].
  - destruct (bc_next b (cs_bc s1) (st_elapsed st) (st_u st)) as [c' [w|]].
    + destruct (wait_cancelled cfg w).
      * eexists. split; [reflexivity|]. repeat split.
      * destruct (connect_loop_st cfg b (cs_with_bc s1 c') rest) as [[tr r] s']. reflexivity.
    + eexists. split; [reflexivity|]. repeat split.
  - eexists. split; [reflexivity|]. repeat split.
  - eexists. split; [reflexivity|]. repeat split.
  - destruct (interp_conn_structure (cs_last_id s1) body en) as (ys & Hn & Hi).
    set (s2 := cs_with_bc s1 (bc_reset b (cs_bc s1) 0)).
    assert (Hl : cs_last_id s2 = cs_last_id s1) by reflexivity. rewrite Hl, Hi.
    destruct (read_stream_structure b ys s2 (stream_error body en) Hn)
      as (s3 & Hr & H1 & H2 & H3 & H4 & H5 & H6).
    rewrite Hr.
    assert (Hid : cs_last_id s3 = id_after_attempt (cs_last_id s1) (AStream body en)).
    { rewrite H1, Hl. unfold id_after_attempt. rewrite Hi, events_of_app.
      cbn [events_of flat_map]. rewrite app_nil_r. apply last_id_of_events. }
    assert (Heq : forall c, conn_eq (cs_with_bc s3 c) (cs_with_id s1 (id_after_attempt (cs_last_id s1) (AStream body en)))).
    { intros c. unfold conn_eq. cbn [cs_with_bc cs_with_id cs_last_id cs_is_retry cs_hdr cs_body cs_gb_calls].
      rewrite Hid, H3, H4, H5, H6. repeat split. }
    assert (Heq3 : conn_eq s3 (cs_with_id s1 (id_after_attempt (cs_last_id s1) (AStream body en)))).
    { unfold conn_eq. cbn [cs_with_id cs_last_id cs_is_retry cs_hdr cs_body cs_gb_calls].
      rewrite Hid, H3, H4, H5, H6. repeat split. }
    destruct (is_ctx (stream_error body en)).
    + eexists. split; [reflexivity|]. exact Heq3.
    + destruct (bc_next b (cs_bc s3) (st_elapsed st) (st_u st)) as [c' [w|]].
      * destruct (wait_cancelled cfg w).
        -- eexists. split; [reflexivity|]. apply Heq.
        -- destruct (connect_loop_st cfg b (cs_with_bc s3 c') rest) as [[tr r] s']. reflexivity.
      * eexists. split; [reflexivity|]. exact Heq3.
Qed.

Lemma connect_loop_st_nil cfg b s :
  connect_loop_st cfg b s [] =
  match reset_request (cc_body cfg) s with
  | inr e => ([], Some (RConn RsReset e), s)
  | inl s1 => ([], None, s1)
  end.
Proof. cbn [connect_loop_st]. destruct (reset_request (cc_body cfg) s); reflexivity. Qed.

Lemma reset_request_fails_retry k s e : reset_request k s = inr e -> cs_is_retry s = true.
Proof. unfold reset_request. destruct (cs_is_retry s); [reflexivity|]. cbn. discriminate. Qed.

Lemma reset_request_sets_retry k s s1 : reset_request k s = inl s1 -> cs_is_retry s1 = true.
Proof.
  unfold reset_request. destruct (cs_is_retry s) eqn:Hr; cbn [negb].
  - intros H. destruct (reset_request_retry k s s1 Hr) as (_ & _ & H1 & _).
    + unfold reset_request. now rewrite Hr.
    + exact H1.
  - intros H. injection H as <-. reflexivity.
Qed.

Lemma id_after_app lid a c : id_after lid (a ++ c) = id_after (id_after lid a) c.
Proof. unfold id_after. apply fold_left_app. Qed.

(* ---- what a call leaves behind ------------------------------------------------------------------- *)
(* for a Connection that has made a request before (isRetry set): isRetry stays set; lastEventID is the ID
   after the attempts made (one per request); when the call returned, GetBody was called once per
   request, and a request without a body still has none *)
Lemma loop_st_end cfg b script : forall s tr r s',
  cs_is_retry s = true ->
  connect_loop_st cfg b s script = (tr, r, s') ->
  (length (requests tr) <= length script)%nat /\
  cs_is_retry s' = true /\
  cs_last_id s' = id_after (cs_last_id s) (firstn (length (requests tr)) script) /\
  (r <> None ->
   match cc_body cfg with
   | BBody _ => cs_gb_calls s' = (cs_gb_calls s + length (requests tr))%nat
   | _ => cs_body s' = cs_body s /\ cs_gb_calls s' = cs_gb_calls s
   end).
Proof.
  induction script as [|st rest IH]; intros s tr r s' Hs Hrun.
  - rewrite connect_loop_st_nil in Hrun.
    destruct (reset_request (cc_body cfg) s) as [s1|e] eqn:Er.
    + injection Hrun as <- <- <-. cbn [requests flat_map length firstn].
      destruct (reset_request_retry _ _ _ Hs Er) as (Hl & _ & Hr1 & _).
      split; [lia|]. split; [assumption|]. split; [exact Hl|]. intros H; now contradiction H.
    + injection Hrun as <- <- <-. cbn [requests flat_map length firstn].
      split; [lia|]. split; [assumption|]. split; [reflexivity|]. intros _.
      destruct (cc_body cfg) as [| |g]; [split; reflexivity|split; reflexivity|lia].
  - pose proof (connect_loop_st_cons cfg b s st rest) as Hc.
    destruct (reset_request (cc_body cfg) s) as [s1|e] eqn:Er.
    2:{ rewrite Hc in Hrun. injection Hrun as <- <- <-. cbn [requests flat_map length firstn].
        split; [lia|]. split; [assumption|]. split; [reflexivity|]. intros _.
        destruct (cc_body cfg) as [| |g]; [split; reflexivity|split; reflexivity|lia]. }
    destruct (reset_request_retry _ _ _ Hs Er) as (Hl & _ & Hr1 & _ & Hb).
    destruct (attempt_step_cases cfg b s1 st) as [(items & r0 & H & _ & Hq)|(items & s2 & H & Hq & Hl' & Hr' & _ & Hb' & Hg')];
      rewrite H in Hc.
    + destruct Hc as (s'' & Hc & (E1 & E2 & _ & E4 & E5)). rewrite Hc in Hrun. injection Hrun as <- <- <-.
      rewrite Hq. cbn [length firstn]. cbn [cs_with_id cs_last_id cs_is_retry cs_body cs_gb_calls] in E1, E2, E4, E5.
      split; [lia|]. split; [congruence|]. split.
      * rewrite E1, Hl. reflexivity.
      * intros _. rewrite E4, E5. destruct (cc_body cfg) as [| |g].
        -- destruct Hb as [Hb1 Hb2]. split; assumption.
        -- destruct Hb as [Hb1 Hb2]. split; assumption.
        -- destruct Hb as [_ Hb2]. lia.
    + rewrite Hc in Hrun.
      destruct (connect_loop_st cfg b s2 rest) as [[tr' r'] s''] eqn:El. injection Hrun as <- <- <-.
      destruct (IH s2 tr' r' s'' ltac:(congruence) El) as (I0 & I1 & I2 & I3).
      rewrite requests_app, app_length, Hq. cbn [length firstn Nat.add].
      split; [lia|]. split; [assumption|]. split.
      * rewrite I2, Hl', Hl. reflexivity.
      * intros Hn. specialize (I3 Hn). rewrite Hb', Hg' in I3. destruct (cc_body cfg) as [| |g].
        -- destruct Hb as [Hb1 Hb2]. destruct I3 as [I3 I4]. split; congruence.
        -- destruct Hb as [Hb1 Hb2]. destruct I3 as [I3 I4]. split; congruence.
        -- destruct Hb as [_ Hb2]. lia.
Qed.

(* the first call on a fresh Connection: the first request is not preceded by a reset *)
Lemma first_call_end cfg b script tr r s' :
  connect_loop_st cfg b (connect_init cfg b) script = (tr, r, s') ->
  (length (requests tr) <= length script)%nat /\
  cs_is_retry s' = true /\
  cs_last_id s' = id_after [] (firstn (length (requests tr)) script) /\
  (r <> None ->
   (0 < length (requests tr))%nat /\
   match cc_body cfg with
   | BBody _ => S (cs_gb_calls s') = length (requests tr)
   | _ => cs_body s' = None /\ cs_gb_calls s' = O
   end).
Proof.
  set (s0 := connect_init cfg b). intros Hrun.
  assert (Er : reset_request (cc_body cfg) s0 =
               inl (mkcs (cs_last_id s0) true (cs_hdr s0) (cs_body s0) (cs_gb_calls s0) (cs_bc s0))) by reflexivity.
  set (s1 := mkcs (cs_last_id s0) true (cs_hdr s0) (cs_body s0) (cs_gb_calls s0) (cs_bc s0)) in *.
  destruct script as [|st rest].
  - rewrite connect_loop_st_nil, Er in Hrun. injection Hrun as <- <- <-.
    cbn [requests flat_map length firstn]. split; [lia|]. split; [reflexivity|]. split; [reflexivity|].
    intros H; now contradiction H.
  - pose proof (connect_loop_st_cons cfg b s0 st rest) as Hc. rewrite Er in Hc.
    assert (Hb1 : cs_body s1 = match cc_body cfg with BBody _ => Some O | _ => None end) by reflexivity.
    destruct (attempt_step_cases cfg b s1 st) as [(items & r0 & H & _ & Hq)|(items & s2 & H & Hq & Hl' & Hr' & _ & Hb' & Hg')];
      rewrite H in Hc.
    + destruct Hc as (s'' & Hc & (E1 & E2 & _ & E4 & E5)). rewrite Hc in Hrun. injection Hrun as <- <- <-.
      rewrite Hq. cbn [length firstn]. cbn [cs_with_id cs_last_id cs_is_retry cs_body cs_gb_calls] in E1, E2, E4, E5.
      split; [lia|]. split; [rewrite E2; reflexivity|]. split; [rewrite E1; reflexivity|].
      intros _. split; [lia|]. rewrite E4, E5, Hb1. destruct (cc_body cfg) as [| |g]; [split; reflexivity|split; reflexivity|reflexivity].
    + rewrite Hc in Hrun.
      destruct (connect_loop_st cfg b s2 rest) as [[tr' r'] s''] eqn:El. injection Hrun as <- <- <-.
      assert (Hs2 : cs_is_retry s2 = true) by (rewrite Hr'; reflexivity).
      destruct (loop_st_end cfg b rest s2 tr' r' s'' Hs2 El) as (I0 & I1 & I2 & I3).
      rewrite requests_app, app_length, Hq. cbn [length firstn Nat.add].
      split; [lia|]. split; [assumption|]. split.
      * rewrite I2, Hl'. reflexivity.
      * intros Hn. specialize (I3 Hn). split; [lia|]. rewrite Hb', Hg', Hb1 in I3.
        destruct (cc_body cfg) as [| |g]; [exact I3|exact I3|]. cbn [s1 s0 connect_init cs_gb_calls] in I3. lia.
Qed.

(* ---- every later call is [connect_loop] from a state with isRetry set --------------------------- *)
Lemma calls_on_some r : calls_on r = true -> r <> None.
Proof. destruct r; [discriminate|]. discriminate. Qed.

Lemma calls_nth cfg b scripts : forall s k tr r,
  cs_is_retry s = true ->
  nth_error (connect_calls cfg b s scripts) k = Some (tr, r) ->
  exists sk sc, nth_error scripts k = Some sc /\ cs_is_retry sk = true /\
                connect_loop cfg b (call_state b sk) sc = (tr, r).
Proof.
  induction scripts as [|sc rest IH]; intros s k tr r Hs Hn; [destruct k; discriminate|].
  cbn [connect_calls] in Hn.
  destruct (connect_loop_st cfg b (call_state b s) sc) as [[tr0 r0] s'] eqn:El.
  destruct k as [|k].
  - cbn [nth_error] in Hn. injection Hn as <- <-. exists s, sc. split; [reflexivity|]. split; [assumption|].
    unfold connect_loop. now rewrite El.
  - cbn [nth_error] in Hn. destruct (calls_on r0); [|destruct k; discriminate].
    destruct (loop_st_end cfg b sc (call_state b s) tr0 r0 s' Hs El) as (_ & Hs' & _).
    exact (IH s' k tr r Hs' Hn).
Qed.

(* ---- C10 over all calls ------------------------------------------------------------------------- *)
Definition all_requests (outs : list (list titem * option cret)) : list (option bytes * option nat) :=
  flat_map (fun o => requests (fst o)) outs.

(* the attempts made: of every call's script, one step per request *)
Fixpoint attempts_made (scripts : list (list step)) (outs : list (list titem * option cret)) : list step :=
  match scripts, outs with
  | sc :: scripts', o :: outs' => firstn (length (requests (fst o))) sc ++ attempts_made scripts' outs'
  | _, _ => []
  end.

Lemma spec_headers_app a : forall lid c,
  spec_headers lid (a ++ c) = spec_headers lid a ++ spec_headers (id_after lid a) c.
Proof.
  induction a as [|st a IH]; intros lid c; [reflexivity|].
  cbn [app spec_headers]. rewrite IH. reflexivity.
Qed.

Lemma spec_headers_firstn script : forall lid n,
  firstn n (spec_headers lid script) = spec_headers lid (firstn n script).
Proof.
  induction script as [|st rest IH]; intros lid n; [now rewrite !firstn_nil|].
  destruct n as [|n]; [reflexivity|]. cbn [spec_headers firstn]. now rewrite IH.
Qed.

Lemma firstn_min {A} (l : list A) n : firstn n l = firstn (Nat.min n (length l)) l.
Proof.
  destruct (Nat.le_ge_cases n (length l)) as [H|H].
  - now rewrite Nat.min_l.
  - rewrite Nat.min_r by assumption. rewrite firstn_all. now apply firstn_all2.
Qed.

(* one call of a Connection with isRetry set: ALL its requests - the first included - carry the
   specified header *)
Lemma loop_headers_exact cfg b script s tr r :
  cs_is_retry s = true -> connect_loop cfg b s script = (tr, r) ->
  map fst (requests tr) = spec_headers (cs_last_id s) (firstn (length (requests tr)) script).
Proof.
  intros Hs Hrun. destruct (loop_headers cfg b script s tr r Hs Hrun) as (n & Hn).
  assert (Hlen : length (requests tr) = Nat.min n (length script)).
  { rewrite <- (map_length fst), Hn, firstn_length, spec_headers_length. reflexivity. }
  rewrite Hn, spec_headers_firstn, Hlen. f_equal. apply firstn_min.
Qed.

Lemma calls_headers cfg b scripts : forall s,
  cs_is_retry s = true ->
  let outs := connect_calls cfg b s scripts in
  map fst (all_requests outs) = spec_headers (cs_last_id s) (attempts_made scripts outs).
Proof.
  induction scripts as [|sc rest IH]; intros s Hs; cbv zeta; [reflexivity|].
  cbn [connect_calls].
  destruct (connect_loop_st cfg b (call_state b s) sc) as [[tr r] s'] eqn:El.
  assert (Hl : connect_loop cfg b (call_state b s) sc = (tr, r)) by (unfold connect_loop; now rewrite El).
  pose proof (loop_headers_exact cfg b sc (call_state b s) tr r Hs Hl) as Hh.
  destruct (loop_st_end cfg b sc (call_state b s) tr r s' Hs El) as (_ & Hs' & Hid & _).
  change (cs_last_id (call_state b s)) with (cs_last_id s) in Hh, Hid.
  destruct (calls_on r).
  - cbn [all_requests flat_map attempts_made fst]. fold (all_requests (connect_calls cfg b s' rest)).
    rewrite map_app, spec_headers_app, Hh, (IH s' Hs'), Hid. reflexivity.
  - cbn [all_requests flat_map attempts_made fst]. rewrite !app_nil_r. destruct rest; cbn [attempts_made]; now rewrite ?app_nil_r.
Qed.

Lemma spec_headers_run_app cfg st a c :
  spec_headers_run cfg ((st :: a) ++ c) = spec_headers_run cfg (st :: a) ++ spec_headers (id_after [] (st :: a)) c.
Proof. cbn [app spec_headers_run]. rewrite spec_headers_app. reflexivity. Qed.

(* all calls on one Connection, the first one on the fresh Connection *)
Theorem runs_headers cfg scripts :
  cc_cancel_before cfg = false ->
  let outs := connect_runs cfg scripts in
  map fst (all_requests outs) = spec_headers_run cfg (attempts_made scripts outs).
Proof.
  intros Hc. cbv zeta. unfold connect_runs. rewrite Hc.
  set (b := merge_defaults (cc_backoff cfg)).
  destruct scripts as [|sc rest]; [reflexivity|].
  cbn [connect_calls].
  assert (Hcs : call_state b (connect_init cfg b) = connect_init cfg b) by reflexivity. rewrite Hcs.
  destruct (connect_loop_st cfg b (connect_init cfg b) sc) as [[tr r] s'] eqn:El.
  destruct (first_call_end cfg b sc tr r s' El) as (Hle & Hs' & Hid & Hret).
  assert (Hrun : connect_run cfg sc = (tr, r)).
  { unfold connect_run. rewrite Hc. fold b. unfold connect_loop. now rewrite El. }
  destruct (run_headers cfg sc tr r Hrun) as (n & Hn).
  destruct (calls_on r) eqn:Eon.
  - destruct (Hret (calls_on_some r Eon)) as [Hpos _].
    cbn [all_requests flat_map attempts_made fst]. fold (all_requests (connect_calls cfg b s' rest)).
    rewrite map_app, (calls_headers cfg b rest s' Hs'), Hid.
    destruct sc as [|st sc']; [cbn in Hle; lia|].
    destruct (length (requests tr)) as [|k] eqn:Ek; [lia|]. cbn [firstn].
    rewrite spec_headers_run_app. f_equal.
    (* the first call's own headers *)
    assert (Hlen : S k = Nat.min n (length (spec_headers_run cfg (st :: sc')))).
    { rewrite <- Ek, <- (map_length fst), Hn, firstn_length. reflexivity. }
    rewrite Hn. destruct n as [|n]; [cbn in Hlen; lia|].
    cbn [spec_headers_run firstn]. f_equal. rewrite spec_headers_firstn. f_equal.
    cbn [spec_headers_run length] in Hlen. rewrite spec_headers_length in Hlen.
    rewrite (firstn_min sc' n). f_equal. lia.
  - cbn [all_requests flat_map attempts_made fst]. rewrite app_nil_r.
    assert (Ham : attempts_made rest [] = []) by (destruct rest; reflexivity). rewrite Ham, app_nil_r.
    assert (Hlen : length (requests tr) = Nat.min n (length (spec_headers_run cfg sc))).
    { rewrite <- (map_length fst), Hn, firstn_length. reflexivity. }
    rewrite Hn. destruct sc as [|st sc']; [cbn [spec_headers_run]; now rewrite !firstn_nil|].
    destruct n as [|n]; [cbn in Hlen; rewrite Hlen; reflexivity|].
    cbn [spec_headers_run length] in Hlen. rewrite spec_headers_length in Hlen.
    rewrite Hlen. change (Nat.min (S n) (S (length sc'))) with (S (Nat.min n (length sc'))).
    cbn [firstn spec_headers_run]. f_equal. rewrite spec_headers_firstn. f_equal. apply firstn_min.
Qed.

(* the nth form: request number k+1, counted over all calls - so also the FIRST request of a later
   call - carries header_of (the ID after the k+1 attempts made before it) *)
Theorem runs_header_nth cfg scripts k h bd :
  cc_cancel_before cfg = false ->
  let outs := connect_runs cfg scripts in
  nth_error (all_requests outs) (S k) = Some (h, bd) ->
  h = header_of (id_after [] (firstn (S k) (attempts_made scripts outs))).
Proof.
  intros Hc. cbv zeta. intros Hnth. pose proof (runs_headers cfg scripts Hc) as Hh. cbv zeta in Hh.
  set (outs := connect_runs cfg scripts) in *. set (am := attempts_made scripts outs) in *.
  assert (Hm : nth_error (map fst (all_requests outs)) (S k) = Some h) by (rewrite nth_error_map, Hnth; reflexivity).
  rewrite Hh in Hm. destruct am as [|st rest]; [discriminate|].
  cbn [spec_headers_run nth_error] in Hm.
  assert (Hk : (k < length rest)%nat).
  { destruct (Nat.lt_ge_cases k (length rest)) as [|Hge]; [assumption|].
    rewrite (proj2 (nth_error_None _ _)) in Hm; [discriminate|]. rewrite spec_headers_length. lia. }
  rewrite spec_headers_nth in Hm by assumption. injection Hm as <-.
  cbn [firstn]. unfold id_after. cbn [fold_left]. reflexivity.
Qed.

(* ---- bodies over all calls ------------------------------------------------------------------------ *)
Definition reset_results (outs : list (list titem * option cret)) : list cerr :=
  flat_map (fun o => match snd o with Some (RConn RsReset e) => [e] | _ => [] end) outs.

Lemma calls_bodies cfg b scripts : forall s,
  cs_is_retry s = true ->
  let outs := connect_calls cfg b s scripts in
  match cc_body cfg with
  | BNone | BNoBody =>
      map snd (all_requests outs) = repeat (cs_body s) (length (all_requests outs)) /\ reset_results outs = []
  | BBody g =>
      map snd (all_requests outs) = map Some (seq (S (cs_gb_calls s)) (length (all_requests outs))) /\
      match g with
      | GBOk => reset_results outs = []
      | GBNone => all_requests outs = [] /\ forall e, In e (reset_results outs) -> e = CNoGetBody
      | GBFails after e0 =>
          (cs_gb_calls s <= after)%nat ->
          (length (all_requests outs) + cs_gb_calls s <= after)%nat /\
          forall e, In e (reset_results outs) -> e = CE (EReader e0)
      end
  end.
Proof.
  induction scripts as [|sc rest IH]; intros s Hs; cbv zeta.
  - cbn [connect_calls all_requests reset_results flat_map length repeat seq map].
    destruct (cc_body cfg) as [| |[| |after e0]]; repeat split; try reflexivity; try (intros e []); try lia.
  - cbn [connect_calls].
    destruct (connect_loop_st cfg b (call_state b s) sc) as [[tr r] s'] eqn:El.
    assert (Hl : connect_loop cfg b (call_state b s) sc = (tr, r)) by (unfold connect_loop; now rewrite El).
    pose proof (loop_bodies cfg b sc (call_state b s) tr r Hs Hl) as HB.
    destruct (loop_st_end cfg b sc (call_state b s) tr r s' Hs El) as (_ & Hs' & _ & Hend).
    change (cs_body (call_state b s)) with (cs_body s) in *.
    change (cs_gb_calls (call_state b s)) with (cs_gb_calls s) in *.
    assert (Hres : forall tl, reset_results ((tr, r) :: tl) =
                   match r with Some (RConn RsReset e) => [e] | _ => [] end ++ reset_results tl) by reflexivity.
    assert (Hnr : no_reset r -> match r with Some (RConn RsReset e) => [e] | _ => [] end = []).
    { intros H. destruct r as [[| |[| | |] e]|]; try reflexivity. exfalso. now apply (H e). }
    destruct (calls_on r) eqn:Eon.
    + specialize (Hend (calls_on_some r Eon)). specialize (IH s' Hs'). cbv zeta in IH.
      set (outs' := connect_calls cfg b s' rest) in *.
      assert (Hall : all_requests ((tr, r) :: outs') = requests tr ++ all_requests outs') by reflexivity.
      rewrite Hall, Hres, map_app, app_length.
      destruct (cc_body cfg) as [| |[| |after e0]].
      * destruct HB as [HB1 HB2]. destruct IH as [IH1 IH2]. destruct Hend as [Hb _].
        rewrite HB1, IH1, Hb, IH2, (Hnr HB2), repeat_app. split; reflexivity.
      * destruct HB as [HB1 HB2]. destruct IH as [IH1 IH2]. destruct Hend as [Hb _].
        rewrite HB1, IH1, Hb, IH2, (Hnr HB2), repeat_app. split; reflexivity.
      * destruct HB as [HB1 [HB2 HB3]]. destruct IH as [IH1 [IH2 IH3]].
        rewrite HB2, IH2. split; [reflexivity|]. split; [reflexivity|].
        intros e He. apply in_app_or in He as [He|He]; [|now apply IH3].
        rewrite HB3 in He. destruct He as [<-|[]]. reflexivity.
      * destruct HB as [HB1 HB2]. destruct IH as [IH1 IH2].
        rewrite HB1, IH1, Hend, IH2, (Hnr HB2), seq_app, map_app.
        split; [first [reflexivity|do 3 f_equal; lia]|reflexivity].
      * destruct HB as [HB1 HB2]. destruct IH as [IH1 IH2].
        rewrite HB1, IH1, Hend, seq_app, map_app.
        split; [first [reflexivity|do 3 f_equal; lia]|]. intros Hle.
        destruct (HB2 Hle) as [HBa HBb]. rewrite Hend in IH2. destruct (IH2 ltac:(lia)) as [IHa IHb].
        split; [lia|]. intros e He. apply in_app_or in He as [He|He]; [|now apply IHb].
        destruct r as [[| |[| | |] e1]|]; cbn [In] in He; try contradiction. destruct He as [<-|[]].
        now destruct (HBb e1 eq_refl).
    + assert (Hall : all_requests [(tr, r)] = requests tr) by (cbn; now rewrite app_nil_r).
      assert (Hres1 : reset_results [(tr, r)] = match r with Some (RConn RsReset e) => [e] | _ => [] end)
        by (cbn; now rewrite app_nil_r).
      rewrite Hall, Hres1.
      destruct (cc_body cfg) as [| |[| |after e0]].
      * destruct HB as [HB1 HB2]. split; [exact HB1|now apply Hnr].
      * destruct HB as [HB1 HB2]. split; [exact HB1|now apply Hnr].
      * destruct HB as [HB1 [HB2 HB3]]. split; [exact HB1|]. split; [exact HB2|].
        intros e He. rewrite HB3 in He. destruct He as [<-|[]]. reflexivity.
      * destruct HB as [HB1 HB2]. split; [exact HB1|now apply Hnr].
      * destruct HB as [HB1 HB2]. split; [exact HB1|]. intros Hle. destruct (HB2 Hle) as [HBa HBb].
        split; [exact HBa|]. intros e He.
        destruct r as [[| |[| | |] e1]|]; cbn [In] in He; try contradiction. destruct He as [<-|[]].
        now destruct (HBb e1 eq_refl).
Qed.

(* all calls on one Connection: request number j (from 0, counted over ALL calls) carries the j-th
   GetBody result - a consumed body is never sent again, not by the first request of a later call
   either; requests without a body never get one; with a body but no GetBody there is one request
   in all and every body-reset error is ErrNoGetBody; a GetBody that fails after [after] calls allows
   [after]+1 requests in all and every body-reset error is its own *)
Theorem runs_bodies cfg scripts :
  let outs := connect_runs cfg scripts in
  match cc_body cfg with
  | BNone | BNoBody =>
      map snd (all_requests outs) = repeat None (length (all_requests outs)) /\ reset_results outs = []
  | BBody g =>
      map snd (all_requests outs) = map Some (seq 0 (length (all_requests outs))) /\
      match g with
      | GBOk => reset_results outs = []
      | GBNone => (length (all_requests outs) <= 1)%nat /\ forall e, In e (reset_results outs) -> e = CNoGetBody
      | GBFails after e0 =>
          (length (all_requests outs) <= S after)%nat /\ forall e, In e (reset_results outs) -> e = CE (EReader e0)
      end
  end.
Proof.
  cbv zeta. unfold connect_runs. destruct (cc_cancel_before cfg) eqn:Hc.
  { destruct scripts; cbn; destruct (cc_body cfg) as [| |[| |after e0]]; cbn; repeat split; try lia; intros e []. }
  set (b := merge_defaults (cc_backoff cfg)).
  destruct scripts as [|sc rest].
  { cbn; destruct (cc_body cfg) as [| |[| |after e0]]; cbn; repeat split; try lia; intros e []. }
  cbn [connect_calls].
  assert (Hcs : call_state b (connect_init cfg b) = connect_init cfg b) by reflexivity. rewrite Hcs.
  destruct (connect_loop_st cfg b (connect_init cfg b) sc) as [[tr r] s'] eqn:El.
  destruct (first_call_end cfg b sc tr r s' El) as (_ & Hs' & _ & Hret).
  assert (Hrun : connect_run cfg sc = (tr, r)).
  { unfold connect_run. rewrite Hc. fold b. unfold connect_loop. now rewrite El. }
  pose proof (run_bodies cfg sc tr r Hrun) as HB.
  assert (Hnr : (forall e, r <> Some (RConn RsReset e)) -> match r with Some (RConn RsReset e) => [e] | _ => [] end = []).
  { intros H. destruct r as [[| |[| | |] e]|]; try reflexivity. exfalso. now apply (H e). }
  destruct (calls_on r) eqn:Eon.
  - destruct (Hret (calls_on_some r Eon)) as [Hpos Hend].
    pose proof (calls_bodies cfg b rest s' Hs') as HL. cbv zeta in HL.
    set (outs' := connect_calls cfg b s' rest) in *.
    assert (Hall : all_requests ((tr, r) :: outs') = requests tr ++ all_requests outs') by reflexivity.
    assert (Hres : reset_results ((tr, r) :: outs') =
                   match r with Some (RConn RsReset e) => [e] | _ => [] end ++ reset_results outs') by reflexivity.
    rewrite Hall, Hres, map_app, app_length.
    destruct (cc_body cfg) as [| |[| |after e0]].
    + destruct HB as [HB1 HB2]. destruct HL as [HL1 HL2]. destruct Hend as [Hb _].
      rewrite HB1, HL1, Hb, HL2, (Hnr HB2), repeat_app. split; reflexivity.
    + destruct HB as [HB1 HB2]. destruct HL as [HL1 HL2]. destruct Hend as [Hb _].
      rewrite HB1, HL1, Hb, HL2, (Hnr HB2), repeat_app. split; reflexivity.
    + destruct HB as [HB1 [HB2 [HB3 _]]]. destruct HL as [HL1 [HL2 HL3]].
      rewrite HL2. cbn [length map]. rewrite !app_nil_r, Nat.add_0_r. split; [exact HB1|]. split; [exact HB2|].
      intros e He. apply in_app_or in He as [He|He]; [|now apply HL3].
      destruct r as [[| |[| | |] e1]|]; cbn [In] in He; try contradiction. destruct He as [<-|[]].
      now destruct (HB3 e1 eq_refl).
    + destruct HB as [HB1 HB2]. destruct HL as [HL1 HL2].
      rewrite HB1, HL1, Hend, HL2, (Hnr HB2), seq_app, map_app. split; reflexivity.
    + destruct HB as [HB1 [HB2 HB3]]. destruct HL as [HL1 HL2].
      rewrite HB1, HL1, Hend, seq_app, map_app. split; [reflexivity|].
      destruct (HL2 ltac:(lia)) as [HLa HLb]. split; [lia|].
      intros e He. apply in_app_or in He as [He|He]; [|now apply HLb].
      destruct r as [[| |[| | |] e1]|]; cbn [In] in He; try contradiction. destruct He as [<-|[]].
      now destruct (HB3 e1 eq_refl).
  - assert (Hall : all_requests [(tr, r)] = requests tr) by (cbn; now rewrite app_nil_r).
    assert (Hres1 : reset_results [(tr, r)] = match r with Some (RConn RsReset e) => [e] | _ => [] end)
      by (cbn; now rewrite app_nil_r).
    rewrite Hall, Hres1.
    destruct (cc_body cfg) as [| |[| |after e0]].
    + destruct HB as [HB1 HB2]. split; [exact HB1|now apply Hnr].
    + destruct HB as [HB1 HB2]. split; [exact HB1|now apply Hnr].
    + destruct HB as [HB1 [HB2 [HB3 _]]]. split; [exact HB1|]. split; [exact HB2|].
      intros e He. destruct r as [[| |[| | |] e1]|]; cbn [In] in He; try contradiction. destruct He as [<-|[]].
      now destruct (HB3 e1 eq_refl).
    + destruct HB as [HB1 HB2]. split; [exact HB1|now apply Hnr].
    + destruct HB as [HB1 [HB2 HB3]]. split; [exact HB1|]. split; [exact HB2|].
      intros e He. destruct r as [[| |[| | |] e1]|]; cbn [In] in He; try contradiction. destruct He as [<-|[]].
      now destruct (HB3 e1 eq_refl).
Qed.

(* a later call on a Connection whose body has no GetBody: no request at all, ErrNoGetBody at once *)
Theorem again_no_getbody cfg b s script :
  cc_body cfg = BBody GBNone -> cs_is_retry s = true ->
  connect_loop cfg b (call_state b s) script = ([], Some (RConn RsReset CNoGetBody)).
Proof.
  intros Hb Hs. destruct (connect_loop cfg b (call_state b s) script) as [tr r] eqn:El.
  pose proof (loop_bodies cfg b script (call_state b s) tr r Hs El) as H. rewrite Hb in H.
  destruct H as [_ [H1 H2]]. destruct tr as [|i tr]; [now rewrite H2|].
  (* no request means no item: every item of an iteration follows its request *)
  exfalso. revert El H1. clear. revert s i tr r.
  destruct script as [|st rest]; intros s i tr r El H1.
  - rewrite connect_loop_nil in El. destruct (reset_request _ _); discriminate.
  - rewrite connect_loop_cons in El. destruct (reset_request _ _) as [s1|e]; [|discriminate].
    destruct (attempt_step_cases cfg b s1 st) as [(items & r0 & H & _ & Hq)|(items & s' & H & Hq & _)]; rewrite H in El.
    + injection El as El _. rewrite <- El in H1. rewrite Hq in H1. discriminate.
    + destruct (connect_loop cfg b s' rest) as [tr' r']. injection El as El _. rewrite <- El in H1.
      rewrite requests_app, Hq in H1. discriminate.
Qed.

(* never nil, whichever call *)
Theorem runs_never_nil cfg scripts : forall o, In o (connect_runs cfg scripts) -> snd o <> Some RNil.
Proof.
  unfold connect_runs. destruct (cc_cancel_before cfg).
  { destruct scripts; intros o []; [subst o; cbn; discriminate|contradiction]. }
  set (b := merge_defaults (cc_backoff cfg)). generalize (connect_init cfg b).
  induction scripts as [|sc rest IH]; intros s o Hin; [destruct Hin|].
  cbn [connect_calls] in Hin.
  destruct (connect_loop_st cfg b (call_state b s) sc) as [[tr r] s'] eqn:El.
  destruct Hin as [<-|Hin].
  - cbn [snd]. pose proof (loop_never_nil cfg b sc (call_state b s)) as H. unfold connect_loop in H. now rewrite El in H.
  - destruct (calls_on r); [exact (IH s' o Hin)|destruct Hin].
Qed.

(* ---- every call of a run, as a single call -------------------------------------------------------- *)
(* one script: the run IS the single-call model *)
Theorem runs_single cfg script : connect_runs cfg [script] = [connect_run cfg script].
Proof.
  unfold connect_runs, connect_run. destruct (cc_cancel_before cfg); [reflexivity|].
  set (b := merge_defaults (cc_backoff cfg)). cbn [connect_calls].
  assert (Hcs : call_state b (connect_init cfg b) = connect_init cfg b) by reflexivity. rewrite Hcs.
  unfold connect_loop. destruct (connect_loop_st cfg b (connect_init cfg b) script) as [[tr r] s'].
  cbn [fst]. destruct (calls_on r); reflexivity.
Qed.

(* every call after the first is one Connect call on a Connection with isRetry set and a controller of its own *)
Theorem runs_nth cfg scripts k tr r :
  nth_error (connect_runs cfg scripts) (S k) = Some (tr, r) ->
  exists sk sc, nth_error scripts (S k) = Some sc /\ cs_is_retry sk = true /\
                connect_loop cfg (merge_defaults (cc_backoff cfg)) (call_state (merge_defaults (cc_backoff cfg)) sk) sc = (tr, r).
Proof.
  unfold connect_runs. destruct (cc_cancel_before cfg).
  { destruct scripts; [discriminate|]. destruct k; discriminate. }
  set (b := merge_defaults (cc_backoff cfg)).
  destruct scripts as [|sc rest]; [discriminate|].
  cbn [connect_calls].
  destruct (connect_loop_st cfg b (call_state b (connect_init cfg b)) sc) as [[tr0 r0] s'] eqn:El.
  cbn [nth_error]. destruct (calls_on r0); [|destruct k; discriminate].
  assert (Hcs : call_state b (connect_init cfg b) = connect_init cfg b) by reflexivity. rewrite Hcs in El.
  destruct (first_call_end cfg b sc tr0 r0 s' El) as (_ & Hs' & _).
  intros Hn. exact (calls_nth cfg b rest s' k tr r Hs' Hn).
Qed.

(* ... so what is proved of one call from an arbitrary Connection state holds of it: why it returns (C11) ... *)
Theorem again_classification cfg b s script tr r :
  connect_loop cfg b (call_state b s) script = (tr, Some r) ->
  let n := length (requests tr) in
  (forall k a, (S k < n)%nat -> nth_error (map st_attempt script) k = Some a -> attempt_error a <> None) /\
  ((exists e, r = RConn RsReset e) \/ decided_by_last cfg b (bc_new b) (cs_last_id s) script n r).
Proof. exact (loop_classification cfg b script (call_state b s) tr r). Qed.

Theorem again_never_nil cfg b s script : snd (connect_loop cfg b (call_state b s) script) <> Some RNil.
Proof. apply loop_never_nil. Qed.

(* ... and its schedule (C12): the controller starts anew - InitialInterval, no retry counted - and sees
   the history of this call's attempts only *)
Theorem again_schedule cfg b s script tr r :
  connect_loop cfg b (call_state b s) script = (tr, r) ->
  let n := length (requests tr) in
  let answers := snd (bc_run b (script_hops (cs_last_id s) (firstn n script))) in
  (if cc_on_retry cfg
   then map snd (on_retries tr) = granted answers /\
        map fst (on_retries tr) = firstn (length (on_retries tr)) (retry_errors (firstn n script))
   else on_retries tr = []) /\
  refusal_is_final answers.
Proof. exact (loop_schedule cfg b script (call_state b s) tr r). Qed.
