(* val-level entry points of family "encode" (C02): sequences of messages built through the
   API, their wire forms, and what decoders make of the concatenation.
   input : (op ...)   operations on a growing family of messages (member 0 exists at the start);
           op = (n0 n<t> n<isComment> (x<str> ...)) | (n1 n<t> x<id>) | (n2 n<t> x<type>) | (n3 n<t> z<retry ns>)
              | (n6 n<t> x<id>) | (n7 n<t> x<type>)  as n1/n2 through UnmarshalText from a buffer that is overwritten afterwards
              | (n8 n<t> x<line>)  m_t.UnmarshalText("data: <line>\n\n") (line without CR/LF)
              | (n9 n<t> x<doc> decodedopt) | (n10 n<t> x<doc> decodedopt)  the ID / type is set through UnmarshalJSON(doc)
              | (n4 n<t>)  append m_t.Clone() to the family | (n5 n0)  append a new empty Message
   output: ((x<wire> ...) (event ...) err)  with the events and the final error reported by
           sse.Read over the concatenation; event = (x<id> x<type> x<data>) *)
From GoSse Require Import Base Lines Fields Queue FieldParser Message MessageApi Whatwg WhatwgLines TextLines Run.
Local Open Scope N_scope.

Definition dec_api_op (op : val) : api_op :=
  match as_n (nth_val 0 op) with
  | 0 => OpAppend (as_bool (nth_val 2 op)) (map as_b (as_l (nth_val 3 op)))
  | 1 | 6 => OpSetID (as_b (nth_val 2 op))      (* 6/7: the value arrives through EventID/EventType.UnmarshalText *)
  | 2 | 7 => OpSetType (as_b (nth_val 2 op))
  | 9 => (* EventID.UnmarshalJSON(doc); [decoded] is what encoding/json makes of doc as a string *)
         match unmarshal_json (as_b (nth_val 2 op)) (as_opt as_b (nth_val 3 op)) with
         | (Some v, false) => OpSetID v
         | (None, false) => OpClearID
         | _ => OpAppend false []
         end
  | 10 => match unmarshal_json (as_b (nth_val 2 op)) (as_opt as_b (nth_val 3 op)) with
          | (Some v, false) => OpSetType v
          | (None, false) => OpClearType
          | _ => OpAppend false []
          end
  | 12 => (* EventID.Scan(string): the destination is reset first; a single-line value sets it, any other leaves it unset *)
          if no_nlb (as_b (nth_val 2 op)) then OpSetID (as_b (nth_val 2 op)) else OpClearID
  | 13 => if no_nlb (as_b (nth_val 2 op)) then OpSetType (as_b (nth_val 2 op)) else OpClearType
  | 11 => OpAppend false []   (* a WriteTo on a failing writer: whatever it returned, the message is what it was *)
  | _ => OpSetRetry (as_z (nth_val 2 op))
  end.
(* a family member is the list of API operations that built it (a clone starts with its
   original's history: value semantics; that the code's slices behave like values is C19) *)
Definition fam_step {A} (apply : A -> val -> A) (empty : A) (fam : list A) (op : val) : list A :=
  let t := as_nat (nth_val 1 op) in
  match as_n (nth_val 0 op) with
  | 4 => fam ++ [nth t fam empty]
  | 5 => fam ++ [empty]
  | 8 => (* UnmarshalText("data: <line>\n\n") into member t: everything it held is replaced by one data line *)
         match nth_error fam t with
         | Some _ => Queue.upd fam t (apply empty (VL [VN 0; VN (N.of_nat t); VN 0; VL [nth_val 2 op]]))
         | None => fam
         end
  | _ => match nth_error fam t with Some x => Queue.upd fam t (apply x op) | None => fam end
  end.
Definition dec_msgs (i : val) : list msg :=
  map (fun ops => api_build (rev ops))
      (fold_left (fam_step (fun h op => dec_api_op op :: h) []) (as_l i) [[]]).

Definition wires_of (ms : list msg) : list val := map enc_wire ms.
Definition concat_wires (ms : list msg) : bytes :=
  concat (map (fun m => match wire m with Some w => w | None => [] end) ms).

Definition enc_read_result (ys : list yield) : val :=
  VL [VL (map enc_event (events_of ys));
      match flat_map (fun y => match y with YErr e => [e] | _ => [] end) ys with
      | e :: _ => enc_serr e
      | [] => VN 0
      end].

(* [interp_lines] is the line-by-line form of the specification interpreter, proved equal to
   [Whatwg.interp] (WhatwgLines.interp_lines_eq); it is linear in the length of a line *)
(* the model: encodings of message.go's model; go-sse's own reading = the gosse_read
   instance of the specification interpreter (its equality with the real parser is C01) *)
Definition run_encode (i : val) : val :=
  let ms := dec_msgs i in
  match enc_read_result (interp_lines gosse_read [] (concat_wires ms) CleanEOF) with
  | VL [evs; err] => VL [VL (wires_of ms); evs; err]
  | v => v
  end.

(* ---- the oracle, written from the property text -------------------------------- *)
(* a message as the property sees it: the ID and type that were accepted (single-line values),
   the lines of the strings given to AppendData *)
Record pmsg := mkp { p_id : option bytes; p_type : option bytes; p_data : list bytes }.
Definition p_apply (p : pmsg) (op : val) : pmsg :=
  match as_n (nth_val 0 op) with
  | 0 => if as_bool (nth_val 2 op) then p
         else mkp (p_id p) (p_type p) (p_data p ++ flat_map text_lines_fast (map as_b (as_l (nth_val 3 op))))
  | 1 | 6 => if no_nlb (as_b (nth_val 2 op)) then mkp (Some (as_b (nth_val 2 op))) (p_type p) (p_data p) else p
  | 2 | 7 => if no_nlb (as_b (nth_val 2 op)) then mkp (p_id p) (Some (as_b (nth_val 2 op))) (p_data p) else p
  | 12 => mkp (if no_nlb (as_b (nth_val 2 op)) then Some (as_b (nth_val 2 op)) else None) (p_type p) (p_data p)
  | 13 => mkp (p_id p) (if no_nlb (as_b (nth_val 2 op)) then Some (as_b (nth_val 2 op)) else None) (p_data p)
  | 9 | 10 =>
      (* through JSON: null unsets; a document that decodes to a single-line string sets it; anything else is refused *)
      let upd := fun f => if (as_n (nth_val 0 op) =? 9) then mkp f (p_type p) (p_data p) else mkp (p_id p) f (p_data p) in
      if bytes_eqb (as_b (nth_val 2 op)) [110; 117; 108; 108] then upd None
      else match as_opt as_b (nth_val 3 op) with
           | Some v => if no_nlb v then upd (Some v) else p
           | None => p
           end
  | _ => p
  end.
Definition p_family (i : val) : list pmsg :=
  fold_left (fam_step p_apply (mkp None None [])) (as_l i) [mkp None None []].

(* one event per message that has data (standard), or that has data, an ID or a type
   (go-sse's documented dispatch rule); nul_rule: the known deviation D9 - an ID containing NUL
   is ignored by decoders *)
Fixpoint p_events (dirty nul_rule : bool) (default_type last : bytes) (ps : list pmsg) : list val :=
  match ps with
  | [] => []
  | p :: r =>
      let id_eff := match p_id p with
                    | Some v => if nul_rule && existsb (fun b => b =? 0) v then None else Some v
                    | None => None end in
      let last' := match id_eff with Some v => v | None => last end in
      let has := match p_data p with [] => false | _ => true end in
      let fires := if dirty
                   then has || (match id_eff with Some _ => true | None => false end)
                            || (match p_type p with Some _ => true | None => false end)
                   else has in
      (if fires
       then [VL [VB last'; VB (match p_type p with Some (b :: t) => b :: t | _ => default_type end); VB (join_lf (p_data p))]]
       else [])
      ++ p_events dirty nul_rule default_type last' r
  end.

Definition holds_encode_gen (nul_rule : bool) (i o : val) : bool :=
  let ps := p_family i in
  let wires := map as_b (as_l (nth_val 0 o)) in
  (* a spec-conforming parser on the bytes the implementation produced *)
  val_eqb (VL (map enc_event (events_of (interp_lines strict [] (concat wires) CleanEOF))))
          (VL (p_events false nul_rule s_message [] ps))
  (* go-sse's own parser, as observed *)
  && val_eqb (nth_val 1 o) (VL (p_events true nul_rule [] [] ps))
  && val_eqb (nth_val 2 o) (VN 0).

Definition holds_encode (i o : val) : bool := holds_encode_gen false i o.
(* the same oracle with the known finding D9 written in: used only to tell D9 from anything else *)
Definition holds_encode_d9 (i o : val) : bool := holds_encode_gen true i o.
