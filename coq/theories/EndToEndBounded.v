(* C05 with a BOUNDED replayer: the property's proviso "a replayer large enough to hold what is
   published while a client is away" made exact.  The replayer is what C08 proves a
   FiniteReplayer of capacity N to be - [Fifo.lastn N] of the accepted puts - instead of the
   whole publish order.  Model (definitions) and proofs; the statements are in props/C05.v.

   A connection of a client that has received [i] messages (its last one is order[i-1]) and is
   registered when [p] have been published finds its ID in the buffer iff p - i < N, i.e. at most
   N - 1 messages were published while it was away.  Under that proviso, connection by
   connection, the bounded system IS the unbounded one of EndToEnd.v (so [end_to_end] applies);
   without it events are lost ([too_small_loses], a computed witness). *)
From GoSse Require Import Base Lines Fields Queue FieldParser Message MessageProofs MessageApi Whatwg TextLines WireDecode PrefixDecode Replayers Fifo EndToEnd EndToEndProofs.
Local Open Scope nat_scope.

Definition body_msgs_b (N : nat) (order : list msg) (last : bytes) (cn : conn) : list msg :=
  resume (lastn N (firstn (cn_p cn) order)) last ++ skipn (cn_p cn) (firstn (cn_j cn) order).

Fixpoint run_conns_b (N : nat) (order : list msg) (last : bytes) (conns : list conn) : list event :=
  match conns with
  | [] => []
  | cn :: r =>
      let evs := events_of (client_conn last (body_msgs_b N order last cn) (cn_cut cn)) in
      evs ++ run_conns_b N order (last_of evs last) r
  end.

(* physically possible runs (as [valid_conns]) on which the replayer was large enough: when the
   client that holds [i] messages is registered again, fewer than N were published meanwhile *)
Fixpoint valid_conns_b (N : nat) (order : list msg) (i : nat) (last : bytes) (conns : list conn) : Prop :=
  match conns with
  | [] => True
  | cn :: r =>
      let evs := events_of (client_conn last (body_msgs_b N order last cn) (cn_cut cn)) in
      i <= cn_p cn /\ cn_p cn <= cn_j cn /\ cn_j cn <= length order /\ cn_p cn - i < N /\
      valid_conns_b N order (i + length evs) (last_of evs last) r
  end.

(* ---- the last N of a list still contain an element that has fewer than N successors ------ *)
Lemma lastn_keeps {A} (N : nat) (pre : list A) (m : A) (post : list A) :
  length post < N ->
  exists pre1 pre2, pre = pre1 ++ pre2 /\ lastn N (pre ++ m :: post) = pre2 ++ m :: post.
Proof.
  intros H. unfold lastn. rewrite app_length. cbn [length].
  set (d := length pre + S (length post) - N).
  assert (Hd : d <= length pre) by (unfold d; lia).
  exists (firstn d pre), (skipn d pre). split; [now rewrite firstn_skipn|].
  rewrite skipn_app. replace (d - length pre) with 0 by lia. reflexivity.
Qed.

Lemma NoDup_app_r {A} (a b : list A) : NoDup (a ++ b) -> NoDup b.
Proof. induction a as [|x a IH]; intros H; [exact H|]. inversion H; subst. auto. Qed.

Lemma resume_lastn N pre m post :
  NoDup (map mid (pre ++ m :: post)) -> length post < N ->
  resume (lastn N (pre ++ m :: post)) (mid m) = post.
Proof.
  intros Hnd Hlen. destruct (lastn_keeps N pre m post Hlen) as (pre1 & pre2 & Hpre & ->).
  apply resume_after. rewrite Hpre, <- app_assoc, map_app in Hnd. now apply NoDup_app_r in Hnd.
Qed.

(* with the proviso, the bounded replayer sends what the unbounded one sends *)
Lemma body_b_eq N A m B cn :
  NoDup (map mid (A ++ m :: B)) ->
  S (length A) <= cn_p cn -> cn_p cn <= length (A ++ m :: B) -> cn_p cn - S (length A) < N ->
  body_msgs_b N (A ++ m :: B) (mid m) cn = body_msgs (A ++ m :: B) (mid m) cn.
Proof.
  intros Hnd Hp Hpl Hfit. unfold body_msgs_b, body_msgs. f_equal.
  set (p := cn_p cn) in *.
  assert (Hf : firstn p (A ++ m :: B) = A ++ m :: firstn (p - S (length A)) B).
  { rewrite firstn_app. rewrite firstn_all2 by lia. f_equal.
    replace (p - length A) with (S (p - S (length A))) by lia. reflexivity. }
  assert (Hnd' : NoDup (map mid (A ++ m :: firstn (p - S (length A)) B))).
  { rewrite <- Hf. rewrite <- (firstn_skipn p (A ++ m :: B)) in Hnd. rewrite map_app in Hnd. now apply NoDup_app_l in Hnd. }
  rewrite Hf. rewrite resume_after by exact Hnd'. apply resume_lastn; [exact Hnd'|].
  rewrite firstn_length. rewrite app_length in Hpl. cbn [length] in Hpl. lia.
Qed.

(* connection by connection the two systems coincide, and the run is a valid unbounded one *)
Lemma bounded_gen N order A m B : pub_ok order -> order = A ++ m :: B ->
  forall conns n, n <= length B ->
  valid_conns_b N order (S (length A) + n) (mid (nth n (m :: B) m)) conns ->
  run_conns_b N order (mid (nth n (m :: B) m)) conns = run_conns order (mid (nth n (m :: B) m)) conns /\
  valid_conns order (S (length A) + n) (mid (nth n (m :: B) m)) conns.
Proof.
  intros Hok Ho. induction conns as [|cn conns IH]; intros n Hn Hv.
  - split; [reflexivity|exact I].
  - cbn [run_conns_b run_conns valid_conns_b valid_conns] in *. destruct Hv as (Hp & Hj & Hjl & Hfit & Hv).
    set (last := mid (nth n (m :: B) m)) in *.
    assert (Hbody : body_msgs_b N order last cn = body_msgs order last cn).
    { set (A' := A ++ firstn n (m :: B)). set (B' := skipn n B).
      assert (Ho' : order = A' ++ nth n (m :: B) m :: B').
      { rewrite Ho. unfold A', B'. rewrite <- app_assoc. f_equal.
        rewrite (split_at_nth (m :: B) n m) at 1 by (cbn [length]; lia). reflexivity. }
      assert (HlenA : length A' = length A + n).
      { unfold A'. rewrite app_length, firstn_length. cbn [length]. lia. }
      destruct Hok as [_ Hnd]. unfold last. rewrite Ho'. apply body_b_eq.
      - rewrite <- Ho'. exact Hnd.
      - lia.
      - rewrite <- Ho'. lia.
      - lia. }
    rewrite Hbody in *.
    destruct (conn_step order A m B n cn Hok Ho Hn Hp Hj Hjl) as (k & Hev & Hk & Hkj & Hfull & Hlast).
    cbn zeta in *. fold last in Hev, Hlast. rewrite Hev in *. rewrite Hlast in *.
    rewrite map_length, firstn_length, skipn_length, Nat.min_l in Hv by lia.
    rewrite map_length, firstn_length, skipn_length, Nat.min_l by lia.
    replace (S (length A) + n + k) with (S (length A) + (n + k)) in * by lia.
    destruct (IH (n + k) Hk Hv) as (Hrun & Hval).
    split; [now rewrite Hrun|]. repeat split; assumption.
Qed.

Theorem bounded_is_unbounded N order : pub_ok order ->
  forall conns A m B, order = A ++ m :: B ->
  valid_conns_b N order (S (length A)) (mid m) conns ->
  run_conns_b N order (mid m) conns = run_conns order (mid m) conns /\
  valid_conns order (S (length A)) (mid m) conns.
Proof.
  intros Hok conns A m B Ho Hv.
  destruct (bounded_gen N order A m B Hok Ho conns 0 ltac:(lia)) as (H1 & H2).
  { rewrite Nat.add_0_r. exact Hv. }
  cbn [nth] in *. rewrite Nat.add_0_r in H2. split; assumption.
Qed.

(* MAIN (bounded): with a FiniteReplayer of ANY capacity N, over any sequence of cut connections
   during each of whose absences fewer than N messages were published, the client receives
   exactly the messages published after the one it had: once, in order, as published *)
Theorem end_to_end_bounded N order : pub_ok order ->
  forall conns A m B, order = A ++ m :: B ->
  valid_conns_b N order (S (length A)) (mid m) conns ->
  exists n, run_conns_b N order (mid m) conns = map event_of (firstn n B) /\ n <= length B /\
            (forall cl, final_conn conns = Some cl -> cn_cut cl = None -> S (length A) + n = cn_j cl).
Proof.
  intros Hok conns A m B Ho Hv.
  destruct (bounded_is_unbounded N order Hok conns A m B Ho Hv) as (Hrun & Hval).
  rewrite Hrun. exact (end_to_end order Hok conns A m B Ho Hval).
Qed.

(* every run is within the proviso for a replayer at least as large as the whole history *)
Lemma valid_b_of_valid N order : length order <= N ->
  forall conns i last, 0 < i ->
  (forall cn l, body_msgs_b N order l cn = body_msgs order l cn) ->
  valid_conns order i last conns -> valid_conns_b N order i last conns.
Proof.
  intros HN. induction conns as [|cn conns IH]; intros i last Hi Hb Hv; [exact I|].
  cbn [valid_conns valid_conns_b] in *. rewrite Hb. destruct Hv as (H1 & H2 & H3 & H4).
  repeat split; try assumption; [lia|]. apply IH; [lia|exact Hb|exact H4].
Qed.

Lemma lastn_all {A} N (l : list A) : length l <= N -> lastn N l = l.
Proof. intros H. unfold lastn. now replace (length l - N) with 0 by lia. Qed.

Lemma body_b_large N order : length order <= N -> forall cn l, body_msgs_b N order l cn = body_msgs order l cn.
Proof.
  intros HN cn l. unfold body_msgs_b, body_msgs. rewrite lastn_all; [reflexivity|].
  rewrite firstn_length. lia.
Qed.

(* so the unbounded theorem of EndToEnd.v is the instance "N at least the history" *)
Theorem unbounded_is_instance N order : length order <= N ->
  forall conns i last, 0 < i -> valid_conns order i last conns -> valid_conns_b N order i last conns.
Proof. intros HN conns i last Hi. apply valid_b_of_valid; [exact HN|exact Hi|]. now apply body_b_large. Qed.

(* ---- ANY replayer that holds a suffix of the put history ---------------------------------------
   What C08 and C09 prove of the two replayers is an instance of one shape: at every moment the replayer
   holds the last [k] accepted puts for some k - N for a FiniteReplayer, the number of entries not yet
   collected for a ValidReplayer ([collect] removes a prefix, [collect_is_lastn]).  [keep cn] is that k when
   connection [cn] is registered: it may differ from connection to connection (expiry, collection timing).
   The proviso becomes [cn_p cn - i < keep cn]: the event the client holds is still stored. *)
Definition body_msgs_k (keep : conn -> nat) (order : list msg) (last : bytes) (cn : conn) : list msg :=
  resume (lastn (keep cn) (firstn (cn_p cn) order)) last ++ skipn (cn_p cn) (firstn (cn_j cn) order).

Fixpoint run_conns_k (keep : conn -> nat) (order : list msg) (last : bytes) (conns : list conn) : list event :=
  match conns with
  | [] => []
  | cn :: r =>
      let evs := events_of (client_conn last (body_msgs_k keep order last cn) (cn_cut cn)) in
      evs ++ run_conns_k keep order (last_of evs last) r
  end.

Fixpoint valid_conns_k (keep : conn -> nat) (order : list msg) (i : nat) (last : bytes) (conns : list conn) : Prop :=
  match conns with
  | [] => True
  | cn :: r =>
      let evs := events_of (client_conn last (body_msgs_k keep order last cn) (cn_cut cn)) in
      i <= cn_p cn /\ cn_p cn <= cn_j cn /\ cn_j cn <= length order /\ cn_p cn - i < keep cn /\
      valid_conns_k keep order (i + length evs) (last_of evs last) r
  end.

Lemma body_k_is_b keep order last cn : body_msgs_k keep order last cn = body_msgs_b (keep cn) order last cn.
Proof. reflexivity. Qed.

Lemma suffix_gen keep order A m B : pub_ok order -> order = A ++ m :: B ->
  forall conns n, n <= length B ->
  valid_conns_k keep order (S (length A) + n) (mid (nth n (m :: B) m)) conns ->
  run_conns_k keep order (mid (nth n (m :: B) m)) conns = run_conns order (mid (nth n (m :: B) m)) conns /\
  valid_conns order (S (length A) + n) (mid (nth n (m :: B) m)) conns.
Proof.
  intros Hok Ho. induction conns as [|cn conns IH]; intros n Hn Hv.
  - split; [reflexivity|exact I].
  - cbn [run_conns_k run_conns valid_conns_k valid_conns] in *. destruct Hv as (Hp & Hj & Hjl & Hfit & Hv).
    set (last := mid (nth n (m :: B) m)) in *.
    assert (Hbody : body_msgs_k keep order last cn = body_msgs order last cn).
    { rewrite body_k_is_b.
      set (A' := A ++ firstn n (m :: B)). set (B' := skipn n B).
      assert (Ho' : order = A' ++ nth n (m :: B) m :: B').
      { rewrite Ho. unfold A', B'. rewrite <- app_assoc. f_equal.
        rewrite (split_at_nth (m :: B) n m) at 1 by (cbn [length]; lia). reflexivity. }
      assert (HlenA : length A' = length A + n).
      { unfold A'. rewrite app_length, firstn_length. cbn [length]. lia. }
      destruct Hok as [_ Hnd]. unfold last. rewrite Ho'. apply body_b_eq.
      - rewrite <- Ho'. exact Hnd.
      - lia.
      - rewrite <- Ho'. lia.
      - lia. }
    rewrite Hbody in *.
    destruct (conn_step order A m B n cn Hok Ho Hn Hp Hj Hjl) as (k & Hev & Hk & Hkj & Hfull & Hlast).
    cbn zeta in *. fold last in Hev, Hlast. rewrite Hev in *. rewrite Hlast in *.
    rewrite map_length, firstn_length, skipn_length, Nat.min_l in Hv by lia.
    rewrite map_length, firstn_length, skipn_length, Nat.min_l by lia.
    replace (S (length A) + n + k) with (S (length A) + (n + k)) in * by lia.
    destruct (IH (n + k) Hk Hv) as (Hrun & Hval).
    split; [now rewrite Hrun|]. repeat split; assumption.
Qed.

Theorem end_to_end_suffix keep order : pub_ok order ->
  forall conns A m B, order = A ++ m :: B ->
  valid_conns_k keep order (S (length A)) (mid m) conns ->
  exists n, run_conns_k keep order (mid m) conns = map event_of (firstn n B) /\ n <= length B /\
            (forall cl, final_conn conns = Some cl -> cn_cut cl = None -> S (length A) + n = cn_j cl).
Proof.
  intros Hok conns A m B Ho Hv.
  destruct (suffix_gen keep order A m B Hok Ho conns 0 ltac:(lia)) as (Hrun & Hval).
  { rewrite Nat.add_0_r. exact Hv. }
  cbn [nth] in *. rewrite Nat.add_0_r in Hval. rewrite Hrun. exact (end_to_end order Hok conns A m B Ho Hval).
Qed.

(* what a ValidReplayer holds after a collection is a suffix of what it held: [collect] only removes a prefix *)
Lemma collect_is_lastn (l : list entry) now : collect l now = lastn (length (collect l now)) l.
Proof.
  induction l as [|e r IH]; [reflexivity|]. cbn [collect]. destruct (now <? e_exp e)%Z.
  - unfold lastn. now rewrite Nat.sub_diag.
  - rewrite IH at 1. unfold lastn. cbn [length].
    assert (Hle : length (collect r now) <= length r).
    { clear IH. induction r as [|x r IHr]; [cbn; lia|]. cbn [collect]. destruct (now <? e_exp x)%Z; cbn [length]; lia. }
    replace (S (length r) - length (collect r now)) with (S (length r - length (collect r now))) by lia. reflexivity.
Qed.
