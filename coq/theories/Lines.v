(* internal/parser/chunk.go: NewlineIndex, NextChunk; message.go: isSingleLine.
   Definitions only mirror the code; the lemmas characterise them. *)
From GoSse Require Import Base.

Definition is_nl (b : N) : bool := (b =? LF) || (b =? CR).

(* NewlineIndex(s) = (index, length) *)
Fixpoint newline_index (s : bytes) : nat * nat :=
  match s with
  | [] => (0%nat, 0%nat)
  | b :: r =>
      if is_nl b then
        (0%nat, if (b =? CR) && (match r with c :: _ => c =? LF | [] => false end)
                then 2%nat else 1%nat)
      else let '(i, l) := newline_index r in (S i, l)
  end.

(* NextChunk(s) = (chunk, remaining, hasNewline) *)
Definition next_chunk (s : bytes) : bytes * bytes * bool :=
  let '(i, l) := newline_index s in
  (firstn i s, skipn (i + l) s, negb (Nat.eqb l 0)).

Definition is_single_line (s : bytes) : bool :=
  Nat.eqb (snd (newline_index s)) 0.

(* Specification vocabulary: "contains no CR and no LF". *)
Definition no_nl (s : bytes) : Prop := Forall (fun b => is_nl b = false) s.
Definition no_nlb (s : bytes) : bool := forallb (fun b => negb (is_nl b)) s.

Lemma no_nlb_spec s : no_nlb s = true <-> no_nl s.
Proof.
  unfold no_nlb, no_nl. rewrite forallb_forall, Forall_forall.
  split; intros H x Hx; specialize (H x Hx); destruct (is_nl x); cbn in *; congruence.
Qed.

Lemma newline_index_len_le2 s : (snd (newline_index s) <= 2)%nat.
Proof.
  induction s as [|b r IH]; cbn; [lia|].
  destruct (is_nl b).
  - cbn. destruct ((b =? CR) && _); lia.
  - destruct (newline_index r) as [i l]. cbn in *. exact IH.
Qed.

Lemma newline_index_bounds s :
  let '(i, l) := newline_index s in (i + l <= length s)%nat.
Proof.
  induction s as [|b r IH]; cbn; [lia|].
  destruct (is_nl b) eqn:E.
  - destruct (b =? CR); cbn; [|lia]. destruct r as [|c r']; cbn; [lia|]. destruct (c =? LF); cbn; lia.
  - destruct (newline_index r) as [i l]. cbn. lia.
Qed.

Lemma newline_index_prefix s :
  no_nl (firstn (fst (newline_index s)) s).
Proof.
  induction s as [|b r IH]; cbn; [constructor|].
  destruct (is_nl b) eqn:E; cbn; [constructor|].
  destruct (newline_index r) as [i l]. cbn in *. constructor; assumption.
Qed.

Lemma newline_index_zero_len s :
  snd (newline_index s) = 0%nat <-> no_nl s.
Proof.
  induction s as [|b r IH]; cbn.
  - split; [constructor|reflexivity].
  - destruct (is_nl b) eqn:E.
    + cbn. split.
      * destruct ((b =? CR) && _); discriminate.
      * intros H. inversion H; subst. congruence.
    + destruct (newline_index r) as [i l]. cbn in *. rewrite IH.
      split; intros H; [constructor; assumption | now inversion H].
Qed.

Lemma newline_index_no_nl s : no_nl s -> newline_index s = (length s, 0%nat).
Proof.
  induction 1 as [|b r Hb Hr IH]; cbn; [reflexivity|].
  rewrite Hb, IH. reflexivity.
Qed.

Lemma is_single_line_spec s : is_single_line s = true <-> no_nl s.
Proof.
  unfold is_single_line. rewrite Nat.eqb_eq. apply newline_index_zero_len.
Qed.

Lemma is_single_line_false s :
  is_single_line s = false <-> exists b, In b s /\ is_nl b = true.
Proof.
  split.
  - intros H. destruct (no_nlb s) eqn:E.
    + apply no_nlb_spec, is_single_line_spec in E. congruence.
    + unfold no_nlb in E. apply not_true_iff_false in E.
      rewrite forallb_forall in E.
      induction s as [|b r IH].
      * exfalso. apply E. intros x [].
      * destruct (is_nl b) eqn:Eb.
        -- exists b. split; [now left|assumption].
        -- assert (Hr : is_single_line r = false).
           { unfold is_single_line in *. cbn in H. rewrite Eb in H.
             destruct (newline_index r). exact H. }
           destruct IH as [x [Hx Hn]]; [assumption| |].
           ++ intros HA. apply E. intros x [<-|Hx]; [now rewrite Eb | now apply HA].
           ++ exists x. split; [now right|assumption].
  - intros [b [Hin Hb]]. destruct (is_single_line s) eqn:E; [|reflexivity].
    apply is_single_line_spec in E. unfold no_nl in E. rewrite Forall_forall in E.
    specialize (E b Hin). congruence.
Qed.

(* next_chunk: the chunk is single-line, and chunk ++ terminator ++ remaining = s *)
Lemma next_chunk_single s : no_nl (fst (fst (next_chunk s))).
Proof.
  unfold next_chunk. pose proof (newline_index_prefix s) as H.
  destruct (newline_index s) as [i l]. exact H.
Qed.

Lemma next_chunk_shorter s c r h :
  s <> [] -> next_chunk s = (c, r, h) -> h = true -> (length r < length s)%nat.
Proof.
  unfold next_chunk. intros Hs. pose proof (newline_index_bounds s) as Hb.
  destruct (newline_index s) as [i l]. intros [= <- <- <-] Hl.
  rewrite skipn_length. destruct l; [discriminate|]. destruct s; [congruence|]. cbn [length] in *. lia.
Qed.
