From GoSse Require Import Base Lines Fields.

Lemma new_field_single v f e : new_field v = (f, e) -> is_set f = true -> no_nl (value f).
Proof.
  unfold new_field. destruct (is_single_line v) eqn:E; intros [= <- <-]; cbn; [|discriminate].
  intros _. now apply is_single_line_spec.
Qed.

Lemma new_field_reject v : ~ no_nl v -> new_field v = (None, true).
Proof.
  unfold new_field. intros H. destruct (is_single_line v) eqn:E; [|reflexivity].
  apply is_single_line_spec in E. contradiction.
Qed.

Lemma new_field_accept v : no_nl v -> new_field v = (Some v, false).
Proof.
  unfold new_field. intros H. apply is_single_line_spec in H. now rewrite H.
Qed.

Lemma unmarshal_json_single d s f e :
  unmarshal_json d s = (f, e) -> is_set f = true -> no_nl (value f).
Proof.
  unfold unmarshal_json. destruct (bytes_eqb d json_null).
  - intros [= <- <-]. discriminate.
  - destruct s as [s|]; [apply new_field_single|]. intros [= <- <-]. discriminate.
Qed.

Lemma scan_single src f e : scan src = (f, e) -> is_set f = true -> no_nl (value f).
Proof.
  destruct src; cbn; try apply new_field_single; intros [= <- <-]; discriminate.
Qed.

Lemma upgrade_id_single h : is_set (upgrade_id h) = true -> no_nl (value (upgrade_id h)).
Proof.
  unfold upgrade_id. destruct h as [|v t]; [discriminate|]. destruct v as [|b v]; [discriminate|].
  unfold new_id. destruct (new_field (b :: v)) as [f e] eqn:E. cbn. eapply new_field_single; eauto.
Qed.

Lemma upgrade_id_reject v t : ~ no_nl v -> upgrade_id (v :: t) = None.
Proof.
  intros H. unfold upgrade_id. destruct v as [|b v]; [reflexivity|].
  unfold new_id. now rewrite new_field_reject.
Qed.

(* ---- round trips through the encoding side ---------------------------------------------------- *)
Lemma marshal_text_unset_errors : marshal_text None = None.
Proof. reflexivity. Qed.

Lemma text_roundtrip f : field_wf f -> is_set f = true ->
  exists b, marshal_text f = Some b /\ unmarshal_text b = (f, false).
Proof.
  intros Hwf Hset. destruct f as [v|]; [|discriminate]. exists v. split; [reflexivity|].
  unfold unmarshal_text. apply new_field_accept. now apply Hwf.
Qed.

Lemma value_scan_roundtrip f : field_wf f ->
  scan (field_value f) = (f, false) /\ scan (field_value_bytes f) = (f, false).
Proof.
  intros Hwf. destruct f as [v|]; cbn [field_value field_value_bytes scan]; [|split; reflexivity].
  split; apply new_field_accept; now apply Hwf.
Qed.

Lemma json_roundtrip f enc : field_wf f ->
  (is_set f = true -> bytes_eqb enc json_null = false) ->
  unmarshal_json (marshal_json f enc) (if is_set f then Some (value f) else None) = (f, false).
Proof.
  intros Hwf Henc. destruct f as [v|]; cbn [marshal_json is_set value]; unfold unmarshal_json.
  - rewrite (Henc eq_refl). apply new_field_accept. now apply Hwf.
  - replace (bytes_eqb json_null json_null) with true; [reflexivity|]. symmetry. apply bytes_eqb_refl.
Qed.

(* every construction route yields a well-formed field *)
Lemma new_field_wf v : field_wf (fst (new_field v)).
Proof.
  intros w H. destruct (new_field v) as [f e] eqn:E. cbn [fst] in H. subst f.
  exact (new_field_single v (Some w) e E eq_refl).
Qed.
Lemma scan_wf src : field_wf (fst (scan src)).
Proof.
  intros w H. destruct (scan src) as [f e] eqn:E. cbn [fst] in H. subst f.
  exact (scan_single src (Some w) e E eq_refl).
Qed.
Lemma unmarshal_json_wf d s : field_wf (fst (unmarshal_json d s)).
Proof.
  intros w H. destruct (unmarshal_json d s) as [f e] eqn:E. cbn [fst] in H. subst f.
  exact (unmarshal_json_single d s (Some w) e E eq_refl).
Qed.
Lemma upgrade_id_wf h : field_wf (upgrade_id h).
Proof. intros w H. pose proof (upgrade_id_single h) as S. rewrite H in S. exact (S eq_refl). Qed.
