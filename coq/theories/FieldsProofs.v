From GoSse Require Import Base Lines Fields.

Lemma new_field_single v f e : new_field v = (f, e) -> is_set f = true -> no_nl (value f).
Proof.
  unfold new_field. destruct (is_single_line v) eqn:E; intros [= <- <-]; cbn; [|discriminate].
  intros _. now apply is_single_line_spec.
Qed.

Lemma new_field_reject v : ~ no_nl v -> new_field v = (None, true).
Proof.
  unfold new_field. intros H. destruct (is_single_line v) eqn:E; [|reflexivity].
  apply is_single_line_spec in E. contradiction.
Qed.

Lemma new_field_accept v : no_nl v -> new_field v = (Some v, false).
Proof.
  unfold new_field. intros H. apply is_single_line_spec in H. now rewrite H.
Qed.

Lemma unmarshal_json_single d s f e :
  unmarshal_json d s = (f, e) -> is_set f = true -> no_nl (value f).
Proof.
  unfold unmarshal_json. destruct (bytes_eqb d json_null).
  - intros [= <- <-]. discriminate.
  - destruct s as [s|]; [apply new_field_single|]. intros [= <- <-]. discriminate.
Qed.

Lemma scan_single src f e : scan src = (f, e) -> is_set f = true -> no_nl (value f).
Proof.
  destruct src; cbn; try apply new_field_single; intros [= <- <-]; discriminate.
Qed.

Lemma upgrade_id_single h : is_set (upgrade_id h) = true -> no_nl (value (upgrade_id h)).
Proof.
  unfold upgrade_id. destruct h as [|v t]; [discriminate|]. destruct v as [|b v]; [discriminate|].
  unfold new_id. destruct (new_field (b :: v)) as [f e] eqn:E. cbn. eapply new_field_single; eauto.
Qed.

Lemma upgrade_id_reject v t : ~ no_nl v -> upgrade_id (v :: t) = None.
Proof.
  intros H. unfold upgrade_id. destruct v as [|b v]; [reflexivity|].
  unfold new_id. now rewrite new_field_reject.
Qed.
