(* val-level entry points of the family "parse" (C01, C20); see harness/cmd/impl-run/parse.go
   for the input/output format.

   [run_parse]      the MODEL stack (Scanner + Split + FieldParser + Reader + ReadLoop) on the same script.
   [holds_parse_c01] the specification oracle: the observed yields are those of [Whatwg.interp] on the
                    concatenated stream, whatever the segmentation, whenever every group fits the limit.
   [holds_parse_c20] the memory oracle: bytes pulled beyond the last completed group never exceed the limit;
                    the observed yields are a prefix of the specification's, followed by TooLong only where a
                    group does not fit; never a panic.
   The oracles are written from the property texts and the WHATWG line structure; they do not use the
   model (no split_func, no scanner).
   Entry 4 (second attempt of a Connection): the initial last event ID is not an input, it is what the first
   attempt's body (nth 6 of the input) leaves behind - see [model_case] / [carried_ids]. *)
From GoSse Require Import Base Lines FieldParser Whatwg WhatwgLines Split Scanner Reader ReadLoop Yields Run.
Local Open Scope nat_scope.

(* ---- decoding ----------------------------------------------------------------------------- *)
Definition dec_ending (v : val) : ending :=
  match v with
  | VL (k :: _) => ReadError (EReader (as_n k))
  | VN 4%N => ReadError ECtx
  | _ => CleanEOF
  end.
Definition dec_stop (v : val) : option nat := as_opt as_nat v.
Definition dec_bufcfg (v : val) : bufcfg :=
  mkbc (as_bool (nth_val 0 v)) (as_n (nth_val 1 v)) (as_z (nth_val 2 v)).

Record pcase := mkpc {
  pc_entry : N; pc_chunks : list bytes; pc_ending : ending; pc_stop : option nat; pc_buf : bufcfg; pc_id0 : bytes }.
Definition dec_case (i : val) : pcase :=
  mkpc (if ((as_n (nth_val 0 i) =? 4) || (as_n (nth_val 0 i) =? 6))%N then 1%N else as_n (nth_val 0 i)) (* 4, 6: a Connection's second attempt (6: Buffer was called between the attempts) *) (map as_b (as_l (nth_val 1 i))) (dec_ending (nth_val 2 i)) (dec_stop (nth_val 3 i))
       (dec_bufcfg (nth_val 4 i)) (as_b (nth_val 5 i)).

(* connection-like entries report EOF and take retry values; only entries 2, 3 see them *)
Definition pc_conn (c : pcase) : bool := (pc_entry c =? 1)%N || (pc_entry c =? 2)%N.
Definition pc_sees_retry (c : pcase) : bool := (pc_entry c =? 2)%N.
(* ---- the model ------------------------------------------------------------------------------ *)
(* entries 2, 3 call Parser.Buffer iff hasbuf or max > 0, the Connection's rule *)
Definition run_case (c : pcase) : list yield * run_end * parser :=
  let bufmode := if (pc_entry c =? 0)%N then EntryRead else EntryConn in
  let p := make_parser bufmode (pc_buf c) (mkrd (pc_chunks c) (pc_ending c) 0) in
  read_loop (read_fuel p) (pc_conn c) (negb (pc_conn c)) (pc_stop c) p (mkrl (pc_id0 c) [] [] false) 0.

Definition enc_run (sees_retry : bool) (r : list yield * run_end * parser) : val :=
  let '(ys, e, p) := r in
  VL [VL (map enc_yield (if sees_retry then ys else drop_retries ys));
      VN (rd_pulled (p_rd p));
      VN (match e with EndNormal => 0 | EndPanic => 1 | EndOutOfFuel => 2 end)].

(* ---- entry 4: the stream is the body of the Connection's SECOND attempt ------------------------------
   The first attempt's response body is nth 6 of the input (delivered by one read, clean end, same buffer
   configuration); its yields are not part of the observation.  What it leaves behind is the Connection's
   last event ID: Connection.read stores the LastEventID of every event it dispatches, and the next attempt's
   stream is read with it.  So the stream under test is interpreted with the ID carried over - the empty one
   included, when the first stream reset it with an empty id field. *)
Definition is_second (i : val) : bool := ((as_n (nth_val 0 i) =? 4) || (as_n (nth_val 0 i) =? 6))%N.
Definition first_body (i : val) : bytes := as_b (nth_val 6 i).
(* entry 6: Buffer is called only after the first attempt, which therefore scans with the default configuration *)
Definition buffer_set_later (i : val) : bool := (as_n (nth_val 0 i) =? 6)%N.
Definition first_case (later : bool) (c : pcase) (first : bytes) : pcase :=
  mkpc 1%N (match first with [] => [] | _ => [first] end) CleanEOF None
       (if later then mkbc false 0 0 else pc_buf c) [].
Definition with_id0 (c : pcase) (id : bytes) : pcase :=
  mkpc (pc_entry c) (pc_chunks c) (pc_ending c) (pc_stop c) (pc_buf c) id.
(* the ID of the last event among these yields (none: the connection starts with the empty ID) *)
Definition last_id (ys : list yield) : bytes :=
  fold_left (fun l y => match y with YEv e => ev_id e | _ => l end) ys [].

(* the model: the first attempt runs on the model stack too *)
Definition model_case (i : val) : pcase :=
  let c := dec_case i in
  if is_second i then with_id0 c (last_id (fst (fst (run_case (first_case (buffer_set_later i) c (first_body i)))))) else c.

Definition run_parse (i : val) : val :=
  let c := model_case i in enc_run (pc_sees_retry c) (run_case c).

(* ---- the specification side ------------------------------------------------------------------ *)
(* The limit L: "bufio allows tokens up to max(maxSize, cap(buf))" (DESIGN 4.2), default 64 KiB.
   Written from the documentation of ReadConfig.MaxEventSize / Connection.Buffer / Scanner.Buffer. *)
Definition limit_of (c : pcase) : N :=
  let b := pc_buf c in
  if (pc_entry c =? 0)%N then (if (0 <? bc_max b)%Z then Z.to_N (bc_max b) else 65536%N)
  else if bc_has_buf b || (0 <? bc_max b)%Z
       then N.max (Z.to_N (bc_max b)) (if bc_has_buf b then bc_cap b else 0%N)
       else 65536%N.

(* Group structure of a stream, byte by byte, from the WHATWG line rules.  A group is a maximal run of
   non-blank lines; it is COMPLETE at the first terminator byte of the blank line that follows it (only then
   is it known that an event ended).  [group_ends s] lists, for every complete group, the offset [c] just
   after that byte and [hi] = c+1 if that byte is a CR directly followed by LF (the LF belongs to the same
   line end and may or may not be taken together with the group), else hi = c.
   State: at_start - the current line is empty so far; in_group - a non-blank line was seen since the last
   completion; prev_cr - the previous byte was a CR ending a line; just_cr - that CR completed a group. *)
Fixpoint group_ends_from (s : bytes) (pos : N) (at_start in_group prev_cr just_cr : bool) : list (N * N) :=
  match s with
  | [] => []
  | b :: r =>
      let pos' := (pos + 1)%N in
      if prev_cr && (b =? LF)%N then group_ends_from r pos' at_start in_group false false
      else if is_nl b then
        if at_start then
          if in_group
          then (pos', if (b =? CR)%N && (match r with c :: _ => (c =? LF)%N | [] => false end) then (pos' + 1)%N else pos')
               :: group_ends_from r pos' true false (b =? CR)%N (b =? CR)%N
          else group_ends_from r pos' true false (b =? CR)%N false
        else group_ends_from r pos' true in_group (b =? CR)%N false
      else group_ends_from r pos' false true false false
  end.
Definition group_ends (s : bytes) : list (N * N) := group_ends_from s 0 true false false false.

(* What each group needs of the buffer: the bytes from the end of the previous group (taken early [lo] or
   late [hi]) up to its completion; the rest of the stream after the last group needs one byte more than
   its length (the scanner must still have room to ask for more and be told that the input ended). *)
Fixpoint group_needs (ends : list (N * N)) (len : N) (prev_lo prev_hi : N) : list (N * N * N) (* (start, need_lo, need_hi) *) :=
  match ends with
  | [] => [(prev_lo, len - prev_lo + 1, len - prev_hi + 1)%N]
  | (c, h) :: rest => (prev_lo, c - prev_lo, c - prev_hi)%N :: group_needs rest len c h
  end.

Definition stream_needs (s : bytes) : list (N * N * N) :=
  group_needs (group_ends s) (N.of_nat (length s)) 0 0.

(* "every event, together with the blank lines preceding it, fits the limit" - in the strict reading *)
Definition fitsb (L : N) (s : bytes) : bool :=
  forallb (fun x : N * N * N => (snd (fst x) <=? L)%N) (stream_needs s).

(* offsets after which a TooLong report is legitimate: every earlier group fits in the generous reading,
   this one does not fit in the strict reading *)
Fixpoint toolong_points (L : N) (needs : list (N * N * N)) : list N :=
  match needs with
  | [] => []
  | (start, need_lo, need_hi) :: rest =>
      (if (L <? need_lo)%N then [start] else []) ++
      (if (need_hi <=? L)%N then toolong_points L rest else [])
  end.
Definition may_complete (L : N) (s : bytes) : bool :=
  forallb (fun x : N * N * N => (snd x <=? L)%N) (stream_needs s).

(* ---- yields ------------------------------------------------------------------------------------ *)
Definition mode_of (c : pcase) : mode := if pc_conn c then gosse_conn else gosse_read.
Definition pc_stream (c : pcase) : bytes := concat (pc_chunks c).

Definition visible (c : pcase) (ys : list yield) : list yield :=
  firstn' (pc_stop c) (if pc_sees_retry c then ys else drop_retries ys).

(* [interp_lines] is [Whatwg.interp] (WhatwgLines.interp_lines_eq), computed line by line *)
Definition spec_full (c : pcase) : list yield := interp_lines (mode_of c) (pc_id0 c) (pc_stream c) (pc_ending c).
(* the specification's yields for the first [off] bytes, then the scanner's refusal *)
Definition spec_toolong (c : pcase) (off : N) : list yield :=
  snd (run_lines (mode_of c) (w_init (pc_id0 c)) (fst (wlines (strip_bom (firstn (N.to_nat off) (pc_stream c)))))) ++ [YErr ETooLong].

Definition yields_eqb (a b : list yield) : bool := val_eqb (VL (map enc_yield a)) (VL (map enc_yield b)).

(* Entry 4, specification side: the IDs the first attempt may leave behind.  By the statement of C20 its yields are
   the whole interpretation of [first], or the interpretation up to a group that does not fit followed by TooLong;
   the ID carried over is that of the last event among them.  When [first] fits the limit (the premise of C01 for
   the connection as a whole) there is exactly one candidate: the ID after the whole interpretation. *)
Definition carried_ids (later : bool) (c : pcase) (first : bytes) : list bytes :=
  let c1 := first_case later c first in
  let L := limit_of c1 in
  (if may_complete L first then [last_id (spec_full c1)] else []) ++
  map (fun off => last_id (spec_toolong c1 off)) (toolong_points L (stream_needs first)).

(* the cases an observation is judged against: the input as it is, or (entry 4) with each ID the first attempt
   may have left *)
Definition spec_cases (i : val) : list pcase :=
  let c := dec_case i in
  if is_second i then map (with_id0 c) (carried_ids (buffer_set_later i) c (first_body i)) else [c].

(* ---- decoding the observation -------------------------------------------------------------------- *)
Definition dec_serr (v : val) : serr :=
  match v with
  | VL (k :: _) => EReader (as_n k)
  | VN 1%N => EEOF | VN 2%N => EUnexpectedEOF | VN 3%N => ETooLong | VN 4%N => ECtx
  | _ => EReader 0   (* "other": never equal to a scripted error, whose index is >= 1 *)
  end.
Definition dec_yield (v : val) : yield :=
  match as_n (nth_val 0 v) with
  | 0%N => let e := nth_val 1 v in YEv (mkev (as_b (nth_val 0 e)) (as_b (nth_val 1 e)) (as_b (nth_val 2 e)))
  | 1%N => YRetry (as_n (nth_val 1 v))
  | _ => YErr (dec_serr (nth_val 1 v))
  end.
Definition obs_yields (o : val) : list yield := map dec_yield (as_l (nth_val 0 o)).
Definition obs_pulled (o : val) : N := as_n (nth_val 1 o).
Definition obs_panicked (o : val) : bool := negb (as_n (nth_val 2 o) =? 0)%N.

(* C01: whenever every group fits the limit, the observed yields are the specification's *)
Definition holds_c01_case (c : pcase) (o : val) : bool :=
  if fitsb (limit_of c) (pc_stream c)
  then negb (obs_panicked o) && yields_eqb (obs_yields o) (visible c (spec_full c))
  else true.
Definition holds_parse_c01 (i o : val) : bool := existsb (fun c => holds_c01_case c o) (spec_cases i).

(* C20 *)
Definition last_end (ends : list (N * N)) : N := match ends with [] => 0%N | _ => snd (last ends (0, 0)%N) end.
Definition holds_c20_case (c : pcase) (o : val) : bool :=
  let L := limit_of c in
  let s := pc_stream c in
  let pulled := obs_pulled o in
  let obs := obs_yields o in
  negb (obs_panicked o)
  (* at most L bytes pulled beyond the last group that was complete in what was pulled *)
  && (pulled <=? N.of_nat (length s))%N
  && (pulled - last_end (group_ends (firstn (N.to_nat pulled) s)) <=? L)%N
  (* the whole interpretation, or its yields up to a group that does not fit followed by TooLong:
     never a truncated or partial event, TooLong only for a group that does not fit *)
  && ((may_complete L s && yields_eqb obs (visible c (spec_full c)))
      || existsb (fun off => yields_eqb obs (visible c (spec_toolong c off))) (toolong_points L (stream_needs s))).
Definition holds_parse_c20 (i o : val) : bool := existsb (fun c => holds_c20_case c o) (spec_cases i).
