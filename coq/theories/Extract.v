(* Extraction of the executable models.  ExtrOcamlBasic only: bool, option,
   unit, list, prod, sumbool, sumor map to OCaml's; N, Z, positive, nat stay
   Coq's inductives. *)
From Coq Require Extraction.
From Coq Require Import ExtrOcamlBasic.
From GoSse Require Import Base Run.
Extraction Language OCaml.
Extraction "model.ml" val run_fields holds_fields
  run_finite holds_finite holds_finite_slots run_valid holds_valid holds_valid_slots
  run_message holds_message
  N.add N.mul N.div_eucl N.eqb Z.add Z.mul Z.opp Z.div_eucl Z.eqb Z.of_N Z.to_N.
