(* internal/parser/field.go, field_parser.go: getFieldName, trimFirstSpace,
   scanSegment, FieldParser.Next/Reset/RemoveBOM/doRemoveBOM. *)
From GoSse Require Import Base Lines.
From GoSse.Gen Require Import Params.
Local Open Scope nat_scope.

Inductive fname := FData | FEvent | FRetry | FID | FComment | FEnd.  (* FEnd: the field without a name *)

Definition fname_eqb (a b : fname) : bool :=
  match a, b with
  | FData, FData | FEvent, FEvent | FRetry, FRetry | FID, FID | FComment, FComment | FEnd, FEnd => true
  | _, _ => false
  end.

(* field.go:31-44 *)
Definition get_field_name (b : bytes) : option fname :=
  if bytes_eqb b field_name_data then Some FData
  else if bytes_eqb b field_name_event then Some FEvent
  else if bytes_eqb b field_name_retry then Some FRetry
  else if bytes_eqb b field_name_id then Some FID
  else None.

(* strings.IndexByte *)
Fixpoint index_byte (c : N) (s : bytes) : option nat :=
  match s with
  | [] => None
  | b :: r => if (b =? c)%N then Some 0
              else match index_byte c r with Some i => Some (S i) | None => None end
  end.

(* field_parser.go:19-24 *)
Definition trim_first_space (c : bytes) : bytes :=
  match c with b :: r => if (b =? SP)%N then r else c | [] => [] end.

Record pfield := mkpf { pf_name : fname; pf_value : bytes }.

(* field_parser.go:26-54 *)
Definition scan_segment (keep_comments : bool) (chunk : bytes) : option pfield :=
  let l := length chunk in
  let cp := index_byte COLON chunk in
  if match cp with Some p => max_field_name_length <? p | None => false end then None
  else
    let colon_pos := match cp with Some p => p | None => l end in
    match get_field_name (firstn colon_pos chunk) with
    | Some name => Some (mkpf name (trim_first_space (skipn (Nat.min (colon_pos + 1) l) chunk)))
    | None =>
        match chunk with
        | [] => Some (mkpf FEnd [])
        | _ => if (colon_pos =? 0) && keep_comments
               then Some (mkpf FComment (trim_first_space (skipn (Nat.min 1 l) chunk)))
               else None
        end
    end.

Record fp := mkfp { fp_data : bytes; fp_err : bool (* ErrUnexpectedEOF *); fp_started : bool;
                    fp_keep_comments : bool; fp_remove_bom : bool }.

Fixpoint is_prefix (p s : bytes) : bool :=
  match p, s with
  | [], _ => true
  | a :: p', b :: s' => (a =? b)%N && is_prefix p' s'
  | _ :: _, [] => false
  end.

(* field_parser.go:118-124 *)
Definition do_remove_bom (f : fp) : fp :=
  if fp_remove_bom f && negb (fp_started f) && is_prefix bom (fp_data f)
  then mkfp (skipn (length bom) (fp_data f)) (fp_err f) true (fp_keep_comments f) (fp_remove_bom f)
  else f.

(* field_parser.go:84-89 *)
Definition fp_reset (f : fp) (data : bytes) : fp :=
  do_remove_bom (mkfp data false false (fp_keep_comments f) (fp_remove_bom f)).

(* field_parser.go:113-116 *)
Definition fp_set_remove_bom (f : fp) (b : bool) : fp :=
  do_remove_bom (mkfp (fp_data f) (fp_err f) (fp_started f) (fp_keep_comments f) b).

Definition fp_new (data : bytes) : fp := mkfp data false false false false.
Definition fp_keep (f : fp) (b : bool) : fp :=
  mkfp (fp_data f) (fp_err f) (fp_started f) b (fp_remove_bom f).

(* field_parser.go:61-81.  Every iteration consumes at least one byte, so
   [length data] iterations suffice (fp_next_fuel_ok). *)
Fixpoint fp_next_fuel (fuel : nat) (f : fp) : option pfield * fp :=
  match fuel with
  | O => (None, f)
  | S fuel' =>
      match fp_data f with
      | [] => (None, f)
      | _ =>
          let '(chunk, rem, has_nl) := next_chunk (fp_data f) in
          if has_nl then
            let f' := mkfp rem (fp_err f) true (fp_keep_comments f) (fp_remove_bom f) in
            match scan_segment (fp_keep_comments f) chunk with
            | Some fld => (Some fld, f')
            | None => fp_next_fuel fuel' f'
            end
          else (None, mkfp (fp_data f) true true (fp_keep_comments f) (fp_remove_bom f))
      end
  end.

Definition fp_next (f : fp) : option pfield * fp := fp_next_fuel (length (fp_data f)) f.

(* all fields until Next returns false *)
Fixpoint fp_all_fuel (fuel : nat) (f : fp) : list pfield * fp :=
  match fuel with
  | O => ([], f)
  | S fuel' =>
      match fp_next f with
      | (Some fld, f') => let '(fs, f'') := fp_all_fuel fuel' f' in (fld :: fs, f'')
      | (None, f') => ([], f')
      end
  end.
Definition fp_all (f : fp) : list pfield * fp := fp_all_fuel (S (length (fp_data f))) f.
