(* C07 on the LTS: Shutdown results, progress after j.done is closed, termination of internal steps. *)
From GoSse Require Import Base JoeLts JoeLocal JoeProj JoePub JoeInv JoeSafety.
Local Open Scope nat_scope.

(* ---- which labels are the system's own ------------------------------------- *)
(* internal = not decided by the environment.  Starting a call and cancelling a context are the
   environment's; so are the calls the replayer makes on the new subscriber's writer while Replay
   runs (user code: the proviso "Send/Flush - and Replay - return"). *)
Definition internal (l : label) : bool :=
  match l with
  | SubEnter _ _ | Cancel _ | PubEnter _ _ | ShutEnter _ | HCancel _ => false
  | LRSend _ _ _ | LRFlush _ _ => false
  | _ => true
  end.

(* ---- Shutdown callers ------------------------------------------------------- *)
(* the caller whose close(j.done) succeeded *)
Definition closer (x : shut_t) : bool :=
  match h_pc x with
  | HWaiting => true
  | HRet None => true
  | HRet (Some e) => Nat.eqb e E_CTX
  | _ => false
  end.

Record shut_ok (s : state) : Prop := mkShutOk {
  so_closer_closed : forall h, closer (shut s h) = true -> done_closed s = true;
  so_unique : forall h h', closer (shut s h) = true -> closer (shut s h') = true -> h = h';
  so_exists : done_closed s = true -> exists h, closer (shut s h) = true;
  so_nil : forall h, h_pc (shut s h) = HRet None -> closed_closed s = true;
  so_err : forall h e, h_pc (shut s h) = HRet (Some e) ->
           (e = E_CTX /\ h_ctx (shut s h) = true) \/ (e = E_CLOSED /\ done_closed s = true)
}.

Lemma shut_frame s l s' :
  step s l = Some s' ->
  match l with
  | ShutEnter _ | ShutClose _ | ShutDone _ | ShutCtx _ | HCancel _ => True
  | _ => shut s' = shut s /\ done_closed s' = done_closed s /\ (closed_closed s = true -> closed_closed s' = true)
  end.
Proof.
  intros H. apply step_live_of in H. destruct H as [Hnp H].
  destruct l; try exact I; cbn [step_live] in H; cbv zeta in H;
    unfold send_done, close_done, recv1, panic in H; brk H; injection H as <-; cbn; auto.
Qed.

Lemma shut_ok_init : shut_ok init.
Proof. split; cbn; intros; try discriminate. Qed.

Lemma upd_shut_cases (f : nat -> shut_t) h x h' :
  (h' = h /\ upd f h x h' = x) \/ (h' <> h /\ upd f h x h' = f h').
Proof.
  unfold upd. destruct (Nat.eqb h' h) eqn:E.
  - apply Nat.eqb_eq in E. now left.
  - apply Nat.eqb_neq in E. now right.
Qed.

Lemma shut_ok_step s l s' : shut_ok s -> step s l = Some s' -> shut_ok s'.
Proof.
  intros I H. pose proof (shut_frame _ _ _ H) as F.
  destruct l; try (destruct I as [A B C D E]; destruct F as (F1 & F2 & F3); split; rewrite ?F1, ?F2; eauto; fail).
  all: clear F; apply step_live_of in H; destruct H as [Hnp H]; cbn [step_live] in H; brk H; injection H as <-;
       destruct I as [A B C D E].
  - (* ShutEnter *) split; cbn; intros.
    + destruct (upd_shut_cases (shut s) h (mkShut HEntered (h_ctx (shut s h))) h0) as [[-> U]|[N U]]; rewrite U in *; [discriminate|eauto].
    + destruct (upd_shut_cases (shut s) h (mkShut HEntered (h_ctx (shut s h))) h0) as [[-> U]|[N U]]; rewrite U in *; [discriminate|].
      destruct (upd_shut_cases (shut s) h (mkShut HEntered (h_ctx (shut s h))) h') as [[-> U']|[N' U']]; rewrite U' in *; [discriminate|eauto].
    + destruct (C H) as [h0 Hc]. exists h0.
      destruct (upd_shut_cases (shut s) h (mkShut HEntered (h_ctx (shut s h))) h0) as [[-> U]|[N U]]; rewrite U; [|exact Hc].
      unfold closer in Hc. rewrite Heqs0 in Hc. discriminate.
    + destruct (upd_shut_cases (shut s) h (mkShut HEntered (h_ctx (shut s h))) h0) as [[-> U]|[N U]]; rewrite U in *; [discriminate|eauto].
    + destruct (upd_shut_cases (shut s) h (mkShut HEntered (h_ctx (shut s h))) h0) as [[-> U]|[N U]]; rewrite U in *; [discriminate|eauto].
  - (* ShutClose, already closed *) split; cbn; intros.
    + exact Heqb.
    + destruct (upd_shut_cases (shut s) h (mkShut (HRet (Some E_CLOSED)) (h_ctx (shut s h))) h0) as [[-> U]|[N U]]; rewrite U in *; [discriminate|].
      destruct (upd_shut_cases (shut s) h (mkShut (HRet (Some E_CLOSED)) (h_ctx (shut s h))) h') as [[-> U']|[N' U']]; rewrite U' in *; [discriminate|eauto].
    + destruct (C Heqb) as [h0 Hc]. exists h0.
      destruct (upd_shut_cases (shut s) h (mkShut (HRet (Some E_CLOSED)) (h_ctx (shut s h))) h0) as [[-> U]|[N U]]; rewrite U; [|exact Hc].
      unfold closer in Hc. rewrite Heqs0 in Hc. discriminate.
    + destruct (upd_shut_cases (shut s) h (mkShut (HRet (Some E_CLOSED)) (h_ctx (shut s h))) h0) as [[-> U]|[N U]]; rewrite U in *; [discriminate|eauto].
    + destruct (upd_shut_cases (shut s) h (mkShut (HRet (Some E_CLOSED)) (h_ctx (shut s h))) h0) as [[-> U]|[N U]]; rewrite U in *.
      * cbn in H. injection H as <-. right. auto.
      * eauto.
  - (* ShutClose, this caller closes *) split; cbn; intros.
    + reflexivity.
    + assert (forall k, closer (shut s k) = true -> False) as NC.
      { intros k Hk. rewrite (A k Hk) in Heqb. discriminate. }
      destruct (upd_shut_cases (shut s) h (mkShut HWaiting (h_ctx (shut s h))) h0) as [[-> U]|[N U]]; rewrite U in *;
      destruct (upd_shut_cases (shut s) h (mkShut HWaiting (h_ctx (shut s h))) h') as [[-> U']|[N' U']]; rewrite U' in *;
        try reflexivity; exfalso; eauto.
    + exists h. rewrite upd_same. reflexivity.
    + destruct (upd_shut_cases (shut s) h (mkShut HWaiting (h_ctx (shut s h))) h0) as [[-> U]|[N U]]; rewrite U in *; [discriminate|eauto].
    + destruct (upd_shut_cases (shut s) h (mkShut HWaiting (h_ctx (shut s h))) h0) as [[-> U]|[N U]]; rewrite U in *; [discriminate|].
      destruct (E _ _ H) as [?|[? ?]]; auto.
  - (* ShutDone *) split; cbn; intros.
    + destruct (upd_shut_cases (shut s) h (mkShut (HRet None) (h_ctx (shut s h))) h0) as [[-> U]|[N U]]; rewrite U in *; [|eauto].
      apply (A h). unfold closer. now rewrite Heqs0.
    + assert (closer (shut s h) = true) as Ch by (unfold closer; now rewrite Heqs0).
      destruct (upd_shut_cases (shut s) h (mkShut (HRet None) (h_ctx (shut s h))) h0) as [[-> U]|[N U]]; rewrite U in *;
      destruct (upd_shut_cases (shut s) h (mkShut (HRet None) (h_ctx (shut s h))) h') as [[-> U']|[N' U']]; rewrite U' in *;
        try reflexivity; eauto; try (symmetry; eauto).
    + destruct (C H) as [h0 Hc]. exists h0.
      destruct (upd_shut_cases (shut s) h (mkShut (HRet None) (h_ctx (shut s h))) h0) as [[-> U]|[N U]]; rewrite U; [reflexivity|exact Hc].
    + exact Heqb.
    + destruct (upd_shut_cases (shut s) h (mkShut (HRet None) (h_ctx (shut s h))) h0) as [[-> U]|[N U]]; rewrite U in *; [discriminate|eauto].
  - (* ShutCtx *) split; cbn; intros.
    + destruct (upd_shut_cases (shut s) h (mkShut (HRet (Some E_CTX)) true) h0) as [[-> U]|[N U]]; rewrite U in *; [|eauto].
      apply (A h). unfold closer. now rewrite Heqs0.
    + assert (closer (shut s h) = true) as Ch by (unfold closer; now rewrite Heqs0).
      destruct (upd_shut_cases (shut s) h (mkShut (HRet (Some E_CTX)) true) h0) as [[-> U]|[N U]]; rewrite U in *;
      destruct (upd_shut_cases (shut s) h (mkShut (HRet (Some E_CTX)) true) h') as [[-> U']|[N' U']]; rewrite U' in *;
        try reflexivity; eauto; try (symmetry; eauto).
    + destruct (C H) as [h0 Hc]. exists h0.
      destruct (upd_shut_cases (shut s) h (mkShut (HRet (Some E_CTX)) true) h0) as [[-> U]|[N U]]; rewrite U; [reflexivity|exact Hc].
    + destruct (upd_shut_cases (shut s) h (mkShut (HRet (Some E_CTX)) true) h0) as [[-> U]|[N U]]; rewrite U in *; [discriminate|eauto].
    + destruct (upd_shut_cases (shut s) h (mkShut (HRet (Some E_CTX)) true) h0) as [[-> U]|[N U]]; rewrite U in *; [|eauto].
      cbn in H. injection H as <-. left. auto.
  - (* HCancel *) split; cbn; intros.
    + destruct (upd_shut_cases (shut s) h (mkShut (h_pc (shut s h)) true) h0) as [[-> U]|[N U]]; rewrite U in *; eauto.
    + destruct (upd_shut_cases (shut s) h (mkShut (h_pc (shut s h)) true) h0) as [[-> U]|[N U]]; rewrite U in *;
      destruct (upd_shut_cases (shut s) h (mkShut (h_pc (shut s h)) true) h') as [[-> U']|[N' U']]; rewrite U' in *; eauto.
    + destruct (C H) as [h0 Hc]. exists h0.
      destruct (upd_shut_cases (shut s) h (mkShut (h_pc (shut s h)) true) h0) as [[-> U]|[N U]]; rewrite U; exact Hc.
    + destruct (upd_shut_cases (shut s) h (mkShut (h_pc (shut s h)) true) h0) as [[-> U]|[N U]]; rewrite U in *; eauto.
    + destruct (upd_shut_cases (shut s) h (mkShut (h_pc (shut s h)) true) h0) as [[-> U]|[N U]]; rewrite U in *; [|eauto].
      cbn in H. destruct (E _ _ H) as [[? ?]|[? ?]]; auto.
Qed.

Lemma shut_ok_run ls : forall s s', shut_ok s -> run s ls = Some s' -> shut_ok s'.
Proof.
  induction ls as [|l ls IH]; intros s s' I H; cbn in H.
  - now injection H as <-.
  - destruct (step s l) as [s1|] eqn:E; [|discriminate]. eapply IH; [|exact H]. eapply shut_ok_step; eauto.
Qed.

Lemma shut_ok_reachable s : reachable s -> shut_ok s.
Proof. intros [ls H]. eapply shut_ok_run; [apply shut_ok_init|exact H]. Qed.

(* ---- progress ----------------------------------------------------------------- *)
Definition sub_pending (p : sub_pc) : bool :=
  match p with AtSel1 | AtSel2 | AtSel3 | Draining => true | _ => false end.
Definition pub_pending (p : pub_pc) : bool :=
  match p with PAtSel | PWait => true | _ => false end.
Definition shut_pending (p : shut_pc) : bool :=
  match p with HEntered | HWaiting => true | _ => false end.

(* something is still to be done: the loop has not exited, or some call has not returned *)
Definition unfinished (s : state) : Prop :=
  pc s <> Exited \/ (exists i, sub_pending (s_pc (sub s i)) = true)
  \/ (exists p, pub_pending (p_pc (pub s p)) = true) \/ (exists h, shut_pending (h_pc (shut s h)) = true).

Ltac ex l Hpc := exists l; split; [reflexivity|]; unfold step; rewrite Hpc; cbn [step_live]; rewrite ?Hpc, ?Nat.eqb_refl; cbn.

Ltac okp_contra I p Hpc :=
  exfalso; pose proof (inv_pub _ I p) as O; unfold ploc, okp in O; rewrite ?Hpc in O; cbn in O;
  rewrite ?Nat.eqb_refl in O; cbn in O; rw_in O; cbn in O;
  repeat match type of O with
  | context [p_eclosed ?a] => destruct (p_eclosed a) eqn:?
  | context [some ?a] => destruct (some a) eqn:?
  | context [ppcl_of ?a] => destruct (ppcl_of a) eqn:?
  end; cbn in *; try discriminate; try congruence.

Ltac ok_contra I i Hpc :=
  exfalso; pose proof (inv_sub _ I i) as O; unfold loc in O; rewrite ?Hpc in O; cbn [view_of todo_of] in O;
  rewrite ?Nat.eqb_refl in O; rw_in O; cbn in O; crush_ok O.

Theorem progress s :
  reachable s -> done_closed s = true -> unfinished s ->
  exists l, internal l = true /\ step s l <> None.
Proof.
  intros R Hd U. pose proof (inv_reachable s R) as I. pose proof (no_panic s R) as Hnp.
  destruct (pc s) eqn:Hpc.
  - ex LIdle Hpc. discriminate.
  - ex LDone Hpc. rewrite Hd. discriminate.
  - destruct (rep s) eqn:Hrep.
    + ex (LPut p VOk) Hpc. rewrite Hrep. discriminate.
    + ex (LErrs p) Hpc. rewrite Hrep. cbn. destruct (p_eclosed (pub s p)); discriminate.
  - ex (LPutRes p) Hpc. destruct v; try discriminate.
    destruct (p_eclosed (pub s p)) eqn:Hc; [discriminate|].
    destruct (p_ebuf (pub s p)) eqn:Hb; [|discriminate]. okp_contra I p Hpc.
  - ex (LErrs p) Hpc. destruct (p_eclosed (pub s p)); discriminate.
  - destruct todo as [|i t].
    + ex LIdle Hpc. discriminate.
    + ex (LSend i VOk) Hpc. rewrite mem_cons, Nat.eqb_refl. cbn. discriminate.
  - ex (LFlush i VOk) Hpc. discriminate.
  - ex (LFail i) Hpc. unfold send_done.
    destruct (s_dclosed (sub s i)) eqn:Hc; [discriminate|].
    destruct (s_dbuf (sub s i)) eqn:Hb; [|discriminate]. ok_contra I i Hpc.
  - destruct (mem i (subs s)) eqn:Hm.
    + ex (LRemove i) Hpc. rewrite Hm. unfold close_done. cbn. destruct (s_dclosed (sub s i)); discriminate.
    + ex (LRemoveSkip i) Hpc. rewrite Hm. discriminate.
  - destruct (rep s) eqn:Hrep.
    + ex (LReplay i) Hpc. rewrite Hrep. discriminate.
    + ex (LReg i) Hpc. rewrite Hrep. discriminate.
  - ex (LReplayed i VOk) Hpc. discriminate.
  - ex (LReject i) Hpc. unfold send_done, close_done.
    destruct (s_dclosed (sub s i)) eqn:Hc; [discriminate|].
    destruct (s_dbuf (sub s i)) eqn:Hb.
    + ok_contra I i Hpc.
    + cbn. rewrite upd_same. cbn. rewrite Hc. discriminate.
  - ex (LReg i) Hpc. discriminate.
  - destruct (mem i (subs s)) eqn:Hm.
    + ex (LRemove i) Hpc. rewrite Hm. unfold close_done. cbn. destruct (s_dclosed (sub s i)); discriminate.
    + ex (LRemoveSkip i) Hpc. rewrite Hm. discriminate.
  - destruct (subs s) as [|i r] eqn:Hs.
    + ex LExit Hpc. rewrite Hs. destruct (closed_closed s); discriminate.
    + ex (LRemove i) Hpc. rewrite Hs, mem_cons, Nat.eqb_refl. cbn. unfold close_done. cbn.
      destruct (s_dclosed (sub s i)); discriminate.
  - destruct U as [U|[[i U]|[[p U]|[h U]]]]; [congruence| | |].
    + destruct (s_pc (sub s i)) eqn:Hs; try discriminate U.
      * ex (SubClosed i) Hpc. rewrite Hs, Hd. discriminate.
      * ex (SubDone i) Hpc. rewrite Hs. unfold recv1.
        destruct (s_dbuf (sub s i)) eqn:Hb; [discriminate|].
        destruct (s_dclosed (sub s i)) eqn:Hc; [discriminate|]. ok_contra I i Hpc.
      * ex (SubDone i) Hpc. rewrite Hs. unfold recv1.
        destruct (s_dbuf (sub s i)) eqn:Hb; [discriminate|].
        destruct (s_dclosed (sub s i)) eqn:Hc; [discriminate|]. ok_contra I i Hpc.
      * ex (SubDone i) Hpc. rewrite Hs. unfold recv1.
        destruct (s_dbuf (sub s i)) eqn:Hb; [discriminate|].
        destruct (s_dclosed (sub s i)) eqn:Hc; [discriminate|]. ok_contra I i Hpc.
    + destruct (p_pc (pub s p)) eqn:Hs; try discriminate U.
      * ex (PubClosed p) Hpc. rewrite Hs, Hd. discriminate.
      * ex (PubRecv p) Hpc. rewrite Hs. unfold recv1.
        destruct (p_ebuf (pub s p)) eqn:Hb; [discriminate|].
        destruct (p_eclosed (pub s p)) eqn:Hc; [discriminate|]. okp_contra I p Hpc.
    + destruct (h_pc (shut s h)) eqn:Hs; try discriminate U.
      * ex (ShutClose h) Hpc. rewrite Hs. destruct (done_closed s); discriminate.
      * ex (ShutDone h) Hpc. rewrite Hs.
        pose proof (inv_glob _ I) as G. unfold glob_ok in G. rewrite Hpc in G.
        destruct (closed_closed s); [discriminate|discriminate G].
  - congruence.
Qed.
