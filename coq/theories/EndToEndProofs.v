(* C05: across any sequence of connection cuts the client receives a contiguous, duplicate-free,
   in-order segment of the published sequence, starting right after the event it first had. *)
From GoSse Require Import Base Lines Fields Queue FieldParser Message MessageProofs MessageApi Whatwg TextLines WireDecode PrefixDecode EndToEnd.
Local Open Scope nat_scope.

Definition pub_msg_ok (m : msg) : Prop := msg_ok m /\ is_set (m_id m) = true /\ exists w, wire m = Some w.
Definition pub_ok (order : list msg) : Prop := Forall pub_msg_ok order /\ NoDup (map mid order).

(* ---- list facts -------------------------------------------------------------------- *)
Lemma firstn_add {A} (l : list A) : forall k n, firstn (k + n) l = firstn k l ++ firstn n (skipn k l).
Proof.
  induction l as [|x l IH]; intros k n.
  - now rewrite !firstn_nil, skipn_nil, firstn_nil.
  - destruct k; [reflexivity|]. cbn [Nat.add firstn skipn app]. now rewrite IH.
Qed.

Lemma firstn_firstn_le {A} (l : list A) a b : a <= b -> firstn a (firstn b l) = firstn a l.
Proof. intros H. rewrite firstn_firstn. now rewrite Nat.min_l. Qed.

Lemma split_at_nth {A} (l : list A) k d : k < length l -> l = firstn k l ++ nth k l d :: skipn (S k) l.
Proof.
  revert k; induction l as [|x l IH]; intros k Hk; cbn [length] in Hk; [lia|].
  destruct k; [reflexivity|]. cbn [firstn nth skipn app]. f_equal. apply IH. lia.
Qed.

Lemma NoDup_app_l {A} (a b : list A) : NoDup (a ++ b) -> NoDup a.
Proof. induction a as [|x a IH]; intros H; [constructor|]. inversion H; subst. constructor; [rewrite in_app_iff in *; tauto|auto]. Qed.

(* ---- the replayer's resume ----------------------------------------------------------- *)
Lemma resume_after pre : forall m post,
  NoDup (map mid (pre ++ m :: post)) -> resume (pre ++ m :: post) (mid m) = post.
Proof.
  induction pre as [|x pre IH]; intros m post Hnd; cbn [app resume].
  - now rewrite bytes_eqb_refl.
  - cbn [app map] in Hnd. inversion Hnd as [|? ? Hnotin Hnd']; subst.
    destruct (bytes_eqb (mid x) (mid m)) eqn:E; [|now apply IH].
    apply bytes_eqb_eq in E. exfalso. apply Hnotin. rewrite map_app, in_app_iff. right. left. now symmetry.
Qed.

(* ---- messages with an ID always dispatch, as themselves ---------------------------- *)
Lemma expected_with_ids : forall ms last,
  Forall (fun m => is_set (m_id m) = true) ms -> expected_events gosse_conn last ms = map event_of ms.
Proof.
  induction ms as [|m ms IH]; intros last H; [reflexivity|]. inversion H as [|? ? Hm Hrest]; subst.
  cbn [expected_events map]. unfold msg_dispatches, msg_dirty. cbn [md_dispatch_dirty gosse_conn]. rewrite Hm. cbn [orb app].
  rewrite IH by assumption. f_equal. unfold msg_event, event_of, msg_last, mid.
  destruct (m_id m) as [v|]; [|discriminate]. cbn [value]. f_equal.
  - cbn [md_default_type gosse_conn]. destruct (value (m_type m)); reflexivity.
  - apply strip_data_buf.
Qed.

Lemma wires_of_pub ms : Forall pub_msg_ok ms -> Forall2 (fun m w => wire m = Some w) ms (map wire' ms).
Proof.
  induction 1 as [|m ms (Hok & Hid & (w & Hw)) Hrest IH]; cbn [map]; constructor; [|exact IH].
  unfold wire'. now rewrite Hw.
Qed.

Lemma pub_parts ms : Forall pub_msg_ok ms ->
  Forall msg_ok ms /\ Forall (fun m => is_set (m_id m) = true) ms.
Proof. intros H. split; eapply Forall_impl; try exact H; intros m (H1 & H2 & H3); assumption. Qed.

Lemma Forall_skipn {A} (P : A -> Prop) k l : Forall P l -> Forall P (skipn k l).
Proof. revert l; induction k as [|k IH]; intros l H; cbn [skipn]; [assumption|]. destruct H; [constructor|auto]. Qed.

(* what one connection delivers: the first k of the messages in its body, for some k *)
Lemma client_conn_events last ms cut :
  Forall pub_msg_ok ms ->
  exists k, k <= length ms /\ events_of (client_conn last ms cut) = map event_of (firstn k ms) /\
            (cut = None -> k = length ms).
Proof.
  intros Hpub. destruct (pub_parts ms Hpub) as [Hok Hids]. pose proof (wires_of_pub ms Hpub) as Hw.
  destruct cut as [[c e]|]; cbn [client_conn].
  - destruct (prefix_decode gosse_conn ms (map wire' ms) last c e Hok Hw) as (k & p & _ & Hk & _ & _ & Hev).
    exists k. split; [|split; [|discriminate]].
    + rewrite map_length in Hk. destruct Hk as [[-> _]|[H _]]; lia.
    + rewrite Hev. apply expected_with_ids. now apply Forall_firstn.
  - exists (length ms). split; [lia|]. split; [|reflexivity].
    rewrite (wires_decode gosse_conn ms (map wire' ms) last Hok Hw), firstn_all. now apply expected_with_ids.
Qed.

(* the body of a connection, when the client presents the ID of the message before B *)
Lemma body_after A m B cn :
  NoDup (map mid (A ++ m :: B)) ->
  S (length A) <= cn_p cn -> cn_p cn <= cn_j cn ->
  body_msgs (A ++ m :: B) (mid m) cn = firstn (cn_j cn - S (length A)) B.
Proof.
  intros Hnd Hp Hj. unfold body_msgs. set (p := cn_p cn) in *. set (j := cn_j cn) in *.
  assert (Hf : forall n, S (length A) <= n -> firstn n (A ++ m :: B) = A ++ m :: firstn (n - S (length A)) B).
  { intros n Hn. rewrite firstn_app. rewrite firstn_all2 by lia. f_equal.
    replace (n - length A) with (S (n - S (length A))) by lia. reflexivity. }
  rewrite (Hf p Hp), (Hf j ltac:(lia)).
  rewrite resume_after.
  2:{ rewrite <- (Hf p Hp). rewrite <- (firstn_skipn p (A ++ m :: B)) in Hnd. rewrite map_app in Hnd. now apply NoDup_app_l in Hnd. }
  replace (A ++ m :: firstn (j - S (length A)) B) with ((A ++ [m]) ++ firstn (j - S (length A)) B) by (now rewrite <- app_assoc).
  rewrite skipn_app. rewrite (skipn_all2 (A ++ [m])) by (rewrite app_length; cbn; lia). cbn [app].
  rewrite app_length. cbn [length]. replace (p - (length A + 1)) with (p - S (length A)) by lia.
  set (a := p - S (length A)). set (b := j - S (length A)).
  rewrite <- (firstn_firstn_le B a b) by (unfold a, b; lia). apply firstn_skipn.
Qed.

Lemma firstn_S_snoc {A} (l : list A) k d : k < length l -> firstn (S k) l = firstn k l ++ [nth k l d].
Proof.
  revert k; induction l as [|x l IH]; intros k Hk; cbn [length] in Hk; [lia|].
  destruct k; [reflexivity|]. cbn [firstn nth app]. f_equal. apply IH. lia.
Qed.

Lemma last_of_firstn B k last d : k < length B -> last_of (map event_of (firstn (S k) B)) last = mid (nth k B d).
Proof.
  intros Hk. rewrite (firstn_S_snoc B k d Hk). unfold last_of. rewrite map_app, rev_app_distr. reflexivity.
Qed.

Lemma nth_skipn_add {A} (l : list A) : forall n k d, nth k (skipn n l) d = nth (n + k) l d.
Proof. induction l as [|x l IH]; intros [|n] k d; cbn [skipn Nat.add nth]; try reflexivity; [now destruct k|apply IH]. Qed.
Lemma skipn_skipn_add {A} (l : list A) : forall n k, skipn k (skipn n l) = skipn (n + k) l.
Proof.
  induction l as [|x l IH]; intros [|n] k; cbn [skipn Nat.add]; try reflexivity; [now rewrite skipn_nil|apply IH].
Qed.

(* one connection, when the client has received the event of m and the first n messages of B *)
Lemma conn_step order A m B n cn :
  pub_ok order -> order = A ++ m :: B -> n <= length B ->
  S (length A) + n <= cn_p cn -> cn_p cn <= cn_j cn -> cn_j cn <= length order ->
  let last := mid (nth n (m :: B) m) in
  let evs := events_of (client_conn last (body_msgs order last cn) (cn_cut cn)) in
  exists k, evs = map event_of (firstn k (skipn n B)) /\ n + k <= length B /\
            S (length A) + n + k <= cn_j cn /\ (cn_cut cn = None -> S (length A) + n + k = cn_j cn) /\
            last_of evs last = mid (nth (n + k) (m :: B) m).
Proof.
  intros [Hpub Hnd] Ho Hn Hp Hj Hjl last evs. subst evs.
  set (A' := A ++ firstn n (m :: B)). set (B' := skipn n B).
  assert (Ho' : order = A' ++ nth n (m :: B) m :: B').
  { rewrite Ho. unfold A', B'. rewrite <- app_assoc. f_equal.
    rewrite (split_at_nth (m :: B) n m) at 1 by (cbn [length]; lia). reflexivity. }
  assert (HlenA : length A' = length A + n).
  { unfold A'. rewrite app_length, firstn_length. cbn [length]. lia. }
  assert (HlenB : length B' = length B - n) by (unfold B'; now rewrite skipn_length).
  assert (Hbody : body_msgs order last cn = firstn (cn_j cn - S (length A')) B').
  { rewrite Ho'. apply body_after; [rewrite <- Ho'; exact Hnd|lia|exact Hj]. }
  rewrite Hbody.
  assert (HpubB : Forall pub_msg_ok B').
  { rewrite Ho' in Hpub. apply Forall_app in Hpub as [_ H]. now inversion H. }
  assert (Hjb : cn_j cn - S (length A') <= length B').
  { rewrite Ho', app_length in Hjl. cbn [length] in Hjl. lia. }
  destruct (client_conn_events last (firstn (cn_j cn - S (length A')) B') (cn_cut cn)
              (Forall_firstn _ _ _ HpubB)) as (k & Hk & Hev & Hfull).
  rewrite firstn_length in Hk, Hfull. rewrite Nat.min_l in Hk, Hfull by exact Hjb.
  rewrite firstn_firstn_le in Hev by lia.
  exists k. rewrite Hev. split; [reflexivity|]. split; [lia|]. split; [lia|]. split; [intros H; specialize (Hfull H); lia|].
  destruct k as [|k'].
  - cbn [firstn map last_of rev]. now rewrite Nat.add_0_r.
  - rewrite (last_of_firstn B' k' last m) by lia. unfold B'. rewrite nth_skipn_add.
    replace (n + S k') with (S (n + k')) by lia. reflexivity.
Qed.

Definition final_conn (conns : list conn) : option conn := last (map Some conns) None.

Lemma final_conn_cons cn c0 r : final_conn (cn :: c0 :: r) = final_conn (c0 :: r).
Proof. reflexivity. Qed.

(* valid runs and what they deliver, from the state "event of m and n messages of B received" *)
Lemma end_to_end_gen order A m B : pub_ok order -> order = A ++ m :: B ->
  forall conns n, n <= length B ->
  valid_conns order (S (length A) + n) (mid (nth n (m :: B) m)) conns ->
  exists t, run_conns order (mid (nth n (m :: B) m)) conns = map event_of (firstn t (skipn n B)) /\
            n + t <= length B /\
            (forall cl, final_conn conns = Some cl -> cn_cut cl = None -> S (length A) + n + t = cn_j cl).
Proof.
  intros Hok Ho. induction conns as [|cn conns IH]; intros n Hn Hv.
  - exists 0. split; [reflexivity|]. split; [lia|discriminate].
  - cbn [run_conns valid_conns] in *. destruct Hv as (Hp & Hj & Hjl & Hv).
    destruct (conn_step order A m B n cn Hok Ho Hn Hp Hj Hjl) as (k & Hev & Hk & Hkj & Hfull & Hlast).
    cbn zeta in *. rewrite Hev in *. rewrite Hlast in *.
    rewrite map_length, firstn_length, skipn_length, Nat.min_l in Hv by lia.
    replace (S (length A) + n + k) with (S (length A) + (n + k)) in Hv by lia.
    destruct (IH (n + k) Hk Hv) as (t & Ht & Htl & Hfin).
    exists (k + t). split; [|split; [lia|]].
    + rewrite Ht, firstn_add, map_app, skipn_skipn_add. reflexivity.
    + intros cl Hcl Hnone. destruct conns as [|c0 r].
      * cbn in Hcl. injection Hcl as <-. cbn in Ht.
        assert (t = 0).
        { symmetry in Ht. apply map_eq_nil in Ht. apply (f_equal (@length msg)) in Ht.
          rewrite firstn_length, skipn_length in Ht. cbn [length] in Ht. lia. }
        specialize (Hfull Hnone). lia.
      * rewrite final_conn_cons in Hcl. specialize (Hfin cl Hcl Hnone). lia.
Qed.

(* MAIN: the client already holds the event of m; everything it receives afterwards, over any
   valid sequence of cut connections, is a prefix of what was published after m - every event
   once, in order, as published; and when the final connection is not cut before the handler
   ends, it is ALL of the j messages published by then *)
Theorem end_to_end order : pub_ok order ->
  forall conns A m B, order = A ++ m :: B ->
  valid_conns order (S (length A)) (mid m) conns ->
  exists n, run_conns order (mid m) conns = map event_of (firstn n B) /\ n <= length B /\
            (forall cl, final_conn conns = Some cl -> cn_cut cl = None -> S (length A) + n = cn_j cl).
Proof.
  intros Hok conns A m B Ho Hv.
  destruct (end_to_end_gen order A m B Hok Ho conns 0 ltac:(lia)) as (t & Ht & Htl & Hfin).
  { rewrite Nat.add_0_r. exact Hv. }
  exists t. cbn [nth skipn Nat.add] in *. split; [exact Ht|]. split; [exact Htl|].
  intros cl H1 H2. specialize (Hfin cl H1 H2). lia.
Qed.
