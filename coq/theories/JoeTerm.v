(* C07 on the LTS: every sequence of internal steps is finite (a lexicographic measure decreases). *)
From GoSse Require Import Base JoeLts JoeLocal JoeProj JoePub JoeInv JoeSafety JoeLive.
From Coq Require Import Lia.
Local Open Scope nat_scope.

Fixpoint sum (f : nat -> nat) (n : nat) : nat :=
  match n with 0 => 0 | S k => f k + sum f k end.

Lemma sum_ext f g n : (forall k, k < n -> f k = g k) -> sum f n = sum g n.
Proof.
  induction n as [|n IH]; intros H; cbn; [reflexivity|].
  rewrite (H n), IH; auto.
Qed.

Lemma sum_upd {A} (g : A -> nat) (f : nat -> A) i x n :
  i < n -> sum (fun k => g (upd f i x k)) n + g (f i) = sum (fun k => g (f k)) n + g x.
Proof.
  induction n as [|n IH]; intros H; [lia|]. cbn [sum].
  destruct (Nat.eq_dec i n) as [->|N].
  - rewrite upd_same.
    rewrite (sum_ext (fun k => g (upd f n x k)) (fun k => g (f k)) n).
    + lia.
    + intros k Hk. rewrite upd_other; [reflexivity|]. apply Nat.eqb_neq. lia.
  - rewrite upd_other by (apply Nat.eqb_neq; lia).
    assert (i < n) as Hi by lia. specialize (IH Hi). lia.
Qed.

Definition wS (p : sub_pc) : nat :=
  match p with AtSel1 => 4 | AtSel2 => 3 | AtSel3 => 2 | Draining => 1 | _ => 0 end.
Definition wP (p : pub_pc) : nat := match p with PAtSel => 2 | PWait => 1 | _ => 0 end.
Definition wH (p : shut_pc) : nat := match p with HEntered => 2 | HWaiting => 1 | _ => 0 end.

(* pending work of the calls 0..n-1 *)
Definition muA (n : nat) (s : state) : nat :=
  sum (fun i => wS (s_pc (sub s i))) n + sum (fun p => wP (p_pc (pub s p))) n
  + sum (fun h => wH (h_pc (shut s h))) n.

(* pending work of the loop in its current iteration *)
Definition muB (s : state) : nat :=
  let n := length (subs s) in
  n + match pc s with
      | Exited => 0 | Exiting => 1 | Idle => 2 | Top => 3
      | GotUnsub _ => 4 | Registering _ => 5 | Rejecting _ _ => 5 | Replaying _ => 6 | GotSub _ => 7
      | Fan _ t => 6 * length t + 3
      | Flushing _ _ t => 6 * length t + 8
      | Failing _ _ _ t => 6 * length t + 7
      | Removing _ _ t => 6 * length t + 6
      | ErrsReady _ => 6 * n + 4 | PutDone _ _ => 6 * n + 5 | GotMsg _ => 6 * n + 6
      | Panicked => 0
      end.

(* no call with index >= n has started *)
Definition bounded (n : nat) (s : state) : Prop :=
  forall i, n <= i -> s_pc (sub s i) = S0 /\ p_pc (pub s i) = P0 /\ h_pc (shut s i) = H0.

Lemma length_rem_le i l : length (rem i l) <= length l.
Proof.
  induction l as [|x l IH]; [unfold rem; cbn [length]; lia|].
  change (rem i (x :: l)) with (if Nat.eqb i x then rem i l else x :: rem i l).
  destruct (Nat.eqb i x); cbn [length]; lia.
Qed.

Lemma length_rem_lt i l : mem i l = true -> length (rem i l) < length l.
Proof.
  induction l as [|x l IH]; intros H; [discriminate|]. rewrite mem_cons in H.
  change (rem i (x :: l)) with (if Nat.eqb i x then rem i l else x :: rem i l).
  destruct (Nat.eqb i x) eqn:E.
  - pose proof (length_rem_le i l). cbn [length]. lia.
  - cbn in H. specialize (IH H). cbn [length]. lia.
Qed.

Lemma filter_len_le {A} (f : A -> bool) l : length (filter f l) <= length l.
Proof. induction l as [|x l IH]; cbn; [lia|]. destruct (f x); cbn; lia. Qed.

Lemma muA_same n s s' :
  (forall k, s_pc (sub s' k) = s_pc (sub s k)) -> pub s' = pub s -> shut s' = shut s -> muA n s' = muA n s.
Proof.
  intros H1 H2 H3. unfold muA. rewrite H2, H3. f_equal. f_equal. apply sum_ext. intros k _. now rewrite H1.
Qed.

Lemma muA_same_pub n s s' :
  sub s' = sub s -> (forall k, p_pc (pub s' k) = p_pc (pub s k)) -> shut s' = shut s -> muA n s' = muA n s.
Proof.
  intros H1 H2 H3. unfold muA. rewrite H1, H3. f_equal. f_equal. apply sum_ext. intros k _. now rewrite H2.
Qed.

Lemma spc_upd_same (f : nat -> sub_t) i x k : s_pc x = s_pc (f i) -> s_pc (upd f i x k) = s_pc (f k).
Proof.
  intros H. unfold upd. destruct (Nat.eqb k i) eqn:E; [|reflexivity]. apply Nat.eqb_eq in E. now subst.
Qed.
Lemma ppc_upd_same (f : nat -> pub_t) i x k : p_pc x = p_pc (f i) -> p_pc (upd f i x k) = p_pc (f k).
Proof.
  intros H. unfold upd. destruct (Nat.eqb k i) eqn:E; [|reflexivity]. apply Nat.eqb_eq in E. now subst.
Qed.

Lemma in_bound_sub n s i : bounded n s -> s_pc (sub s i) <> S0 -> i < n.
Proof. intros B H. destruct (Nat.lt_ge_cases i n) as [L|G]; [exact L|]. destruct (B i G) as (E & _). contradiction. Qed.
Lemma in_bound_pub n s i : bounded n s -> p_pc (pub s i) <> P0 -> i < n.
Proof. intros B H. destruct (Nat.lt_ge_cases i n) as [L|G]; [exact L|]. destruct (B i G) as (_ & E & _). contradiction. Qed.
Lemma in_bound_shut n s i : bounded n s -> h_pc (shut s i) <> H0 -> i < n.
Proof. intros B H. destruct (Nat.lt_ge_cases i n) as [L|G]; [exact L|]. destruct (B i G) as (_ & _ & E). contradiction. Qed.

Definition lex_lt (a b : nat * nat) : Prop := fst a < fst b \/ (fst a = fst b /\ snd a < snd b).
Definition mu (n : nat) (s : state) : nat * nat := (muA n s, muB s).

Ltac lens :=
  repeat match goal with
  | H : mem ?i ?l = true |- _ =>
      lazymatch goal with _ : length (rem i l) < length l |- _ => fail | _ => pose proof (length_rem_lt i l H) end
  end;
  repeat match goal with
  | |- context [rem ?i ?l] =>
      lazymatch goal with _ : length (rem i l) <= length l |- _ => fail | _ => pose proof (length_rem_le i l) end
  end;
  repeat match goal with
  | |- context [filter ?f ?l] =>
      lazymatch goal with _ : length (filter f l) <= length l |- _ => fail | _ => pose proof (filter_len_le f l) end
  end.

(* a call's own step: its weight drops *)
Ltac thread_dec n :=
  left; unfold mu, muA; cbn [fst snd sub pub shut set_sub set_pc set_order set_pub set_shut set_done_closed];
  first
  [ match goal with
    | B : bounded n ?s, E : s_pc (sub ?s ?i) = _ |- context [upd (sub ?s) ?i ?x] =>
        assert (i < n) as L by (apply (in_bound_sub n s i B); rewrite E; discriminate);
        pose proof (sum_upd (fun y => wS (s_pc y)) (sub s) i x n L) as SU; cbn beta in SU;
        cbn [s_pc w_pc w_dbuf w_ctx] in SU; rewrite E in SU; cbn [wS] in SU; lia
    end
  | match goal with
    | B : bounded n ?s, E : p_pc (pub ?s ?i) = _ |- context [upd (pub ?s) ?i ?x] =>
        assert (i < n) as L by (apply (in_bound_pub n s i B); rewrite E; discriminate);
        pose proof (sum_upd (fun y => wP (p_pc y)) (pub s) i x n L) as SU; cbn beta in SU;
        cbn [p_pc wp_pc wp_ebuf] in SU; rewrite E in SU; cbn [wP] in SU; lia
    end
  | match goal with
    | B : bounded n ?s, E : h_pc (shut ?s ?i) = _ |- context [upd (shut ?s) ?i ?x] =>
        assert (i < n) as L by (apply (in_bound_shut n s i B); rewrite E; discriminate);
        pose proof (sum_upd (fun y => wH (h_pc y)) (shut s) i x n L) as SU; cbn beta in SU;
        cbn [h_pc] in SU; rewrite E in SU; cbn [wH] in SU; lia
    end ].

(* a step of the loop: the calls' weights are untouched, the loop's rank drops *)
Ltac loop_dec :=
  right; unfold mu; cbn [fst snd]; split;
  [ first [ reflexivity
          | apply muA_same; cbn; intros; try reflexivity; apply spc_upd_same; reflexivity
          | apply muA_same_pub; cbn; intros; try reflexivity; apply ppc_upd_same; reflexivity ]
  | unfold muB; cbn [pc subs set_pc set_sub set_subs set_pub set_rep set_puts set_closed_closed length];
    rw; cbn [length]; lens; try lia ].

Lemma measure_step n s l s' :
  bounded n s -> internal l = true -> step s l = Some s' -> lex_lt (mu n s') (mu n s).
Proof.
  intros B Hi H. apply step_live_of in H. destruct H as [Hnp H].
  destruct l; try discriminate Hi; clear Hi; cbn [step_live] in H; cbv zeta in H;
    unfold send_done, close_done, recv1, panic in H; brk H; injection H as <-; eqs.
  all: first [ thread_dec n | loop_dec | idtac ].
  all: right; unfold mu; cbn [fst snd]; split;
    [ apply muA_same; cbn; intros; try reflexivity;
      rewrite spc_upd_same by (rewrite upd_same; reflexivity); apply spc_upd_same; reflexivity
    | unfold muB; cbn [pc subs set_pc set_sub set_subs set_pub set_rep set_puts set_closed_closed length];
      rw; cbn [length]; lens; try lia ].
Qed.

Lemma lex_wf : well_founded lex_lt.
Proof.
  intros [a b]. revert b. induction a as [a IHa] using (well_founded_induction lt_wf).
  induction b as [b IHb] using (well_founded_induction lt_wf).
  constructor. intros [a' b'] [H|[H1 H2]]; cbn in *.
  - apply IHa. exact H.
  - subst. apply IHb. exact H2.
Qed.

(* s2 is an internal successor of s1 (calls 0..n-1 are the ones that were ever started) *)
Definition istep (n : nat) (s2 s1 : state) : Prop :=
  bounded n s1 /\ exists l, internal l = true /\ step s1 l = Some s2.

(* no infinite sequence of internal steps, from any state *)
Theorem internal_terminates n : well_founded (istep n).
Proof.
  intros s. remember (mu n s) as m eqn:Hm. revert s Hm.
  induction (lex_wf m) as [m _ IH]. intros s ->.
  constructor. intros s2 (B & l & Hi & Hs). eapply IH; [|reflexivity]. eapply measure_step; eauto.
Qed.

(* every reachable state is bounded by some n *)
Lemma bounded_mono n m s : n <= m -> bounded n s -> bounded m s.
Proof. intros L B i Hi. apply B. lia. Qed.

Lemma bounded_step_ex n s l s' : bounded n s -> step s l = Some s' -> exists m, n <= m /\ bounded m s'.
Proof.
  intros B H. apply step_live_of in H. destruct H as [Hnp H].
  assert (forall (f : nat -> sub_t) i x m, i < m -> n <= m -> (forall k, m <= k -> s_pc (f k) = S0) ->
          forall k, m <= k -> s_pc (upd f i x k) = S0) as US.
  { intros f i x m L1 L2 F k Hk. rewrite upd_other; [auto|]. apply Nat.eqb_neq. lia. }
  destruct l; cbn [step_live] in H; cbv zeta in H;
    unfold send_done, close_done, recv1, panic in H; brk H; injection H as <-; eqs.
  all: unfold bounded; cbn [sub pub shut set_pc set_subs set_rep set_done_closed set_closed_closed set_order set_puts set_sub set_pub set_shut].
  all: match goal with
       | |- context [upd _ ?i _] => exists (Nat.max n (S i))
       | |- _ => exists n
       end; (split; [lia|]).
  all: intros k Hk; cbn [sub pub shut set_pc set_subs set_rep set_done_closed set_closed_closed set_order set_puts set_sub set_pub set_shut].
  all: try (apply B; lia).
  all: destruct (B k ltac:(lia)) as (B1 & B2 & B3).
  all: repeat rewrite upd_other by (apply Nat.eqb_neq; lia).
  all: auto.
Qed.

Lemma reachable_bounded s : reachable s -> exists n, bounded n s.
Proof.
  intros [ls H]. assert (bounded 0 init) as B0 by (intros i _; cbn; auto).
  revert H. generalize init, 0, B0. induction ls as [|l ls IH]; intros s0 n B H; cbn in H.
  - injection H as <-. eauto.
  - destruct (step s0 l) as [s1|] eqn:E; [|discriminate].
    destruct (bounded_step_ex _ _ _ _ B E) as (m & _ & Bm). eapply IH; eauto.
Qed.

(* j.done stays closed *)
Lemma done_closed_mono s l s' : step s l = Some s' -> done_closed s = true -> done_closed s' = true.
Proof.
  intros H Hd. pose proof (shut_frame _ _ _ H) as F.
  destruct l; try (destruct F as (_ & F2 & _); now rewrite F2).
  all: clear F; apply step_live_of in H; destruct H as [Hnp H]; cbn [step_live] in H; brk H; injection H as <-; cbn; auto.
Qed.

Lemma done_closed_run ls : forall s s', run s ls = Some s' -> done_closed s = true -> done_closed s' = true.
Proof.
  induction ls as [|l ls IH]; intros s s' H Hd; cbn in H.
  - now injection H as <-.
  - destruct (step s l) as [s1|] eqn:E; [|discriminate]. eapply IH; [exact H|]. eapply done_closed_mono; eauto.
Qed.

(* from every reachable state a (new) Shutdown call can be made and closes j.done: together with
   [progress] and [internal_terminates], no reachable state is stuck for a reason other than
   waiting for the environment *)
Lemma shutdown_always_possible s h :
  reachable s -> h_pc (shut s h) = H0 ->
  exists s', run s [ShutEnter h; ShutClose h] = Some s' /\ done_closed s' = true.
Proof.
  intros R Hh. pose proof (no_panic s R) as Hnp.
  cbn [run]. unfold step at 1. destruct (pc s) eqn:Hpc; try congruence.
  all: cbn [step_live]; rewrite Hh; unfold step; cbn; rewrite Hpc; cbn; rewrite upd_same; cbn;
       destruct (done_closed s) eqn:Hd; eexists; (split; [reflexivity|]); cbn; auto.
Qed.

(* ---- the statements over label sequences, as used in props/C07.v ------------- *)
Lemma progress_run ls s :
  run init ls = Some s -> done_closed s = true -> unfinished s ->
  exists l, internal l = true /\ step s l <> None.
Proof. intros H. apply progress. now exists ls. Qed.

Lemma bounded_run ls s : run init ls = Some s -> exists n, bounded n s.
Proof. intros H. apply reachable_bounded. now exists ls. Qed.

(* Shutdown returned nil: j.closed is closed, the loop has exited, nobody is registered *)
Lemma shutdown_nil_run ls s h :
  run init ls = Some s -> h_pc (shut s h) = HRet None ->
  closed_closed s = true /\ pc s = Exited /\ forall j, registered s j = false.
Proof.
  intros H Hh. assert (reachable s) as R by now exists ls.
  pose proof (so_nil _ (shut_ok_reachable s R) h Hh) as C.
  pose proof (inv_reachable s R) as I. pose proof (inv_glob _ I) as G. unfold glob_ok in G. rewrite C in G.
  assert (pc s = Exited) as E by (destruct (pc s); cbn in G; try discriminate G; reflexivity).
  repeat split; auto. intros j. pose proof (inv_sub _ I j) as O. unfold loc in O. rewrite E in O.
  unfold registered. destruct (mem j (subs s)) eqn:M; [|reflexivity]. exfalso. cbn [view_of todo_of] in O. crush_ok O.
Qed.

Lemma shutdown_err_run ls s h e :
  run init ls = Some s -> h_pc (shut s h) = HRet (Some e) ->
  (e = E_CTX /\ h_ctx (shut s h) = true) \/ (e = E_CLOSED /\ done_closed s = true).
Proof. intros H. apply so_err. apply shut_ok_reachable. now exists ls. Qed.

Lemma one_closer_run ls s h h' :
  run init ls = Some s -> closer (shut s h) = true -> closer (shut s h') = true -> h = h' /\ done_closed s = true.
Proof.
  intros H C1 C2. assert (shut_ok s) as K by (apply shut_ok_reachable; now exists ls).
  split; [eapply so_unique; eauto|eapply so_closer_closed; eauto].
Qed.

Lemma closer_exists_run ls s :
  run init ls = Some s -> done_closed s = true -> exists h, closer (shut s h) = true.
Proof. intros H. apply so_exists. apply shut_ok_reachable. now exists ls. Qed.

Lemma shutdown_possible_run ls s h :
  run init ls = Some s -> h_pc (shut s h) = H0 ->
  exists s', run s [ShutEnter h; ShutClose h] = Some s' /\ done_closed s' = true.
Proof. intros H. apply shutdown_always_possible. now exists ls. Qed.

(* a state after Shutdown in which no internal step is enabled (the end of a maximal execution) has
   nothing left to do: the loop has exited and every Subscribe, Publish and Shutdown call returned *)
Lemma maximal_finished_run ls s :
  run init ls = Some s -> done_closed s = true ->
  (forall l, internal l = true -> step s l = None) ->
  pc s = Exited /\ (forall i, sub_pending (s_pc (sub s i)) = false)
  /\ (forall p, pub_pending (p_pc (pub s p)) = false) /\ (forall h, shut_pending (h_pc (shut s h)) = false).
Proof.
  intros H Hd Hmax.
  assert (~ unfinished s) as N.
  { intros U. destruct (progress_run ls s H Hd U) as (l & Hi & Hs). apply Hs. now apply Hmax. }
  repeat split.
  - destruct (pc s) eqn:E; try reflexivity; exfalso; apply N; left; rewrite E; discriminate.
  - intros i. destruct (sub_pending (s_pc (sub s i))) eqn:E; [|reflexivity].
    exfalso. apply N. right. left. eauto.
  - intros p. destruct (pub_pending (p_pc (pub s p))) eqn:E; [|reflexivity].
    exfalso. apply N. right. right. left. eauto.
  - intros h. destruct (shut_pending (h_pc (shut s h))) eqn:E; [|reflexivity].
    exfalso. apply N. right. right. right. eauto.
Qed.
