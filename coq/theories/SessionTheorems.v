(* The property-level statements about Session and Server.ServeHTTP (C16). *)
From GoSse Require Import Base Lines Fields FieldsProofs Message MessageProofs Session SessionProofs SessionOps.
From GoSse.Gen Require Import Params.
Local Open Scope nat_scope.

Definition fresh (reports : bool) (script : list wverdict) : sess := mksess reports false script.

Lemma fresh_rel reports script : urel (fresh reports script) UNone.
Proof. right. split; [reflexivity|discriminate]. Qed.

(* the state in which the i-th call starts is reached by the calls before it *)
Lemma nth_call reports script calls rs sf ok i r :
  script_ok script -> run_calls (fresh reports script) calls = (rs, sf, ok) -> nth_error rs i = Some r ->
  exists c si si', nth_error calls i = Some c /\ sess_ok si /\ step_call si c = Some (si', fst r, snd r).
Proof.
  intros Hok Hrun Hnth.
  destruct (run_calls_nth calls _ _ _ _ i r Hrun Hnth) as (c & si & si' & H1 & H2 & H3).
  exists c, si, si'. split; [exact H1|]. split; [|exact H3].
  eapply run_calls_ok; [exact H2|exact Hok].
Qed.

(* ---- C16_first_error --------------------------------------------------------------- *)
Lemma send_first_error s m s' e seg :
  session_send s m = Some (s', e, seg) -> sess_ok s -> e = first_error seg.
Proof.
  unfold session_send. intros H Hok.
  destruct (do_upgrade s) as [[s1 e1] l1] eqn:Eu.
  pose proof (do_upgrade_ok _ _ _ _ Eu Hok) as Hok1.
  apply do_upgrade_spec in Eu as [Hr Hu].
  assert (Hfe : first_error l1 = e1).
  { destruct Hu as [(_ & _ & -> & ->)|(_ & -> & _)]; [reflexivity|apply upgrade_log_facts]. }
  destruct (e1 =? 0)%N eqn:Ee; cbn [negb] in H.
  - pose proof (write_to_log_spec m (s_script s1) Hok1) as Hwl.
    destruct (write_to m (s_script s1)) as [[[n e2] acc]|]; [|discriminate].
    destruct (write_to_log m (s_script s1)) as [l2|]; [|contradiction].
    destruct Hwl as (_ & He & _). injection H as <- <- <-.
    now rewrite first_error_app, Hfe, Ee.
  - injection H as <- <- <-. now rewrite Hfe.
Qed.

Theorem first_error_returned reports script calls rs sf ok i e seg :
  script_ok script -> run_calls (fresh reports script) calls = (rs, sf, ok) ->
  nth_error rs i = Some (e, seg) -> e = first_error seg.
Proof.
  intros Hok Hrun Hnth.
  destruct (nth_call _ _ _ _ _ _ _ _ Hok Hrun Hnth) as (c & si & si' & _ & Hsi & Hstep).
  cbn [fst snd] in Hstep. destruct c as [m|]; cbn [step_call] in Hstep.
  - eapply send_first_error; eassumption.
  - injection Hstep as Hstep. now apply flush_spec in Hstep as (H & _).
Qed.

(* ---- C16_body ----------------------------------------------------------------------- *)
Theorem body_per_call reports script calls rs sf ok i e seg c :
  script_ok script -> run_calls (fresh reports script) calls = (rs, sf, ok) ->
  nth_error rs i = Some (e, seg) -> nth_error calls i = Some c ->
  match c with
  | CSend m => forall w, wire m = Some w ->
                         (exists rest, w = accepted seg ++ rest) /\ (e = 0%N -> accepted seg = w)
  | CFlush => accepted seg = []
  end.
Proof.
  intros Hok Hrun Hnth Hc.
  destruct (nth_call _ _ _ _ _ _ _ _ Hok Hrun Hnth) as (c' & si & si' & Hc' & Hsi & Hstep).
  rewrite Hc in Hc'. injection Hc' as <-. cbn [fst snd] in Hstep.
  destruct c as [m|]; cbn [step_call] in Hstep.
  - intros w Hw. destruct (send_spec _ _ _ _ _ w Hstep Hsi Hw) as (_ & H1 & H2 & _). now split.
  - injection Hstep as Hstep. now apply flush_spec in Hstep as (_ & H & _).
Qed.

Lemma send_nil_wire s m s' seg : session_send s m = Some (s', 0%N, seg) -> sess_ok s -> exists w, wire m = Some w.
Proof.
  unfold session_send. intros H Hok.
  destruct (do_upgrade s) as [[s1 e1] l1] eqn:Eu.
  destruct (e1 =? 0)%N eqn:Ee; cbn [negb] in H.
  - unfold write_to in H. unfold wire, write_calls.
    destruct (body_calls m) as [calls|]; [eexists; reflexivity|discriminate].
  - injection H as _ He _. subst e1. cbn in Ee. discriminate.
Qed.

Lemma full_log_app a b : full_log (a ++ b) = full_log a ++ full_log b.
Proof. unfold full_log. now rewrite map_app, concat_app. Qed.

Lemma firstn_S_nth {A} (l : list A) : forall n x, nth_error l n = Some x -> firstn (S n) l = firstn n l ++ [x].
Proof.
  induction l as [|y l IH]; intros [|n] x H; try discriminate.
  - cbn in H. injection H as ->. reflexivity.
  - cbn [nth_error] in H. specialize (IH n x H).
    change (y :: firstn (S n) l = y :: (firstn n l ++ [x])). now rewrite IH.
Qed.

(* up to the first failing call the body is the concatenation of the encodings *)
Theorem body_concat reports script calls rs sf ok :
  script_ok script -> run_calls (fresh reports script) calls = (rs, sf, ok) ->
  forall n, n <= length rs ->
            (forall j e seg, j < n -> nth_error rs j = Some (e, seg) -> e = 0%N) ->
            accepted (full_log (firstn n rs)) = concat (map call_wire (firstn n calls)).
Proof.
  intros Hok Hrun. induction n as [|n IH]; intros Hlen Hz; [reflexivity|].
  destruct (nth_error rs n) as [[e seg]|] eqn:Hn; [|apply nth_error_None in Hn; lia].
  assert (He : e = 0%N) by (apply (Hz n e seg); [lia|exact Hn]). subst e.
  destruct (nth_call _ _ _ _ _ _ _ _ Hok Hrun Hn) as (c & si & si' & Hc & Hsi & Hstep).
  rewrite (firstn_S_nth rs n _ Hn), (firstn_S_nth calls n _ Hc).
  rewrite full_log_app, accepted_app, map_app, concat_app.
  rewrite IH by (try lia; intros j e seg' Hj; apply Hz; lia).
  f_equal. unfold full_log. cbn [map concat snd]. rewrite !app_nil_r.
  pose proof (body_per_call _ _ _ _ _ _ _ _ _ c Hok Hrun Hn Hc) as Hb.
  cbn [fst snd] in Hstep. destruct c as [m|]; cbn [call_wire].
  - cbn [step_call] in Hstep. destruct (send_nil_wire _ _ _ _ Hstep Hsi) as [w Hw].
    rewrite Hw. destruct (Hb w Hw) as [_ H]. now apply H.
  - exact Hb.
Qed.

(* ---- C16_flush ------------------------------------------------------------------------ *)
Theorem flush_pushes reports script calls rs sf ok i seg :
  script_ok script -> run_calls (fresh reports script) calls = (rs, sf, ok) ->
  nth_error rs i = Some (0%N, seg) -> nth_error calls i = Some CFlush ->
  flushed false (full_log (firstn (S i) rs)) = true.
Proof.
  intros Hok Hrun Hnth Hc.
  destruct (nth_call _ _ _ _ _ _ _ _ Hok Hrun Hnth) as (c' & si & si' & Hc' & Hsi & Hstep).
  rewrite Hc in Hc'. injection Hc' as <-. cbn [fst snd step_call] in Hstep. injection Hstep as Hstep.
  apply flush_spec in Hstep as (_ & _ & Hf & _); [|exact Hsi].
  rewrite (firstn_S_nth rs i _ Hnth), full_log_app. unfold full_log at 2. cbn [map concat snd].
  rewrite app_nil_r. now apply Hf.
Qed.

(* what [flushed] says about a log: a successful flush with no Write after it *)
Lemma flushed_split l : forall acc, flushed acc l = true ->
  (acc = true /\ forallb (fun c => negb (is_write c)) l = true) \/
  exists pre post, l = pre ++ LFlush 0 :: post /\ forallb (fun c => negb (is_write c)) post = true.
Proof.
  induction l as [|c l IH]; intros acc H.
  - left. now split.
  - destruct c as [n v|b v|e|code]; cbn [flushed] in H.
    + destruct (IH acc H) as [[-> Hn]|(pre & post & -> & Hn)]; [left; now split|].
      right. exists (LHeaderSet n v :: pre), post. now split.
    + destruct (IH false H) as [[Hf _]|(pre & post & -> & Hn)]; [discriminate|].
      right. exists (LWrite b v :: pre), post. now split.
    + destruct (e =? 0)%N eqn:Ee.
      * apply N.eqb_eq in Ee. subst e.
        destruct (IH true H) as [[_ Hn]|(pre & post & -> & Hn)].
        -- right. exists [], l. now split.
        -- right. exists (LFlush 0 :: pre), post. now split.
      * destruct (IH acc H) as [[-> Hn]|(pre & post & -> & Hn)]; [left; now split|].
        right. exists (LFlush e :: pre), post. now split.
    + destruct (IH acc H) as [[-> Hn]|(pre & post & -> & Hn)]; [left; now split|].
      right. exists (LWriteHeader code :: pre), post. now split.
Qed.

Theorem flush_pushes_explicit reports script calls rs sf ok i seg :
  script_ok script -> run_calls (fresh reports script) calls = (rs, sf, ok) ->
  nth_error rs i = Some (0%N, seg) -> nth_error calls i = Some CFlush ->
  exists pre post, full_log (firstn (S i) rs) = pre ++ LFlush 0 :: post /\
                   forallb (fun c => negb (is_write c)) post = true.
Proof.
  intros Hok Hrun Hnth Hc.
  pose proof (flush_pushes _ _ _ _ _ _ _ _ Hok Hrun Hnth Hc) as H.
  apply flushed_split in H as [[Hf _]|H]; [discriminate|exact H].
Qed.

(* ---- C16_upgrade_first_once ------------------------------------------------------------ *)
Theorem upgrade_protocol reports script calls rs sf ok :
  script_ok script -> run_calls (fresh reports script) calls = (rs, sf, ok) ->
  exists st, urun UNone (full_log rs) = Some st.
Proof.
  intros Hok Hrun.
  destruct (run_calls_urun calls _ _ _ _ UNone Hrun Hok (fresh_rel reports script)) as (st & H & _).
  now exists st.
Qed.

(* reading the automaton: what acceptance means for a Write and for a header set *)
Lemma urun_reach_set l : forall st, urun st l = Some USet -> st = USet \/ exists a b, l = a ++ ct_set :: b.
Proof.
  induction l as [|c l IH]; intros st H.
  - cbn in H. injection H as ->. now left.
  - cbn [urun] in H. destruct (ustep st c) as [st1|] eqn:Es; [|discriminate].
    destruct (IH st1 H) as [->|(a & b & ->)].
    + destruct c as [n v|bb v|e|code].
      * destruct st; cbn in Es; try discriminate;
          (destruct (bytes_eqb n header_content_type) eqn:E1;
           [destruct (bytes_eqb v content_type_value) eqn:E2;
            [apply bytes_eqb_eq in E1; apply bytes_eqb_eq in E2; subst; right; exists [], l; reflexivity
            |discriminate]
           |]); [discriminate|now left].
      * destruct st; cbn in Es; discriminate.
      * destruct st; cbn in Es; try discriminate. now left.
      * destruct st; cbn in Es; try discriminate. now left.
    + right. exists (c :: a), b. reflexivity.
Qed.

Lemma urun_reach_done l : forall st, st <> UDone -> urun st l = Some UDone ->
  exists a b, l = a ++ LFlush 0 :: b /\ urun st a = Some USet.
Proof.
  induction l as [|c l IH]; intros st Hst H.
  - cbn in H. congruence.
  - cbn [urun] in H. destruct (ustep st c) as [st1|] eqn:Es; [|discriminate].
    destruct st1.
    + destruct (IH UNone ltac:(discriminate) H) as (a & b & -> & Ha).
      exists (c :: a), b. split; [reflexivity|]. cbn [urun]. now rewrite Es.
    + destruct (IH USet ltac:(discriminate) H) as (a & b & -> & Ha).
      exists (c :: a), b. split; [reflexivity|]. cbn [urun]. now rewrite Es.
    + (* this call moved the automaton to UDone: it is the successful flush in state USet *)
      destruct st, c as [n v|bb v|e|code]; cbn in Es; try discriminate; try congruence;
        try (destruct (bytes_eqb n header_content_type); [destruct (bytes_eqb v content_type_value)|]; discriminate).
      destruct (e =? 0)%N eqn:Ee; [|discriminate]. apply N.eqb_eq in Ee. subst e.
      exists [], l. split; reflexivity.
Qed.

Lemma urun_prefix a : forall st b st', urun st (a ++ b) = Some st' -> exists st1, urun st a = Some st1 /\ urun st1 b = Some st'.
Proof.
  intros st b st' H. rewrite urun_app in H. destruct (urun st a) as [st1|]; [|discriminate]. now exists st1.
Qed.

(* every Write is preceded by "Content-Type: text/event-stream set" and, after that, a successful flush *)
Theorem write_after_upgrade reports script calls rs sf ok pre b v post :
  script_ok script -> run_calls (fresh reports script) calls = (rs, sf, ok) ->
  full_log rs = pre ++ LWrite b v :: post ->
  exists p1 p2 p3, pre = p1 ++ ct_set :: p2 ++ LFlush 0 :: p3.
Proof.
  intros Hok Hrun Hlog. destruct (upgrade_protocol _ _ _ _ _ _ Hok Hrun) as [st Hst].
  rewrite Hlog in Hst. apply urun_prefix in Hst as (st1 & Hpre & Hrest).
  cbn [urun] in Hrest. destruct st1; cbn in Hrest; try discriminate.
  destruct (urun_reach_done pre UNone ltac:(discriminate) Hpre) as (a & p3 & -> & Ha).
  destruct (urun_reach_set a UNone Ha) as [Hbad|(p1 & p2 & ->)]; [discriminate|].
  exists p1, p2, p3. now rewrite <- app_assoc.
Qed.

(* once the header has been set and flushed successfully, no header is set again *)
Theorem no_header_after_upgrade reports script calls rs sf ok pre post :
  script_ok script -> run_calls (fresh reports script) calls = (rs, sf, ok) ->
  full_log rs = pre ++ ct_set :: LFlush 0 :: post ->
  Forall (fun c => is_header_set c = false) post.
Proof.
  intros Hok Hrun Hlog. destruct (upgrade_protocol _ _ _ _ _ _ Hok Hrun) as [st Hst].
  rewrite Hlog in Hst. apply urun_prefix in Hst as (st1 & Hpre & Hrest).
  assert (Hst1 : st1 <> UDone).
  { intros ->. cbn in Hrest. discriminate. }
  cbn [urun] in Hrest. rewrite (ustep_ct_set st1 Hst1) in Hrest. cbn [ustep N.eqb] in Hrest.
  clear - Hrest. revert Hrest. generalize st. induction post as [|c post IH]; intros st0 H; [constructor|].
  cbn [urun] in H. destruct c as [n v|bb v|e|code]; cbn in H; try discriminate; constructor; try reflexivity; eauto.
Qed.

(* ---- C16_serve --------------------------------------------------------------------------- *)
Lemma get_response_writer_can_flush : forall w, get_response_writer w = None <-> can_flush w = false.
Proof.
  fix IH 1. intros [fe fl u]. cbn [get_response_writer can_flush].
  destruct fe; [split; discriminate|]. destruct fl; [split; discriminate|].
  destruct u as [w'|]; cbn [orb]; [apply IH|split; reflexivity].
Qed.

(* the wrapper follows the type switch: FlushError wins over Flush on the same layer, an outer
   layer wins over an inner one *)
Lemma get_response_writer_first fe fl u :
  get_response_writer (Shape fe fl u) =
  if fe then Some RWFlushError else if fl then Some RWFlusher
  else match u with Some w' => get_response_writer w' | None => None end.
Proof. reflexivity. Qed.

(* the writer used is the outermost layer of the Unwrap chain that can flush at all; its flush
   errors come back iff that layer has FlushError *)
Lemma get_response_writer_chain : forall w,
  get_response_writer w =
  match find (fun l : bool * bool => fst l || snd l) (chain w) with
  | Some (true, _) => Some RWFlushError
  | Some (false, _) => Some RWFlusher
  | None => None
  end.
Proof.
  fix IH 1. intros [fe fl u]. cbn [get_response_writer chain find fst snd].
  destruct fe; [reflexivity|]. destruct fl; [reflexivity|]. cbn [orb].
  destruct u as [w'|]; [apply IH|reflexivity].
Qed.

Lemma upgrade_id_expected h : upgrade_id h = expected_lei h.
Proof.
  destruct h as [|v t]; [reflexivity|]. cbn [upgrade_id expected_lei].
  destruct v as [|b v']; [reflexivity|]. unfold new_id, new_field.
  destruct (is_single_line (b :: v')) eqn:E1; destruct (no_nlb (b :: v')) eqn:E2; try reflexivity.
  - apply is_single_line_spec in E1. apply no_nlb_spec in E1. congruence.
  - apply no_nlb_spec in E2. apply is_single_line_spec in E2. congruence.
Qed.

Lemma http_error_has_status msg code script : In (LWriteHeader code) (http_error msg code script).
Proof. unfold http_error. cbn. auto. Qed.

Theorem serve_spec w h ons prov perr script :
  let r := serve_http w h ons prov perr script in
  (* no flushing writer anywhere in the Unwrap chain: nobody is subscribed, OnSession is not
     asked, the answer is 500 *)
  (can_flush w = false ->
   sv_sub r = None /\ sv_results r = [] /\ sv_user r = [] /\ In (LWriteHeader 500) (sv_server r)) /\
  (can_flush w = true ->
   (* rejected by OnSession: no subscription, the server performs no writer call itself *)
   (request_accepted ons = false -> sv_sub r = None /\ sv_results r = [] /\ sv_server r = []) /\
   (* accepted: the provider gets the topics chosen by OnSession (DefaultTopic if none) and the
      request's Last-Event-ID; a provider error is answered with 500; nothing else is written
      by the server itself *)
   (request_accepted ons = true ->
    sv_sub r = Some (expected_topics ons, expected_lei h) /\
    (forall msg, perr = Some msg -> sv_ok r = true -> In (LWriteHeader 500) (sv_server r)) /\
    (perr = None -> sv_server r = []))).
Proof.
  cbn zeta. unfold serve_http, upgrade. split.
  - intros Hc. apply get_response_writer_can_flush in Hc. rewrite Hc. cbn.
    repeat split; auto; try apply http_error_has_status.
  - intros Hc. destruct (get_response_writer w) as [k|] eqn:Eg;
      [|apply get_response_writer_can_flush in Eg; congruence].
    rewrite upgrade_id_expected. split.
    + intros Hrej. destruct ons as [o|]; [|discriminate]. cbn in Hrej.
      unfold get_subscription. rewrite Hrej. destruct (os_topics o); cbn; auto.
    + intros Hacc. destruct ons as [o|]; cbn in Hacc.
      * unfold get_subscription, expected_topics. rewrite Hacc.
        destruct (os_topics o) as [|t ts]; cbn [negb];
          destruct (run_calls _ prov) as [[rs sf] fine]; cbn; (split; [reflexivity|]); split;
            try (intros msg -> ->; apply http_error_has_status); try (intros ->; reflexivity).
      * unfold get_subscription, expected_topics. cbn [negb].
        destruct (run_calls _ prov) as [[rs sf] fine]; cbn; (split; [reflexivity|]); split;
          try (intros msg -> ->; apply http_error_has_status); try (intros ->; reflexivity).
Qed.

(* the session the provider is given behaves like a fresh session on the same writer: its calls
   are [run_calls] of a fresh session, so everything above applies to them *)
Theorem serve_session w h ons prov perr script k :
  get_response_writer w = Some k -> request_accepted ons = true ->
  let r := serve_http w h ons prov perr script in
  exists sf, run_calls (fresh (match k with RWFlushError => true | RWFlusher => false end) script) prov
             = (sv_results r, sf, sv_ok r).
Proof.
  intros Hk Hacc. cbn zeta. unfold serve_http, upgrade. rewrite Hk.
  destruct (get_subscription (upgrade_id h) ons) as [[topics lei] okk] eqn:Eg.
  assert (okk = true).
  { unfold get_subscription in Eg. destruct ons as [o|]; cbn in Hacc; injection Eg as _ _ <-; auto. }
  subst okk. cbn [negb]. unfold fresh.
  destruct (run_calls _ prov) as [[rs sf] fine]. cbn. now exists sf.
Qed.
