(* Lemmas about session.go / server.go's model (Session.v) for C16. *)
From GoSse Require Import Base Lines Fields FieldsProofs Message MessageProofs Session.
From GoSse.Gen Require Import Params.
Local Open Scope nat_scope.

(* ---- reading logs ------------------------------------------------------------ *)
Lemma accepted_app a b : accepted (a ++ b) = accepted a ++ accepted b.
Proof. unfold accepted. now rewrite map_app, concat_app. Qed.

Lemma first_error_app a b :
  first_error (a ++ b) = if (first_error a =? 0)%N then first_error b else first_error a.
Proof.
  induction a as [|c a IH]; [reflexivity|].
  cbn [app first_error]. destruct (call_error c =? 0)%N eqn:E; [exact IH|]. now rewrite E.
Qed.

Lemma flushed_app a : forall acc b, flushed acc (a ++ b) = flushed (flushed acc a) b.
Proof.
  induction a as [|c a IH]; intros acc b; [reflexivity|].
  destruct c; cbn [app flushed]; apply IH.
Qed.

Lemma urun_app a : forall st b,
  urun st (a ++ b) = match urun st a with Some st' => urun st' b | None => None end.
Proof.
  induction a as [|c a IH]; intros st b; [reflexivity|].
  cbn [app urun]. destruct (ustep st c); [apply IH|reflexivity].
Qed.

Definition no_header (l : list wcall) : Prop := Forall (fun c => is_header_set c = false) l.

Lemma urun_done l : no_header l -> urun UDone l = Some UDone.
Proof.
  induction 1 as [|c l Hc _ IH]; [reflexivity|].
  cbn [urun]. destruct c; cbn in *; try discriminate; exact IH.
Qed.

Lemma writes_no_header l : Forall (fun c => is_write c = true) l -> no_header l.
Proof. intros H. eapply Forall_impl; [|exact H]. intros [] Hc; cbn in *; congruence. Qed.

(* ---- the Write calls of WriteTo ---------------------------------------------- *)
Lemma writes_log_spec calls : forall script,
  let '(n, e, acc) := run_writes calls script in
  accepted (writes_log calls script) = acc /\
  first_error (writes_log calls script) = e /\
  Forall (fun c => is_write c = true) (writes_log calls script).
Proof.
  induction calls as [|c rest IH]; intros script; cbn [run_writes writes_log].
  - repeat split; constructor.
  - destruct script as [|[|k e] script'].
    + specialize (IH (@nil wverdict)). cbn [tl]. destruct (run_writes rest []) as [[n e] acc].
      destruct IH as (Ha & He & Hw). unfold accepted in *. cbn [map concat accepted_of first_error call_error].
      rewrite Ha. cbn. repeat split; auto.
    + specialize (IH script'). cbn [tl]. destruct (run_writes rest script') as [[n e] acc].
      destruct IH as (Ha & He & Hw). unfold accepted in *. cbn [map concat accepted_of first_error call_error].
      rewrite Ha. cbn. repeat split; auto.
    + unfold accepted. cbn [map concat accepted_of first_error call_error]. rewrite app_nil_r.
      repeat split.
      * destruct (e =? 0)%N eqn:E; [apply N.eqb_eq in E; now subst|reflexivity].
      * constructor; [reflexivity|constructor].
Qed.
