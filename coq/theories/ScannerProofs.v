(* bufio.Scanner.Scan with parser.go's split function, for every reader script:
   one call either hands out a token cut from the front of the not yet consumed input
   (skipping CR/LF bytes only), or reports the end of an exhausted input, or ErrTooLong.
   It never panics and never runs out of fuel, and the buffer never holds more than
   max(maxTokenSize, cap(buf)) bytes: bytes pulled = bytes consumed + bytes buffered. *)
From GoSse Require Import Base Lines FieldParser Whatwg WhatwgLines Split Scanner Reader SplitProofs.
From GoSse.Gen Require Import Params.
From Coq Require Import ZifyN ZifyNat ZifyBool.
Local Open Scope nat_scope.

Definition rest_of (s : scanner) (r : reader) : bytes := sc_data s ++ concat (rd_chunks r).
Definition end_serr (e : ending) : serr := match e with CleanEOF => EEOF | ReadError x => x end.

(* the invariant of the scanner while it works; B bounds the buffer *)
Definition sc_inv (B : N) (s : scanner) (r : reader) : Prop :=
  sc_done s = false /\
  (sc_start s + N.of_nat (length (sc_data s)) <= sc_cap s)%N /\
  (sc_cap s <= B)%N /\ (sc_max s <= B)%N /\
  (sc_off s + N.of_nat (length (sc_data s)) = rd_pulled r)%N /\
  (sc_err s = None \/ (sc_err s = Some (end_serr (rd_ending r)) /\ concat (rd_chunks r) = [])).

(* what the closure around splitFunc does to its state when a token is cut after skipping [nls] *)
Definition upd_split (st : split_state) (nls : bytes) : split_state :=
  let '(first, f) := st in
  if first then (false, match nls with [] => f | _ => fp_set_remove_bom f false end) else st.

(* ---- the reader ------------------------------------------------------------------------------------ *)
Lemma take_chunk_spec chunks : forall n bs rest,
  (0 < n)%N -> take_chunk chunks n = (bs, rest) ->
  bs ++ concat rest = concat chunks /\ (N.of_nat (length bs) <= n)%N /\
  (bs = [] -> concat chunks = [] /\ rest = []).
Proof.
  induction chunks as [|c chunks IH]; intros n bs rest Hn; cbn [take_chunk].
  - intros [= <- <-]. repeat split; cbn; lia.
  - destruct c as [|b c'].
    + intros H. destruct (IH _ _ _ Hn H) as (H1 & H2 & H3). cbn [concat app]. auto.
    + destruct (N.of_nat (length (b :: c')) <=? n)%N eqn:E.
      * intros [= <- <-]. cbn [concat]. split; [reflexivity|]. split; [lia|discriminate].
      * intros [= <- <-]. cbn [concat]. rewrite app_assoc, firstn_skipn. split; [reflexivity|].
        split; [rewrite firstn_length; lia|].
        intros H. exfalso. destruct (N.to_nat n) eqn:En; [lia|discriminate].
Qed.

Lemma rd_read_spec r n : (0 < n)%N ->
  let '(bs, err, r') := rd_read r n in
  rd_ending r' = rd_ending r /\
  match err with
  | Some e => bs = [] /\ e = end_serr (rd_ending r) /\ concat (rd_chunks r) = [] /\ rd_chunks r' = [] /\
              rd_pulled r' = rd_pulled r
  | None => bs <> [] /\ bs ++ concat (rd_chunks r') = concat (rd_chunks r) /\ (N.of_nat (length bs) <= n)%N /\
            rd_pulled r' = (rd_pulled r + N.of_nat (length bs))%N
  end.
Proof.
  intros Hn. unfold rd_read.
  destruct (take_chunk (rd_chunks r) n) as [bs rest] eqn:E.
  destruct (take_chunk_spec _ _ _ _ Hn E) as (H1 & H2 & H3).
  destruct bs as [|b bs'].
  - destruct (H3 eq_refl) as [H4 ->]. cbn [rd_ending rd_chunks rd_pulled]. split; [reflexivity|].
    repeat split; try assumption; try (destruct (rd_ending r); reflexivity).
  - cbn [rd_ending rd_chunks rd_pulled]. split; [reflexivity|]. repeat split; try assumption. discriminate.
Qed.

(* ---- parser_split ------------------------------------------------------------------------------------ *)
Lemma parser_split_spec st data eof :
  let '(st', (adv, tok)) := parser_split st data eof in
  match tok with
  | None => adv = 0 /\ st' = st /\ split_func data eof = SplitMore
  | Some t => split_func data eof = SplitTok adv t /\
              exists nls, firstn adv data = nls ++ t /\ all_nl nls /\ 0 < adv <= length data /\
                          (t = [] \/ exists b t', t = b :: t' /\ is_nl b = false) /\ st' = upd_split st nls
  end.
Proof.
  unfold parser_split. destruct st as [first f].
  pose proof (split_func_fuel_ok data eof) as Hf.
  destruct (split_func data eof) as [|adv t|] eqn:E; [auto| |congruence].
  destruct (split_func_tok _ _ _ _ E) as (nls & H1 & H2 & H3 & H4 & H5).
  assert (Ha : (0 <? adv) = true) by (apply Nat.ltb_lt; lia). rewrite Ha, Bool.andb_true_r.
  destruct first; cbn [upd_split].
  - split; [reflexivity|]. exists nls. repeat split; try assumption; try lia.
    destruct (length t =? adv) eqn:El; cbn [negb].
    + rewrite (proj1 H5 eq_refl). reflexivity.
    + destruct nls; [|reflexivity]. pose proof (proj2 H5 eq_refl). discriminate.
  - split; [reflexivity|]. exists nls. repeat split; try assumption; lia.
Qed.

(* ---- Scan --------------------------------------------------------------------------------------------- *)
Definition fuel_needed (s : scanner) (r : reader) : nat :=
  match sc_err s with None => rd_rest r + 2 | Some _ => 1 end.

Definition scan_post (B : N) (st : split_state) (s : scanner) (r : reader)
           (res : scan_out * split_state * scanner * reader) : Prop :=
  let '(out, st', s', r') := res in
  rd_ending r' = rd_ending r /\ sc_max s' = sc_max s /\
  match out with
  | ScanTrue =>
      sc_inv B s' r' /\
      exists nls tok, sc_token s' = Some tok /\ rest_of s r = nls ++ tok ++ rest_of s' r' /\ all_nl nls /\
        0 < length nls + length tok /\
        (tok = [] \/ exists b t', tok = b :: t' /\ is_nl b = false) /\
        (rest_of s' r' = [] \/ exists ls, wlines tok = (ls ++ [[]], [])) /\
        st' = upd_split st nls
  | ScanFalse =>
      st' = st /\
      (N.of_nat (length (sc_data s')) <= B)%N /\ (sc_off s' + N.of_nat (length (sc_data s')) = rd_pulled r')%N /\
      (sc_err s' = Some ETooLong \/
       (rest_of s r = [] /\ sc_err s' = Some (end_serr (rd_ending r)) /\ rest_of s' r' = []))
  | ScanPanic | ScanOutOfFuel => False
  end.

(* scan.go:218-238 and the next iteration *)
Definition read_tail (fuel : nat) (st1 : split_state) (s3 : scanner) (r : reader) :=
  let '(bs, err, r') := rd_read r (sc_cap s3 - sc_end s3) in
  let s4 := sc_with_buf s3 (sc_data s3 ++ bs) (sc_start s3) (sc_cap s3) in
  let s5 := match err with
            | Some e => sc_set_err s4 e
            | None => mksc (sc_data s4) (sc_start s4) (sc_cap s4) (sc_max s4) (sc_err s4) (sc_done s4) 0%nat (sc_token s4) (sc_off s4)
            end in
  scan_loop fuel parser_split st1 s5 r'.

(* scan.go:180-239 *)
Definition after_split (fuel : nat) (st1 : split_state) (s1 : scanner) (r : reader) :=
  if is_some (sc_err s1) then (ScanFalse, st1, sc_with_buf s1 [] 0%N (sc_cap s1), r)
  else
    let s2 := if (0 <? sc_start s1)%N && ((sc_end s1 =? sc_cap s1)%N || (sc_cap s1 / 2 <? sc_start s1)%N)
              then sc_with_buf s1 (sc_data s1) 0%N (sc_cap s1) else s1 in
    let grow := if (sc_end s2 =? sc_cap s2)%N then
                  if (sc_max s2 <=? sc_cap s2)%N then inl (sc_set_err s2 ETooLong)
                  else let new_size := (sc_cap s2 * 2)%N in
                       let new_size := if (new_size =? 0)%N then start_buf_size else new_size in
                       let new_size := N.min new_size (sc_max s2) in
                       inr (sc_with_buf s2 (sc_data s2) 0%N new_size)
                else inr s2 in
    match grow with
    | inl s3 => (ScanFalse, st1, s3, r)
    | inr s3 => read_tail fuel st1 s3 r
    end.

Lemma scan_loop_S fuel st s r :
  scan_loop (S fuel) parser_split st s r =
  if negb (match sc_data s with [] => true | _ => false end) || is_some (sc_err s) then
    let '(st1, (adv, tok)) := parser_split st (sc_data s) (is_some (sc_err s)) in
    if (length (sc_data s) <? adv) then (ScanPanic, st1, s, r)
    else
      let s1 := mksc (skipn adv (sc_data s)) (sc_start s + N.of_nat adv) (sc_cap s) (sc_max s) (sc_err s)
                     (sc_done s) (sc_empties s) tok (sc_off s + N.of_nat adv) in
      match tok with
      | Some _ =>
          if negb (is_some (sc_err s)) || (0 <? adv)
          then (ScanTrue, st1, mksc (sc_data s1) (sc_start s1) (sc_cap s1) (sc_max s1) (sc_err s1) (sc_done s1) 0 tok (sc_off s1), r)
          else if max_consecutive_empty_reads <? S (sc_empties s) then (ScanPanic, st1, s1, r)
               else (ScanTrue, st1, mksc (sc_data s1) (sc_start s1) (sc_cap s1) (sc_max s1) (sc_err s1) (sc_done s1) (S (sc_empties s)) tok (sc_off s1), r)
      | None => after_split fuel st1 s1 r
      end
  else after_split fuel st s r.
Proof.
  cbn [scan_loop]. destruct (negb _ || _); [|reflexivity].
  destruct (parser_split st (sc_data s) (is_some (sc_err s))) as [st1 [adv tok]].
  destruct (length (sc_data s) <? adv); [reflexivity|].
  destruct tok; [|reflexivity].
  destruct (negb (is_some (sc_err s)) || (0 <? adv)); [reflexivity|].
  destruct (max_consecutive_empty_reads <? S (sc_empties s)); reflexivity.
Qed.

(* the induction hypothesis of scan_loop_spec, as an explicit argument *)
Definition scan_ih (B : N) (fuel : nat) : Prop :=
  forall st s r, sc_inv B s r -> fuel_needed s r <= fuel -> scan_post B st s r (scan_loop fuel parser_split st s r).

Lemma read_tail_spec B fuel (IH : scan_ih B fuel) st s r s3 :
  sc_inv B s r -> sc_err s = None -> rd_rest r + 2 <= S fuel ->
  sc_data s3 = sc_data s -> sc_err s3 = None -> sc_done s3 = false -> sc_off s3 = sc_off s -> sc_max s3 = sc_max s ->
  (sc_start s3 + N.of_nat (length (sc_data s)) < sc_cap s3)%N -> (sc_cap s3 <= B)%N ->
  scan_post B st s r (read_tail fuel st s3 r).
Proof.
  intros (Hdone & Hwf & Hcap & Hmax & Hoff & Herr) He Hfuel Zd Ze Zdn Zo Zm Zwf Zcap.
  unfold read_tail.
  assert (Hn : (0 < sc_cap s3 - sc_end s3)%N) by (unfold sc_end; rewrite Zd; lia).
  pose proof (rd_read_spec r (sc_cap s3 - sc_end s3)%N Hn) as Hrd.
  destruct (rd_read r (sc_cap s3 - sc_end s3)%N) as [[bs err] r'].
  destruct Hrd as (Hend & Hrd).
  destruct err as [e|].
  - (* the reader has ended *)
    destruct Hrd as (-> & -> & Hc & Hc' & Hp).
    set (s5 := sc_set_err _ _).
    assert (H5 : sc_data s5 = sc_data s /\ sc_err s5 = Some (end_serr (rd_ending r)) /\ sc_max s5 = sc_max s /\
                 sc_done s5 = false /\ sc_off s5 = sc_off s /\ sc_start s5 = sc_start s3 /\ sc_cap s5 = sc_cap s3).
    { unfold s5, sc_set_err, sc_with_buf. cbn [sc_err]. rewrite Ze.
      cbn [sc_data sc_err sc_max sc_done sc_off sc_start sc_cap]. rewrite app_nil_r. repeat split; assumption. }
    destruct H5 as (Vd & Ve & Vm & Vdn & Vo & Vs & Vc).
    assert (Hinv5 : sc_inv B s5 r').
    { unfold sc_inv. rewrite Vd, Ve, Vm, Vdn, Vo, Vs, Vc, Hend, Hp, Hc'. repeat split; try assumption; try lia.
      right. split; reflexivity. }
    assert (Hf5 : fuel_needed s5 r' <= fuel) by (unfold fuel_needed; rewrite Ve; lia).
    pose proof (IH st s5 r' Hinv5 Hf5) as Hpost.
    destruct (scan_loop fuel parser_split st s5 r') as [[[out st'] s'] r''].
    assert (Hrest : rest_of s5 r' = rest_of s r) by (unfold rest_of; now rewrite Vd, Hc', Hc).
    unfold scan_post in *. rewrite Hrest, Vm, Hend in Hpost. exact Hpost.
  - destruct Hrd as (Hne & Hcat & Hlen & Hp).
    set (s5 := mksc _ _ _ _ _ _ _ _ _).
    assert (H5 : sc_data s5 = sc_data s ++ bs /\ sc_err s5 = None /\ sc_max s5 = sc_max s /\
                 sc_done s5 = false /\ sc_off s5 = sc_off s /\ sc_start s5 = sc_start s3 /\ sc_cap s5 = sc_cap s3).
    { unfold s5, sc_with_buf. cbn [sc_data sc_err sc_max sc_done sc_off sc_start sc_cap]. rewrite Zd.
      repeat split; assumption. }
    destruct H5 as (Vd & Ve & Vm & Vdn & Vo & Vs & Vc).
    assert (Hinv5 : sc_inv B s5 r').
    { unfold sc_inv. rewrite Vd, Ve, Vm, Vdn, Vo, Vs, Vc, Hp, app_length.
      unfold sc_end in Hlen. rewrite Zd in Hlen. repeat split; try assumption; try lia. left; reflexivity. }
    assert (Hrr : rd_rest r' < rd_rest r).
    { unfold rd_rest. rewrite <- Hcat, app_length. destruct bs; [congruence|cbn [length]; lia]. }
    assert (Hf5 : fuel_needed s5 r' <= fuel) by (unfold fuel_needed; rewrite Ve; lia).
    pose proof (IH st s5 r' Hinv5 Hf5) as Hpost.
    destruct (scan_loop fuel parser_split st s5 r') as [[[out st'] s'] r''].
    assert (Hrest : rest_of s5 r' = rest_of s r) by (unfold rest_of; now rewrite Vd, <- app_assoc, Hcat).
    unfold scan_post in *. rewrite Hrest, Vm, Hend in Hpost. exact Hpost.
Qed.

(* no token was cut: [sx] is [s] up to the token field *)
Lemma after_split_spec B fuel (IH : scan_ih B fuel) st s r sx :
  sc_inv B s r -> fuel_needed s r <= S fuel ->
  sc_data sx = sc_data s /\ sc_start sx = sc_start s /\ sc_cap sx = sc_cap s /\ sc_max sx = sc_max s /\
  sc_err sx = sc_err s /\ sc_done sx = sc_done s /\ sc_off sx = sc_off s ->
  (forall e, sc_err s = Some e -> sc_data s = []) ->
  scan_post B st s r (after_split fuel st sx r).
Proof.
  intros Hinv Hfuel (Xd & Xs & Xc & Xm & Xe & Xdn & Xo) Hempty.
  pose proof Hinv as (Hdone & Hwf & Hcap & Hmax & Hoff & Herr).
  unfold after_split. rewrite Xe.
  destruct (sc_err s) as [e|] eqn:Ee; cbn [is_some].
  - (* the input has ended and holds no further token *)
    destruct Herr as [Hc|[He Hc]]; [discriminate|].
    pose proof (Hempty e eq_refl) as Hd.
    cbn [scan_post]. unfold sc_with_buf. cbn [sc_max sc_data sc_err sc_off rest_of].
    split; [reflexivity|]. split; [exact Xm|]. split; [reflexivity|]. split; [cbn; lia|].
    split; [rewrite Xo; rewrite Hd in Hoff; cbn [length] in *; lia|].
    right. unfold rest_of. cbn [sc_data]. rewrite Hd, Hc, Xe. repeat split. exact He.
  - unfold fuel_needed in Hfuel. rewrite Ee in Hfuel.
    set (s2 := if (0 <? sc_start sx)%N && ((sc_end sx =? sc_cap sx)%N || (sc_cap sx / 2 <? sc_start sx)%N)
               then sc_with_buf sx (sc_data sx) 0%N (sc_cap sx) else sx).
    assert (Hs2 : sc_data s2 = sc_data s /\ sc_cap s2 = sc_cap s /\ sc_max s2 = sc_max s /\ sc_err s2 = None /\
                  sc_done s2 = false /\ sc_off s2 = sc_off s /\
                  (sc_start s2 + N.of_nat (length (sc_data s)) <= sc_cap s)%N /\
                  (sc_end s2 = sc_cap s2 -> N.of_nat (length (sc_data s)) = sc_cap s)).
    { unfold s2. destruct (_ && _) eqn:Ec; unfold sc_with_buf, sc_end;
        cbn [sc_data sc_start sc_cap sc_max sc_err sc_done sc_off]; rewrite ?Xd, ?Xs, ?Xc, ?Xm, ?Xo, ?Xe, ?Xdn.
      - repeat split; try assumption; try lia.
      - repeat split; try assumption; try lia.
        intros Hfull. unfold sc_end in Ec. rewrite Xs, Xd, Xc in Ec.
        destruct (0 <? sc_start s)%N eqn:E0; cbn [andb] in Ec.
        + apply orb_false_iff in Ec as [Ec _]. apply N.eqb_neq in Ec. lia.
        + apply N.ltb_ge in E0. lia. }
    destruct Hs2 as (Yd & Yc & Ym & Ye & Ydn & Yo & Ywf & Yfull).
    cbv zeta. fold s2.
    destruct (sc_end s2 =? sc_cap s2)%N eqn:Efull.
    + apply N.eqb_eq in Efull. specialize (Yfull Efull).
      destruct (sc_max s2 <=? sc_cap s2)%N eqn:Emax.
      * (* ErrTooLong *)
        cbn [scan_post]. unfold sc_set_err. rewrite Ye.
        cbn [sc_max sc_data sc_err sc_off]. rewrite Yd, Yo.
        split; [reflexivity|]. split; [exact Ym|]. split; [reflexivity|]. split; [lia|]. split; [exact Hoff|].
        left. reflexivity.
      * (* grow *)
        apply N.leb_gt in Emax. rewrite Ym, Yc in Emax.
        set (ns := N.min (if (sc_cap s2 * 2 =? 0)%N then start_buf_size else (sc_cap s2 * 2)%N) (sc_max s2)).
        assert (Hns : (sc_cap s < ns <= B)%N).
        { unfold ns. rewrite Yc, Ym. change start_buf_size with 4096%N.
          destruct (sc_cap s * 2 =? 0)%N eqn:E0; [apply N.eqb_eq in E0|apply N.eqb_neq in E0]; lia. }
        apply (read_tail_spec B fuel IH st s r (sc_with_buf s2 (sc_data s2) 0%N ns) Hinv Ee Hfuel);
          unfold sc_with_buf; cbn [sc_data sc_err sc_done sc_off sc_max sc_start sc_cap]; try assumption; lia.
    + apply N.eqb_neq in Efull. unfold sc_end in Efull. rewrite Yd, Yc in Efull.
      apply (read_tail_spec B fuel IH st s r s2 Hinv Ee Hfuel); try assumption; rewrite ?Yc; lia.
Qed.

Theorem scan_loop_spec B fuel : forall st s r,
  sc_inv B s r -> fuel_needed s r <= fuel ->
  scan_post B st s r (scan_loop fuel parser_split st s r).
Proof.
  induction fuel as [|fuel IH]; intros st s r Hinv Hfuel.
  { unfold fuel_needed in Hfuel. destruct (sc_err s); lia. }
  pose proof Hinv as (Hdone & Hwf & Hcap & Hmax & Hoff & Herr).
  rewrite scan_loop_S.
  destruct (negb (match sc_data s with [] => true | _ => false end) || is_some (sc_err s)) eqn:Et.
  - pose proof (parser_split_spec st (sc_data s) (is_some (sc_err s))) as Hsp.
    destruct (parser_split st (sc_data s) (is_some (sc_err s))) as [st1 [adv tok]].
    destruct tok as [t|].
    + (* a token *)
      destruct Hsp as (Hsf & nls & Hfn & Hnl & Hadv & Hhd & Hst).
      assert (Hlt : (length (sc_data s) <? adv) = false) by (apply Nat.ltb_ge; lia). rewrite Hlt.
      assert (Hpos : (0 <? adv) = true) by (apply Nat.ltb_lt; lia). rewrite Hpos, Bool.orb_true_r.
      cbn [scan_post sc_max sc_token sc_data sc_start sc_cap sc_err sc_done sc_off].
      split; [reflexivity|]. split; [reflexivity|].
      assert (Hlen : length (skipn adv (sc_data s)) = length (sc_data s) - adv) by apply skipn_length.
      split.
      { unfold sc_inv. cbn [sc_max sc_token sc_data sc_start sc_cap sc_err sc_done sc_off].
        rewrite Hlen. repeat split; try assumption; lia. }
      exists nls, t. split; [reflexivity|].
      assert (Hsplit : sc_data s = nls ++ t ++ skipn adv (sc_data s)).
      { rewrite app_assoc, <- Hfn. symmetry. apply firstn_skipn. }
      assert (Hnt : length nls + length t = adv).
      { rewrite <- app_length, <- Hfn, firstn_length. lia. }
      split.
      { unfold rest_of. cbn [sc_data]. rewrite Hsplit at 1. now rewrite <- !app_assoc. }
      split; [exact Hnl|]. split; [lia|]. split; [exact Hhd|]. split; [|exact Hst].
      unfold rest_of. cbn [sc_data].
      destruct (Nat.ltb_spec adv (length (sc_data s))) as [Hl|Hl].
      * right. apply (split_func_shape _ _ _ _ Hsf). left. exact Hl.
      * destruct (sc_err s) as [e|] eqn:Ee.
        -- left. destruct Herr as [Hc|[_ Hc]]; [discriminate|]. rewrite Hc, app_nil_r.
           apply length_zero_iff_nil. lia.
        -- right. apply (split_func_shape _ _ _ _ Hsf). right. reflexivity.
    + (* split says: nothing yet *)
      destruct Hsp as (-> & -> & Hmore). cbn [Nat.ltb Nat.leb].
      apply (after_split_spec B fuel IH st s r _ Hinv Hfuel).
      * cbn [sc_data sc_start sc_cap sc_max sc_err sc_done sc_off skipn]. repeat split; lia.
      * intros e He. destruct (sc_data s) as [|b d] eqn:Ed; [reflexivity|]. exfalso.
        rewrite He in Hmore. cbn [is_some] in Hmore. now apply (split_func_eof (b :: d)).
  - (* nothing buffered, no error: read *)
    apply (after_split_spec B fuel IH st s r s Hinv Hfuel); [repeat split; reflexivity|].
    intros e He. rewrite He in Et. cbn [is_some] in Et. rewrite Bool.orb_true_r in Et. discriminate.
Qed.

(* Scan itself: the fuel it takes suffices *)
Theorem scan_spec B st s r :
  sc_inv B s r -> scan_post B st s r (scan parser_split st s r).
Proof.
  intros Hinv. unfold scan. destruct Hinv as (Hdone & Hrest). rewrite Hdone.
  apply scan_loop_spec; [split; assumption|].
  unfold fuel_needed, scan_fuel. destruct (sc_err s); lia.
Qed.
