(* Lemmas about the callback registry (Callbacks.v): the registry refines the
   flat "subscriptions in force" specification; routing, removal, order. *)
From Coq Require Import Permutation Sorted.
From GoSse Require Import Base Callbacks.
Local Open Scope nat_scope.

(* ---- equality tests -------------------------------------------------------- *)
Lemma handle_eqb_eq a b : handle_eqb a b = true <-> a = b.
Proof.
  destruct a as [t i|i], b as [t' i'|i']; cbn; split; intros H; try discriminate.
  - apply andb_true_iff in H as [H1 H2]. apply bytes_eqb_eq in H1. apply Nat.eqb_eq in H2. congruence.
  - injection H as -> ->. now rewrite bytes_eqb_refl, Nat.eqb_refl.
  - apply Nat.eqb_eq in H. congruence.
  - injection H as ->. apply Nat.eqb_refl.
Qed.

Lemma handle_eqb_refl a : handle_eqb a a = true.
Proof. now apply handle_eqb_eq. Qed.

Lemma handle_eqb_neq a b : handle_eqb a b = false <-> a <> b.
Proof.
  split.
  - intros H E. apply handle_eqb_eq in E. congruence.
  - intros H. destruct (handle_eqb a b) eqn:E; [|reflexivity]. apply handle_eqb_eq in E. contradiction.
Qed.

(* ---- association lists ----------------------------------------------------- *)
Lemma tmap_get_set_same t v m : tmap_get t (tmap_set t v m) = Some v.
Proof.
  induction m as [|[k w] m IH]; cbn.
  - now rewrite bytes_eqb_refl.
  - destruct (bytes_eqb k t) eqn:E; cbn.
    + now rewrite bytes_eqb_refl.
    + now rewrite E.
Qed.

Lemma tmap_get_set_other t t' v m : t' <> t -> tmap_get t' (tmap_set t v m) = tmap_get t' m.
Proof.
  intros Hne. induction m as [|[k w] m IH]; cbn.
  - apply bytes_eqb_neq in Hne. destruct (bytes_eqb t t') eqn:E; [|reflexivity].
    apply bytes_eqb_eq in E. apply bytes_eqb_neq in Hne. congruence.
  - destruct (bytes_eqb k t) eqn:E; cbn.
    + apply bytes_eqb_eq in E. subst k.
      destruct (bytes_eqb t t') eqn:E2; [apply bytes_eqb_eq in E2; congruence|reflexivity].
    + destruct (bytes_eqb k t'); [reflexivity|exact IH].
Qed.

Lemma tmap_get_del_same t m : tmap_get t (tmap_del t m) = None.
Proof.
  induction m as [|[k w] m IH]; cbn; [reflexivity|].
  destruct (bytes_eqb k t) eqn:E; cbn; [exact IH|]. now rewrite E.
Qed.

Lemma tmap_get_del_other t t' m : t' <> t -> tmap_get t' (tmap_del t m) = tmap_get t' m.
Proof.
  intros Hne. induction m as [|[k w] m IH]; cbn; [reflexivity|].
  destruct (bytes_eqb k t) eqn:E; cbn.
  - apply bytes_eqb_eq in E. subst k.
    destruct (bytes_eqb t t') eqn:E2; [apply bytes_eqb_eq in E2; congruence|exact IH].
  - destruct (bytes_eqb k t'); [reflexivity|exact IH].
Qed.

Lemma tmap_set_get_same t v m : tmap_get t m = Some v -> tmap_set t v m = m.
Proof.
  induction m as [|[k w] m IH]; cbn; [discriminate|].
  destruct (bytes_eqb k t) eqn:E.
  - intros H. injection H as ->. apply bytes_eqb_eq in E. now subst k.
  - intros H. now rewrite IH.
Qed.

Lemma imap_set_fresh id l m : ~ In id (map fst m) -> imap_set id l m = m ++ [(id, l)].
Proof.
  induction m as [|[k v] m IH]; cbn; [reflexivity|].
  intros H. destruct (k =? id) eqn:E.
  - apply Nat.eqb_eq in E. tauto.
  - rewrite IH; [reflexivity|tauto].
Qed.

Lemma imap_del_absent id m : ~ In id (map fst m) -> imap_del id m = m.
Proof.
  unfold imap_del. induction m as [|[k v] m IH]; cbn; [reflexivity|].
  intros H. destruct (k =? id) eqn:E; cbn.
  - apply Nat.eqb_eq in E. tauto.
  - rewrite IH; [reflexivity|tauto].
Qed.

(* ---- abstraction: the registry seen from the list of subscriptions ---------- *)
Definition typed_entry (t : bytes) (e : sub) : imap :=
  match fst e with
  | HEvent t' id => if bytes_eqb t' t then [(id, snd e)] else []
  | HAll _ => []
  end.
Definition all_entry (e : sub) : imap :=
  match fst e with HAll id => [(id, snd e)] | HEvent _ _ => [] end.
Definition typed_of (t : bytes) (L : list sub) : imap := flat_map (typed_entry t) L.
Definition all_of (L : list sub) : imap := flat_map all_entry L.
Definition sub_id (e : sub) : nat := handle_id (fst e).

Record inv (r : reg) (s : spec) : Prop := mkinv {
  inv_typed : forall t, match tmap_get t (cbs r) with
                        | Some m => m = typed_of t (sl s) /\ m <> []
                        | None => typed_of t (sl s) = []
                        end;
  inv_all : cbs_all r = all_of (sl s);
  inv_next : next_id r = sn s;
  inv_fresh : Forall (fun e => sub_id e < sn s) (sl s);
  inv_nodup : NoDup (map sub_id (sl s));
}.

Lemma inv_empty : inv reg_empty spec_empty.
Proof. constructor; cbn; auto. constructor. Qed.

Lemma typed_of_app t a b : typed_of t (a ++ b) = typed_of t a ++ typed_of t b.
Proof. apply flat_map_app. Qed.
Lemma all_of_app a b : all_of (a ++ b) = all_of a ++ all_of b.
Proof. apply flat_map_app. Qed.

Lemma typed_of_keys t L n : Forall (fun e => sub_id e < n) L -> Forall (fun k => k < n) (map fst (typed_of t L)).
Proof.
  induction 1 as [|[h l] L Hx _ IH]; cbn; [constructor|].
  unfold typed_entry; cbn. destruct h as [t' id|id]; cbn; [|exact IH].
  destruct (bytes_eqb t' t); cbn; [|exact IH]. constructor; [exact Hx|exact IH].
Qed.

Lemma all_of_keys L n : Forall (fun e => sub_id e < n) L -> Forall (fun k => k < n) (map fst (all_of L)).
Proof.
  induction 1 as [|[h l] L Hx _ IH]; cbn; [constructor|].
  unfold all_entry; cbn. destruct h as [t' id|id]; cbn; [exact IH|].
  constructor; [exact Hx|exact IH].
Qed.

Lemma keys_fresh n ks : Forall (fun k => k < n) ks -> ~ In n ks.
Proof. intros H Hin. rewrite Forall_forall in H. apply H in Hin. lia. Qed.

(* removal on the list of subscriptions *)

Lemma typed_of_cons t e L : typed_of t (e :: L) = typed_entry t e ++ typed_of t L.
Proof. reflexivity. Qed.
Lemma all_of_cons e L : all_of (e :: L) = all_entry e ++ all_of L.
Proof. reflexivity. Qed.
Lemma others_cons h e L :
  others h (e :: L) = if handle_eqb (fst e) h then others h L else e :: others h L.
Proof. unfold others. cbn [filter]. now destruct (handle_eqb (fst e) h). Qed.
Lemma imap_del_app id a b : imap_del id (a ++ b) = imap_del id a ++ imap_del id b.
Proof. apply filter_app. Qed.

Lemma typed_of_others_same t id L : typed_of t (others (HEvent t id) L) = imap_del id (typed_of t L).
Proof.
  induction L as [|[h l] L IH]; [reflexivity|].
  rewrite others_cons, typed_of_cons, imap_del_app. cbn [fst].
  destruct (handle_eqb h (HEvent t id)) eqn:E.
  - apply handle_eqb_eq in E. subst h. unfold typed_entry. cbn [fst snd]. rewrite bytes_eqb_refl.
    unfold imap_del at 1. cbn [filter fst].
    rewrite Nat.eqb_refl. cbn [negb app]. exact IH.
  - rewrite typed_of_cons, IH. f_equal.
    unfold typed_entry. cbn [fst snd]. destruct h as [t' id'|id']; [|reflexivity].
    destruct (bytes_eqb t' t) eqn:Et; [|reflexivity].
    unfold imap_del. cbn [filter fst]. destruct (id' =? id) eqn:Ei; [|reflexivity].
    cbn [handle_eqb] in E. rewrite Et, Ei in E. discriminate.
Qed.

Lemma typed_of_others_other t t' id L : t' <> t -> typed_of t' (others (HEvent t id) L) = typed_of t' L.
Proof.
  intros Hne. induction L as [|[h l] L IH]; [reflexivity|].
  rewrite others_cons, typed_of_cons. cbn [fst].
  destruct (handle_eqb h (HEvent t id)) eqn:E.
  - apply handle_eqb_eq in E. subst h. unfold typed_entry. cbn [fst snd].
    destruct (bytes_eqb t t') eqn:E2; [apply bytes_eqb_eq in E2; congruence|]. exact IH.
  - rewrite typed_of_cons, IH. reflexivity.
Qed.

Lemma all_of_others_event t id L : all_of (others (HEvent t id) L) = all_of L.
Proof.
  induction L as [|[h l] L IH]; [reflexivity|].
  rewrite others_cons, all_of_cons. cbn [fst].
  destruct (handle_eqb h (HEvent t id)) eqn:E.
  - apply handle_eqb_eq in E. subst h. unfold all_entry. cbn [fst]. exact IH.
  - rewrite all_of_cons, IH. reflexivity.
Qed.

Lemma all_of_others_all id L : all_of (others (HAll id) L) = imap_del id (all_of L).
Proof.
  induction L as [|[h l] L IH]; [reflexivity|].
  rewrite others_cons, all_of_cons, imap_del_app. cbn [fst].
  destruct (handle_eqb h (HAll id)) eqn:E.
  - apply handle_eqb_eq in E. subst h. unfold all_entry. cbn [fst snd].
    unfold imap_del at 1. cbn [filter fst].
    rewrite Nat.eqb_refl. cbn [negb app]. exact IH.
  - rewrite all_of_cons, IH. f_equal.
    unfold all_entry. cbn [fst snd]. destruct h as [t' id'|id']; [reflexivity|].
    unfold imap_del. cbn [filter fst]. destruct (id' =? id) eqn:Ei; [|reflexivity].
    cbn [handle_eqb] in E. rewrite Ei in E. discriminate.
Qed.

Lemma typed_of_others_all t id L : typed_of t (others (HAll id) L) = typed_of t L.
Proof.
  induction L as [|[h l] L IH]; [reflexivity|].
  rewrite others_cons, typed_of_cons. cbn [fst].
  destruct (handle_eqb h (HAll id)) eqn:E.
  - apply handle_eqb_eq in E. subst h. unfold typed_entry. cbn [fst]. exact IH.
  - rewrite typed_of_cons, IH. reflexivity.
Qed.

Lemma others_fresh h L n : Forall (fun e => sub_id e < n) L -> Forall (fun e => sub_id e < n) (others h L).
Proof.
  intros H. apply Forall_forall. intros x Hx. apply filter_In in Hx as [Hx _].
  rewrite Forall_forall in H. now apply H.
Qed.

Lemma nodup_map_filter {A B} (f : A -> B) (p : A -> bool) (L : list A) :
  NoDup (map f L) -> NoDup (map f (filter p L)).
Proof.
  induction L as [|x L IH]; cbn; [auto|].
  intros H. inversion H as [|? ? Hn Hd]; subst.
  destruct (p x); cbn; [|now apply IH].
  constructor; [|now apply IH].
  intros Hin. apply Hn. apply in_map_iff in Hin as [y [Hy Hy2]]. apply filter_In in Hy2 as [Hy2 _].
  apply in_map_iff. now exists y.
Qed.

Lemma nodup_snoc {A} (l : list A) (x : A) : NoDup l -> ~ In x l -> NoDup (l ++ [x]).
Proof.
  intros Hd Hn. eapply Permutation_NoDup; [apply Permutation_cons_append|]. now constructor.
Qed.

Lemma typed_of_snoc_same t id l L : typed_of t (L ++ [(HEvent t id, l)]) = typed_of t L ++ [(id, l)].
Proof. rewrite typed_of_app. unfold typed_of at 2, typed_entry. cbn [flat_map fst snd]. now rewrite bytes_eqb_refl. Qed.
Lemma typed_of_snoc_other t t' id l L : t' <> t -> typed_of t' (L ++ [(HEvent t id, l)]) = typed_of t' L.
Proof.
  intros Hne. rewrite typed_of_app. unfold typed_of at 2, typed_entry. cbn [flat_map fst snd].
  destruct (bytes_eqb t t') eqn:E; [apply bytes_eqb_eq in E; congruence|]. now rewrite app_nil_r.
Qed.
Lemma typed_of_snoc_all t id l L : typed_of t (L ++ [(HAll id, l)]) = typed_of t L.
Proof. rewrite typed_of_app. unfold typed_of at 2, typed_entry. cbn [flat_map fst snd]. now rewrite app_nil_r. Qed.
Lemma all_of_snoc_event t id l L : all_of (L ++ [(HEvent t id, l)]) = all_of L.
Proof. rewrite all_of_app. unfold all_of at 2, all_entry. cbn [flat_map fst snd]. now rewrite app_nil_r. Qed.
Lemma all_of_snoc_all id l L : all_of (L ++ [(HAll id, l)]) = all_of L ++ [(id, l)].
Proof. rewrite all_of_app. unfold all_of at 2, all_entry. cbn [flat_map fst snd]. reflexivity. Qed.

Lemma snoc_fresh (L : list sub) n e :
  Forall (fun e => sub_id e < n) L -> sub_id e = n -> Forall (fun e => sub_id e < S n) (L ++ [e]).
Proof.
  intros Hf He. apply Forall_app. split.
  - eapply Forall_impl; [|exact Hf]. cbn beta. intros; lia.
  - constructor; [lia|constructor].
Qed.
Lemma snoc_nodup (L : list sub) n e :
  Forall (fun e => sub_id e < n) L -> NoDup (map sub_id L) -> sub_id e = n -> NoDup (map sub_id (L ++ [e])).
Proof.
  intros Hf Hd He. rewrite map_app. cbn [map]. apply nodup_snoc; [exact Hd|].
  rewrite He. apply keys_fresh. rewrite Forall_forall in *. intros k Hk.
  apply in_map_iff in Hk as [x [<- Hx]]. now apply Hf.
Qed.

(* ---- every operation preserves the abstraction ------------------------------ *)
Lemma step_inv r s o : inv r s -> inv (fst (step r o)) (spec_step s o).
Proof.
  intros [Ht Ha Hn Hf Hd]. destruct o as [t l|l|h|t].
  - (* SubEvent *)
    cbn [step add_subscriber fst spec_step].
    constructor; cbn [cbs cbs_all next_id sn sl].
    + intros t'. destruct (list_eq_dec N.eq_dec t' t) as [->|Hne].
      * rewrite tmap_get_set_same, typed_of_snoc_same, Hn.
        assert (Hfr : ~ In (sn s) (map fst (typed_of t (sl s)))) by (apply keys_fresh, typed_of_keys, Hf).
        specialize (Ht t). destruct (tmap_get t (cbs r)) as [m|].
        -- destruct Ht as [-> _]. rewrite imap_set_fresh by exact Hfr. split; [reflexivity|].
           intros E. apply app_eq_nil in E as [_ E]. discriminate.
        -- rewrite Ht. cbn [imap_set app]. split; [reflexivity|discriminate].
      * rewrite tmap_get_set_other by exact Hne. rewrite typed_of_snoc_other by exact Hne. apply Ht.
    + now rewrite all_of_snoc_event.
    + now rewrite Hn.
    + now apply snoc_fresh.
    + now apply snoc_nodup with (n := sn s).
  - (* SubAll *)
    cbn [step add_subscriber_all fst spec_step].
    constructor; cbn [cbs cbs_all next_id sn sl].
    + intros t'. rewrite typed_of_snoc_all. apply Ht.
    + rewrite all_of_snoc_all, Ha, Hn. apply imap_set_fresh. apply keys_fresh, all_of_keys, Hf.
    + now rewrite Hn.
    + now apply snoc_fresh.
    + now apply snoc_nodup with (n := sn s).
  - (* Remove *)
    cbn [step fst spec_step]. fold (others h (sl s)).
    destruct h as [t id|id]; cbn [remove].
    + pose proof (Ht t) as Htt. destruct (tmap_get t (cbs r)) as [m|] eqn:Eg.
      * destruct Htt as [Hm Hne]. destruct (imap_del id m) as [|x m'] eqn:Ed.
        -- constructor; cbn [cbs cbs_all next_id sn sl].
           ++ intros t'. destruct (list_eq_dec N.eq_dec t' t) as [->|Hne'].
              ** rewrite tmap_get_del_same, typed_of_others_same, <- Hm. exact Ed.
              ** rewrite tmap_get_del_other by exact Hne'. rewrite typed_of_others_other by exact Hne'. apply Ht.
           ++ now rewrite all_of_others_event.
           ++ exact Hn.
           ++ now apply others_fresh.
           ++ now apply nodup_map_filter.
        -- constructor; cbn [cbs cbs_all next_id sn sl].
           ++ intros t'. destruct (list_eq_dec N.eq_dec t' t) as [->|Hne'].
              ** rewrite tmap_get_set_same, typed_of_others_same, <- Hm, Ed. split; [reflexivity|discriminate].
              ** rewrite tmap_get_set_other by exact Hne'. rewrite typed_of_others_other by exact Hne'. apply Ht.
           ++ now rewrite all_of_others_event.
           ++ exact Hn.
           ++ now apply others_fresh.
           ++ now apply nodup_map_filter.
      * constructor; cbn [cbs cbs_all next_id sn sl].
        -- intros t'. destruct (list_eq_dec N.eq_dec t' t) as [->|Hne'].
           ++ rewrite Eg, typed_of_others_same, Htt. reflexivity.
           ++ rewrite typed_of_others_other by exact Hne'. apply Ht.
        -- now rewrite all_of_others_event.
        -- exact Hn.
        -- now apply others_fresh.
        -- now apply nodup_map_filter.
    + constructor; cbn [cbs cbs_all next_id sn sl].
      * intros t'. rewrite typed_of_others_all. apply Ht.
      * now rewrite all_of_others_all, Ha.
      * exact Hn.
      * now apply others_fresh.
      * now apply nodup_map_filter.
  - (* Dispatch *)
    cbn [step fst spec_step]. now constructor.
Qed.
