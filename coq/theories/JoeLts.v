(* Joe (joe.go) as an executable labelled transition system.  Definitions only.

   One atomic step per channel operation / select choice / close / call into user code.
   Threads: Joe's loop (one), Subscribe calls (index i), Publish calls (index p; the message of
   call p is identified with p), Shutdown calls (index h).  Thread tables are total functions
   nat -> record with functional update, so any number of calls is covered.

   Go semantics modelled (trusted, see props.d/joe.py): an unbuffered send/receive pair is one
   joint step; [select] may take any ready case (= several enabled labels); [close] of a closed
   channel and send on a closed channel panic (loop pc [Panicked], absorbing: the process is gone);
   a send on a full buffered channel and a receive on an empty open channel block (= label not
   enabled); receive from a closed channel yields the buffered value first, then the zero value;
   ranging over a map visits the entries present in any order.

   The environment is a label too: starting a call, cancelling a context, and the verdict
   (ok / error e / panic) of the next Send, Flush, Put or Replay call. *)
From GoSse Require Import Base.
Local Open Scope nat_scope.

Definition upd {A} (f : nat -> A) (i : nat) (x : A) : nat -> A :=
  fun j => if Nat.eqb j i then x else f j.

Definition mem (i : nat) (l : list nat) : bool := existsb (Nat.eqb i) l.
Fixpoint rem (i : nat) (l : list nat) : list nat :=
  match l with [] => [] | x :: r => if Nat.eqb i x then rem i r else x :: rem i r end.
(* replay.go topicsIntersect, as a specification: some topic in common *)
Definition intersects (a b : list nat) : bool := existsb (fun x => mem x b) a.

(* error codes: what Subscribe/Publish/Shutdown return.  User (scripted) errors are >= 100. *)
Definition E_CLOSED : nat := 1.   (* ErrProviderClosed *)
Definition E_CTX : nat := 2.      (* the Shutdown context's error *)

Inductive verdict := VOk | VErr (e : nat) | VPanic.
Inductive wcall := WSend (tok : nat) (ok : bool) | WFlush (ok : bool).

(* Subscribe: joe.go:116-151 *)
Inductive sub_pc :=
| S0                      (* not called yet *)
| AtSel1                  (* select { <-j.done ; j.subscription <- sub } *)
| AtSel2                  (* select { <-done ; <-ctx.Done() } *)
| AtSel3                  (* select { <-done ; j.unsubscription <- done } *)
| Draining                (* err := <-done after the unsubscription was handed in *)
| SRet (r : option nat).  (* returned r *)

Inductive rem_why := RFail | RUnsub | RExit.

Record sub_t := mkSub {
  s_pc : sub_pc;
  s_ctx : bool;               (* its context is cancelled *)
  s_dbuf : option nat;        (* done := make(chan error, 1): the buffered error *)
  s_dclosed : bool;           (* done is closed *)
  s_topics : list nat;
  s_rlog : list wcall;        (* calls on its MessageWriter made by the replayer *)
  s_llog : list wcall;        (* calls on its MessageWriter made by the fan-out *)
  (* history (ghost) fields: written, never read by [step]'s guards *)
  s_fail : option nat;        (* the failure the loop recorded for it (done <- err) *)
  s_reg : option nat;         (* length of [order] when it was registered *)
  s_rem : option (nat * rem_why); (* length of [order] when it was removed, and why *)
  s_cancel : option nat;      (* length of [order] when its cancellation was requested *)
  s_rsnap : option nat        (* length of [puts] when Replay was called for it *)
}.
Definition sub0 : sub_t := mkSub S0 false None false [] [] [] None None None None None.

(* Publish: joe.go:164-188 *)
Inductive pub_pc := P0 | PAtSel | PWait | PRet (r : option nat).
Record pub_t := mkPub {
  p_pc : pub_pc;
  p_topics : list nat;
  p_ebuf : option nat;   (* errs := make(chan error, 1) *)
  p_eclosed : bool
}.
Definition pub0 : pub_t := mkPub P0 [] None false.

(* Shutdown: joe.go:194-218 *)
Inductive shut_pc := H0 | HEntered | HWaiting | HRet (r : option nat).
Record shut_t := mkShut { h_pc : shut_pc; h_ctx : bool }.
Definition shut0 : shut_t := mkShut H0 false.

(* Joe.start: joe.go:232-309 *)
Inductive loop_pc :=
| Top                                   (* before loop.idle *)
| Idle                                  (* at the select *)
| GotMsg (p : nat)                      (* received from j.message *)
| PutDone (p : nat) (v : verdict)       (* tryPut returned *)
| ErrsReady (p : nat)                   (* about to close(msg.replayerErr) *)
| Fan (p : nat) (todo : list nat)       (* ranging over j.subscribers; todo = matching ones not reached yet *)
| Flushing (p i : nat) (todo : list nat)
| Failing (p i e : nat) (todo : list nat)   (* about to done <- err *)
| Removing (p i : nat) (todo : list nat)    (* about to removeSubscriber(done) *)
| GotSub (i : nat)                      (* received from j.subscription *)
| Replaying (i : nat)                   (* inside tryReplay *)
| Rejecting (i e : nat)                 (* about to sub.done <- err; close(sub.done) *)
| Registering (i : nat)                 (* about to j.subscribers[sub.done] = ... *)
| GotUnsub (i : nat)                    (* received from j.unsubscription *)
| Exiting                               (* deferred closeSubscribers *)
| Exited                                (* close(j.closed) done *)
| Panicked.

Record state := mkSt {
  pc : loop_pc;
  subs : list nat;          (* j.subscribers *)
  rep : bool;               (* replay != nil *)
  done_closed : bool;       (* j.done *)
  closed_closed : bool;     (* j.closed *)
  order : list nat;         (* ghost: publishes in the order the loop accepted them *)
  puts : list (nat * verdict); (* ghost: Replayer.Put calls with their verdicts *)
  sub : nat -> sub_t;
  pub : nat -> pub_t;
  shut : nat -> shut_t
}.

Definition init : state :=
  mkSt Top [] true false false [] [] (fun _ => sub0) (fun _ => pub0) (fun _ => shut0).

(* field updates *)
Definition set_pc (s : state) (x : loop_pc) : state :=
  mkSt x (subs s) (rep s) (done_closed s) (closed_closed s) (order s) (puts s) (sub s) (pub s) (shut s).
Definition set_subs (s : state) (x : list nat) : state :=
  mkSt (pc s) x (rep s) (done_closed s) (closed_closed s) (order s) (puts s) (sub s) (pub s) (shut s).
Definition set_rep (s : state) (x : bool) : state :=
  mkSt (pc s) (subs s) x (done_closed s) (closed_closed s) (order s) (puts s) (sub s) (pub s) (shut s).
Definition set_done_closed (s : state) (x : bool) : state :=
  mkSt (pc s) (subs s) (rep s) x (closed_closed s) (order s) (puts s) (sub s) (pub s) (shut s).
Definition set_closed_closed (s : state) (x : bool) : state :=
  mkSt (pc s) (subs s) (rep s) (done_closed s) x (order s) (puts s) (sub s) (pub s) (shut s).
Definition set_order (s : state) (x : list nat) : state :=
  mkSt (pc s) (subs s) (rep s) (done_closed s) (closed_closed s) x (puts s) (sub s) (pub s) (shut s).
Definition set_puts (s : state) (x : list (nat * verdict)) : state :=
  mkSt (pc s) (subs s) (rep s) (done_closed s) (closed_closed s) (order s) x (sub s) (pub s) (shut s).
Definition set_sub (s : state) (i : nat) (x : sub_t) : state :=
  mkSt (pc s) (subs s) (rep s) (done_closed s) (closed_closed s) (order s) (puts s) (upd (sub s) i x) (pub s) (shut s).
Definition set_pub (s : state) (p : nat) (x : pub_t) : state :=
  mkSt (pc s) (subs s) (rep s) (done_closed s) (closed_closed s) (order s) (puts s) (sub s) (upd (pub s) p x) (shut s).
Definition set_shut (s : state) (h : nat) (x : shut_t) : state :=
  mkSt (pc s) (subs s) (rep s) (done_closed s) (closed_closed s) (order s) (puts s) (sub s) (pub s) (upd (shut s) h x).

Definition w_pc (x : sub_t) (v : sub_pc) : sub_t :=
  mkSub v (s_ctx x) (s_dbuf x) (s_dclosed x) (s_topics x) (s_rlog x) (s_llog x) (s_fail x) (s_reg x) (s_rem x) (s_cancel x) (s_rsnap x).
Definition w_ctx (x : sub_t) (v : bool) : sub_t :=
  mkSub (s_pc x) v (s_dbuf x) (s_dclosed x) (s_topics x) (s_rlog x) (s_llog x) (s_fail x) (s_reg x) (s_rem x) (s_cancel x) (s_rsnap x).
Definition w_dbuf (x : sub_t) (v : option nat) : sub_t :=
  mkSub (s_pc x) (s_ctx x) v (s_dclosed x) (s_topics x) (s_rlog x) (s_llog x) (s_fail x) (s_reg x) (s_rem x) (s_cancel x) (s_rsnap x).
Definition w_dclosed (x : sub_t) (v : bool) : sub_t :=
  mkSub (s_pc x) (s_ctx x) (s_dbuf x) v (s_topics x) (s_rlog x) (s_llog x) (s_fail x) (s_reg x) (s_rem x) (s_cancel x) (s_rsnap x).
Definition w_topics (x : sub_t) (v : list nat) : sub_t :=
  mkSub (s_pc x) (s_ctx x) (s_dbuf x) (s_dclosed x) v (s_rlog x) (s_llog x) (s_fail x) (s_reg x) (s_rem x) (s_cancel x) (s_rsnap x).
Definition w_rlog (x : sub_t) (v : list wcall) : sub_t :=
  mkSub (s_pc x) (s_ctx x) (s_dbuf x) (s_dclosed x) (s_topics x) v (s_llog x) (s_fail x) (s_reg x) (s_rem x) (s_cancel x) (s_rsnap x).
Definition w_llog (x : sub_t) (v : list wcall) : sub_t :=
  mkSub (s_pc x) (s_ctx x) (s_dbuf x) (s_dclosed x) (s_topics x) (s_rlog x) v (s_fail x) (s_reg x) (s_rem x) (s_cancel x) (s_rsnap x).
Definition w_fail (x : sub_t) (v : option nat) : sub_t :=
  mkSub (s_pc x) (s_ctx x) (s_dbuf x) (s_dclosed x) (s_topics x) (s_rlog x) (s_llog x) v (s_reg x) (s_rem x) (s_cancel x) (s_rsnap x).
Definition w_reg (x : sub_t) (v : option nat) : sub_t :=
  mkSub (s_pc x) (s_ctx x) (s_dbuf x) (s_dclosed x) (s_topics x) (s_rlog x) (s_llog x) (s_fail x) v (s_rem x) (s_cancel x) (s_rsnap x).
Definition w_rem (x : sub_t) (v : option (nat * rem_why)) : sub_t :=
  mkSub (s_pc x) (s_ctx x) (s_dbuf x) (s_dclosed x) (s_topics x) (s_rlog x) (s_llog x) (s_fail x) (s_reg x) v (s_cancel x) (s_rsnap x).
Definition w_cancel (x : sub_t) (v : option nat) : sub_t :=
  mkSub (s_pc x) (s_ctx x) (s_dbuf x) (s_dclosed x) (s_topics x) (s_rlog x) (s_llog x) (s_fail x) (s_reg x) (s_rem x) v (s_rsnap x).

Definition w_rsnap (x : sub_t) (v : option nat) : sub_t :=
  mkSub (s_pc x) (s_ctx x) (s_dbuf x) (s_dclosed x) (s_topics x) (s_rlog x) (s_llog x) (s_fail x) (s_reg x) (s_rem x) (s_cancel x) v.

Definition wp_pc (x : pub_t) (v : pub_pc) : pub_t := mkPub v (p_topics x) (p_ebuf x) (p_eclosed x).
Definition wp_topics (x : pub_t) (v : list nat) : pub_t := mkPub (p_pc x) v (p_ebuf x) (p_eclosed x).
Definition wp_ebuf (x : pub_t) (v : option nat) : pub_t := mkPub (p_pc x) (p_topics x) v (p_eclosed x).
Definition wp_eclosed (x : pub_t) (v : bool) : pub_t := mkPub (p_pc x) (p_topics x) (p_ebuf x) v.

Inductive label :=
(* a Subscribe call *)
| SubEnter (i : nat) (topics : list nat)   (* environment: the call starts *)
| SubClosed (i : nat)                      (* select 1: <-j.done *)
| SubSend (i : nat)                        (* select 1: j.subscription <- sub, jointly with the loop's receive *)
| SubDone (i : nat)                        (* select 2/3 or the drain: receive from done *)
| SubCtx (i : nat)                         (* select 2: <-ctx.Done() *)
| SubUnsub (i : nat)                       (* select 3: j.unsubscription <- done, jointly with the loop *)
| Cancel (i : nat)                         (* environment: its context is cancelled *)
(* a Publish call *)
| PubEnter (p : nat) (topics : list nat)   (* environment *)
| PubSend (p : nat)                        (* j.message <- pub, jointly with the loop *)
| PubClosed (p : nat)                      (* <-j.done *)
| PubRecv (p : nat)                        (* return <-errs *)
(* a Shutdown call *)
| ShutEnter (h : nat)                      (* environment *)
| ShutClose (h : nat)                      (* close(j.done), recovering the double close *)
| ShutDone (h : nat)                       (* <-j.closed *)
| ShutCtx (h : nat)                        (* <-ctx.Done() *)
| HCancel (h : nat)                        (* environment *)
(* the loop *)
| LIdle
| LPut (p : nat) (v : verdict)             (* tryPut; v = the replayer's verdict (environment) *)
| LPutRes (p : nat)                        (* msg.replayerErr <- err when Put failed *)
| LErrs (p : nat)                          (* close(msg.replayerErr); start ranging *)
| LSend (i : nat) (v : verdict)            (* sub.Client.Send for a matching subscriber not reached yet *)
| LFlush (i : nat) (v : verdict)
| LFail (i : nat)                          (* done <- err *)
| LRemove (i : nat)                        (* removeSubscriber: registered -> delete, close *)
| LRemoveSkip (i : nat)                    (* removeSubscriber: not registered -> nothing *)
| LReplay (i : nat)                        (* tryReplay starts *)
| LRSend (i tok : nat) (v : verdict)       (* the replayer calls Send/Flush on the new subscriber *)
| LRFlush (i : nat) (v : verdict)
| LReplayed (i : nat) (v : verdict)        (* tryReplay returned v *)
| LReject (i : nat)                        (* sub.done <- err; close(sub.done) *)
| LReg (i : nat)                           (* j.subscribers[sub.done] = sub *)
| LDone                                    (* <-j.done *)
| LExit.                                   (* closeSubscribers finished; close(j.closed) *)

Definition is_ok (v : verdict) : bool := match v with VOk => true | _ => false end.
Definition is_panic (v : verdict) : bool := match v with VPanic => true | _ => false end.

Definition panic (s : state) : state := set_pc s Panicked.

(* done_i <- e *)
Definition send_done (s : state) (i e : nat) (k : state -> option state) : option state :=
  let x := sub s i in
  if s_dclosed x then Some (panic s)
  else match s_dbuf x with
       | Some _ => None
       | None => k (set_sub s i (w_fail (w_dbuf x (Some e)) (Some e)))
       end.
(* close(done_i) *)
Definition close_done (s : state) (i : nat) (k : state -> option state) : option state :=
  let x := sub s i in
  if s_dclosed x then Some (panic s) else k (set_sub s i (w_dclosed x true)).

(* receive from a buffered(1) channel: buffered value first, zero value when closed, else blocks *)
Definition recv1 (buf : option nat) (closed : bool) : option (option nat) :=
  match buf with Some e => Some (Some e) | None => if closed then Some None else None end.

Definition step_live (s : state) (l : label) : option state :=
  match l with
  | SubEnter i ts =>
      match s_pc (sub s i) with
      | S0 => Some (set_sub s i (w_topics (w_pc (sub s i) AtSel1) ts))
      | _ => None end
  | SubClosed i =>
      match s_pc (sub s i) with
      | AtSel1 => if done_closed s then Some (set_sub s i (w_pc (sub s i) (SRet (Some E_CLOSED)))) else None
      | _ => None end
  | SubSend i =>
      match s_pc (sub s i), pc s with
      | AtSel1, Idle => Some (set_pc (set_sub s i (w_pc (sub s i) AtSel2)) (GotSub i))
      | _, _ => None end
  | SubDone i =>
      match s_pc (sub s i) with
      | AtSel2 | AtSel3 | Draining =>
          match recv1 (s_dbuf (sub s i)) (s_dclosed (sub s i)) with
          | Some r => Some (set_sub s i (w_pc (w_dbuf (sub s i) None) (SRet r)))
          | None => None end
      | _ => None end
  | SubCtx i =>
      match s_pc (sub s i) with
      | AtSel2 => if s_ctx (sub s i) then Some (set_sub s i (w_pc (sub s i) AtSel3)) else None
      | _ => None end
  | SubUnsub i =>
      match s_pc (sub s i), pc s with
      | AtSel3, Idle => Some (set_pc (set_sub s i (w_pc (sub s i) Draining)) (GotUnsub i))
      | _, _ => None end
  | Cancel i =>
      let x := sub s i in
      Some (set_sub s i (w_cancel (w_ctx x true)
                           (match s_cancel x with Some c => Some c | None => Some (length (order s)) end)))
  | PubEnter p ts =>
      match p_pc (pub s p) with
      | P0 => Some (set_pub s p (wp_topics (wp_pc (pub s p) PAtSel) ts))
      | _ => None end
  | PubSend p =>
      match p_pc (pub s p), pc s with
      | PAtSel, Idle => Some (set_order (set_pc (set_pub s p (wp_pc (pub s p) PWait)) (GotMsg p)) (order s ++ [p]))
      | _, _ => None end
  | PubClosed p =>
      match p_pc (pub s p) with
      | PAtSel => if done_closed s then Some (set_pub s p (wp_pc (pub s p) (PRet (Some E_CLOSED)))) else None
      | _ => None end
  | PubRecv p =>
      match p_pc (pub s p) with
      | PWait =>
          match recv1 (p_ebuf (pub s p)) (p_eclosed (pub s p)) with
          | Some r => Some (set_pub s p (wp_pc (wp_ebuf (pub s p) None) (PRet r)))
          | None => None end
      | _ => None end
  | ShutEnter h =>
      match h_pc (shut s h) with
      | H0 => Some (set_shut s h (mkShut HEntered (h_ctx (shut s h))))
      | _ => None end
  | ShutClose h =>
      match h_pc (shut s h) with
      | HEntered =>
          if done_closed s then Some (set_shut s h (mkShut (HRet (Some E_CLOSED)) (h_ctx (shut s h))))
          else Some (set_done_closed (set_shut s h (mkShut HWaiting (h_ctx (shut s h)))) true)
      | _ => None end
  | ShutDone h =>
      match h_pc (shut s h) with
      | HWaiting => if closed_closed s then Some (set_shut s h (mkShut (HRet None) (h_ctx (shut s h)))) else None
      | _ => None end
  | ShutCtx h =>
      match h_pc (shut s h) with
      | HWaiting => if h_ctx (shut s h) then Some (set_shut s h (mkShut (HRet (Some E_CTX)) true)) else None
      | _ => None end
  | HCancel h => Some (set_shut s h (mkShut (h_pc (shut s h)) true))
  | LIdle =>
      match pc s with
      | Top | Fan _ [] => Some (set_pc s Idle)
      | _ => None end
  | LPut p v =>
      match pc s with
      | GotMsg q =>
          if Nat.eqb p q && rep s
          then Some (set_rep (set_puts (set_pc s (PutDone p v)) (puts s ++ [(p, v)])) (negb (is_panic v)))
          else None
      | _ => None end
  | LPutRes p =>
      match pc s with
      | PutDone q v =>
          if Nat.eqb p q then
            match v with
            | VErr e =>
                if p_eclosed (pub s p) then Some (panic s)
                else match p_ebuf (pub s p) with
                     | Some _ => None
                     | None => Some (set_pc (set_pub s p (wp_ebuf (pub s p) (Some e))) (ErrsReady p))
                     end
            | _ => Some (set_pc s (ErrsReady p))
            end
          else None
      | _ => None end
  | LErrs p =>
      let go :=
        if p_eclosed (pub s p) then Some (panic s)
        else Some (set_pc (set_pub s p (wp_eclosed (pub s p) true))
                     (Fan p (filter (fun i => intersects (s_topics (sub s i)) (p_topics (pub s p))) (subs s)))) in
      match pc s with
      | ErrsReady q => if Nat.eqb p q then go else None
      | GotMsg q => if Nat.eqb p q && negb (rep s) then go else None
      | _ => None end
  | LSend i v =>
      match pc s with
      | Fan p todo =>
          if mem i todo then
            let s1 := set_sub s i (w_llog (sub s i) (s_llog (sub s i) ++ [WSend p (is_ok v)])) in
            match v with
            | VOk => Some (set_pc s1 (Flushing p i (rem i todo)))
            | VErr e => Some (set_pc s1 (Failing p i e (rem i todo)))
            | VPanic => None
            end
          else None
      | _ => None end
  | LFlush i v =>
      match pc s with
      | Flushing p j todo =>
          if Nat.eqb i j then
            let s1 := set_sub s i (w_llog (sub s i) (s_llog (sub s i) ++ [WFlush (is_ok v)])) in
            match v with
            | VOk => Some (set_pc s1 (Fan p todo))
            | VErr e => Some (set_pc s1 (Failing p i e todo))
            | VPanic => None
            end
          else None
      | _ => None end
  | LFail i =>
      match pc s with
      | Failing p j e todo =>
          if Nat.eqb i j then send_done s i e (fun s1 => Some (set_pc s1 (Removing p i todo))) else None
      | _ => None end
  | LRemove i =>
      let go (why : rem_why) (next : loop_pc) :=
        if mem i (subs s) then
          close_done (set_subs s (rem i (subs s))) i
            (fun s1 => Some (set_pc (set_sub s1 i (w_rem (sub s1 i) (Some (length (order s), why)))) next))
        else None in
      match pc s with
      | Removing p j todo => if Nat.eqb i j then go RFail (Fan p todo) else None
      | GotUnsub j => if Nat.eqb i j then go RUnsub Top else None
      | Exiting => go RExit Exiting
      | _ => None end
  | LRemoveSkip i =>
      if mem i (subs s) then None else
      match pc s with
      | Removing p j todo => if Nat.eqb i j then Some (set_pc s (Fan p todo)) else None
      | GotUnsub j => if Nat.eqb i j then Some (set_pc s Top) else None
      | _ => None end
  | LReplay i =>
      match pc s with
      | GotSub j => if Nat.eqb i j && rep s
                    then Some (set_pc (set_sub s i (w_rsnap (sub s i) (Some (length (puts s))))) (Replaying i))
                    else None
      | _ => None end
  | LRSend i tok v =>
      match pc s with
      | Replaying j =>
          if Nat.eqb i j && negb (is_panic v)
          then Some (set_sub s i (w_rlog (sub s i) (s_rlog (sub s i) ++ [WSend tok (is_ok v)])))
          else None
      | _ => None end
  | LRFlush i v =>
      match pc s with
      | Replaying j =>
          if Nat.eqb i j && negb (is_panic v)
          then Some (set_sub s i (w_rlog (sub s i) (s_rlog (sub s i) ++ [WFlush (is_ok v)])))
          else None
      | _ => None end
  | LReplayed i v =>
      match pc s with
      | Replaying j =>
          if Nat.eqb i j then
            match v with
            | VOk => Some (set_pc s (Registering i))
            | VErr e => Some (set_pc s (Rejecting i e))
            | VPanic => Some (set_rep (set_pc s (Registering i)) false)
            end
          else None
      | _ => None end
  | LReject i =>
      match pc s with
      | Rejecting j e =>
          if Nat.eqb i j
          then send_done s i e (fun s1 => close_done s1 i (fun s2 => Some (set_pc s2 Top)))
          else None
      | _ => None end
  | LReg i =>
      let go := Some (set_pc (set_subs (set_sub s i (w_reg (sub s i) (Some (length (order s))))) (i :: rem i (subs s))) Top) in
      match pc s with
      | Registering j => if Nat.eqb i j then go else None
      | GotSub j => if Nat.eqb i j && negb (rep s) then go else None
      | _ => None end
  | LDone =>
      match pc s with
      | Idle => if done_closed s then Some (set_pc s Exiting) else None
      | _ => None end
  | LExit =>
      match pc s, subs s with
      | Exiting, [] =>
          if closed_closed s then Some (panic s) else Some (set_pc (set_closed_closed s true) Exited)
      | _, _ => None end
  end.

(* a crashed process does nothing any more *)
Definition step (s : state) (l : label) : option state :=
  match pc s with Panicked => None | _ => step_live s l end.

(* executions: all label sequences from [init] *)
Fixpoint run (s : state) (ls : list label) : option state :=
  match ls with
  | [] => Some s
  | l :: r => match step s l with Some s' => run s' r | None => None end
  end.

Definition reachable (s : state) : Prop := exists ls, run init ls = Some s.

(* the steps the environment decides: starting calls and cancelling contexts.  (The verdict carried
   by a loop label is the environment's too, but the step itself is the loop's.) *)
Definition is_env (l : label) : bool :=
  match l with
  | SubEnter _ _ | Cancel _ | PubEnter _ _ | ShutEnter _ | HCancel _ => true
  | _ => false
  end.

(* derived observables *)
Definition wlog (s : state) (i : nat) : list wcall := s_rlog (sub s i) ++ s_llog (sub s i).
Definition registered (s : state) (i : nat) : bool := mem i (subs s).
Definition sub_returned (s : state) (i : nat) : bool :=
  match s_pc (sub s i) with SRet _ => true | _ => false end.
