(* The group structure of a stream ([RunParse.group_ends_from], the byte-by-byte state machine the limit
   [fitsb] is written with) against splitFunc:
   - split_loop_quiet : while splitFunc's loop runs, the machine emits no group end; where the loop stops
                        inside the data, the machine is about to emit one (the byte there is the first
                        terminator byte of the blank line that completes the group);
   - sf_more_quiet    : "need more data" means that the data holds no complete group;
   - sf_tok_end       : a token cut in the middle of the input ends exactly at the first group end [c] of the
                        input, or one byte later when that byte is a CR and the LF is already there;
   - fits_tok, fits_no_toolong : the limit [fitsb] is inherited by the rest of the input after a token, and
                        excludes that splitFunc says "more" on a full buffer (= ErrTooLong). *)
From GoSse Require Import Base Lines FieldParser Whatwg WhatwgLines Split Scanner Reader ReadLoop Yields RunParse SplitProofs.
From Coq Require Import ZifyN ZifyNat ZifyBool.
Local Open Scope nat_scope.

Notation ge := group_ends_from.

(* the last flag of the machine is never read *)
Lemma ge_j s pos x g a j j' : ge s pos x g a j = ge s pos x g a j'.
Proof. destruct s; reflexivity. Qed.

(* the machine state: at_start, in_group, prev_cr *)
Definition gst := (bool * bool * bool)%type.
Definition ge' (s : bytes) (pos : N) (st : gst) : list (N * N) :=
  let '(x, g, a) := st in ge s pos x g a false.

Definition hi_of (c : N) (b : N) (r : bytes) : N :=
  if (b =? CR)%N && (match r with c' :: _ => (c' =? LF)%N | [] => false end) then (c + 1)%N else c.

Lemma ge'_cons b r pos x g a :
  ge' (b :: r) pos (x, g, a) =
  if a && (b =? LF)%N then ge' r (pos + 1)%N (x, g, false)
  else if is_nl b then
    if x then
      if g then ((pos + 1)%N, hi_of (pos + 1)%N b r) :: ge' r (pos + 1)%N (true, false, (b =? CR)%N)
      else ge' r (pos + 1)%N (true, false, (b =? CR)%N)
    else ge' r (pos + 1)%N (true, g, (b =? CR)%N)
  else ge' r (pos + 1)%N (false, true, false).
Proof.
  unfold ge', hi_of. cbn [ge].
  destruct (a && (b =? LF)%N); [reflexivity|].
  destruct (is_nl b); [|reflexivity].
  destruct x; [|reflexivity]. destruct g; [|reflexivity].
  f_equal. apply ge_j.
Qed.

(* every reported position lies beyond the start *)
Lemma ge'_pos s : forall pos st, Forall (fun ch => (pos < fst ch)%N) (ge' s pos st).
Proof.
  induction s as [|b r IH]; intros pos [[x g] a]; [constructor|].
  rewrite ge'_cons.
  assert (W : forall st', Forall (fun ch => (pos < fst ch)%N) (ge' r (pos + 1)%N st')).
  { intros st'. eapply Forall_impl; [|apply IH]. cbn beta. intros ch Hc. lia. }
  destruct (a && (b =? LF)%N); [apply W|].
  destruct (is_nl b); [|apply W].
  destruct x; [|apply W]. destruct g; [|apply W].
  constructor; [cbn [fst]; lia|apply W].
Qed.

(* ---- runs of the machine that emit nothing ----------------------------------------------------------- *)
Definition quiet (d : bytes) (st st' : gst) : Prop :=
  forall y pos, ge' (d ++ y) pos st = ge' y (pos + N.of_nat (length d))%N st'.

Lemma quiet_nil st : quiet [] st st.
Proof. intros y pos. cbn [app length]. replace (pos + N.of_nat 0)%N with pos by lia. reflexivity. Qed.

Lemma quiet_app d1 d2 s1 s2 s3 : quiet d1 s1 s2 -> quiet d2 s2 s3 -> quiet (d1 ++ d2) s1 s3.
Proof.
  intros H1 H2 y pos. rewrite <- app_assoc, H1, H2, app_length.
  replace (pos + N.of_nat (length d1) + N.of_nat (length d2))%N with (pos + N.of_nat (length d1 + length d2))%N by lia.
  reflexivity.
Qed.

Lemma quiet_whole d st st' : quiet d st st' -> forall pos, ge' d pos st = [].
Proof.
  intros H pos. specialize (H [] pos). rewrite app_nil_r in H. rewrite H. destruct st' as [[x g] a]. reflexivity.
Qed.

Lemma is_nl_false_lf b : is_nl b = false -> (b =? LF)%N = false.
Proof. unfold is_nl. intros H. apply orb_false_iff in H. tauto. Qed.

Lemma quiet1 b st st' :
  (forall r pos, ge' (b :: r) pos st = ge' r (pos + 1)%N st') -> quiet [b] st st'.
Proof. intros H y pos. cbn [app length]. rewrite H. replace (pos + N.of_nat 1)%N with (pos + 1)%N by lia. reflexivity. Qed.

Lemma quiet_nonnl b x g a : is_nl b = false -> quiet [b] (x, g, a) (false, true, false).
Proof.
  intros Hb. apply quiet1. intros r pos. rewrite ge'_cons, (is_nl_false_lf b Hb), Bool.andb_false_r, Hb. reflexivity.
Qed.

Lemma quiet_line l : no_nl l -> l <> [] -> forall st, quiet l st (false, true, false).
Proof.
  induction 1 as [|b l' Hb Hl IH]; intros Hne [[x g] a]; [congruence|].
  destruct l' as [|c l''].
  - now apply quiet_nonnl.
  - change (b :: c :: l'') with ([b] ++ c :: l''). eapply quiet_app.
    + now apply quiet_nonnl.
    + apply IH. discriminate.
Qed.

Lemma quiet_blank1 b a : is_nl b = true -> quiet [b] (true, false, a) (true, false, (b =? CR)%N).
Proof.
  intros Hb. apply quiet1. intros r pos. rewrite ge'_cons, Hb.
  destruct (a && (b =? LF)%N) eqn:E; [|reflexivity].
  apply andb_true_iff in E as [_ E]. apply N.eqb_eq in E. subst b. reflexivity.
Qed.

Lemma quiet_lf_after_cr x g : quiet [LF] (x, g, true) (x, g, false).
Proof. apply quiet1. intros r pos. rewrite ge'_cons. reflexivity. Qed.

Lemma quiet_term1 b : is_nl b = true -> quiet [b] (false, true, false) (true, true, (b =? CR)%N).
Proof. intros Hb. apply quiet1. intros r pos. rewrite ge'_cons, Hb. reflexivity. Qed.

(* a blank line: its terminator, as newline_index sees it *)
Lemma quiet_blank b r el a : is_nl b = true -> newline_index (b :: r) = (0, el) ->
  exists a', quiet (firstn el (b :: r)) (true, false, a) (true, false, a').
Proof.
  intros Hb. cbn [newline_index]. rewrite Hb.
  destruct ((b =? CR)%N && match r with c :: _ => (c =? LF)%N | [] => false end) eqn:E; intros [= <-].
  - apply andb_true_iff in E as [E1 E2]. apply N.eqb_eq in E1. subst b.
    destruct r as [|c r']; [discriminate|]. apply N.eqb_eq in E2. subst c.
    exists false. change (firstn 2 (CR :: LF :: r')) with ([CR] ++ [LF]).
    eapply quiet_app; [apply (quiet_blank1 CR a Hb)|]. apply quiet_lf_after_cr.
  - exists (b =? CR)%N. now apply quiet_blank1.
Qed.

(* the terminator of a non-blank line *)
Lemma ni_skip s : forall i el, newline_index s = (i, el) -> 0 < el ->
  exists b r, skipn i s = b :: r /\ is_nl b = true /\ newline_index (b :: r) = (0, el).
Proof.
  induction s as [|b r IH]; intros i el; [cbn; intros [= <- <-]; lia|].
  destruct (is_nl b) eqn:Hb.
  - intros En Hel. pose proof En as En'. cbn [newline_index] in En. rewrite Hb in En. injection En as <- _.
    exists b, r. auto.
  - cbn [newline_index]. rewrite Hb. destruct (newline_index r) as [i' el'] eqn:En. intros [= <- <-] Hel.
    destruct (IH i' el' eq_refl Hel) as (b' & r' & H1 & H2 & H3). exists b', r'. auto.
Qed.

Lemma quiet_term s i el : newline_index s = (i, el) -> 0 < el ->
  exists a', quiet (firstn el (skipn i s)) (false, true, false) (true, true, a') /\
             (a' = true -> forall r2, skipn (i + el) s = LF :: r2 -> False).
Proof.
  intros En Hel. destruct (ni_skip s i el En Hel) as (b & r & Hs & Hb & En').
  rewrite <- skipn_add, Hs. clear En Hs.
  cbn [newline_index] in En'. rewrite Hb in En'.
  destruct ((b =? CR)%N && match r with c :: _ => (c =? LF)%N | [] => false end) eqn:E; injection En' as <-.
  - apply andb_true_iff in E as [E1 E2]. apply N.eqb_eq in E1. subst b.
    destruct r as [|c r']; [discriminate|]. apply N.eqb_eq in E2. subst c.
    exists false. split; [|discriminate]. change (firstn 2 (CR :: LF :: r')) with ([CR] ++ [LF]).
    eapply quiet_app; [apply (quiet_term1 CR Hb)|]. apply quiet_lf_after_cr.
  - exists (b =? CR)%N. split; [now apply quiet_term1|].
    intros Ecr r2. cbn [skipn]. intros ->. rewrite Ecr in E. cbn in E. discriminate.
Qed.

(* ---- splitFunc's loop against the machine ------------------------------------------------------------------ *)
Lemma split_loop_quiet fuel : forall rest adv start adv' start' g a,
  length rest < fuel ->
  (g = true -> match rest with [] => True | b :: _ => is_nl b = false end) ->
  split_loop fuel rest adv start = Some (adv', start') ->
  exists k, adv' = k + adv /\ k <= length rest /\
    (k = length rest -> exists st', quiet rest (true, g, a) st') /\
    (k < length rest -> 0 < k /\ exists b r' a', skipn k rest = b :: r' /\ is_nl b = true /\
        quiet (firstn k rest) (true, g, a) (true, true, a') /\ a' && (b =? LF)%N = false).
Proof.
  induction fuel as [|fuel IH]; intros rest adv start adv' start' g a Hf Hg H; [lia|].
  cbn [split_loop] in H.
  destruct rest as [|b r].
  - cbn in H. injection H as <- <-. exists 0. split; [reflexivity|]. split; [cbn; lia|]. split.
    + intros _. eexists. apply quiet_nil.
    + cbn. lia.
  - pose proof (newline_index_bounds (b :: r)) as Hbd.
    destruct (is_nl b) eqn:Hb.
    + (* a blank line *)
      assert (g = false) as -> by (destruct g; [specialize (Hg eq_refl); cbn in Hg; congruence|reflexivity]).
      destruct (ni_first_nl b r Hb) as [Hi Hel].
      destruct (newline_index (b :: r)) as [i el] eqn:En. cbn [fst snd] in Hi, Hel. subst i.
      destruct (quiet_blank b r el a Hb En) as [a1 Hq].
      cbn [Nat.eqb plus] in H.
      destruct (skipn el (b :: r)) as [|c rest'] eqn:Es.
      * injection H as <- <-.
        assert (Hl : length (b :: r) <= el).
        { pose proof (skipn_length el (b :: r)) as Hl. rewrite Es in Hl. cbn [length] in Hl |- *. lia. }
        exists el. split; [reflexivity|]. split; [lia|]. split; [|lia].
        intros _. exists (true, false, a1). rewrite firstn_all2 in Hq by exact Hl. exact Hq.
      * cbn [Nat.ltb Nat.leb] in H. rewrite Bool.andb_false_r in H.
        assert (Hlen' : length (c :: rest') = length (b :: r) - el) by (rewrite <- Es; apply skipn_length).
        destruct (IH (c :: rest') (el + adv) (el + start) adv' start' false a1 ltac:(lia) ltac:(discriminate) H)
          as (k' & Hk & Hle & Hall & Hmid).
        exists (el + k'). split; [lia|]. split; [lia|]. split.
        -- intros Hkl. destruct (Hall ltac:(lia)) as [st' Hq'].
           exists st'. rewrite <- (firstn_skipn el (b :: r)), Es. eapply quiet_app; eassumption.
        -- intros Hkl. destruct (Hmid ltac:(lia)) as (Hk0 & b0 & r0 & a0 & Hs0 & Hb0 & Hq0 & Ha0).
           split; [lia|]. exists b0, r0, a0. split; [rewrite <- skipn_add, Es; exact Hs0|]. split; [exact Hb0|].
           split; [|exact Ha0]. rewrite firstn_add, Es. eapply quiet_app; eassumption.
    + (* a non-blank line *)
      pose proof (ni_first_non_nl b r Hb) as Hi.
      pose proof (newline_index_prefix (b :: r)) as Hpre.
      pose proof (wlines_ni (b :: r)) as Hw.
      destruct (newline_index (b :: r)) as [i el] eqn:En. cbn [fst] in Hi, Hpre.
      assert (Hi0 : (i =? 0) = false) by (apply Nat.eqb_neq; lia). rewrite Hi0 in H.
      assert (Hql : quiet (firstn i (b :: r)) (true, g, a) (false, true, false)).
      { apply quiet_line; [exact Hpre|]. destruct i; [lia|discriminate]. }
      destruct el as [|el'].
      * destruct Hw as [_ Hil]. rewrite Nat.add_0_r in H.
        rewrite skipn_all2 in H by lia. injection H as <- <-.
        exists i. split; [lia|]. split; [lia|]. split; [|lia].
        intros _. exists (false, true, false). rewrite firstn_all2 in Hql by lia. exact Hql.
      * destruct (quiet_term (b :: r) i (S el') En ltac:(lia)) as (a1 & Hqt & Hgreedy).
        assert (Hq : quiet (firstn (i + S el') (b :: r)) (true, g, a) (true, true, a1)).
        { rewrite firstn_add. eapply quiet_app; eassumption. }
        destruct (skipn (i + S el') (b :: r)) as [|c rest'] eqn:Es.
        -- injection H as <- <-.
           assert (Hl : length (b :: r) <= i + S el').
           { pose proof (skipn_length (i + S el') (b :: r)) as Hl. rewrite Es in Hl. cbn [length] in Hl |- *. lia. }
           exists (i + S el'). split; [reflexivity|]. split; [lia|]. split; [|lia].
           intros _. exists (true, true, a1). rewrite firstn_all2 in Hq by exact Hl. exact Hq.
        -- assert (Hlen' : length (c :: rest') = length (b :: r) - (i + S el')) by (rewrite <- Es; apply skipn_length).
           assert (Hi1 : (0 <? i) = true) by (apply Nat.ltb_lt; lia). rewrite Hi1, Bool.andb_true_r in H.
           destruct (is_nl c) eqn:Hc.
           ++ injection H as <- <-. exists (i + S el'). split; [reflexivity|]. split; [lia|]. split; [cbn [length] in *; lia|].
              intros _. split; [lia|]. exists c, rest', a1. split; [exact Es|]. split; [exact Hc|]. split; [exact Hq|].
              destruct a1; [|reflexivity]. cbn [andb]. destruct (c =? LF)%N eqn:Elf; [|reflexivity].
              exfalso. apply N.eqb_eq in Elf. subst c. exact (Hgreedy eq_refl rest' eq_refl).
           ++ destruct (IH (c :: rest') (i + S el' + adv) start adv' start' true a1 ltac:(lia) ltac:(intros _; exact Hc) H)
                as (k' & Hk & Hle & Hall & Hmid).
              exists (i + S el' + k'). split; [lia|]. split; [lia|]. split.
              ** intros Hkl. destruct (Hall ltac:(lia)) as [st' Hq'].
                 exists st'. rewrite <- (firstn_skipn (i + S el') (b :: r)), Es. eapply quiet_app; eassumption.
              ** intros Hkl. destruct (Hmid ltac:(lia)) as (Hk0 & b0 & r0 & a0 & Hs0 & Hb0 & Hq0 & Ha0).
                 split; [lia|]. exists b0, r0, a0. split; [rewrite <- skipn_add, Es; exact Hs0|]. split; [exact Hb0|].
                 split; [|exact Ha0]. rewrite firstn_add, Es. eapply quiet_app; eassumption.
Qed.

(* ---- splitFunc --------------------------------------------------------------------------------------------- *)
(* "need more data": the data holds no complete group *)
Lemma sf_more_quiet d : split_func d false = SplitMore -> forall a, exists st', quiet d (true, false, a) st'.
Proof.
  intros H a. destruct d as [|b r]; [eexists; apply quiet_nil|].
  unfold split_func in H.
  destruct (split_loop (S (length (b :: r))) (b :: r) 0 0) as [[advance start]|] eqn:El; [|discriminate].
  destruct (split_loop_quiet (S (length (b :: r))) (b :: r) 0 0 advance start false a ltac:(lia) ltac:(discriminate) El) as (k & Hk & Hle & Hall & _).
  cbn [negb] in H. rewrite Bool.andb_true_r in H.
  destruct (advance =? length (b :: r)) eqn:E; [|discriminate].
  apply Hall. apply Nat.eqb_eq in E. lia.
Qed.

Lemma nth_skipn_hd k : forall (d : bytes) b r', skipn k d = b :: r' -> nth k d 0%N = b /\ nth (S k) d 0%N = hd 0%N r'.
Proof.
  induction k as [|k IH]; intros [|x d] b r' H; cbn [skipn] in H; try discriminate.
  - injection H as -> ->. split; [reflexivity|]. destruct r'; reflexivity.
  - apply IH in H. exact H.
Qed.

Lemma split_func_ne d eof : d <> [] ->
  split_func d eof = match split_loop (S (length d)) d 0 0 with
                     | None => SplitOutOfFuel
                     | Some (advance, start) =>
                         if (advance =? length d) && negb eof then SplitMore
                         else SplitTok (final_advance d advance) (firstn (final_advance d advance - start) (skipn start d))
                     end.
Proof. destruct d; [congruence|reflexivity]. Qed.

(* a token cut in the middle of the input ends at the first group end, or one byte later (CR LF taken whole) *)
Lemma sf_tok_end d eof adv tok : split_func d eof = SplitTok adv tok -> adv < length d \/ eof = false ->
  forall a, exists k b r' a', skipn k d = b :: r' /\ is_nl b = true /\ 0 < k /\
     quiet (firstn k d) (true, false, a) (true, true, a') /\ a' && (b =? LF)%N = false /\
     (adv = S k \/ (adv = S (S k) /\ b = CR /\ exists r'', r' = LF :: r'')).
Proof.
  intros H Hmid a. assert (Hne : d <> []) by (intros ->; discriminate).
  rewrite (split_func_ne d eof Hne) in H.
  set (l := length d) in *.
  destruct (split_loop (S l) d 0 0) as [[advance start]|] eqn:El; [|discriminate].
  destruct (split_loop_quiet (S l) d 0 0 advance start false a ltac:(unfold l; lia) ltac:(discriminate) El) as (k & Hk & Hle & _ & Hm).
  rewrite Nat.add_0_r in Hk. subst advance. fold l in Hle, Hm.
  destruct ((k =? l) && negb eof) eqn:E; [discriminate|].
  injection H as Hadv _. unfold final_advance in Hadv. fold l in Hadv. cbv zeta in Hadv.
  destruct (k <? l) eqn:Elt.
  - apply Nat.ltb_lt in Elt. destruct (Hm Elt) as (Hk0 & b & r' & a' & Hs & Hb & Hq & Ha).
    exists k, b, r', a'. repeat split; try assumption.
    destruct (nth_skipn_hd _ _ _ _ Hs) as [Hn0 Hn1].
    replace (S k - 1) with k in Hadv by lia. rewrite Hn0, Hn1 in Hadv.
    destruct ((S k <? l) && (b =? CR)%N && (hd 0%N r' =? LF)%N) eqn:E2.
    + right. apply andb_true_iff in E2 as [E2 E4]. apply andb_true_iff in E2 as [E2 E3].
      apply Nat.ltb_lt in E2. apply N.eqb_eq in E3, E4.
      split; [lia|]. split; [exact E3|]. destruct r' as [|c r''].
      * exfalso. pose proof (skipn_length k d) as Hl. rewrite Hs in Hl. cbn [length] in Hl. fold l in Hl. lia.
      * cbn [hd] in E4. subst c. eexists; reflexivity.
    + left. lia.
  - exfalso. apply Nat.ltb_ge in Elt.
    destruct Hmid as [Hm2 | ->]; [unfold l in *; lia|].
    cbn [negb] in E. rewrite Bool.andb_true_r in E. apply Nat.eqb_neq in E. lia.
Qed.

(* ---- the limit ----------------------------------------------------------------------------------------------- *)
(* [fitsb] reads only the strict needs: the distance from the early end of one group to the early end of the next *)
Fixpoint fits_ends (L : N) (ends : list (N * N)) (len lo : N) : bool :=
  match ends with
  | [] => (len - lo + 1 <=? L)%N
  | (c, _) :: rest => (c - lo <=? L)%N && fits_ends L rest len c
  end.

Lemma fits_needs L E : forall len lo hi,
  forallb (fun x : N * N * N => (snd (fst x) <=? L)%N) (group_needs E len lo hi) = fits_ends L E len lo.
Proof.
  induction E as [|[c h] E IH]; intros len lo hi; cbn [group_needs forallb fits_ends fst snd].
  - apply Bool.andb_true_r.
  - now rewrite IH.
Qed.

Lemma fitsb_ends L s : fitsb L s = fits_ends L (ge' s 0 (true, false, false)) (N.of_nat (length s)) 0.
Proof. unfold fitsb, stream_needs. apply fits_needs. Qed.

(* the rest [R] of the input at offset [o], a token boundary, fits *)
Definition fits_from (L : N) (R : bytes) (o : N) : Prop :=
  exists a, fits_ends L (ge' R o (true, false, a)) (o + N.of_nat (length R)) o = true.

Lemma fits_from_start L s : fitsb L s = true -> fits_from L s 0.
Proof. intros H. exists false. rewrite fitsb_ends in H. exact H. Qed.

Lemma fits_ends_mono L E len lo lo' : (lo <= lo')%N -> fits_ends L E len lo = true -> fits_ends L E len lo' = true.
Proof.
  destruct E as [|[c h] E]; cbn [fits_ends]; intros Hl H.
  - lia.
  - apply andb_true_iff in H as [H1 H2]. apply andb_true_iff. split; [lia|exact H2].
Qed.

Lemma skipn_app_exact {A} (l1 l2 : list A) j : skipn (length l1 + j) (l1 ++ l2) = skipn j l2.
Proof. induction l1 as [|x l1 IH]; cbn; auto. Qed.

Lemma fits_tok L R o n eof adv tok :
  fits_from L R o -> split_func (firstn n R) eof = SplitTok adv tok ->
  adv < length (firstn n R) \/ eof = false ->
  fits_from L (skipn adv R) (o + N.of_nat adv).
Proof.
  intros [a Hf] Hsf Hmid.
  destruct (sf_tok_end _ _ _ _ Hsf Hmid a) as (k & b & r' & a' & Hs & Hb & Hk0 & Hq & Ha & Hadv).
  set (d := firstn n R) in *. set (x := skipn n R).
  assert (HR : R = firstn k d ++ b :: (r' ++ x)).
  { rewrite <- (firstn_skipn n R) at 1. fold d x. rewrite <- (firstn_skipn k d) at 1. rewrite Hs, <- app_assoc. reflexivity. }
  assert (Hkd : length (firstn k d) = k).
  { apply firstn_length_le. pose proof (skipn_length k d) as Hl. rewrite Hs in Hl. cbn [length] in Hl. lia. }
  pose proof (Hq (b :: r' ++ x) o) as Hge. rewrite <- HR, Hkd in Hge.
  rewrite ge'_cons, Ha, Hb in Hge. cbv iota in Hge.
  rewrite Hge in Hf. cbn [fits_ends] in Hf. apply andb_true_iff in Hf as [Hc Hrest].
  assert (HlenR : length R = k + 1 + length (r' ++ x)).
  { rewrite HR at 1. rewrite app_length, Hkd. cbn [length]. lia. }
  destruct Hadv as [-> | (-> & -> & r'' & ->)].
  - exists (b =? CR)%N.
    assert (Hsk : skipn (S k) R = r' ++ x).
    { rewrite HR. replace (S k) with (length (firstn k d) + 1) by lia. now rewrite skipn_app_exact. }
    rewrite Hsk.
    replace (o + N.of_nat (S k))%N with (o + N.of_nat k + 1)%N by lia.
    replace (o + N.of_nat k + 1 + N.of_nat (length (r' ++ x)))%N with (o + N.of_nat (length R))%N by lia.
    exact Hrest.
  - exists false.
    assert (Hsk : skipn (S (S k)) R = r'' ++ x).
    { rewrite HR. replace (S (S k)) with (length (firstn k d) + 2) by lia. now rewrite skipn_app_exact. }
    rewrite Hsk.
    change ((LF :: r'') ++ x) with (LF :: r'' ++ x) in Hrest, HlenR.
    rewrite ge'_cons in Hrest. change ((CR =? CR)%N && (LF =? LF)%N) with true in Hrest. cbv iota in Hrest.
    cbn [length] in HlenR.
    replace (o + N.of_nat (S (S k)))%N with (o + N.of_nat k + 1 + 1)%N by lia.
    replace (o + N.of_nat k + 1 + 1 + N.of_nat (length (r'' ++ x)))%N with (o + N.of_nat (length R))%N by lia.
    eapply fits_ends_mono; [|exact Hrest]. lia.
Qed.

(* a full buffer on which splitFunc says "more" (ErrTooLong) is excluded *)
Lemma fits_no_toolong L R o B : fits_from L R o -> N.of_nat B = L -> length (firstn B R) = B ->
  firstn B R = [] \/ split_func (firstn B R) false = SplitMore -> False.
Proof.
  intros [a Hf] HB Hlen Hd.
  assert (Hq : exists st', quiet (firstn B R) (true, false, a) st').
  { destruct Hd as [-> | Hm]; [eexists; apply quiet_nil|now apply sf_more_quiet]. }
  destruct Hq as [st' Hq].
  pose proof (Hq (skipn B R) o) as Hge. rewrite firstn_skipn, Hlen in Hge.
  pose proof (ge'_pos (skipn B R) (o + N.of_nat B)%N st') as Hpos.
  rewrite Hge in Hf.
  assert (HlR : B <= length R) by (rewrite <- Hlen, firstn_length; lia).
  destruct (ge' (skipn B R) (o + N.of_nat B)%N st') as [|[c h] E]; cbn [fits_ends] in Hf.
  - lia.
  - inversion Hpos as [|? ? Hc _]; subst. cbn [fst] in Hc. apply andb_true_iff in Hf as [Hf _]. lia.
Qed.

(* ---- complete runs: the generous reading of the limit -------------------------------------------------------- *)
(* a token in general: all of the data (only when the reader has ended; the data then holds no complete group), or
   as in sf_tok_end *)
Lemma sf_tok_gen d eof adv tok : split_func d eof = SplitTok adv tok ->
  forall a,
    (adv = length d /\ eof = true /\ exists st', quiet d (true, false, a) st') \/
    (exists k b r' a', skipn k d = b :: r' /\ is_nl b = true /\ 0 < k /\
       quiet (firstn k d) (true, false, a) (true, true, a') /\ a' && (b =? LF)%N = false /\
       (adv = S k \/ (adv = S (S k) /\ b = CR /\ exists r'', r' = LF :: r''))).
Proof.
  intros H a. assert (Hne : d <> []) by (intros ->; discriminate).
  rewrite (split_func_ne d eof Hne) in H.
  set (l := length d) in *.
  destruct (split_loop (S l) d 0 0) as [[advance start]|] eqn:El; [|discriminate].
  destruct (split_loop_quiet (S l) d 0 0 advance start false a ltac:(unfold l; lia) ltac:(discriminate) El) as (k & Hk & Hle & Hall & Hm).
  rewrite Nat.add_0_r in Hk. subst advance. fold l in Hle, Hm, Hall.
  destruct ((k =? l) && negb eof) eqn:E; [discriminate|].
  injection H as Hadv _. unfold final_advance in Hadv. fold l in Hadv. cbv zeta in Hadv.
  destruct (k <? l) eqn:Elt.
  - right. apply Nat.ltb_lt in Elt. destruct (Hm Elt) as (Hk0 & b & r' & a' & Hs & Hb & Hq & Ha).
    exists k, b, r', a'. repeat split; try assumption.
    destruct (nth_skipn_hd _ _ _ _ Hs) as [Hn0 Hn1].
    replace (S k - 1) with k in Hadv by lia. rewrite Hn0, Hn1 in Hadv.
    destruct ((S k <? l) && (b =? CR)%N && (hd 0%N r' =? LF)%N) eqn:E2.
    + right. apply andb_true_iff in E2 as [E2 E4]. apply andb_true_iff in E2 as [E2 E3].
      apply Nat.ltb_lt in E2. apply N.eqb_eq in E3, E4.
      split; [lia|]. split; [exact E3|]. destruct r' as [|c r''].
      * exfalso. pose proof (skipn_length k d) as Hl. rewrite Hs in Hl. cbn [length] in Hl. fold l in Hl. lia.
      * cbn [hd] in E4. subst c. eexists; reflexivity.
    + left. lia.
  - left. apply Nat.ltb_ge in Elt. assert (Hkl : k = l) by lia.
    split; [lia|]. split; [|apply Hall; exact Hkl].
    rewrite Hkl, Nat.eqb_refl in E. cbn [andb] in E. destruct eof; [reflexivity|discriminate].
Qed.

Lemma hi_of_lb c b r : (c <= hi_of c b r)%N.
Proof. unfold hi_of. destruct (_ && _); lia. Qed.

(* [may_complete] reads only the generous needs: from the late end of one group to the early end of the next *)
Fixpoint mc_ends (L : N) (ends : list (N * N)) (len hi : N) : bool :=
  match ends with
  | [] => (len - hi + 1 <=? L)%N
  | (c, h) :: rest => (c - hi <=? L)%N && mc_ends L rest len h
  end.

Lemma mc_needs L E : forall len lo hi,
  forallb (fun x : N * N * N => (snd x <=? L)%N) (group_needs E len lo hi) = mc_ends L E len hi.
Proof.
  induction E as [|[c h] E IH]; intros len lo hi; cbn [group_needs forallb mc_ends fst snd].
  - apply Bool.andb_true_r.
  - now rewrite IH.
Qed.

Lemma may_complete_ends L s : may_complete L s = mc_ends L (ge' s 0 (true, false, false)) (N.of_nat (length s)) 0.
Proof. unfold may_complete, stream_needs. apply mc_needs. Qed.

(* [cpath B R]: tokens, each cut by splitFunc from at most B buffered bytes (fewer than B once the reader has ended:
   the end was delivered by a Read call, which needs room), consume all of R *)
Inductive cpath (B : N) : bytes -> Prop :=
| cp_nil : cpath B []
| cp_tok R n0 eof adv tok :
    n0 <= length R -> (N.of_nat n0 <= B)%N -> (eof = true -> n0 = length R /\ (N.of_nat n0 < B)%N) ->
    split_func (firstn n0 R) eof = SplitTok adv tok -> cpath B (skipn adv R) -> cpath B R.

Lemma cpath_mc B : (0 < B)%N -> forall R, cpath B R -> forall o hi a,
  (o <= hi)%N -> mc_ends B (ge' R o (true, false, a)) (o + N.of_nat (length R)) hi = true.
Proof.
  intros HB. induction 1 as [|R n0 eof adv tok Hn0 HnB Heof Hsf Hpath IH]; intros o hi a Hhi.
  - cbn. lia.
  - destruct (sf_tok_gen _ _ _ _ Hsf a) as [(Hadv & He & st' & Hq)|(k & b & r' & a' & Hs & Hb & Hk0 & Hq & Ha & Hadv)].
    + destruct (Heof He) as [Hn HnB']. rewrite firstn_all2 in Hq by lia.
      rewrite (quiet_whole R _ _ Hq o). cbn [mc_ends]. lia.
    + set (d := firstn n0 R) in *. set (x := skipn n0 R).
      assert (Hld : length d = n0) by (apply firstn_length_le; exact Hn0).
      assert (HR : R = firstn k d ++ b :: (r' ++ x)).
      { rewrite <- (firstn_skipn n0 R) at 1. fold d x. rewrite <- (firstn_skipn k d) at 1. rewrite Hs, <- app_assoc. reflexivity. }
      assert (Hkn : k < n0).
      { pose proof (skipn_length k d) as Hl. rewrite Hs in Hl. cbn [length] in Hl. lia. }
      assert (Hkd : length (firstn k d) = k) by (apply firstn_length_le; lia).
      pose proof (Hq (b :: r' ++ x) o) as Hge. rewrite <- HR, Hkd in Hge.
      rewrite ge'_cons, Ha, Hb in Hge. cbv iota in Hge.
      rewrite Hge. cbn [mc_ends]. apply andb_true_iff. split; [lia|].
      assert (HlenR : length R = k + 1 + length (r' ++ x)).
      { rewrite HR at 1. rewrite app_length, Hkd. cbn [length]. lia. }
      destruct Hadv as [-> | (-> & -> & r'' & ->)].
      * assert (Hsk : skipn (S k) R = r' ++ x).
        { rewrite HR. replace (S k) with (length (firstn k d) + 1) by lia. now rewrite skipn_app_exact. }
        rewrite Hsk in IH.
        specialize (IH (o + N.of_nat k + 1)%N (hi_of (o + N.of_nat k + 1) b (r' ++ x)) (b =? CR)%N (hi_of_lb _ _ _)).
        replace (o + N.of_nat k + 1 + N.of_nat (length (r' ++ x)))%N with (o + N.of_nat (length R))%N in IH by lia.
        exact IH.
      * assert (Hsk : skipn (S (S k)) R = r'' ++ x).
        { rewrite HR. replace (S (S k)) with (length (firstn k d) + 2) by lia. now rewrite skipn_app_exact. }
        rewrite Hsk in IH.
        change ((LF :: r'') ++ x) with (LF :: r'' ++ x) in *.
        rewrite ge'_cons. change ((CR =? CR)%N && (LF =? LF)%N) with true. cbv iota.
        assert (Hhi' : hi_of (o + N.of_nat k + 1) CR (LF :: r'' ++ x) = (o + N.of_nat k + 1 + 1)%N) by reflexivity.
        rewrite Hhi'.
        specialize (IH (o + N.of_nat k + 1 + 1)%N (o + N.of_nat k + 1 + 1)%N false (N.le_refl _)).
        cbn [length] in HlenR.
        replace (o + N.of_nat k + 1 + 1 + N.of_nat (length (r'' ++ x)))%N with (o + N.of_nat (length R))%N in IH by lia.
        exact IH.
Qed.

Lemma cpath_may_complete B s : (0 < B)%N -> cpath B s -> may_complete B s = true.
Proof.
  intros HB Hp. rewrite may_complete_ends. exact (cpath_mc B HB s Hp 0%N 0%N false (N.le_refl _)).
Qed.
