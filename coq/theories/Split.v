(* internal/parser/parser.go:12-48  splitFunc, the bufio.SplitFunc that cuts the
   stream into "chunks" (one event each).  Definitions only; lemmas are in SplitProofs.v.

   The Go loop keeps an index [advance] into [data] and looks at [data[advance:]];
   here the loop carries that suffix itself ([rest] = data[advance:]), so that
   [advance == len(data)] reads [rest' = []] and [data[advance]] is the head of
   [rest'].  Everything else is line for line (sums are written small operand first: unary
   addition in the extracted model costs its first operand). *)
From GoSse Require Import Base Lines.
Local Open Scope nat_scope.

(* parser.go:18-30.  Returns (advance, start).  Every iteration that does not
   leave the loop consumes at least one byte of [rest], so [length data + 1]
   iterations suffice (split_loop_fuel_ok). *)
Fixpoint split_loop (fuel : nat) (rest : bytes) (advance start : nat) : option (nat * nat) :=
  match fuel with
  | O => None
  | S fuel' =>
      let '(index, endline_len) := newline_index rest in
      let advance' := index + endline_len + advance in            (* advance += index + endlineLen *)
      let start' := if index =? 0 then endline_len + start else start in
      let rest' := skipn (index + endline_len) rest in
      match rest' with
      | [] => Some (advance', start')                               (* advance == len(data) *)
      | b :: _ => if is_nl b && (0 <? index) then Some (advance', start')
                  else split_loop fuel' rest' advance' start'
      end
  end.

Inductive split_res :=
| SplitMore                                (* (0, nil, nil): nothing yet, read more *)
| SplitTok (advance : nat) (token : bytes)
| SplitOutOfFuel.                          (* excluded by split_func_fuel_ok *)

(* parser.go:12-48 *)
Definition split_func (data : bytes) (at_eof : bool) : split_res :=
  match data with
  | [] => SplitMore
  | _ =>
      let l := length data in
      match split_loop (S l) data 0 0 with
      | None => SplitOutOfFuel
      | Some (advance, start) =>
          if (advance =? l) && negb at_eof then SplitMore
          else
            let advance1 :=
              if advance <? l then
                let a := S advance in
                if (a <? l) && (nth (a - 1) data 0%N =? CR)%N && (nth a data 0%N =? LF)%N then S a else a
              else advance in
            SplitTok advance1 (firstn (advance1 - start) (skipn start data))
      end
  end.
