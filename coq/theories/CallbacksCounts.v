(* C13: the registry retains nothing of a removed subscription - its sizes (what
   VerifCallbackCount reports) are those of the set of subscriptions in force. *)
From Coq Require Import Permutation.
From GoSse Require Import Base Callbacks CallbacksProofs CallbacksTheorems.
Local Open Scope nat_scope.

(* ---- keys of the type map stay distinct ------------------------------------------------------ *)
Definition keys (m : tmap) : list bytes := map fst m.

Lemma keys_set t v m : keys (tmap_set t v m) = if existsb (fun k => bytes_eqb k t) (keys m) then keys m else keys m ++ [t].
Proof.
  induction m as [|[k w] m IH]; [reflexivity|].
  cbn [tmap_set keys map fst existsb]. destruct (bytes_eqb k t) eqn:E; cbn [orb map fst].
  - apply bytes_eqb_eq in E. now subst k.
  - fold (keys (tmap_set t v m)). fold (keys m). rewrite IH. now destruct (existsb _ (keys m)).
Qed.

Lemma existsb_keys_in t ks : existsb (fun k => bytes_eqb k t) ks = true <-> In t ks.
Proof.
  rewrite existsb_exists. split.
  - intros [k [Hk E]]. apply bytes_eqb_eq in E. now subst k.
  - intros H. exists t. split; [exact H|apply bytes_eqb_refl].
Qed.

Lemma keys_set_nodup t v m : NoDup (keys m) -> NoDup (keys (tmap_set t v m)).
Proof.
  intros H. rewrite keys_set. destruct (existsb _ (keys m)) eqn:E; [exact H|].
  apply nodup_snoc; [exact H|]. intros Hin. apply existsb_keys_in in Hin. congruence.
Qed.

Lemma keys_del t m : keys (tmap_del t m) = filter (fun k => negb (bytes_eqb k t)) (keys m).
Proof.
  induction m as [|[k w] m IH]; [reflexivity|].
  cbn [tmap_del filter keys map fst]. destruct (bytes_eqb k t); cbn [negb map fst]; [exact IH|].
  f_equal. exact IH.
Qed.

Lemma keys_del_nodup t m : NoDup (keys m) -> NoDup (keys (tmap_del t m)).
Proof. intros H. rewrite keys_del. now apply NoDup_filter. Qed.

Lemma step_keys r o : NoDup (keys (cbs r)) -> NoDup (keys (cbs (fst (step r o)))).
Proof.
  intros H. destruct o as [t l|l|h|t]; cbn [step fst].
  - cbn. now apply keys_set_nodup.
  - exact H.
  - destruct h as [t id|id]; cbn [remove]; [|exact H].
    destruct (tmap_get t (cbs r)) as [m|]; [|exact H].
    destruct (imap_del id m); cbn [cbs]; [now apply keys_del_nodup|now apply keys_set_nodup].
  - exact H.
Qed.

Lemma run_keys ops : forall r, NoDup (keys (cbs r)) -> NoDup (keys (cbs (run_ops r ops))).
Proof.
  induction ops as [|o ops IH]; intros r H; [exact H|]. cbn [run_ops]. apply IH. now apply step_keys.
Qed.

Lemma get_in_nodup k v m : NoDup (keys m) -> In (k, v) m -> tmap_get k m = Some v.
Proof.
  induction m as [|[k' w] m IH]; intros Hd Hin; [destruct Hin|].
  cbn [keys map fst] in Hd. inversion Hd as [|? ? Hn Hd']; subst. cbn [tmap_get].
  destruct Hin as [Heq|Hin].
  - injection Heq as -> ->. now rewrite bytes_eqb_refl.
  - destruct (bytes_eqb k' k) eqn:E.
    + apply bytes_eqb_eq in E. subst k'. exfalso. apply Hn. change k with (fst (k, v)). now apply in_map.
    + now apply IH.
Qed.

Lemma get_some_in k v m : tmap_get k m = Some v -> In k (keys m).
Proof.
  induction m as [|[k' w] m IH]; [discriminate|]. cbn [tmap_get keys map fst].
  destruct (bytes_eqb k' k) eqn:E; [apply bytes_eqb_eq in E; now left|]. intros H. right. now apply IH.
Qed.

Lemma in_keys_get k m : In k (keys m) -> exists v, tmap_get k m = Some v.
Proof.
  induction m as [|[k' w] m IH]; [intros []|]. cbn [tmap_get keys map fst]. intros [->|Hin].
  - rewrite bytes_eqb_refl. now exists w.
  - destruct (bytes_eqb k' k); [now exists w|now apply IH].
Qed.

(* ---- the sizes ----------------------------------------------------------------------------------- *)
Definition is_typed (e : sub) : bool := match fst e with HEvent _ _ => true | HAll _ => false end.
Definition is_all (e : sub) : bool := negb (is_typed e).
Definition sub_type (e : sub) : list bytes := match fst e with HEvent t _ => [t] | HAll _ => [] end.

(* the types that have at least one subscription in force, each once *)
Definition live_types (L : list sub) : list bytes := nodup (list_eq_dec N.eq_dec) (flat_map sub_type L).

Definition total (m : tmap) : nat := fold_right (fun p n => length (snd p) + n) 0 m.

Lemma total_sum m : total m = list_sum (map (fun p : bytes * imap => length (snd p)) m).
Proof. unfold total, list_sum. induction m as [|p m IH]; [reflexivity|]. cbn [map fold_right]. now rewrite IH. Qed.

Lemma all_of_length L : length (all_of L) = length (filter is_all L).
Proof.
  induction L as [|[h l] L IH]; [reflexivity|].
  rewrite all_of_cons, app_length, IH. unfold all_entry, is_all, is_typed. cbn [fst snd filter].
  destruct h; reflexivity.
Qed.

Lemma typed_entry_length k e :
  length (typed_entry k e) = match fst e with HEvent t _ => if bytes_eqb t k then 1 else 0 | HAll _ => 0 end.
Proof. unfold typed_entry. destruct (fst e) as [t id|id]; [|reflexivity]. now destruct (bytes_eqb t k). Qed.

Lemma list_sum_cons x l : list_sum (x :: l) = x + list_sum l.
Proof. reflexivity. Qed.

Lemma sum_indicator t ks : NoDup ks ->
  list_sum (map (fun k => if bytes_eqb t k then 1 else 0) ks) = if existsb (fun k => bytes_eqb k t) ks then 1 else 0.
Proof.
  induction ks as [|k ks IH]; intros Hd; [reflexivity|]. inversion Hd as [|? ? Hn Hd']; subst.
  cbn [map existsb]. rewrite list_sum_cons, (IH Hd').
  destruct (bytes_eqb t k) eqn:E.
  - apply bytes_eqb_eq in E. subst k. rewrite bytes_eqb_refl. cbn [orb].
    destruct (existsb (fun k => bytes_eqb k t) ks) eqn:Ex; [|reflexivity].
    apply existsb_keys_in in Ex. contradiction.
  - assert (E' : bytes_eqb k t = false).
    { apply bytes_eqb_neq. intros ->. now rewrite bytes_eqb_refl in E. }
    rewrite E'. reflexivity.
Qed.

Lemma list_sum_map_add {A} (f g : A -> nat) l :
  list_sum (map (fun x => f x + g x) l) = list_sum (map f l) + list_sum (map g l).
Proof. induction l as [|x l IH]; [reflexivity|]. cbn [map]. rewrite !list_sum_cons, IH. lia. Qed.

(* summing, over distinct keys that cover every type in force, the per-type lists gives all typed subscriptions *)
Lemma typed_partition ks L :
  NoDup ks -> (forall e t, In e L -> sub_type e = [t] -> In t ks) ->
  list_sum (map (fun k => length (typed_of k L)) ks) = length (filter is_typed L).
Proof.
  intros Hd. induction L as [|e L IH]; intros Hcov.
  - clear Hd. induction ks as [|k ks IHk]; [reflexivity|]. cbn [map]. now rewrite list_sum_cons, IHk.
  - assert (Hcov' : forall e' t, In e' L -> sub_type e' = [t] -> In t ks)
      by (intros e' t Hin; apply Hcov; now right).
    rewrite (map_ext _ (fun k => length (typed_entry k e) + length (typed_of k L)))
      by (intros k; now rewrite typed_of_cons, app_length).
    rewrite list_sum_map_add, (IH Hcov').
    rewrite (map_ext _ (fun k => match fst e with HEvent t _ => if bytes_eqb t k then 1 else 0 | HAll _ => 0 end))
      by (intros k; apply typed_entry_length).
    cbn [filter]. destruct (fst e) as [t id|id] eqn:Ee.
    + assert (Ht : is_typed e = true) by (unfold is_typed; now rewrite Ee). rewrite Ht. cbn [length].
      rewrite (sum_indicator t ks Hd).
      assert (Hin : In t ks) by (apply (Hcov e t); [now left|unfold sub_type; now rewrite Ee]).
      apply existsb_keys_in in Hin. rewrite Hin. reflexivity.
    + assert (Ht : is_typed e = false) by (unfold is_typed; now rewrite Ee). rewrite Ht.
      assert (Hz : list_sum (map (fun _ : bytes => 0) ks) = 0).
      { clear. induction ks as [|k ks IHk]; [reflexivity|]. cbn [map]. now rewrite list_sum_cons, IHk. }
      now rewrite Hz.
Qed.

Lemma typed_of_nonempty_iff k L : typed_of k L <> [] <-> In k (flat_map sub_type L).
Proof.
  induction L as [|e L IH]; [cbn; tauto|].
  rewrite typed_of_cons. cbn [flat_map]. rewrite in_app_iff, <- IH.
  unfold typed_entry, sub_type. destruct (fst e) as [t id|id].
  - destruct (bytes_eqb t k) eqn:E.
    + apply bytes_eqb_eq in E. subst t. split; [intros _; left; now left|intros _; discriminate].
    + cbn [app]. split; [intros H; now right|]. intros [[->|[]]|H]; [now rewrite bytes_eqb_refl in E|exact H].
  - cbn [app]. split; [intros H; now right|]. intros [[]|H]. exact H.
Qed.

Theorem counts_are_live ops :
  counts (run_ops reg_empty ops) =
  (length (filter is_typed (live ops)), length (filter is_all (live ops)), length (live_types (live ops))).
Proof.
  pose proof (reach_inv ops) as Hinv.
  assert (Hk : NoDup (keys (cbs (run_ops reg_empty ops)))) by (apply run_keys; constructor).
  unfold live. set (r := run_ops reg_empty ops) in *. set (L := sl (spec_run spec_empty ops)) in *.
  assert (Hent : forall k m, In (k, m) (cbs r) -> m = typed_of k L /\ m <> []).
  { intros k m Hin. pose proof (inv_typed _ _ Hinv k) as Ht. now rewrite (get_in_nodup k m _ Hk Hin) in Ht. }
  assert (Hmem : forall k, In k (keys (cbs r)) <-> In k (flat_map sub_type L)).
  { intros k. rewrite <- typed_of_nonempty_iff. split.
    - intros Hin. destruct (in_keys_get k _ Hin) as [v Hv].
      pose proof (inv_typed _ _ Hinv k) as Ht. rewrite Hv in Ht. destruct Ht as [Hv' Hne]. subst v. exact Hne.
    - intros Hne. pose proof (inv_typed _ _ Hinv k) as Ht.
      destruct (tmap_get k (cbs r)) as [v|] eqn:Eg; [now apply get_some_in in Eg|contradiction]. }
  unfold counts. f_equal; [f_equal|].
  - change (total (cbs r) = length (filter is_typed L)). rewrite total_sum.
    rewrite (map_ext_in _ (fun p : bytes * imap => length (typed_of (fst p) L))).
    + rewrite <- (map_map fst (fun k => length (typed_of k L))). apply typed_partition; [exact Hk|].
      intros e t Hin Hty. apply Hmem. apply in_flat_map. exists e. split; [exact Hin|]. rewrite Hty. now left.
    + intros [k m] Hin. cbn [fst snd]. now destruct (Hent k m Hin) as [-> _].
  - rewrite (inv_all _ _ Hinv). apply all_of_length.
  - change (length (cbs r)) with (length (cbs r)). rewrite <- (map_length fst (cbs r)).
    apply Permutation_length. apply NoDup_Permutation; [exact Hk|apply NoDup_nodup|].
    intros k. unfold live_types. rewrite nodup_In. apply Hmem.
Qed.
