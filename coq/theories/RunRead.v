(* Family "read_c11" (C11, the clause about sse.Read): the real sse.Read over a scripted io.Reader.
   input : ( x<body> ending chunks n<end reported with the last bytes> ),  ending = (n0) EOF | (n1 n<e>) read error e
   output: ( ( (n1 x<LastEventID> x<Type> x<Data>) ... ) (opt err) )   events yielded, then the error yielded (if any)
   The model side is the byte-level specification itself ([interp gosse_read]); the oracle is the
   error-identity clause of C11 written from the property text. *)
From GoSse Require Import Base Whatwg Backoff Connect ConnectProofs Run RunClient RunConnect.
Local Open Scope N_scope.

(* the error sse.Read yields at the end of a stream: the reader's own error for a read error,
   ErrUnexpectedEOF only for a clean end in mid-line, none for a clean end after a terminated line *)
Definition read_error (body : bytes) (en : ending) : option serr :=
  match en with
  | ReadError e => Some e
  | CleanEOF => if ends_mid_line (strip_bom body) then Some EUnexpectedEOF else None
  end.

Definition errors_of (ys : list yield) : list serr :=
  flat_map (fun y => match y with YErr e => [e] | _ => [] end) ys.

Definition run_read (i : val) : val :=
  let ys := interp gosse_read [] (as_b (nth_val 0 i)) (dec_ending (nth_val 1 i)) in
  VL [VL (map enc_event (events_of ys)); vopt enc_serr (hd_error (errors_of ys))].

Definition holds_read_c11 (i o : val) : bool :=
  val_eqb (nth_val 1 o) (vopt enc_serr (read_error (as_b (nth_val 0 i)) (dec_ending (nth_val 1 i)))).

(* the specification agrees with the clause: events (and ignored retry fields), then exactly this error *)
Lemma interp_read_structure lid body en :
  exists ys, no_err ys /\
    interp gosse_read lid body en = ys ++ match read_error body en with Some e => [YErr e] | None => [] end.
Proof.
  unfold interp.
  assert (Hinit : cr_inv (w_init lid)) by (intros H; discriminate).
  destruct (feed_all_facts gosse_read (strip_bom body) (w_init lid) Hinit) as (Hn & _).
  pose proof (feed_all_line gosse_read (strip_bom body) lid) as Hl.
  destruct (feed_all gosse_read (w_init lid) (strip_bom body)) as [st ys]. cbn [fst snd] in *.
  destruct en as [|err]; cbn [finish read_error].
  - cbn [gosse_read md_flush_at_eof md_eof_is_error].
    destruct (ends_mid_line (strip_bom body)) eqn:Em.
    + destruct (w_line st) eqn:El; [destruct Hl as [Hl _]; specialize (Hl eq_refl); discriminate|].
      exists ys. split; [assumption|reflexivity].
    + destruct Hl as [_ Hl]. rewrite (Hl eq_refl).
      exists (ys ++ snd (dispatch gosse_read st)). split.
      * apply no_err_app; [assumption|apply dispatch_no_err].
      * now rewrite !app_nil_r.
  - exists ys. split; [assumption|reflexivity].
Qed.
