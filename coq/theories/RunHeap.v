(* val-level entry points of family "heap" (C19): operations on a family of real messages;
   observed after every operation, for EVERY member: backing array identity, len, cap of the
   chunk slice and the encoding.
   input : (op ...)
     op = (n0 n<t> n<isComment> x<single line> n<cap the runtime gives a reallocation>)
        | (n1 n<t> idopt) | (n2 n<t> typeopt) | (n3 n<t> z<retry>) | (n4 n<t>) Clone | (n5 n<t>) reset
        | (n7 n<t> x<line> n<cap>)  m_t.UnmarshalText("data: <line>\n\n")
        | (n8 n<t> x<type> lineopt n<cap>)  m_t.UnmarshalText("event: <type>\n" ++ ("data: <line>\n")? ++ "\n"): an event
          that may carry no data line at all
        | (n10 n<t> n<kind>)  Joe.Publish(m_t) through a Joe whose replayer (kind as in op 6, an instance of its own) accepts or
          refuses it: whatever Joe and the replayer do, no member of the family changes
        | (n9 n<s>)  the ValidReplayers' clock advances by s seconds (TTL 1000 s) and GC() is called on them
        | (n6 n<t> n<replayer: 0 finite auto, 1 valid auto, 2 finite manual, 3 valid manual>)  Put; with automatic IDs the
          returned copy joins the family; with explicit IDs (and for every rejected Put) nothing at all happens to any message
   output: (((arropt n<len> n<cap> x<wire>) ...) ...)   one list of member states per operation *)
From GoSse Require Import Base Lines Fields Queue FieldParser Message SliceHeap Run.
Local Open Scope nat_scope.

Record hrun_state := mkhr { hr_st : hstate; hr_next0 : N; hr_next1 : N }.

Definition dec_hop (s : hrun_state) (op : val) : list hop * hrun_state :=
  let t := as_nat (nth_val 1 op) in
  match as_n (nth_val 0 op) with
  | 0%N => ([HAppend t [(mkc (as_b (nth_val 3 op)) (as_bool (nth_val 2 op)), as_nat (nth_val 4 op))]], s)
  | 1%N => ([HSetID t (as_opt as_b (nth_val 2 op))], s)
  | 2%N => ([HSetType t (as_opt as_b (nth_val 2 op))], s)
  | 3%N => ([HSetRetry t (as_z (nth_val 2 op))], s)
  | 4%N => ([HClone t], s)
  | 5%N => ([HReset t], s)
  | 9%N => ([], s)   (* the ValidReplayers' clock advances and they collect: no message of the family is concerned *)
  | 10%N => ([], s)  (* member t is published through a Joe with a replayer of its own: nothing happens to any member *)
  | 7%N => (* UnmarshalText("data: <line>\n\n"): reset(), then one data chunk is appended *)
           ([HReset t; HAppend t [(mkc (as_b (nth_val 2 op)) false, as_nat (nth_val 3 op))]], s)
  | 8%N => (* reset(), the type is set, then at most one data chunk is appended *)
           ([HReset t; HSetType t (Some (as_b (nth_val 2 op)))] ++
            match as_opt as_b (nth_val 3 op) with
            | Some l => [HAppend t [(mkc l false, as_nat (nth_val 4 op))]]
            | None => []
            end, s)
  | _ =>
      (* ensureID: a message that already has an ID is rejected (nothing happens) *)
      match nth_error (snd (hr_st s)) t with
      | Some m =>
          if is_set (hm_id m) || (2 <=? as_n (nth_val 2 op))%N then ([], s)
          else if (as_n (nth_val 2 op) =? 0)%N
               then ([HPutAuto t (format_uint (hr_next0 s))], mkhr (hr_st s) (hr_next0 s + 1)%N (hr_next1 s))
               else ([HPutAuto t (format_uint (hr_next1 s))], mkhr (hr_st s) (hr_next0 s) (hr_next1 s + 1)%N)
      | None => ([], s)
      end
  end.

Definition enc_member (h : heap) (m : hmsg) : val :=
  VL [if s_cap (hm_s m) =? 0 then VL [] else VL [vnat (s_arr (hm_s m))];
      vnat (s_len (hm_s m)); vnat (s_cap (hm_s m)); enc_wire (view h m)].

Fixpoint run_heap_ops (s : hrun_state) (ops : list val) : list val :=
  match ops with
  | [] => []
  | op :: rest =>
      let '(o, s1) := dec_hop s op in
      let st' := fold_left hstep o (hr_st s1) in
      VL (map (enc_member (fst st')) (snd st')) :: run_heap_ops (mkhr st' (hr_next0 s1) (hr_next1 s1)) rest
  end.

Definition run_heap (i : val) : val := VL (run_heap_ops (mkhr ([], [hmsg_empty]) 0 0) (as_l i)).

(* ---- oracle: the property on the observed encodings alone: every member encodes like the
   immutable value the same operations produce (so nobody is changed by an operation on somebody
   else, Put changes nothing but adds the copy with the next ID) ---------------------------- *)
Record vrun_state := mkvr { vr_fam : list msg; vr_next0 : N; vr_next1 : N }.
Definition dec_vop_heap (s : vrun_state) (op : val) : list hop * vrun_state :=
  let t := as_nat (nth_val 1 op) in
  match as_n (nth_val 0 op) with
  | 0%N => ([HAppend t [(mkc (as_b (nth_val 3 op)) (as_bool (nth_val 2 op)), 0)]], s)
  | 1%N => ([HSetID t (as_opt as_b (nth_val 2 op))], s)
  | 2%N => ([HSetType t (as_opt as_b (nth_val 2 op))], s)
  | 3%N => ([HSetRetry t (as_z (nth_val 2 op))], s)
  | 4%N => ([HClone t], s)
  | 5%N => ([HReset t], s)
  | 9%N => ([], s)
  | 10%N => ([], s)
  | 7%N => ([HReset t; HAppend t [(mkc (as_b (nth_val 2 op)) false, 0)]], s)
  | 8%N => ([HReset t; HSetType t (Some (as_b (nth_val 2 op)))] ++
            match as_opt as_b (nth_val 3 op) with
            | Some l => [HAppend t [(mkc l false, 0)]]
            | None => []
            end, s)
  | _ =>
      match nth_error (vr_fam s) t with
      | Some m =>
          if is_set (m_id m) || (2 <=? as_n (nth_val 2 op))%N then ([], s)
          else if (as_n (nth_val 2 op) =? 0)%N
               then ([HPutAuto t (format_uint (vr_next0 s))], mkvr (vr_fam s) (vr_next0 s + 1)%N (vr_next1 s))
               else ([HPutAuto t (format_uint (vr_next1 s))], mkvr (vr_fam s) (vr_next0 s) (vr_next1 s + 1)%N)
      | None => ([], s)
      end
  end.

Fixpoint holds_heap_ops (s : vrun_state) (ops outs : list val) : bool :=
  match ops, outs with
  | [], [] => true
  | op :: rest, out :: outs' =>
      let '(o, s1) := dec_vop_heap s op in
      let fam' := fold_left vstep o (vr_fam s1) in
      val_eqb (VL (map (nth_val 3) (as_l out))) (VL (map enc_wire fam'))
      && holds_heap_ops (mkvr fam' (vr_next0 s1) (vr_next1 s1)) rest outs'
  | _, _ => false
  end.
Definition holds_heap (i o : val) : bool := holds_heap_ops (mkvr [msg_empty] 0 0) (as_l i) (as_l o).
