(* event.go:69-133  read(): the interpretation loop shared by sse.Read and Connection.read,
   and the two entry points' parser factories (event.go:53-66, client_connection.go:162-170).
   Definitions only. *)
From GoSse Require Import Base Lines FieldParser Whatwg Split Scanner Reader.
From GoSse.Gen Require Import Params.
Local Open Scope nat_scope.

(* strconv.ParseUint(s, 10, bits): non-empty, ASCII digits only, value < 2^bits *)
Definition parse_uint (s : bytes) (bits : N) : option N :=
  match s with
  | [] => None
  | _ => if forallb is_digit s
         then let n := digits_value 0 s in if (n <? 2 ^ bits)%N then Some n else None
         else None
  end.

(* event.go:99-108.  [retry_parse_signed] (re-read from event.go on every run) says whether the
   value goes through ParseInt (which accepts a sign; a negative result is then dropped). *)
Definition parse_retry (v : bytes) : option N :=
  if retry_parse_signed then
    match v with
    | 43%N :: d => parse_uint d (retry_parse_bits - 1)
    | 45%N :: d => match parse_uint d (retry_parse_bits - 1) with Some 0%N => Some 0%N | _ => None end
    | _ => parse_uint v (retry_parse_bits - 1)
    end
  else parse_uint v retry_parse_bits.

(* the loop's local variables *)
Record rl := mkrl { rl_last_id : bytes; rl_typ : bytes; rl_sb : bytes; rl_dirty : bool }.

(* event.go:75-80 doYield: the event handed to yield *)
Definition rl_event (s : rl) : event :=
  mkev (rl_last_id s) (rl_typ s) (removelast (rl_sb s)).

(* One field: the new locals, an onRetry call, and whether the event is dispatched.
   event.go:83-119 *)
Inductive rl_act := ActNone | ActRetry (n : N) | ActDispatch.

Definition rl_field (on_retry : bool) (s : rl) (f : pfield) : rl * rl_act :=
  match pf_name f with
  | FData => (mkrl (rl_last_id s) (rl_typ s) (rl_sb s ++ pf_value f ++ [LF]) true, ActNone)
  | FEvent => (mkrl (rl_last_id s) (pf_value f) (rl_sb s) true, ActNone)
  | FID => if existsb (fun b => (b =? NUL)%N) (pf_value f) then (s, ActNone)
           else (mkrl (pf_value f) (rl_typ s) (rl_sb s) true, ActNone)
  | FRetry => match parse_retry (pf_value f) with
              | None => (s, ActNone)
              | Some n => if on_retry then (mkrl (rl_last_id s) (rl_typ s) (rl_sb s) true, ActRetry n)
                          else (s, ActNone)
              end
  | FComment | FEnd => if rl_dirty s then (s, ActDispatch) else (s, ActNone)
  end.

Definition rl_cleared (s : rl) : rl := mkrl (rl_last_id s) [] [] false.

(* The consumer: [stop_after = Some k] answers false to event number k (counting from 0), so at
   most k+1 events are delivered; [None] never stops. *)
Definition consumer_refuses (stop_after : option nat) (delivered : nat) : bool :=
  match stop_after with Some k => k <=? delivered | None => false end.

Inductive run_end := EndNormal | EndPanic | EndOutOfFuel.

(* event.go:70-132.  [delivered] counts the events yielded so far.  One iteration per field. *)
Fixpoint read_loop (fuel : nat) (on_retry ignore_eof : bool) (stop_after : option nat)
         (p : parser) (s : rl) (delivered : nat) : list yield * run_end * parser :=
  match fuel with
  | O => ([], EndOutOfFuel, p)
  | S fuel' =>
      match parser_next p with
      | (NextField f, p') =>
          match rl_field on_retry s f with
          | (s', ActNone) => read_loop fuel' on_retry ignore_eof stop_after p' s' delivered
          | (s', ActRetry n) =>
              let '(ys, e, p'') := read_loop fuel' on_retry ignore_eof stop_after p' s' delivered in
              (YRetry n :: ys, e, p'')
          | (s', ActDispatch) =>
              if consumer_refuses stop_after delivered then ([YEv (rl_event s')], EndNormal, p')
              else
                let '(ys, e, p'') := read_loop fuel' on_retry ignore_eof stop_after p' (rl_cleared s') (S delivered) in
                (YEv (rl_event s') :: ys, e, p'')
          end
      | (NextFalse, p') =>
          (* 121-131 *)
          let err := parser_err p' in
          let is_eof := match err with Some EEOF => true | _ => false end in
          if rl_dirty s && is_eof && consumer_refuses stop_after delivered then ([YEv (rl_event s)], EndNormal, p')
          else
            ((if rl_dirty s && is_eof then [YEv (rl_event s)] else []) ++
             (match err with
              | Some e => if ignore_eof && is_eof then [] else [YErr e]
              | None => []
              end), EndNormal, p')
      | (NextPanic, p') => ([], EndPanic, p')
      | (NextOutOfFuel, p') => ([], EndOutOfFuel, p')
      end
  end.

(* every field consumes at least one byte of the input *)
Definition read_fuel (p : parser) : nat :=
  S (S (length (sc_data (p_sc p)) + rd_rest (p_rd p) + length (fp_data (p_fp p)))).

(* how the entry point configures the scanner's buffer *)
Record bufcfg := mkbc {
  bc_has_buf : bool;     (* Connection.Buffer was given a non-nil slice *)
  bc_cap : N;            (* its capacity *)
  bc_max : Z             (* ReadConfig.MaxEventSize / Connection.Buffer's maxSize (0: not set) *)
}.

Inductive entry := EntryRead | EntryConn.

(* event.go:54-63 / client_connection.go:163-169: when is Parser.Buffer called, and with what *)
Definition make_parser (en : entry) (bc : bufcfg) (r : reader) : parser :=
  let p := parser_new r in
  match en with
  | EntryRead => if (0 <? bc_max bc)%Z then parser_buffer p 0 (bc_max bc) else p
  | EntryConn => if bc_has_buf bc || (0 <? bc_max bc)%Z
                 then parser_buffer p (if bc_has_buf bc then bc_cap bc else 0%N) (bc_max bc) else p
  end.

(* sse.Read(r, cfg) = read(pf, "", nil, true);
   Connection.read = read(pf, c.lastEventID, setRetry, false) *)
Definition read_run (en : entry) (bc : bufcfg) (last_id : bytes) (chunks : list bytes) (e : ending)
           (stop_after : option nat) : list yield * run_end * parser :=
  let p := make_parser en bc (mkrd chunks e 0) in
  let conn := match en with EntryConn => true | EntryRead => false end in
  read_loop (read_fuel p) conn (negb conn) stop_after p (mkrl last_id [] [] false) 0.
