(* bufio.Scanner.Scan with parser.go's split function, second pass (ScannerProofs.scan_spec says what a token
   looks like; this file says WHICH token it is and WHEN ErrTooLong is reported):
   - a token is splitFunc's answer on a prefix (at most B bytes long) of the unconsumed input, on all of it
     when the reader has ended;
   - ErrTooLong is reported exactly when the first B = max(cap(buf), maxTokenSize) bytes of the unconsumed
     input are in the buffer and splitFunc says "more" on them (or B = 0);
   - otherwise the input is exhausted and the scanner's error is the reader's;
   - once the reader has ended the buffer is not full (the end was delivered by a Read call, which needs room):
     a token cut at EOF comes from fewer than B buffered bytes.
   Same induction as ScannerProofs.scan_loop_spec, with the additional invariant sc_inv2 (B = max(cap, max)).
   Proof-engineering note: in the large contexts of ParserFieldsProofs / ParserTopProofs [lia] is called after
   [clear - ...]; with the whole context it does not terminate in reasonable time. *)
From GoSse Require Import Base Lines FieldParser Whatwg WhatwgLines Split Scanner Reader ReadLoop Yields
     LineStepProofs ReadLoopProofs SplitProofs ScannerProofs PathProofs.
From GoSse.Gen Require Import Params.
From Coq Require Import ZifyN ZifyNat ZifyBool.
Local Open Scope nat_scope.

(* B is the largest size the buffer can take; once the reader has ended (the end was delivered by a Read call,
   which needs room) the buffer is not full *)
Definition sc_inv2 (B : N) (s : scanner) : Prop :=
  B = N.max (sc_cap s) (sc_max s) /\
  (sc_err s <> None -> (sc_start s + N.of_nat (length (sc_data s)) < sc_cap s)%N).

(* [R]: the unconsumed input, [e]: the reader's ending, [noerr]: the scanner had no error when Scan was called *)
Definition scan_post2' (B : N) (st : split_state) (R : bytes) (e : ending) (noerr : Prop)
           (res : scan_out * split_state * scanner * reader) : Prop :=
  let '(out, st', s', r') := res in
  rd_ending r' = e /\
  match out with
  | ScanTrue =>
      sc_inv B s' r' /\ sc_inv2 B s' /\
      exists n eof adv tok nls,
        n <= length R /\ (N.of_nat n <= B)%N /\ (eof = true -> n = length R /\ (N.of_nat n < B)%N) /\
        split_func (firstn n R) eof = SplitTok adv tok /\
        sc_token s' = Some tok /\ rest_of s' r' = skipn adv R /\
        firstn adv R = nls ++ tok /\ all_nl nls /\ headok tok /\ 0 < adv <= n /\
        ((adv < n \/ eof = false) \/ (rest_of s' r' = [] /\ sc_err s' <> None)) /\
        st' = upd_split st nls
  | ScanFalse =>
      st' = st /\
      ((noerr /\ sc_err s' = Some ETooLong /\ length (firstn (N.to_nat B) R) = N.to_nat B /\
        (firstn (N.to_nat B) R = [] \/ split_func (firstn (N.to_nat B) R) false = SplitMore))
       \/ (R = [] /\ sc_err s' = Some (end_serr e) /\ rest_of s' r' = [] /\ (noerr -> (0 < B)%N)))
  | ScanPanic | ScanOutOfFuel => False
  end.

Definition scan_post2 (B : N) (st : split_state) (s : scanner) (r : reader) res : Prop :=
  scan_post2' B st (rest_of s r) (rd_ending r) (sc_err s = None) res.

Lemma post2_weaken B st R e (P Q : Prop) res :
  (P -> Q) -> (0 < B)%N -> scan_post2' B st R e P res -> scan_post2' B st R e Q res.
Proof.
  destruct res as [[[out st'] s'] r']. unfold scan_post2'. intros HPQ HB [He H]. split; [exact He|].
  destruct out; try exact H. destruct H as [Hst [(HP & H1)|(H2 & H3 & H4 & _)]]; split; try exact Hst; [left|right]; tauto.
Qed.

Lemma firstn_app_len {A} (l1 l2 : list A) : firstn (length l1) (l1 ++ l2) = l1.
Proof. induction l1 as [|x l1 IH]; cbn; [reflexivity|now rewrite IH]. Qed.

Lemma skipn_app_le {A} (l1 l2 : list A) n : n <= length l1 -> skipn n (l1 ++ l2) = skipn n l1 ++ l2.
Proof. intros H. rewrite skipn_app. replace (n - length l1) with 0 by lia. reflexivity. Qed.

Lemma firstn_app_le {A} (l1 l2 : list A) n : n <= length l1 -> firstn n (l1 ++ l2) = firstn n l1.
Proof. intros H. rewrite firstn_app. replace (n - length l1) with 0 by lia. cbn. apply app_nil_r. Qed.

Definition scan_ih2 (B : N) (fuel : nat) : Prop :=
  forall st s r, sc_inv B s r -> sc_inv2 B s -> fuel_needed s r <= fuel ->
    scan_post2 B st s r (scan_loop fuel parser_split st s r).

Lemma read_tail_spec2 B fuel (IH : scan_ih2 B fuel) st s r s3 :
  sc_inv B s r -> sc_err s = None -> rd_rest r + 2 <= S fuel ->
  sc_data s3 = sc_data s -> sc_err s3 = None -> sc_done s3 = false -> sc_off s3 = sc_off s -> sc_max s3 = sc_max s ->
  (sc_start s3 + N.of_nat (length (sc_data s)) < sc_cap s3)%N -> (sc_cap s3 <= B)%N -> B = N.max (sc_cap s3) (sc_max s3) ->
  scan_post2 B st s r (read_tail fuel st s3 r).
Proof.
  intros (Hdone & Hwf & Hcap & Hmax & Hoff & Herr) He Hfuel Zd Ze Zdn Zo Zm Zwf Zcap Zi2.
  unfold read_tail.
  assert (HB0 : (0 < B)%N) by lia.
  assert (Hn : (0 < sc_cap s3 - sc_end s3)%N) by (unfold sc_end; rewrite Zd; lia).
  pose proof (rd_read_spec r (sc_cap s3 - sc_end s3)%N Hn) as Hrd.
  destruct (rd_read r (sc_cap s3 - sc_end s3)%N) as [[bs err] r'].
  destruct Hrd as (Hend & Hrd).
  destruct err as [e|].
  - (* the reader has ended *)
    destruct Hrd as (-> & -> & Hc & Hc' & Hp).
    set (s5 := sc_set_err _ _).
    assert (H5 : sc_data s5 = sc_data s /\ sc_err s5 = Some (end_serr (rd_ending r)) /\ sc_max s5 = sc_max s /\
                 sc_done s5 = false /\ sc_off s5 = sc_off s /\ sc_start s5 = sc_start s3 /\ sc_cap s5 = sc_cap s3).
    { unfold s5, sc_set_err, sc_with_buf. cbn [sc_err]. rewrite Ze.
      cbn [sc_data sc_err sc_max sc_done sc_off sc_start sc_cap]. rewrite app_nil_r. repeat split; assumption. }
    destruct H5 as (Vd & Ve & Vm & Vdn & Vo & Vs & Vc).
    assert (Hinv5 : sc_inv B s5 r').
    { unfold sc_inv. rewrite Vd, Ve, Vm, Vdn, Vo, Vs, Vc, Hend, Hp, Hc'. repeat split; try assumption; try lia.
      right. split; reflexivity. }
    assert (Hi25 : sc_inv2 B s5).
    { unfold sc_inv2. rewrite Vc, Vm, Vs, Vd, <- Zm. split; [exact Zi2|]. intros _. exact Zwf. }
    assert (Hf5 : fuel_needed s5 r' <= fuel) by (unfold fuel_needed; rewrite Ve; lia).
    pose proof (IH st s5 r' Hinv5 Hi25 Hf5) as Hpost.
    assert (Hrest : rest_of s5 r' = rest_of s r) by (unfold rest_of; now rewrite Vd, Hc', Hc).
    unfold scan_post2 in *. rewrite Hrest, Hend in Hpost.
    eapply post2_weaken; [|exact HB0|exact Hpost]. intros _. exact He.
  - destruct Hrd as (Hne & Hcat & Hlen & Hp).
    set (s5 := mksc _ _ _ _ _ _ _ _ _).
    assert (H5 : sc_data s5 = sc_data s ++ bs /\ sc_err s5 = None /\ sc_max s5 = sc_max s /\
                 sc_done s5 = false /\ sc_off s5 = sc_off s /\ sc_start s5 = sc_start s3 /\ sc_cap s5 = sc_cap s3).
    { unfold s5, sc_with_buf. cbn [sc_data sc_err sc_max sc_done sc_off sc_start sc_cap]. rewrite Zd.
      repeat split; assumption. }
    destruct H5 as (Vd & Ve & Vm & Vdn & Vo & Vs & Vc).
    assert (Hinv5 : sc_inv B s5 r').
    { unfold sc_inv. rewrite Vd, Ve, Vm, Vdn, Vo, Vs, Vc, Hp, app_length.
      unfold sc_end in Hlen. rewrite Zd in Hlen. repeat split; try assumption; try lia. left; reflexivity. }
    assert (Hi25 : sc_inv2 B s5).
    { unfold sc_inv2. rewrite Vc, Vm, Ve, <- Zm. split; [exact Zi2|]. intros Hx. congruence. }
    assert (Hrr : rd_rest r' < rd_rest r).
    { unfold rd_rest. rewrite <- Hcat, app_length. destruct bs; [congruence|cbn [length]; lia]. }
    assert (Hf5 : fuel_needed s5 r' <= fuel) by (unfold fuel_needed; rewrite Ve; lia).
    pose proof (IH st s5 r' Hinv5 Hi25 Hf5) as Hpost.
    assert (Hrest : rest_of s5 r' = rest_of s r) by (unfold rest_of; now rewrite Vd, <- app_assoc, Hcat).
    unfold scan_post2 in *. rewrite Hrest, Hend in Hpost.
    eapply post2_weaken; [|exact HB0|exact Hpost]. intros _. exact He.
Qed.

(* no token was cut: [sx] is [s] up to the token field *)
Lemma after_split_spec2 B fuel (IH : scan_ih2 B fuel) st s r sx :
  sc_inv B s r -> sc_inv2 B s -> fuel_needed s r <= S fuel ->
  sc_data sx = sc_data s /\ sc_start sx = sc_start s /\ sc_cap sx = sc_cap s /\ sc_max sx = sc_max s /\
  sc_err sx = sc_err s /\ sc_done sx = sc_done s /\ sc_off sx = sc_off s ->
  (forall e, sc_err s = Some e -> sc_data s = []) ->
  (sc_err s = None -> sc_data s = [] \/ split_func (sc_data s) false = SplitMore) ->
  scan_post2 B st s r (after_split fuel st sx r).
Proof.
  intros Hinv [Hi2 Hi2b] Hfuel (Xd & Xs & Xc & Xm & Xe & Xdn & Xo) Hempty Hmore.
  pose proof Hinv as (Hdone & Hwf & Hcap & Hmax & Hoff & Herr).
  unfold after_split. rewrite Xe.
  destruct (sc_err s) as [e|] eqn:Ee; cbn [is_some].
  - (* the input has ended and holds no further token *)
    destruct Herr as [Hc|[He Hc]]; [discriminate|].
    pose proof (Hempty e eq_refl) as Hd.
    unfold scan_post2, scan_post2'. unfold sc_with_buf. cbn [sc_max sc_data sc_err sc_off rest_of].
    split; [reflexivity|]. split; [reflexivity|].
    right. unfold rest_of. cbn [sc_data]. rewrite Hd, Hc, Xe. repeat split; [exact He|]. intros Hx. rewrite Ee in Hx. discriminate.
  - unfold fuel_needed in Hfuel. rewrite Ee in Hfuel.
    set (s2 := if (0 <? sc_start sx)%N && ((sc_end sx =? sc_cap sx)%N || (sc_cap sx / 2 <? sc_start sx)%N)
               then sc_with_buf sx (sc_data sx) 0%N (sc_cap sx) else sx).
    assert (Hs2 : sc_data s2 = sc_data s /\ sc_cap s2 = sc_cap s /\ sc_max s2 = sc_max s /\ sc_err s2 = None /\
                  sc_done s2 = false /\ sc_off s2 = sc_off s /\
                  (sc_start s2 + N.of_nat (length (sc_data s)) <= sc_cap s)%N /\
                  (sc_end s2 = sc_cap s2 -> N.of_nat (length (sc_data s)) = sc_cap s)).
    { unfold s2. destruct (_ && _) eqn:Ec; unfold sc_with_buf, sc_end;
        cbn [sc_data sc_start sc_cap sc_max sc_err sc_done sc_off]; rewrite ?Xd, ?Xs, ?Xc, ?Xm, ?Xo, ?Xe, ?Xdn.
      - repeat split; try assumption; try lia.
      - repeat split; try assumption; try lia.
        intros Hfull. unfold sc_end in Ec. rewrite Xs, Xd, Xc in Ec.
        destruct (0 <? sc_start s)%N eqn:E0; cbn [andb] in Ec.
        + apply orb_false_iff in Ec as [Ec _]. apply N.eqb_neq in Ec. lia.
        + apply N.ltb_ge in E0. lia. }
    destruct Hs2 as (Yd & Yc & Ym & Ye & Ydn & Yo & Ywf & Yfull).
    cbv zeta. fold s2.
    destruct (sc_end s2 =? sc_cap s2)%N eqn:Efull.
    + apply N.eqb_eq in Efull. specialize (Yfull Efull).
      destruct (sc_max s2 <=? sc_cap s2)%N eqn:Emax.
      * (* ErrTooLong *)
        apply N.leb_le in Emax. rewrite Ym, Yc in Emax.
        unfold scan_post2, scan_post2'. unfold sc_set_err. rewrite Ye.
        cbn [sc_max sc_data sc_err sc_off].
        split; [reflexivity|]. split; [reflexivity|]. left.
        assert (HB : N.to_nat B = length (sc_data s)) by lia.
        assert (Hfn : firstn (N.to_nat B) (rest_of s r) = sc_data s).
        { unfold rest_of. rewrite HB. apply firstn_app_len. }
        rewrite Hfn. split; [exact Ee|]. split; [reflexivity|]. split; [lia|]. apply Hmore. reflexivity.
      * (* grow *)
        apply N.leb_gt in Emax. rewrite Ym, Yc in Emax.
        set (ns := N.min (if (sc_cap s2 * 2 =? 0)%N then start_buf_size else (sc_cap s2 * 2)%N) (sc_max s2)).
        assert (Hns : (sc_cap s < ns <= B)%N /\ (ns <= sc_max s)%N).
        { unfold ns. rewrite Yc, Ym. change start_buf_size with 4096%N.
          destruct (sc_cap s * 2 =? 0)%N eqn:E0; [apply N.eqb_eq in E0|apply N.eqb_neq in E0]; lia. }
        apply (read_tail_spec2 B fuel IH st s r (sc_with_buf s2 (sc_data s2) 0%N ns) Hinv Ee Hfuel);
          unfold sc_with_buf in *; cbn [sc_data sc_err sc_done sc_off sc_max sc_start sc_cap]; try assumption; lia.
    + apply N.eqb_neq in Efull. unfold sc_end in Efull. rewrite Yd, Yc in Efull.
      apply (read_tail_spec2 B fuel IH st s r s2 Hinv Ee Hfuel); try assumption; rewrite ?Yc, ?Ym; lia.
Qed.

Theorem scan_loop_spec2 B fuel : forall st s r,
  sc_inv B s r -> sc_inv2 B s -> fuel_needed s r <= fuel ->
  scan_post2 B st s r (scan_loop fuel parser_split st s r).
Proof.
  induction fuel as [|fuel IH]; intros st s r Hinv Hi2 Hfuel.
  { unfold fuel_needed in Hfuel. destruct (sc_err s); lia. }
  pose proof Hinv as (Hdone & Hwf & Hcap & Hmax & Hoff & Herr).
  pose proof Hi2 as [Hi2a Hi2b].
  rewrite scan_loop_S.
  destruct (negb (match sc_data s with [] => true | _ => false end) || is_some (sc_err s)) eqn:Et.
  - pose proof (parser_split_spec st (sc_data s) (is_some (sc_err s))) as Hsp.
    destruct (parser_split st (sc_data s) (is_some (sc_err s))) as [st1 [adv tok]].
    destruct tok as [t|].
    + (* a token *)
      destruct Hsp as (Hsf & nls & Hfn & Hnl & Hadv & Hhd & Hst).
      assert (Hlt : (length (sc_data s) <? adv) = false) by (apply Nat.ltb_ge; lia). rewrite Hlt.
      assert (Hpos : (0 <? adv) = true) by (apply Nat.ltb_lt; lia). rewrite Hpos, Bool.orb_true_r.
      unfold scan_post2, scan_post2'. cbn [sc_max sc_token sc_data sc_start sc_cap sc_err sc_done sc_off].
      split; [reflexivity|].
      assert (Hlen : length (skipn adv (sc_data s)) = length (sc_data s) - adv) by apply skipn_length.
      split.
      { unfold sc_inv. cbn [sc_max sc_token sc_data sc_start sc_cap sc_err sc_done sc_off].
        rewrite Hlen. repeat split; try assumption; lia. }
      split.
      { unfold sc_inv2. cbn [sc_max sc_token sc_data sc_start sc_cap sc_err sc_done sc_off].
        split; [exact Hi2a|]. intros Hx. specialize (Hi2b Hx). rewrite Hlen. lia. }
      exists (length (sc_data s)), (is_some (sc_err s)), adv, t, nls.
      assert (Hfd : firstn (length (sc_data s)) (rest_of s r) = sc_data s) by apply firstn_app_len.
      rewrite Hfd.
      assert (HlR : length (rest_of s r) = length (sc_data s) + length (concat (rd_chunks r))) by apply app_length.
      split; [lia|]. split; [lia|]. split.
      { intros Heof. destruct (sc_err s) as [e|]; [|discriminate].
        destruct Herr as [Hc|[_ Hc]]; [discriminate|]. rewrite Hc in HlR. cbn [length] in HlR.
        specialize (Hi2b ltac:(discriminate)). split; lia. }
      split; [exact Hsf|]. split; [reflexivity|].
      assert (Hrest' : rest_of (mksc (skipn adv (sc_data s)) (sc_start s + N.of_nat adv) (sc_cap s) (sc_max s) (sc_err s)
                                  (sc_done s) 0 (Some t) (sc_off s + N.of_nat adv)) r = skipn adv (rest_of s r)).
      { unfold rest_of. cbn [sc_data]. rewrite skipn_app_le by lia. reflexivity. }
      split; [exact Hrest'|].
      split; [unfold rest_of; rewrite firstn_app_le by lia; exact Hfn|].
      split; [exact Hnl|]. split; [exact Hhd|]. split; [lia|]. split; [|exact Hst].
      destruct (Nat.ltb_spec adv (length (sc_data s))) as [Hl|Hl]; [left; left; exact Hl|].
      destruct (sc_err s) as [e|] eqn:Ee.
      * right. split; [|cbn [sc_err]; discriminate]. rewrite Hrest'.
        destruct Herr as [Hc|[_ Hc]]; [discriminate|]. unfold rest_of. rewrite Hc, app_nil_r.
        apply skipn_all2. lia.
      * left. right. reflexivity.
    + (* split says: nothing yet *)
      destruct Hsp as (-> & -> & Hmore). cbn [Nat.ltb Nat.leb].
      apply (after_split_spec2 B fuel IH st s r _ Hinv Hi2 Hfuel).
      * cbn [sc_data sc_start sc_cap sc_max sc_err sc_done sc_off skipn]. repeat split; lia.
      * intros e He. destruct (sc_data s) as [|b d] eqn:Ed; [reflexivity|]. exfalso.
        rewrite He in Hmore. cbn [is_some] in Hmore. now apply (split_func_eof (b :: d)).
      * intros He. right. rewrite He in Hmore. exact Hmore.
  - (* nothing buffered, no error: read *)
    apply (after_split_spec2 B fuel IH st s r s Hinv Hi2 Hfuel); [repeat split; reflexivity| |].
    + intros e He. rewrite He in Et. cbn [is_some] in Et. rewrite Bool.orb_true_r in Et. discriminate.
    + intros _. left. destruct (sc_data s); [reflexivity|]. cbn in Et. discriminate.
Qed.

(* Scan itself *)
Theorem scan_spec2 B st s r :
  sc_inv B s r -> sc_inv2 B s -> scan_post2 B st s r (scan parser_split st s r).
Proof.
  intros Hinv Hi2. unfold scan. destruct Hinv as (Hdone & Hrest). rewrite Hdone.
  apply scan_loop_spec2; [split; assumption|exact Hi2|].
  unfold fuel_needed, scan_fuel. destruct (sc_err s); lia.
Qed.
