(* GOROOT/src/bufio/scan.go: Scanner.Scan / advance / setErr / Buffer, transliterated,
   and the scripted io.Reader the scanner pulls from.  Definitions only.

   Representation.  The Go scanner holds a byte array [buf] and two indices; only
   buf[start:end] is ever looked at, so the state keeps that slice ([sc_data]) together
   with [sc_start] and [sc_cap] = len(buf); [end] is [sc_start + length sc_data].
   [sc_off] is a GHOST counter (total of all advances = offset in the input of
   buf[start]); no decision reads it.  Sizes are [N].
   maxTokenSize may be zero or negative in Go ("len(buf) >= max" is then always true);
   it is clipped to 0 here, which decides the same way everywhere it is used.
   Not modelled: len(buf) > maxInt/2 (needs a buffer of 4 EiB); a Reader returning
   (0, nil) (the scripted reader never does, so the inner "loop" of Scan runs once);
   ErrNegativeAdvance (advances are [nat]); ErrFinalToken (splitFunc never returns an error).
   ErrAdvanceTooFar and the "too many empty tokens" panic are explicit outcomes. *)
From GoSse Require Import Base Whatwg.
From GoSse.Gen Require Import Params.
Local Open Scope N_scope.

(* ---- the scripted reader --------------------------------------------------- *)
(* A script is the list of chunks the reader hands out plus the way it ends.  Each
   Read(p) returns min(len p, rest of the current chunk) bytes of the current chunk,
   so the segmentation of the stream into reads is exactly the script (empty chunks
   are skipped); after the last chunk every Read returns (0, EOF) or (0, error). *)
Record reader := mkrd {
  rd_chunks : list bytes;
  rd_ending : ending;
  rd_pulled : N                    (* counting reader: bytes handed out so far *)
}.

Fixpoint take_chunk (chunks : list bytes) (n : N) : bytes * list bytes :=
  match chunks with
  | [] => ([], [])
  | [] :: rest => take_chunk rest n
  | c :: rest =>
      if N.of_nat (length c) <=? n then (c, rest)
      else (firstn (N.to_nat n) c, skipn (N.to_nat n) c :: rest)
  end.

(* Read(p) with len(p) = n > 0: the bytes, and the error (io.EOF is [EEOF]) *)
Definition rd_read (r : reader) (n : N) : bytes * option serr * reader :=
  match take_chunk (rd_chunks r) n with
  | ([], rest) =>
      (([], Some (match rd_ending r with CleanEOF => EEOF | ReadError e => e end)),
       mkrd rest (rd_ending r) (rd_pulled r))
  | (bs, rest) => ((bs, None), mkrd rest (rd_ending r) (rd_pulled r + N.of_nat (length bs)))
  end.

(* ---- the scanner ------------------------------------------------------------ *)
Record scanner := mksc {
  sc_data : bytes;          (* buf[start:end] *)
  sc_start : N;
  sc_cap : N;               (* len(buf) *)
  sc_max : N;               (* maxTokenSize (clipped at 0) *)
  sc_err : option serr;     (* sticky error; io.EOF is [Some EEOF] *)
  sc_done : bool;
  sc_empties : nat;
  sc_token : option bytes;  (* last token; None is nil *)
  sc_off : N                (* ghost: input offset of buf[start] *)
}.

Definition sc_end (s : scanner) : N := sc_start s + N.of_nat (length (sc_data s)).

(* NewScanner *)
Definition sc_new : scanner := mksc [] 0 0 max_scan_token_size None false 0 None 0.
(* Scanner.Buffer(buf, max): s.buf = buf[0:cap(buf)] *)
Definition sc_buffer (s : scanner) (cap_buf : N) (max : Z) : scanner :=
  mksc (sc_data s) (sc_start s) cap_buf (Z.to_N max) (sc_err s) (sc_done s) (sc_empties s) (sc_token s) (sc_off s).

(* setErr: records the first error; io.EOF may be overwritten *)
Definition sc_set_err (s : scanner) (e : serr) : scanner :=
  match sc_err s with
  | None | Some EEOF => mksc (sc_data s) (sc_start s) (sc_cap s) (sc_max s) (Some e) (sc_done s) (sc_empties s) (sc_token s) (sc_off s)
  | Some _ => s
  end.

Definition sc_with_buf (s : scanner) (data : bytes) (start cap : N) : scanner :=
  mksc data start cap (sc_max s) (sc_err s) (sc_done s) (sc_empties s) (sc_token s) (sc_off s).

(* A split function with its own state [St] (parser.go's closure has the [first] flag and
   reaches into the field parser): (advance, token or nil). *)
Definition split_fn (St : Type) := St -> bytes -> bool -> St * (nat * option bytes).

Inductive scan_out := ScanTrue | ScanFalse | ScanPanic | ScanOutOfFuel.

Definition is_some {A} (o : option A) : bool := match o with Some _ => true | None => false end.

(* scan.go:145-239, one iteration of "for {" per unit of fuel *)
Fixpoint scan_loop {St} (fuel : nat) (split : split_fn St) (st : St) (s : scanner) (r : reader)
  : scan_out * St * scanner * reader :=
  match fuel with
  | O => (ScanOutOfFuel, st, s, r)
  | S fuel' =>
      (* 149: if s.end > s.start || s.err != nil *)
      let try_split :=
        if negb (match sc_data s with [] => true | _ => false end) || is_some (sc_err s) then
          let '(st1, (adv, tok)) := split st (sc_data s) (is_some (sc_err s)) in
          (* 163 / 242-254: advance *)
          if (length (sc_data s) <? adv)%nat then inl (ScanPanic, st1, s, r)      (* ErrAdvanceTooFar *)
          else
            let s1 := mksc (skipn adv (sc_data s)) (sc_start s + N.of_nat adv) (sc_cap s) (sc_max s) (sc_err s)
                           (sc_done s) (sc_empties s) tok (sc_off s + N.of_nat adv) in
            match tok with
            | Some _ =>
                if negb (is_some (sc_err s)) || (0 <? adv)%nat then
                  inl (ScanTrue, st1, mksc (sc_data s1) (sc_start s1) (sc_cap s1) (sc_max s1) (sc_err s1) (sc_done s1) 0%nat tok (sc_off s1), r)
                else
                  let e := S (sc_empties s) in
                  if (max_consecutive_empty_reads <? e)%nat then inl (ScanPanic, st1, s1, r)
                  else inl (ScanTrue, st1, mksc (sc_data s1) (sc_start s1) (sc_cap s1) (sc_max s1) (sc_err s1) (sc_done s1) e tok (sc_off s1), r)
            | None => inr (st1, s1)
            end
        else inr (st, s) in
      match try_split with
      | inl res => res
      | inr (st1, s1) =>
          (* 182: already hit EOF or an I/O error *)
          if is_some (sc_err s1) then (ScanFalse, st1, sc_with_buf s1 [] 0 (sc_cap s1), r)
          else
            (* 191: shift data to the beginning of the buffer *)
            let s2 :=
              if (0 <? sc_start s1) && ((sc_end s1 =? sc_cap s1) || (sc_cap s1 / 2 <? sc_start s1))
              then sc_with_buf s1 (sc_data s1) 0 (sc_cap s1) else s1 in
            (* 197: buffer full? *)
            let grow :=
              if sc_end s2 =? sc_cap s2 then
                if sc_max s2 <=? sc_cap s2 then inl (sc_set_err s2 ETooLong)
                else
                  let new_size := sc_cap s2 * 2 in
                  let new_size := if new_size =? 0 then start_buf_size else new_size in
                  let new_size := N.min new_size (sc_max s2) in
                  inr (sc_with_buf s2 (sc_data s2) 0 new_size)
              else inr s2 in
            match grow with
            | inl s3 => (ScanFalse, st1, s3, r)
            | inr s3 =>
                (* 218-238: one Read into buf[end:len(buf)] *)
                let '(bs, err, r') := rd_read r (sc_cap s3 - sc_end s3) in
                let s4 := sc_with_buf s3 (sc_data s3 ++ bs) (sc_start s3) (sc_cap s3) in
                let s5 := match err with
                          | Some e => sc_set_err s4 e
                          | None => mksc (sc_data s4) (sc_start s4) (sc_cap s4) (sc_max s4) (sc_err s4) (sc_done s4) 0%nat (sc_token s4) (sc_off s4)
                          end in
                scan_loop fuel' split st1 s5 r'
            end
      end
  end.

(* enough iterations: every iteration that continues has pulled a byte or the end *)
Definition rd_rest (r : reader) : nat := length (concat (rd_chunks r)).
Definition scan_fuel (r : reader) : nat := S (S (rd_rest r)).

(* scan.go:139 Scan *)
Definition scan {St} (split : split_fn St) (st : St) (s : scanner) (r : reader) : scan_out * St * scanner * reader :=
  if sc_done s then (ScanFalse, st, s, r) else scan_loop (scan_fuel r) split st s r.

(* scan.go:98 Err: io.EOF is reported as nil *)
Definition sc_error (s : scanner) : option serr :=
  match sc_err s with Some EEOF => None | e => e end.
