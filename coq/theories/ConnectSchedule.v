(* Lemmas about the Connect model, part 6: the schedule as Connect uses it (integration half of C12).
   During a run the backoff controller sees exactly the specification-side history [script_hops]
   (a validated response resets it, a valid retry field resets it to the field's value, every
   retryable attempt end consults next()), OnRetry is called once per granted retry with the wait
   next() returned and the error of the attempt that ended, and a refusal is final. *)
From Coq Require Import ZifyBool ZifyNat.
From GoSse Require Import Base Whatwg Backoff BackoffProofs Connect ConnectProofs ConnectStep ConnectTop ConnectClass.
From GoSse.Gen Require Import Params.

Definition granted (answers : list (option Z)) : list Z :=
  flat_map (fun a => match a with Some w => [w] | None => [] end) answers.

(* the errors of the retryable attempts of a script, in order *)
Definition retry_errors (script : list step) : list cret :=
  flat_map (fun st => match attempt_error (st_attempt st) with Some e => [e] | None => [] end) script.

Definition refusal_is_final (answers : list (option Z)) : Prop :=
  forall pre a post, answers = pre ++ a :: post -> post <> [] -> a <> None.

Lemma on_retries_attempt h bd lid a (tail : list titem) :
  on_retries (TRequest h bd :: attempt_events lid a ++ tail) = on_retries tail.
Proof.
  cbn [on_retries flat_map app]. fold (on_retries (attempt_events lid a ++ tail)).
  rewrite on_retries_app. destruct a; try reflexivity. cbn [attempt_events]. now rewrite on_retries_events.
Qed.

Lemma refusal_final_single a : refusal_is_final [a].
Proof.
  intros pre x post H Hp. destruct pre as [|y pre]; cbn in H.
  - injection H as _ <-. contradiction.
  - injection H as _ H. destruct pre; discriminate.
Qed.

Lemma refusal_final_cons w answers : refusal_is_final answers -> refusal_is_final (Some w :: answers).
Proof.
  intros IH pre x post H Hp. destruct pre as [|y pre]; cbn in H.
  - injection H as <- _. discriminate.
  - injection H as _ H. exact (IH pre x post H Hp).
Qed.

Lemma loop_schedule cfg b script : forall s tr r,
  connect_loop cfg b s script = (tr, r) ->
  let n := length (requests tr) in
  let answers := snd (bc_run_from b (cs_bc s) (script_hops (cs_last_id s) (firstn n script))) in
  (if cc_on_retry cfg
   then map snd (on_retries tr) = granted answers /\
        map fst (on_retries tr) = firstn (length (on_retries tr)) (retry_errors (firstn n script))
   else on_retries tr = []) /\
  refusal_is_final answers.
Proof.
  induction script as [|st rest IH]; intros s tr r Hrun; cbv zeta.
  - rewrite connect_loop_nil in Hrun.
    assert (tr = []) as -> by (destruct (reset_request _ s); injection Hrun as <- _; reflexivity).
    cbn. split; [destruct (cc_on_retry cfg); [split|]; reflexivity|].
    intros pre a post H. destruct pre; discriminate.
  - rewrite connect_loop_cons in Hrun.
    destruct (reset_request (cc_body cfg) s) as [s1|e] eqn:Er.
    2:{ injection Hrun as <- _. cbn. split; [destruct (cc_on_retry cfg); [split|]; reflexivity|].
        intros pre a post H. destruct pre; discriminate. }
    destruct (reset_request_keeps _ _ _ Er) as [Hl1 Hc1].
    pose proof (attempt_step_spec cfg b s1 st) as Hs. cbv zeta in Hs. rewrite Hl1, Hc1 in Hs.
    fold (attempt_events (cs_last_id s) (st_attempt st)) in Hs.
    set (lid := cs_last_id s) in *. set (c0 := cs_bc s) in *.
    assert (Hreq : forall tail, requests tail = [] ->
              length (requests (TRequest (cs_hdr s1) (cs_body s1) :: attempt_events lid (st_attempt st) ++ tail)) = 1%nat).
    { intros tail Ht. cbn [requests flat_map app]. fold (requests (attempt_events lid (st_attempt st) ++ tail)).
      rewrite requests_app, requests_attempt_events, Ht. reflexivity. }
    assert (Hreq2 : forall tail tr', requests tail = [] ->
              length (requests (TRequest (cs_hdr s1) (cs_body s1) :: (attempt_events lid (st_attempt st) ++ tail) ++ tr'))
              = S (length (requests tr'))).
    { intros tail tr' Ht. cbn [requests flat_map app].
      fold (requests ((attempt_events lid (st_attempt st) ++ tail) ++ tr')).
      rewrite !requests_app, requests_attempt_events, Ht. reflexivity. }
    assert (Hreq0 : length (requests (TRequest (cs_hdr s1) (cs_body s1) :: attempt_events lid (st_attempt st))) = 1%nat).
    { rewrite <- (app_nil_r (attempt_events _ _)). now apply Hreq. }
    assert (Hor0 : on_retries (TRequest (cs_hdr s1) (cs_body s1) :: attempt_events lid (st_attempt st)) = []).
    { rewrite <- (app_nil_r (attempt_events _ _)). now rewrite on_retries_attempt. }
    destruct (attempt_error (st_attempt st)) as [err|] eqn:Ea.
    + pose proof (attempt_hops_run b c0 lid st err Ea) as Hh.
      destruct (bc_next b (bc_before_next b c0 lid (st_attempt st)) (st_elapsed st) (st_u st)) as [c' ans] eqn:En.
      cbn [fst snd] in Hh.
      assert (Hre : retry_errors [st] = [err]) by (unfold retry_errors; cbn; now rewrite Ea).
      destruct ans as [w|].
      * destruct (wait_cancelled cfg w) eqn:Ew.
        -- rewrite Hs in Hrun. injection Hrun as <- _. rewrite (Hreq _ (requests_onretry _ _ _)).
           cbn [firstn script_hops]. rewrite app_nil_r, Hh. cbn [snd]. rewrite on_retries_attempt.
           split; [|apply refusal_final_single].
           destruct (cc_on_retry cfg); [|reflexivity]. rewrite Hre. split; reflexivity.
        -- destruct Hs as (s' & Hs & Hl' & Hc' & _). rewrite Hs in Hrun.
           destruct (connect_loop cfg b s' rest) as [tr' r'] eqn:El. injection Hrun as <- _.
           specialize (IH s' tr' r' El). cbv zeta in IH. rewrite Hl', Hc' in IH. destruct IH as [IH1 IH2].
           rewrite (Hreq2 _ _ (requests_onretry _ _ _)).
           cbn [firstn script_hops]. rewrite bc_run_from_app, Hh.
           destruct (bc_run_from b c' (script_hops (id_after_attempt lid (st_attempt st)) (firstn (length (requests tr')) rest)))
             as [c2 answers'] eqn:Erun. cbn [snd] in *.
           split; [|now apply refusal_final_cons].
           change (TRequest (cs_hdr s1) (cs_body s1) :: (attempt_events lid (st_attempt st) ++ (if cc_on_retry cfg then [TOnRetry err w] else [])) ++ tr')
             with ((TRequest (cs_hdr s1) (cs_body s1) :: attempt_events lid (st_attempt st) ++ (if cc_on_retry cfg then [TOnRetry err w] else [])) ++ tr').
           rewrite on_retries_app, on_retries_attempt.
           destruct (cc_on_retry cfg).
           ++ destruct IH1 as [IHa IHb]. cbn [on_retries flat_map app map fst snd length granted].
              fold (on_retries tr'). fold (granted answers').
              assert (Hcons : forall l, retry_errors (st :: l) = err :: retry_errors l)
                by (intros l; unfold retry_errors; cbn [flat_map]; now rewrite Ea).
              rewrite Hcons. cbn [firstn]. rewrite IHa, <- IHb. split; reflexivity.
           ++ cbn [on_retries flat_map app]. exact IH1.
      * rewrite Hs in Hrun. injection Hrun as <- _. rewrite Hreq0, Hor0.
        cbn [firstn script_hops]. rewrite app_nil_r, Hh. cbn [snd].
        split; [|apply refusal_final_single].
        destruct (cc_on_retry cfg); [split|]; reflexivity.
    + rewrite Hs in Hrun. injection Hrun as <- _. rewrite Hreq0, Hor0.
      cbn [firstn script_hops]. rewrite app_nil_r. unfold attempt_hops. rewrite Ea, app_nil_r, prefix_hops_run. cbn [snd].
      split; [destruct (cc_on_retry cfg); [split|]; reflexivity|].
      intros pre a post H. destruct pre; discriminate.
Qed.

Theorem run_schedule cfg script tr r :
  cc_cancel_before cfg = false ->
  connect_run cfg script = (tr, r) ->
  let b := merge_defaults (cc_backoff cfg) in
  let n := length (requests tr) in
  let answers := snd (bc_run b (script_hops [] (firstn n script))) in
  (if cc_on_retry cfg
   then map snd (on_retries tr) = granted answers /\
        map fst (on_retries tr) = firstn (length (on_retries tr)) (retry_errors (firstn n script))
   else on_retries tr = []) /\
  refusal_is_final answers.
Proof.
  intros Hc. unfold connect_run. rewrite Hc. intros Hrun.
  exact (loop_schedule cfg _ script _ tr r Hrun).
Qed.

(* the history starts every connection with a reset: whatever came before, after a validated
   response the series is new (the subtle point of C12: every attempt end - failure or dropped
   stream - then consumes one retry of the current series) *)
Lemma attempt_hops_stream lid st body en :
  st_attempt st = AStream body en ->
  exists tail, attempt_hops lid st = HSuccess :: tail.
Proof. intros H. unfold attempt_hops, attempt_prefix_hops. rewrite H. eexists. reflexivity. Qed.
