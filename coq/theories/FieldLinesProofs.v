(* FieldParser.Next iterated over a token hands out exactly the fields of the token's lines
   ([fields_of] of [wlines], the vocabulary of read_loop_spec), for LF, CR and CR LF line ends, and
   reports ErrUnexpectedEOF iff the last line is unterminated. *)
From GoSse Require Import Base Lines FieldParser Whatwg WhatwgLines Split Scanner Reader ReadLoop Yields
     LineStepProofs ReadLoopProofs SplitProofs.
Local Open Scope nat_scope.

(* the first line that scans to a field, and the lines after it *)
Fixpoint first_field (ls : list bytes) : option (pfield * list bytes) :=
  match ls with
  | [] => None
  | l :: r => match scan_segment false l with Some f => Some (f, r) | None => first_field r end
  end.

Lemma fields_of_first ls :
  fields_of ls = match first_field ls with Some (f, r) => f :: fields_of r | None => [] end.
Proof.
  induction ls as [|l r IH]; [reflexivity|].
  unfold fields_of. cbn [flat_map first_field]. fold (fields_of r).
  destruct (scan_segment false l); [reflexivity|]. cbn [app]. exact IH.
Qed.

Definition nonempty (s : bytes) : bool := match s with [] => false | _ => true end.

Lemma fp_next_fuel_lines fuel : forall f ls tl,
  fp_keep_comments f = false -> wlines (fp_data f) = (ls, tl) -> length (fp_data f) <= fuel ->
  match first_field ls with
  | Some (fld, ls') =>
      exists f', fp_next_fuel fuel f = (Some fld, f') /\ wlines (fp_data f') = (ls', tl) /\
                 fp_keep_comments f' = false /\ fp_err f' = fp_err f /\ length (fp_data f') < length (fp_data f)
  | None =>
      exists f', fp_next_fuel fuel f = (None, f') /\ fp_err f' = fp_err f || nonempty tl
  end.
Proof.
  induction fuel as [|fuel IH]; intros f ls tl Hk Hw Hlen.
  - destruct (fp_data f) eqn:Ed; [|cbn in Hlen; lia]. cbn in Hw. injection Hw as <- <-.
    cbn. exists f. rewrite Bool.orb_false_r. auto.
  - cbn [fp_next_fuel].
    destruct (fp_data f) as [|b d] eqn:Ed.
    + cbn in Hw. injection Hw as <- <-. cbn. exists f. rewrite Bool.orb_false_r. auto.
    + unfold next_chunk. pose proof (wlines_ni (b :: d)) as Hni.
      pose proof (newline_index_bounds (b :: d)) as Hbd.
      destruct (newline_index (b :: d)) as [i el].
      destruct el as [|el'].
      * destruct Hni as [Hni _]. rewrite Hni in Hw. injection Hw as <- <-.
        cbn [Nat.eqb negb first_field]. eexists. split; [reflexivity|]. cbn [fp_err nonempty].
        now rewrite Bool.orb_true_r.
      * rewrite Hni in Hw. injection Hw as <- <-. cbn [Nat.eqb negb first_field]. rewrite Hk.
        set (rem := skipn (i + S el') (b :: d)).
        assert (Hrem : length rem < length (b :: d)).
        { unfold rem. rewrite skipn_length. cbn [length] in *. lia. }
        destruct (scan_segment false (firstn i (b :: d))) as [fld|].
        -- eexists. split; [reflexivity|]. cbn [fp_data fp_keep_comments fp_err].
           repeat split; try assumption. now destruct (wlines rem).
        -- specialize (IH (mkfp rem (fp_err f) true false (fp_remove_bom f)) (fst (wlines rem)) (snd (wlines rem))
                           eq_refl ltac:(cbn [fp_data]; now destruct (wlines rem)) ltac:(cbn [fp_data length] in *; lia)).
           cbn [fp_data fp_err] in IH.
           destruct (first_field (fst (wlines rem))) as [[fld ls']|].
           ++ destruct IH as (f' & H1 & H2 & H3 & H4 & H5). exists f'. repeat split; try assumption. lia.
           ++ exact IH.
Qed.

(* all the fields of a token *)
Theorem fp_all_lines f :
  fp_keep_comments f = false ->
  fst (fp_all f) = fields_of (fst (wlines (fp_data f))) /\
  fp_err (snd (fp_all f)) = fp_err f || nonempty (snd (wlines (fp_data f))).
Proof.
  unfold fp_all.
  assert (H : forall n f, length (fp_data f) < n -> fp_keep_comments f = false ->
              fst (fp_all_fuel n f) = fields_of (fst (wlines (fp_data f))) /\
              fp_err (snd (fp_all_fuel n f)) = fp_err f || nonempty (snd (wlines (fp_data f)))).
  { clear f. induction n as [|n IH]; intros f Hn Hk; [lia|].
    cbn [fp_all_fuel]. unfold fp_next.
    pose proof (fp_next_fuel_lines (length (fp_data f)) f (fst (wlines (fp_data f))) (snd (wlines (fp_data f)))
                  Hk ltac:(now destruct (wlines (fp_data f))) (le_n _)) as Hs.
    rewrite (fields_of_first (fst (wlines (fp_data f)))).
    destruct (first_field (fst (wlines (fp_data f)))) as [[fld ls']|].
    - destruct Hs as (f' & -> & H2 & H3 & H4 & H5).
      destruct (IH f' ltac:(lia) H3) as [I1 I2].
      destruct (fp_all_fuel n f') as [fs f'']. cbn [fst snd] in *.
      rewrite H2 in I1, I2. cbn [fst snd] in I1, I2. rewrite I1, I2, H4. split; reflexivity.
    - destruct Hs as (f' & -> & H2). cbn [fst snd]. split; [reflexivity|exact H2]. }
  intros Hk. apply H; [lia|exact Hk].
Qed.
