(* Lemmas about the retry-schedule model (Backoff.v): the code's arithmetic equals the
   recurrence of the property text, for every configuration and every history. *)
From Coq Require Import ZifyBool ZifyNat.
From GoSse Require Import Base Backoff.
From GoSse.Gen Require Import Params.
Local Open Scope Z_scope.

(* ---- mergeDefaults yields a well-formed configuration -------------------------- *)
Lemma defaults_wf :
  0 < default_initial_interval /\ 0 < rden default_mul /\ rden default_mul <= rnum default_mul /\
  jitter_ok default_jitter.
Proof.
  unfold default_mul, default_jitter, jitter_ok; cbn [rnum rden].
  unfold default_initial_interval, default_multiplier_num, default_multiplier_den,
    default_jitter_num, default_jitter_den. lia.
Qed.

Lemma merge_wf (b : backoff) :
  0 < rden (bo_mul b) -> 0 < rden (bo_jitter b) -> backoff_wf (merge_defaults b).
Proof.
  intros Hm Hj. destruct defaults_wf as (Di & Dm1 & Dm2 & Dj).
  unfold backoff_wf, merge_defaults; cbn [bo_initial bo_mul bo_jitter].
  split; [|split; [|split]].
  - unfold merge_initial_le. destruct (bo_initial b <=? 0) eqn:E; lia.
  - destruct (rlt (bo_mul b) (rz merge_multiplier_lt)); assumption.
  - destruct (rlt (bo_mul b) (rz merge_multiplier_lt)) eqn:E; [assumption|].
    unfold rlt, rz, merge_multiplier_lt in E; cbn [rnum rden] in E. lia.
  - destruct ((rle (bo_jitter b) (rz merge_jitter_le) && negb (req (bo_jitter b) (rz merge_jitter_flag))) || rle (rz merge_jitter_ge) (bo_jitter b)) eqn:E;
      [assumption|].
    unfold rle, req, rz, merge_jitter_le, merge_jitter_flag, merge_jitter_ge in E; cbn [rnum rden] in E.
    unfold jitter_ok. split; [assumption|]. lia.
Qed.

(* the normalisation keeps what is already well-formed *)
Lemma merge_idem (b : backoff) : backoff_wf b -> merge_defaults b = b.
Proof.
  intros (Hi & Hm1 & Hm2 & Hj1 & Hj2). destruct b as [i m j mi me mr]; cbn [bo_initial bo_mul bo_jitter] in *.
  unfold merge_defaults; cbn [bo_initial bo_mul bo_jitter bo_max_interval bo_max_elapsed bo_max_retries].
  replace (i <=? merge_initial_le) with false by (unfold merge_initial_le; lia).
  replace (rlt m (rz merge_multiplier_lt)) with false by (unfold rlt, rz, merge_multiplier_lt; cbn [rnum rden]; lia).
  replace ((rle j (rz merge_jitter_le) && negb (req j (rz merge_jitter_flag))) || rle (rz merge_jitter_ge) j) with false
    by (unfold rle, req, rz, merge_jitter_le, merge_jitter_flag, merge_jitter_ge; cbn [rnum rden]; lia).
  reflexivity.
Qed.

(* ---- growInterval is min(floor(b*M), MaxInterval) -------------------------------- *)
Lemma grow_eq (b : backoff) (x : Z) :
  backoff_wf b -> 0 <= x ->
  grow_interval x (bo_max_interval b) (bo_mul b) = grow_spec b x.
Proof.
  intros (_ & Hq & Hpq & _) Hx.
  unfold grow_interval, grow_spec, rdiv, rle, rmul, rtrunc, rz; cbn [rnum rden].
  set (p := rnum (bo_mul b)) in *. set (q := rden (bo_mul b)) in *. set (mx := bo_max_interval b).
  replace (0 <? p) with true by lia. cbn [rnum rden].
  rewrite !Z.mul_1_l, !Z.mul_1_r.
  assert (Hxp : 0 <= x * p) by nia.
  rewrite (Z.quot_div_nonneg (x * p) q) by lia.
  assert (Hd1 : q * (x * p / q) <= x * p) by (apply Z.mul_div_le; lia).
  assert (Hd2 : x * p < q * (x * p / q) + q).
  { pose proof (Z.mod_pos_bound (x * p) q ltac:(lia)). pose proof (Z.div_mod (x * p) q ltac:(lia)). lia. }
  destruct (0 <? mx) eqn:Emx; cbn [andb]; [|reflexivity].
  destruct (mx * q <=? x * p) eqn:Ec.
  - assert (mx <= x * p / q) by (apply Z.div_le_lower_bound; lia). lia.
  - assert (x * p / q < mx) by (apply Z.div_lt_upper_bound; lia). lia.
Qed.

Lemma grow_spec_nonneg (b : backoff) (x : Z) : backoff_wf b -> 0 <= x -> 0 <= grow_spec b x.
Proof.
  intros (_ & Hq & Hpq & _) Hx. unfold grow_spec.
  assert (0 <= x * rnum (bo_mul b) / rden (bo_mul b)) by (apply Z.div_pos; nia).
  destruct (0 <? bo_max_interval b) eqn:E; lia.
Qed.

Lemma base_seq_nonneg (b : backoff) (b1 : Z) (k : nat) : backoff_wf b -> 0 <= b1 -> 0 <= base_seq b b1 k.
Proof.
  intros Hwf Hb. induction k as [|k IH]; cbn [base_seq]; [assumption|]. now apply grow_spec_nonneg.
Qed.

(* Multiplier >= 1: the base never shrinks below min(b, MaxInterval) - in particular it stays positive *)
Lemma grow_spec_pos (b : backoff) (x : Z) : backoff_wf b -> 0 < x -> 0 < bo_max_interval b \/ bo_max_interval b <= 0 -> 0 < grow_spec b x.
Proof.
  intros (_ & Hq & Hpq & _) Hx _. unfold grow_spec.
  assert (x <= x * rnum (bo_mul b) / rden (bo_mul b)) by (apply Z.div_le_lower_bound; nia).
  destruct (0 <? bo_max_interval b) eqn:E; lia.
Qed.

(* ---- nextInterval: exact without jitter, inside the jitter interval otherwise ---- *)
Lemma next_interval_off (j u : rat) (x : Z) : req j jitter_off = true -> next_interval j u x = x.
Proof. intros H. unfold next_interval. now rewrite H. Qed.

Lemma next_interval_bounds (j u : rat) (x : Z) :
  0 < rden j -> 0 < rnum j < rden j -> 0 <= rnum u < rden u -> 0 <= x ->
  jitter_lo j x <= next_interval j u x <= jitter_hi j x.
Proof.
  intros Hjd Hj Hu Hx.
  unfold next_interval.
  replace (req j jitter_off) with false by (unfold req, jitter_off, rz, next_interval_flag; cbn [rnum rden]; lia).
  unfold rtrunc, radd, rsub, rmul, rz, jitter_lo, jitter_hi; cbn [rnum rden].
  set (jn := rnum j) in *. set (jd := rden j) in *. set (un := rnum u) in *. set (ud := rden u) in *.
  rewrite !Z.mul_1_l, !Z.mul_1_r.
  (* the value is (A*ud + un*(2*jn*x + jd)) / (jd*ud) up to the common factor jd^2 *)
  set (A := x * (jd - jn)).
  set (R := 2 * jn * x + jd).
  match goal with |- _ <= ?N ÷ ?D <= _ =>
    replace N with ((jd * jd) * (A * ud + un * R)) by (unfold A, R; ring);
    replace D with ((jd * jd) * (jd * ud)) by ring
  end.
  assert (Hc : jd * jd <> 0) by nia.
  assert (Hdd : 0 < jd * ud) by nia.
  rewrite Z.quot_mul_cancel_l by lia.
  assert (HA : 0 <= A) by (unfold A; nia).
  assert (HR : 0 < R) by (unfold R; nia).
  assert (HN : 0 <= A * ud + un * R) by nia.
  rewrite Z.quot_div_nonneg by lia.
  split.
  - (* floor(A/jd) <= floor((A*ud + un*R)/(jd*ud)) *)
    apply Z.div_le_lower_bound; [lia|].
    assert (jd * (A / jd) <= A) by (apply Z.mul_div_le; lia).
    nia.
  - (* value < (A + R)/jd = x(jd+jn)/jd + 1 <= hi + 1 *)
    set (B := x * (jd + jn)).
    assert (HB : A + R = B + jd) by (unfold A, R, B; ring).
    assert (Hhi : B <= jd * (- (- B / jd))).
    { pose proof (Z.mul_div_le (- B) jd ltac:(lia)). lia. }
    assert (Hlt : (A * ud + un * R) / (jd * ud) < - (- B / jd) + 1).
    { apply Z.div_lt_upper_bound; [lia|]. nia. }
    lia.
Qed.

Lemma wait_ok_next (b : backoff) (u : rat) (x : Z) :
  backoff_wf b -> 0 <= rnum u < rden u -> 0 <= x ->
  wait_ok b x (next_interval (bo_jitter b) u x).
Proof.
  intros (_ & _ & _ & Hjd & Hj) Hu Hx. unfold wait_ok.
  destruct (req (bo_jitter b) jitter_off) eqn:E.
  - now apply next_interval_off.
  - apply next_interval_bounds; try assumption.
    unfold req, jitter_off, rz, next_interval_flag in E; cbn [rnum rden] in E. lia.
Qed.

(* ---- one call of next() from the state the property text describes ---------------- *)
Definition at_series (b : backoff) (b1 : Z) (n : nat) : bctl :=
  mkbctl (base_seq b b1 (counted b n)) (Z.of_nat (counted b n)).

Lemma counted_refused (b : backoff) (n : nat) : limit_refuses b n = true -> counted b (S n) = counted b n.
Proof. unfold limit_refuses, counted. intros H. destruct (bo_max_retries b <? 0) eqn:E1; [reflexivity|].
  destruct (bo_max_retries b =? 0) eqn:E2; lia. Qed.

Lemma counted_granted (b : backoff) (n : nat) :
  limit_refuses b n = false -> counted b n = n /\ counted b (S n) = S n.
Proof. unfold limit_refuses, counted. intros H. destruct (bo_max_retries b <? 0) eqn:E1; [lia|].
  destruct (bo_max_retries b =? 0) eqn:E2; lia. Qed.

Lemma gate_eq (b : backoff) (n : nat) :
  (bo_max_retries b <? 0) || ((0 <? bo_max_retries b) && (Z.of_nat (counted b n) =? bo_max_retries b))
  = limit_refuses b n.
Proof. unfold limit_refuses, counted.
  destruct (bo_max_retries b <? 0) eqn:E1; [reflexivity|].
  destruct (bo_max_retries b =? 0) eqn:E2; lia. Qed.

Lemma next_at_series (b : backoff) (b1 : Z) (n : nat) (e : Z) (u : rat) :
  backoff_wf b -> 0 <= b1 ->
  bc_next b (at_series b b1 n) e u =
    (at_series b b1 (S n),
     if limit_refuses b n then None
     else let w := next_interval (bo_jitter b) u (base_seq b b1 n) in
          if (0 <? bo_max_elapsed b) && (bo_max_elapsed b <? e + w) then None else Some w).
Proof.
  intros Hwf Hb1. unfold bc_next, at_series; cbn [bc_interval bc_retries].
  rewrite gate_eq. destruct (limit_refuses b n) eqn:El.
  - now rewrite (counted_refused _ _ El).
  - destruct (counted_granted _ _ El) as [C1 C2]. rewrite C1, C2.
    rewrite grow_eq by (try assumption; now apply base_seq_nonneg).
    cbn [base_seq]. replace (Z.of_nat n + 1) with (Z.of_nat (S n)) by lia.
    destruct ((0 <? bo_max_elapsed b) && (bo_max_elapsed b <? e + next_interval (bo_jitter b) u (base_seq b b1 n)));
      reflexivity.
Qed.

(* ---- whole histories ---------------------------------------------------------------- *)
Lemma bc_run_from_app (b : backoff) (h1 h2 : list hop) (c : bctl) :
  bc_run_from b c (h1 ++ h2) =
  let '(c1, o1) := bc_run_from b c h1 in
  let '(c2, o2) := bc_run_from b c1 h2 in (c2, o1 ++ o2).
Proof.
  revert c; induction h1 as [|op h1 IH]; intros c; cbn [app bc_run_from].
  - destruct (bc_run_from b c h2); reflexivity.
  - destruct (bc_step b c op) as [c1 o]. rewrite IH.
    destruct (bc_run_from b c1 h1) as [c2 o1]. destruct (bc_run_from b c2 h2) as [c3 o2].
    destruct o; reflexivity.
Qed.

Definition series_b1_ok (b : backoff) (b1 : Z) : Prop := 0 <= b1.

Lemma state_after (b : backoff) (h : list hop) (b1 : Z) (n : nat) :
  backoff_wf b -> 0 <= b1 -> (forall e u, In (HFail e u) h -> 0 <= rnum u < rden u) ->
  let '(b1', n') := series_of b b1 n h in
  fst (bc_run_from b (at_series b b1 n) h) = at_series b b1' n' /\ 0 <= b1'.
Proof.
  intros Hwf. revert b1 n. induction h as [|op h IH]; intros b1 n Hb1 Hu; cbn [series_of bc_run_from].
  - split; [reflexivity|assumption].
  - assert (Hu' : forall e u, In (HFail e u) h -> 0 <= rnum u < rden u)
      by (intros e u Hin; apply (Hu e u); now right).
    destruct op as [e u| |ms]; cbn [bc_step].
    + rewrite next_at_series by assumption.
      specialize (IH b1 (S n) Hb1 Hu'). destruct (series_of b b1 (S n) h) as [b1' n'].
      destruct (bc_run_from b (at_series b b1 (S n)) h) as [c2 os]. exact IH.
    + assert (Hi : 0 <= bo_initial b) by (destruct Hwf; lia).
      specialize (IH (bo_initial b) O Hi Hu').
      replace (bc_reset b (at_series b b1 n) 0) with (at_series b (bo_initial b) O).
      2:{ unfold bc_reset, at_series, counted; cbn [base_seq].
          destruct (bo_max_retries b <? 0); [|destruct (bo_max_retries b =? 0)]; reflexivity. }
      destruct (series_of b (bo_initial b) 0 h) as [b1' n'].
      destruct (bc_run_from b (at_series b (bo_initial b) 0) h) as [c2 os]. exact IH.
    + set (nb := if 0 <? ms_to_ns ms then ms_to_ns ms else bo_initial b).
      assert (Hi : 0 <= nb) by (unfold nb; destruct Hwf; destruct (0 <? ms_to_ns ms) eqn:E; lia).
      specialize (IH nb O Hi Hu').
      replace (bc_reset b (at_series b b1 n) (ms_to_ns ms)) with (at_series b nb O).
      2:{ unfold bc_reset, at_series, counted, nb; cbn [base_seq].
          destruct (bo_max_retries b <? 0); [|destruct (bo_max_retries b =? 0)]; reflexivity. }
      destruct (series_of b nb 0 h) as [b1' n'].
      destruct (bc_run_from b (at_series b nb 0) h) as [c2 os]. exact IH.
Qed.

Lemma new_at_series (b : backoff) : bc_new b = at_series b (bo_initial b) O.
Proof. unfold bc_new, at_series, counted; cbn [base_seq].
  destruct (bo_max_retries b <? 0); [|destruct (bo_max_retries b =? 0)]; reflexivity. Qed.

(* The schedule theorem: after ANY history [pre], the answer of the next call of next() is
   determined by the series [pre] ends in - the base b1 set by its last reset and the
   number n of attempt ends since. *)
Theorem schedule (b : backoff) (pre : list hop) (e : Z) (u : rat) :
  backoff_wf b ->
  (forall e' u', In (HFail e' u') pre -> 0 <= rnum u' < rden u') -> 0 <= rnum u < rden u ->
  let '(b1, n) := series_of b (bo_initial b) O pre in
  exists answer,
    snd (bc_run b (pre ++ [HFail e u])) = snd (bc_run b pre) ++ [answer] /\
    if limit_refuses b n then answer = None
    else exists w, wait_ok b (base_seq b b1 n) w /\
                   answer = if (0 <? bo_max_elapsed b) && (bo_max_elapsed b <? e + w) then None else Some w.
Proof.
  intros Hwf Hpre Hu.
  assert (Hi : 0 <= bo_initial b) by (destruct Hwf; lia).
  pose proof (state_after b pre (bo_initial b) O Hwf Hi Hpre) as Hst.
  destruct (series_of b (bo_initial b) 0 pre) as [b1 n]. destruct Hst as [Hst Hb1].
  unfold bc_run. rewrite bc_run_from_app. rewrite new_at_series in *.
  destruct (bc_run_from b (at_series b (bo_initial b) 0) pre) as [c1 o1]. cbn [fst snd] in *. subst c1.
  cbn [bc_run_from bc_step]. rewrite next_at_series by assumption. cbn [snd].
  eexists; split; [reflexivity|].
  destruct (limit_refuses b n) eqn:El; [reflexivity|].
  eexists; split; [|reflexivity].
  apply wait_ok_next; try assumption. now apply base_seq_nonneg.
Qed.

(* the controller's state after any history: next base and retry count *)
Theorem schedule_state (b : backoff) (h : list hop) :
  backoff_wf b -> (forall e u, In (HFail e u) h -> 0 <= rnum u < rden u) ->
  let '(b1, n) := series_of b (bo_initial b) O h in
  fst (bc_run b h) = mkbctl (base_seq b b1 (counted b n)) (Z.of_nat (counted b n)).
Proof.
  intros Hwf Hu. assert (Hi : 0 <= bo_initial b) by (destruct Hwf; lia).
  pose proof (state_after b h (bo_initial b) O Hwf Hi Hu) as Hst.
  destruct (series_of b (bo_initial b) 0 h) as [b1 n]. destruct Hst as [Hst _].
  unfold bc_run. rewrite new_at_series. exact Hst.
Qed.

(* consequences spelled out ------------------------------------------------------------ *)

(* a granted retry respects every limit *)
Corollary granted_respects_limits (b : backoff) (pre : list hop) (e : Z) (u : rat) (w : Z) :
  backoff_wf b ->
  (forall e' u', In (HFail e' u') pre -> 0 <= rnum u' < rden u') -> 0 <= rnum u < rden u ->
  snd (bc_run b (pre ++ [HFail e u])) = snd (bc_run b pre) ++ [Some w] ->
  let '(b1, n) := series_of b (bo_initial b) O pre in
  0 <= bo_max_retries b /\ (0 < bo_max_retries b -> Z.of_nat n < bo_max_retries b) /\
  (0 < bo_max_elapsed b -> e + w <= bo_max_elapsed b) /\ wait_ok b (base_seq b b1 n) w.
Proof.
  intros Hwf Hpre Hu Hrun. pose proof (schedule b pre e u Hwf Hpre Hu) as H.
  destruct (series_of b (bo_initial b) 0 pre) as [b1 n].
  destruct H as (ans & Heq & Hans). rewrite Heq in Hrun. apply app_inv_head in Hrun.
  injection Hrun as ->.
  destruct (limit_refuses b n) eqn:El; [discriminate|].
  destruct Hans as (w' & Hw & Hans).
  destruct ((0 <? bo_max_elapsed b) && (bo_max_elapsed b <? e + w')) eqn:Ee; [discriminate|].
  injection Hans as ->. unfold limit_refuses in El. repeat split; try lia. assumption.
Qed.

(* MaxRetries = 0 and MaxElapsedTime unset: every attempt end is followed by a retry *)
Corollary unbounded_always_retries (b : backoff) (pre : list hop) (e : Z) (u : rat) :
  backoff_wf b -> bo_max_retries b = 0 -> bo_max_elapsed b <= 0 ->
  (forall e' u', In (HFail e' u') pre -> 0 <= rnum u' < rden u') -> 0 <= rnum u < rden u ->
  exists w, snd (bc_run b (pre ++ [HFail e u])) = snd (bc_run b pre) ++ [Some w].
Proof.
  intros Hwf Hr He Hpre Hu. pose proof (schedule b pre e u Hwf Hpre Hu) as H.
  destruct (series_of b (bo_initial b) 0 pre) as [b1 n].
  destruct H as (ans & Heq & Hans).
  replace (limit_refuses b n) with false in Hans by (unfold limit_refuses; lia).
  destruct Hans as (w & _ & Hans). replace (0 <? bo_max_elapsed b) with false in Hans by lia.
  cbn [andb] in Hans. subst ans. now exists w.
Qed.

(* ---- the same, for the configuration a Connection really runs with ------------------ *)
Definition raw_ok (b0 : backoff) : Prop := 0 < rden (bo_mul b0) /\ 0 < rden (bo_jitter b0).
Definition draws_ok (h : list hop) : Prop := forall e u, In (HFail e u) h -> 0 <= rnum u < rden u.

Theorem schedule_merged (b0 : backoff) (pre : list hop) (e : Z) (u : rat) :
  raw_ok b0 -> draws_ok pre -> 0 <= rnum u < rden u ->
  let b := merge_defaults b0 in
  let '(b1, n) := series_of b (bo_initial b) O pre in
  exists answer,
    snd (bc_run b (pre ++ [HFail e u])) = snd (bc_run b pre) ++ [answer] /\
    if limit_refuses b n then answer = None
    else exists w, wait_ok b (base_seq b b1 n) w /\
                   answer = if (0 <? bo_max_elapsed b) && (bo_max_elapsed b <? e + w) then None else Some w.
Proof. intros [Hm Hj] Hpre Hu. apply schedule; try assumption. now apply merge_wf. Qed.

Theorem schedule_state_merged (b0 : backoff) (h : list hop) :
  raw_ok b0 -> draws_ok h ->
  let b := merge_defaults b0 in
  let '(b1, n) := series_of b (bo_initial b) O h in
  fst (bc_run b h) = mkbctl (base_seq b b1 (counted b n)) (Z.of_nat (counted b n)).
Proof. intros [Hm Hj] Hu. apply schedule_state; try assumption. now apply merge_wf. Qed.

Theorem granted_respects_limits_merged (b0 : backoff) (pre : list hop) (e : Z) (u : rat) (w : Z) :
  raw_ok b0 -> draws_ok pre -> 0 <= rnum u < rden u ->
  let b := merge_defaults b0 in
  snd (bc_run b (pre ++ [HFail e u])) = snd (bc_run b pre) ++ [Some w] ->
  let '(b1, n) := series_of b (bo_initial b) O pre in
  0 <= bo_max_retries b /\ (0 < bo_max_retries b -> Z.of_nat n < bo_max_retries b) /\
  (0 < bo_max_elapsed b -> e + w <= bo_max_elapsed b) /\ wait_ok b (base_seq b b1 n) w.
Proof. intros [Hm Hj] Hpre Hu b. apply granted_respects_limits; try assumption. now apply merge_wf. Qed.

Theorem unbounded_always_retries_merged (b0 : backoff) (pre : list hop) (e : Z) (u : rat) :
  raw_ok b0 -> bo_max_retries b0 = 0 -> bo_max_elapsed b0 <= 0 -> draws_ok pre -> 0 <= rnum u < rden u ->
  let b := merge_defaults b0 in
  exists w, snd (bc_run b (pre ++ [HFail e u])) = snd (bc_run b pre) ++ [Some w].
Proof. intros [Hm Hj] Hr He Hpre Hu b. apply unbounded_always_retries; try assumption. now apply merge_wf. Qed.

(* what mergeDefaults does, field by field (documentation of Backoff, client.go:46-69) *)
Theorem merge_fields (b0 : backoff) :
  raw_ok b0 ->
  let b := merge_defaults b0 in
  bo_initial b = (if 0 <? bo_initial b0 then bo_initial b0 else default_initial_interval) /\
  bo_mul b = (if rle (rz 1) (bo_mul b0) then bo_mul b0 else default_mul) /\
  (req (bo_jitter b0) jitter_off = true -> bo_jitter b = bo_jitter b0) /\
  (rlt (rz 0) (bo_jitter b0) && rlt (bo_jitter b0) (rz 1) = true -> bo_jitter b = bo_jitter b0) /\
  (req (bo_jitter b0) jitter_off = false -> rlt (rz 0) (bo_jitter b0) && rlt (bo_jitter b0) (rz 1) = false ->
   bo_jitter b = default_jitter) /\
  bo_max_interval b = bo_max_interval b0 /\ bo_max_elapsed b = bo_max_elapsed b0 /\
  bo_max_retries b = bo_max_retries b0.
Proof.
  intros [Hm Hj]. unfold merge_defaults; cbn [bo_initial bo_mul bo_jitter bo_max_interval bo_max_elapsed bo_max_retries].
  unfold rle, rlt, req, jitter_off, rz, next_interval_flag, merge_initial_le, merge_multiplier_lt, merge_jitter_le, merge_jitter_flag, merge_jitter_ge; cbn [rnum rden].
  repeat split.
  - destruct (bo_initial b0 <=? 0) eqn:E1; destruct (0 <? bo_initial b0) eqn:E2; lia || reflexivity.
  - destruct (rnum (bo_mul b0) * 1 <? 1 * rden (bo_mul b0)) eqn:E1;
      destruct (1 * rden (bo_mul b0) <=? rnum (bo_mul b0) * 1) eqn:E2; lia || reflexivity.
  - intros H. match goal with |- (if ?c then _ else _) = _ => replace c with false by lia end. reflexivity.
  - intros H. match goal with |- (if ?c then _ else _) = _ => replace c with false by lia end. reflexivity.
  - intros H1 H2. match goal with |- (if ?c then _ else _) = _ => replace c with true by lia end. reflexivity.
Qed.

(* jitter: the lower bound is attained at the lowest RNG draw *)
Lemma next_interval_u0 (j : rat) (x : Z) :
  0 < rden j -> 0 < rnum j < rden j -> 0 <= x -> next_interval j (mkrat 0 1) x = jitter_lo j x.
Proof.
  intros Hjd Hj Hx. unfold next_interval.
  replace (req j jitter_off) with false by (unfold req, jitter_off, rz, next_interval_flag; cbn [rnum rden]; lia).
  unfold rtrunc, radd, rsub, rmul, rz, jitter_lo; cbn [rnum rden].
  set (jn := rnum j) in *. set (jd := rden j) in *.
  rewrite !Z.mul_1_l, !Z.mul_1_r, !Z.mul_0_l, Z.add_0_r.
  match goal with |- ?N ÷ ?D = _ =>
    replace N with ((jd * jd) * (x * (jd - jn))) by ring;
    replace D with ((jd * jd) * jd) by ring
  end.
  rewrite Z.quot_mul_cancel_l by nia. apply Z.quot_div_nonneg; nia.
Qed.
