(* val-level entry points of the family "connect" (C10 C11, integration half of C12):
   the real sse.Client/Connection behind a scripted http.RoundTripper.

   input : ( cfg steps ) | ( cfg steps ( steps ... ) )
       the second form: the SAME Connection is connected again after Connect returned - one script per further Connect
       call, made as long as the call before it returned something else than the context's error (retries exhausted,
       MaxRetries < 0, a validator or body-reset error) and did not run out of script; the Connection, its request and
       the request's GetBody are the same objects throughout, every call has a backoff controller of its own
     cfg  = ( backoff body n<OnRetry set> (opt x<initial Last-Event-ID header>) (opt z<patience>) n<cancelled before>
              n<other connections> ( n<RoundTrip us> n<body end us> ) n<context kind> )
       backoff as in the family "backoff"; body = ( n<kind> n<after> n<e> ) with kind 0 = no body,
       1 = http.NoBody, 2 = body without GetBody, 3 = body with GetBody, 4 = GetBody fails with error e
       after [after] successful calls; patience: the context is cancelled inside OnRetry when the wait is
       at least this long; cancelled before: the context is done before Connect is called (the first select may
       take either branch; the scripted RoundTripper, like a real transport, fails a request on a done context with
       the context's error without serving it, so both branches are the same observation);
       other connections: how many Connections the same Client produced before this one (NewConnection normalises
       the Client's configuration in place; the configuration a Connection runs with does not depend on how often);
       the last pair: how long the scripted RoundTrip / the end of a scripted body take (harness only: the model has
       no clock, the waits it grants do not depend on how long an attempt took);
       context kind (harness only): how the request context was built and is ended - WithCancel; WithCancelCause ended
       with a cause of its own; a WithCancel / WithValue / WithTimeoutCause child of such a context; a deadline (with a
       cause) that expires at the scripted instant or has passed before Connect.  Model and oracle do not look at it:
       "the context's error" (n1) is request.Context().Err() whatever the kind, and the harness projects a returned
       error to (n1) only if it is that very value - a cause, or an error that merely matches context.Canceled /
       context.DeadlineExceeded while the context is alive, is not the context's error
     n<e>: the index of an injected error VALUE.  The harness gives the value a character by e / 1000 (plain; Temporary();
       Timeout(); wrapping io.EOF, io.ErrUnexpectedEOF, os.ErrDeadlineExceeded; *net.OpError around a wrapped io.EOF;
       *net.OpError{dial} around ECONNREFUSED, *net.OpError{read} around ECONNRESET, these inside a *url.Error, *net.DNSError
       alone and inside a dial error; context.DeadlineExceeded / context.Canceled themselves, wrapped, or matched through an
       Is method, alone and inside a dial error - all while the request context is alive) and
       projects what it observes by identity; model and oracle take e as opaque: the properties say what happens to an
       error by where it arose (transport, validator, reader, GetBody), never by what it looks like
     cfg may have a tenth element n<validator> (harness only): the validator is a closure of the harness or, for scripts
       without a rejected response, sse.NoopValidator
     step = ( n0 n<e> )                     Do fails with injected error e
          | ( n1 )                          the context is cancelled inside RoundTrip, Do fails with its error
          | ( n2 n<e> n<status> )           the validator rejects the response with error e
          | ( n2 n<e> n<status> n<open> )   open > 0: the rejected response is a stream the server keeps OPEN - its body
                                            does not end: a Read of it (after a few bytes when open = 2) blocks until the
                                            body is closed (the Read then fails) or the harness gives up (0.9 s)
          | ( n3 x<body> ending chunks n<with last> n<status> )
                                            accepted response; ending = (n0) EOF | (n1 n<e>) read error e
                                            | (n2 n<how>) cancellation inside Read; chunks, with last: harness only
       status (harness only; absent / 0 = 200): the status code the response carries.  It is what the validator may
       look at; the script fixes the validator's verdict, and once the response is accepted or rejected nothing in
       client_connection.go:231-258 reads the status again - model and oracle do not look at it: an accepted 204 / 304 /
       404 / 500 is read and retried like an accepted 200, and Connect never returns nil
   output: ( ( item ... ) result ( n<waited> ... ) )
     item = ( n0 ( x<header value> ... ) (opt n<body generation>) )    a request at the RoundTripper
          | ( n1 x<LastEventID> x<Type> x<Data> )                     an event at a SubscribeToAll callback
          | ( n2 ret z<duration> )                                    OnRetry(err, duration)
          | ( n3 n<reads> n<stuck> )    at the end of a call's items, one per OPEN rejected body handed out in the call:
                                        how many Read calls were made on it before Connect returned, and whether Connect
                                        was still running 0.9 s after the response had been handed to it (the harness
                                        then releases the body, so that the call ends and its return value is observed)
     ret  = (n0) nil | (n1) the context's error | ( n2 n<reason> err )  *ConnectionError
     err  = (n0) io.EOF | (n1) io.ErrUnexpectedEOF | (n2 n<e>) injected | (n3) context | (n4) ErrNoGetBody | (n5) too long
     result = () Connect was still running when the script ran out | ( ret )
     waited: one per OnRetry call that is followed by a request - whether at least the duration handed to OnRetry
       passed (monotonic clock) between the end of that call and the start of the RoundTrip: "the wait actually used"
     for the second form of input the output has a fourth element: ( ( items result waited ) ... ), one per further call made *)
From GoSse Require Import Base Whatwg Backoff Connect Run RunClient.
From GoSse.Gen Require Import Params.
Local Open Scope Z_scope.

Definition dec_body (v : val) : body_kind :=
  match as_n (nth_val 0 v) with
  | 0%N => BNone
  | 1%N => BNoBody
  | 2%N => BBody GBNone
  | 3%N => BBody GBOk
  | _ => BBody (GBFails (as_nat (nth_val 1 v)) (as_n (nth_val 2 v)))
  end.

Definition dec_ccfg (v : val) : ccfg :=
  mkccfg (dec_backoff (nth_val 0 v)) (dec_body (nth_val 1 v)) (as_bool (nth_val 2 v))
         (as_opt as_b (nth_val 3 v)) (as_bool (nth_val 5 v)) (as_opt as_z (nth_val 4 v)).

Definition dec_ending (v : val) : ending :=
  match as_n (nth_val 0 v) with
  | 0%N => CleanEOF
  | 1%N => ReadError (EReader (as_n (nth_val 1 v)))
  | 3%N => ReadError ETooLong   (* the scripted bytes are followed by a line longer than the maximum event size *)
  | _ => ReadError ECtx
  end.

Definition dec_attempt (v : val) : attempt :=
  match as_n (nth_val 0 v) with
  | 0%N => ATransportErr (as_n (nth_val 1 v))
  | 1%N => ACtxErr
  | 2%N => ARejected (as_n (nth_val 1 v))
  | _ => AStream (as_b (nth_val 1 v)) (dec_ending (nth_val 2 v))
  end.

(* the harness cannot inject the clock or the RNG of a real Connect: Jitter is -1 there (no draw) and
   MaxElapsedTime is unset, 1 ns or out of reach, so that 0 is as good as the real reading *)
Definition dec_step (v : val) : step := mkstep (dec_attempt v) 0 (mkrat 0 1).

Definition enc_serr (e : serr) : val :=
  match e with
  | EEOF => VL [VN 0]
  | EUnexpectedEOF => VL [VN 1]
  | EReader n => VL [VN 2; VN n]
  | ECtx => VL [VN 3]
  | ETooLong => VL [VN 5]
  end.
Definition enc_cerr (e : cerr) : val := match e with CE e' => enc_serr e' | CNoGetBody => VL [VN 4] end.
Definition enc_reason (r : reason) : val :=
  VN (match r with RsReset => 0 | RsConnect => 1 | RsValidate => 2 | RsLost => 3 end).
Definition enc_cret (r : cret) : val :=
  match r with
  | RNil => VL [VN 0]
  | RCtx => VL [VN 1]
  | RConn rs e => VL [VN 2; enc_reason rs; enc_cerr e]
  end.
Definition enc_event (e : event) : val := VL [VN 1; VB (ev_id e); VB (ev_type e); VB (ev_data e)].
Definition enc_request (h : option bytes) (b : option nat) : val :=
  VL [VN 0; VL (match h with Some id => [VB id] | None => [] end); vopt vnat b].
Definition enc_titem (i : titem) : val :=
  match i with
  | TRequest h b => enc_request h b
  | TEvent e => enc_event e
  | TOnRetry err d => VL [VN 2; enc_cret err; VZ d]
  end.

(* the OnRetry calls that are followed by a request: each of these waits was slept in full *)
Fixpoint timed_waits (tr : list titem) : list val :=
  match tr with
  | [] => []
  | i :: r =>
      match i, r with
      | TOnRetry _ _, TRequest _ _ :: _ => vbool true :: timed_waits r
      | _, _ => timed_waits r
      end
  end.

(* the report on the open body of a rejected response.  A rejection ends Connect (Connect.v: [ARejected] returns), so
   the only rejected response of a call is the one of its LAST request; client_connection.go:246-248 returns from the
   validator's error without touching res.Body (the deferred Close apart): no Read, and nothing to wait for *)
Definition is_trequest (i : titem) : bool := match i with TRequest _ _ => true | _ => false end.
Definition open_items (script : list val) (tr : list titem) : list val :=
  match length (filter is_trequest tr) with
  | O => []
  | S k =>
      let st := nth k script (VL []) in
      if N.eqb (as_n (nth_val 0 st)) 2 && negb (N.eqb (as_n (nth_val 3 st)) 0)
      then [VL [VN 3; VN 0; VN 0]] else []
  end.

Definition enc_out (script : list val) (tr : list titem) (r : option cret) : list val :=
  [VL (map enc_titem tr ++ open_items script tr); vopt enc_cret r; VL (timed_waits tr)].

(* the scripts of an input: the first call's, then one per further call *)
Definition dec_scripts (i : val) : list (list step) :=
  map dec_step (as_l (nth_val 1 i)) :: map (fun v => map dec_step (as_l v)) (as_l (nth_val 2 i)).
Definition raw_scripts (i : val) : list (list val) := as_l (nth_val 1 i) :: map as_l (as_l (nth_val 2 i)).

Definition run_connect (i : val) : val :=
  let cfg := dec_ccfg (nth_val 0 i) in
  match as_l i with
  | _ :: _ :: _ :: _ =>
      match combine (raw_scripts i) (connect_runs cfg (dec_scripts i)) with
      | (sc, (tr, r)) :: outs =>
          VL (enc_out sc tr r ++ [VL (map (fun o => VL (enc_out (fst o) (fst (snd o)) (snd (snd o)))) outs)])
      | [] => VL []
      end
  | _ => let '(tr, r) := connect_run cfg (map dec_step (as_l (nth_val 1 i))) in VL (enc_out (as_l (nth_val 1 i)) tr r)
  end.

(* ---- the oracles ------------------------------------------------------------------------------
   One walk over the script and the OBSERVED trace, written from the three property texts; the clauses
   are tagged with the property they belong to and each oracle enforces its own (and the shape of the
   trace).  It uses the specification [interp] on the scripted bodies, [spec_backoff], [grow_spec],
   [limit_refuses], [stream_error] - not the model of Connect. *)
Inductive tag := T10 | T11 | T12.
Definition tag_eqb (a b : tag) : bool :=
  match a, b with T10, T10 | T11, T11 | T12, T12 => true | _, _ => false end.

(* does GetBody fail at its (calls+1)-th call?  Some err: yes, with this error *)
Definition body_reset_error (k : body_kind) (calls : nat) : option cerr :=
  match k with
  | BBody GBNone => Some CNoGetBody
  | BBody (GBFails after e) => if (calls <? after)%nat then None else Some (CE (EReader e))
  | _ => None
  end.

Definition has_body (k : body_kind) : bool := match k with BBody _ => true | _ => false end.

(* skip [evs] at the head of [items]: Some rest if the items start with exactly these events *)
Fixpoint take_events (evs : list event) (items : list val) : option (list val) :=
  match evs with
  | [] => Some items
  | e :: evs' =>
      match items with
      | it :: items' => if val_eqb it (enc_event e) then take_events evs' items' else None
      | [] => None
      end
  end.

(* the base after the retry fields of a stream (the last valid one counts; 0 => InitialInterval) *)
Definition base_after_retries (b : backoff) (x : Z) (ys : list yield) : Z :=
  fold_left (fun x y => match y with
                        | YRetry ms => if 0 <? ms_to_ns (Z.of_N ms) then ms_to_ns (Z.of_N ms) else bo_initial b
                        | _ => x end) ys x.

(* will next() refuse?  Some true / Some false, None = depends on the wall clock *)
Definition refusal (b : backoff) (n : nat) (w : Z) : option bool :=
  if limit_refuses b n then Some true
  else if bo_max_elapsed b <=? 0 then Some false
  else if bo_max_elapsed b <? w then Some true
  else if w + 60000000000 <? bo_max_elapsed b then Some false   (* a run takes far less than a minute *)
  else None.

(* what must follow a retryable attempt end whose error is [err]: next() refuses -> Connect returns err;
   otherwise OnRetry(err, w) (when set) with w the current base (Jitter -1), then either the
   cancellation of the context is observed (patience) or the next attempt [k] follows *)
Definition after_attempt (mask : tag) (cfg : ccfg) (b : backoff) (items : list val) (result : val)
                         (lid : bytes) (x : Z) (n : nat) (err : cret)
                         (k : list val -> bytes -> Z -> nat -> bool) : bool :=
  let chk := fun (t : tag) (c : bool) => if tag_eqb t mask then c else true in
  let returns := fun (items' : list val) (r : cret) =>
    match items' with [] => val_eqb result (VL [enc_cret r]) | _ => false end in
  let granted := fun (_ : unit) =>
    (* the wait used: the one handed to OnRetry; without OnRetry it is only known when Jitter is -1 *)
    match (if cc_on_retry cfg then
             match items with
             | it :: items' =>
                 if (N.eqb (as_n (nth_val 0 it)) 2)
                 then if chk T11 (val_eqb (nth_val 1 it) (enc_cret err)) && chk T12 (wait_okb b x (as_z (nth_val 2 it)))
                      then Some (items', as_z (nth_val 2 it)) else None
                 else None
             | [] => None
             end
           else Some (items, x)) with
    | None => false
    | Some (items', w) =>
        if wait_cancelled cfg w then chk T11 (returns items' RCtx) && match items' with [] => true | _ => false end
        else k items' lid (grow_spec b x) (S n)
    end in
  match refusal b n x with
  | Some true => chk T11 (returns items err) && chk T12 (returns items err) && match items with [] => true | _ => false end
  | Some false => granted tt
  | None => (returns items err) || granted tt
  end.

(* the report ( n3 reads stuck ) on an open rejected body, if one is next: was Connect stuck on it, and the other items *)
Definition open_report (items : list val) : bool * list val :=
  match items with
  | it :: rest => if N.eqb (as_n (nth_val 0 it)) 3 then (as_bool (nth_val 2 it), rest) else (false, items)
  | [] => (false, [])
  end.

Fixpoint walk (mask : tag) (cfg : ccfg) (b : backoff) (steps : list step) (items : list val) (result : val)
              (j : nat) (lid : bytes) (x : Z) (n : nat) {struct steps} : bool :=
  let chk := fun (t : tag) (c : bool) => if tag_eqb t mask then c else true in
  let ends_with := fun (items' : list val) (r : cret) =>
    match items' with [] => chk T11 (val_eqb result (VL [enc_cret r])) | _ => false end in
  (* resetRequest on a retry: a body that cannot be re-obtained ends Connect before any request *)
  match (if (0 <? j)%nat then body_reset_error (cc_body cfg) (j - 1) else None) with
  | Some e =>
      match items with
      | [] => chk T10 (val_eqb result (VL [enc_cret (RConn RsReset e)]))
      | _ => false
      end
  | None =>
      match steps with
      | [] => match items with [] => val_eqb result (VL []) | _ => false end
      | st :: rest =>
          match items with
          | [] => false
          | it :: items1 =>
              (* C10: the header and the body of this request *)
              let want_hdr := if (0 <? j)%nat then header_of lid else cc_header cfg in
              let want_body := if has_body (cc_body cfg) then Some j else None in
              (N.eqb (as_n (nth_val 0 it)) 0) &&
              chk T10 (val_eqb it (enc_request want_hdr want_body)) &&
              match st_attempt st with
              | ACtxErr => ends_with items1 RCtx
              | ARejected e =>
                  (* C11: "returns at once without retrying when the response validator fails": the verdict is the
                     return value, no request follows, and when the rejected body is an open stream Connect did not
                     wait for it - how often that body was read is not the property's business *)
                  let '(stuck, items2) := open_report items1 in
                  chk T11 (negb stuck) && ends_with items2 (RConn RsValidate (CE (EReader e)))
              | ATransportErr e =>
                  after_attempt mask cfg b items1 result lid x n (RConn RsConnect (CE (EReader e)))
                    (fun items' lid' x' n' => walk mask cfg b rest items' result (S j) lid' x' n')
              | AStream body en =>
                  let ys := interp gosse_conn lid body en in
                  match take_events (events_of ys) items1 with
                  | None => false
                  | Some items2 =>
                      let lid' := id_after_attempt lid (st_attempt st) in
                      let err := stream_error body en in
                      if is_ctx err then ends_with items2 RCtx
                      else
                        after_attempt mask cfg b items2 result lid' (base_after_retries b (bo_initial b) ys) O
                          (RConn RsLost (CE err))
                          (fun items' lid'' x' n' => walk mask cfg b rest items' result (S j) lid'' x' n')
                  end
              end
          end
      end
  end.

(* the requests among the observed items of a call: one per attempt made *)
Definition count_requests (items : list val) : nat :=
  length (filter (fun it => N.eqb (as_n (nth_val 0 it)) 0) items).

(* One Connect call after the other on the same Connection (a single call: one script, one output).  Call number
   k+1 is judged by the same walk, started from what the property says the Connection carries over: the ID of the most
   recently dispatched event over ALL attempts made so far, and a request counter that goes on - so that the FIRST
   request of a later call is a reconnection like any other (header from that ID, body re-obtained through GetBody,
   ErrNoGetBody / GetBody's error instead of a consumed body).  The waits of a call start at InitialInterval with no
   retry counted: Connect makes its backoff controller anew. *)
Fixpoint walk_calls (mask : tag) (cfg : ccfg) (b : backoff) (scripts : list (list step)) (outs : list val)
                    (j : nat) (lid : bytes) : bool :=
  match scripts, outs with
  | sc :: scripts', o :: outs' =>
      let items := as_l (nth_val 0 o) in
      let k := count_requests items in
      walk mask cfg b sc items (nth_val 1 o) j lid (bo_initial b) O &&
      walk_calls mask cfg b scripts' outs' (j + k) (id_after lid (firstn k sc))
  | _, _ => true
  end.

(* the outputs of all calls: the first three elements of [o] are the first call's *)
Definition all_outs (o : val) : list val := o :: as_l (nth_val 3 o).

Definition holds_connect (mask : tag) (i o : val) : bool :=
  let cfg := dec_ccfg (nth_val 0 i) in
  let b := spec_backoff (cc_backoff cfg) in
  if cc_cancel_before cfg
  then (* C11: the context's error, and nothing is requested *)
       match as_l (nth_val 0 o) with [] => val_eqb (nth_val 1 o) (VL [enc_cret RCtx]) | _ => false end &&
       match as_l (nth_val 3 o) with [] => true | _ => false end
  else
  walk_calls mask cfg b (dec_scripts i) (all_outs o) O [].

Definition holds_connect_c10 := holds_connect T10.
Definition holds_connect_c11 (i o : val) : bool :=
  forallb (fun o' => negb (val_eqb (nth_val 1 o') (VL [enc_cret RNil]))) (all_outs o) && holds_connect T11 i o.
(* C12 also: the wait handed to OnRetry is the wait actually used - no request started earlier than that *)
Definition holds_connect_c12 (i o : val) : bool :=
  forallb (fun o' => forallb as_bool (as_l (nth_val 2 o'))) (all_outs o) && holds_connect T12 i o.
