(* The finite local view of one Publish call (its errs channel), same method as JoeLocal/JoeProj. *)
From GoSse Require Import Base JoeLts JoeLocal JoeProj.
Local Open Scope nat_scope.

Inductive pview := PVOther | PVGotMsg | PVPutOk | PVPutErr | PVErrsReady | PVPanicked.
Inductive ppcl := QP0 | QAtSel | QWait | QRet.
Record plocal := mkPL { q_view : pview; q_pc : ppcl; q_buf : bool; q_closed : bool }.

Inductive pk := PKNone | PKEnter | PKSend | PKClosed | PKRecv | PKPut (err : bool) | PKPutRes | PKErrsA | PKErrsB.

Definition q_panic (x : plocal) : plocal := mkPL PVPanicked (q_pc x) (q_buf x) (q_closed x).
Definition q_close (x : plocal) : option plocal :=
  if q_closed x then Some (q_panic x) else Some (mkPL PVOther (q_pc x) (q_buf x) true).

Definition plstep (k : pk) (x : plocal) : option plocal :=
  match k with
  | PKNone => Some x
  | PKEnter => match q_pc x with QP0 => Some (mkPL (q_view x) QAtSel (q_buf x) (q_closed x)) | _ => None end
  | PKSend => match q_pc x, q_view x with
              | QAtSel, PVOther => Some (mkPL PVGotMsg QWait (q_buf x) (q_closed x))
              | _, _ => None end
  | PKClosed => match q_pc x with QAtSel => Some (mkPL (q_view x) QRet (q_buf x) (q_closed x)) | _ => None end
  | PKRecv => match q_pc x with
              | QWait => if q_buf x then Some (mkPL (q_view x) QRet false (q_closed x))
                         else if q_closed x then Some (mkPL (q_view x) QRet false (q_closed x)) else None
              | _ => None end
  | PKPut err => match q_view x with
                 | PVGotMsg => Some (mkPL (if err then PVPutErr else PVPutOk) (q_pc x) (q_buf x) (q_closed x))
                 | _ => None end
  | PKPutRes => match q_view x with
                | PVPutOk => Some (mkPL PVErrsReady (q_pc x) (q_buf x) (q_closed x))
                | PVPutErr => if q_closed x then Some (q_panic x)
                              else if q_buf x then None
                              else Some (mkPL PVErrsReady (q_pc x) true (q_closed x))
                | _ => None end
  | PKErrsA => match q_view x with PVErrsReady => q_close x | _ => None end
  | PKErrsB => match q_view x with PVGotMsg => q_close x | _ => None end
  end.

Definition pview_eqb (a b : pview) : bool :=
  match a, b with
  | PVOther, PVOther | PVGotMsg, PVGotMsg | PVPutOk, PVPutOk | PVPutErr, PVPutErr
  | PVErrsReady, PVErrsReady | PVPanicked, PVPanicked => true
  | _, _ => false end.
Definition ppcl_eqb (a b : ppcl) : bool :=
  match a, b with QP0, QP0 | QAtSel, QAtSel | QWait, QWait | QRet, QRet => true | _, _ => false end.

Definition p_active (v : pview) : bool :=
  match v with PVGotMsg | PVPutOk | PVPutErr | PVErrsReady => true | _ => false end.

Definition okp (x : plocal) : bool :=
  let v := q_view x in let p := q_pc x in
  negb (pview_eqb v PVPanicked)
  && implb (p_active v) ((ppcl_eqb p QWait || ppcl_eqb p QRet) && negb (q_closed x)
                         && (negb (q_buf x) || pview_eqb v PVErrsReady))
  && implb (ppcl_eqb p QP0 || ppcl_eqb p QAtSel) (pview_eqb v PVOther && negb (q_closed x) && negb (q_buf x))
  && implb (ppcl_eqb p QWait) (p_active v || q_closed x)
  && implb (p_active v && negb (pview_eqb v PVErrsReady)) (ppcl_eqb p QWait)
  && implb (ppcl_eqb p QRet) (negb (q_buf x))
  && implb (q_buf x) (pview_eqb v PVErrsReady || q_closed x).

Definition all_pview := [PVOther; PVGotMsg; PVPutOk; PVPutErr; PVErrsReady; PVPanicked].
Definition all_ppcl := [QP0; QAtSel; QWait; QRet].
Definition all_plocal : list plocal :=
  flat_map (fun v => flat_map (fun p => flat_map (fun b => map (fun d => mkPL v p b d) all_bool) all_bool) all_ppcl) all_pview.
Definition all_pk := [PKNone; PKEnter; PKSend; PKClosed; PKRecv; PKPut true; PKPut false; PKPutRes; PKErrsA; PKErrsB].

Lemma all_plocal_complete x : In x all_plocal.
Proof.
  destruct x as [v p b d]. unfold all_plocal.
  apply in_flat_map; exists v; split; [destruct v; cbn; tauto|].
  apply in_flat_map; exists p; split; [destruct p; cbn; tauto|].
  apply in_flat_map; exists b; split; [destruct b; cbn; tauto|].
  apply in_map. destruct d; cbn; tauto.
Qed.
Lemma all_pk_complete k : In k all_pk.
Proof. destruct k; try match goal with b : bool |- _ => destruct b end; cbn; tauto. Qed.

Definition ppreserved_at (k : pk) (x : plocal) : bool :=
  implb (okp x) (match plstep k x with Some x' => okp x' | None => true end).

Lemma psweep : forallb (fun k => forallb (ppreserved_at k) all_plocal) all_pk = true.
Proof. vm_compute. reflexivity. Qed.

Lemma okp_preserved k x x' : okp x = true -> plstep k x = Some x' -> okp x' = true.
Proof.
  intros Hx Hs. pose proof psweep as H. rewrite forallb_forall in H.
  specialize (H k (all_pk_complete k)). rewrite forallb_forall in H.
  specialize (H x (all_plocal_complete x)). unfold ppreserved_at in H.
  rewrite Hx, Hs in H. exact H.
Qed.

(* ---- projection ------------------------------------------------------------ *)
Definition ppcl_of (p : pub_pc) : ppcl :=
  match p with P0 => QP0 | PAtSel => QAtSel | PWait => QWait | PRet _ => QRet end.

Definition pview_of (c : loop_pc) (p : nat) : pview :=
  match c with
  | GotMsg q => if Nat.eqb p q then PVGotMsg else PVOther
  | PutDone q v => if Nat.eqb p q then match v with VErr _ => PVPutErr | _ => PVPutOk end else PVOther
  | ErrsReady q => if Nat.eqb p q then PVErrsReady else PVOther
  | Panicked => PVPanicked
  | _ => PVOther
  end.

Definition ploc (s : state) (p : nat) : plocal :=
  mkPL (pview_of (pc s) p) (ppcl_of (p_pc (pub s p))) (some (p_ebuf (pub s p))) (p_eclosed (pub s p)).

Definition pkind (p : nat) (l : label) (s : state) : pk :=
  match l with
  | PubEnter q _ => if Nat.eqb p q then PKEnter else PKNone
  | PubSend q => if Nat.eqb p q then PKSend else PKNone
  | PubClosed q => if Nat.eqb p q then PKClosed else PKNone
  | PubRecv q => if Nat.eqb p q then PKRecv else PKNone
  | LPut q v => if Nat.eqb p q then PKPut (match v with VErr _ => true | _ => false end) else PKNone
  | LPutRes q => if Nat.eqb p q then PKPutRes else PKNone
  | LErrs q => if Nat.eqb p q then match pc s with ErrsReady _ => PKErrsA | _ => PKErrsB end else PKNone
  | _ => PKNone
  end.

Definition psubj (l : label) : option nat :=
  match l with LPutRes q | LErrs q => Some q | _ => None end.

Ltac pnorm E :=
  repeat (progress (rewrite ?upd_same, ?Nat.eqb_refl, ?(upd_other _ _ _ _ E), ?E;
           unfold q_close, q_panic; cbn; rw)).

Ltac pfin j i :=
  unfold pkind, ploc; cbn; rw;
  destruct (Nat.eqb j i) eqn:Eji;
  [apply Nat.eqb_eq in Eji; subst; pnorm (eq_refl 0); try reflexivity
  | try (rewrite Nat.eqb_refl in Eji; discriminate Eji); pnorm Eji; try reflexivity].

Ltac pdispatch :=
  match goal with
  | |- context [pkind ?j (PubEnter ?i _) _] => pfin j i
  | |- context [pkind ?j (PubSend ?i) _] => pfin j i
  | |- context [pkind ?j (PubClosed ?i) _] => pfin j i
  | |- context [pkind ?j (PubRecv ?i) _] => pfin j i
  | |- context [pkind ?j (LPut ?i _) _] => pfin j i
  | |- context [pkind ?j (LPutRes ?i) _] => pfin j i
  | |- context [pkind ?j (LErrs ?i) _] => pfin j i
  | |- _ => unfold pkind, ploc; cbn; rw; pnorm (eq_refl 0); try reflexivity
  end.

Lemma pproj p s l s' :
  step s l = Some s' -> (pc s' = Panicked -> psubj l = Some p) ->
  plstep (pkind p l s) (ploc s p) = Some (ploc s' p).
Proof.
  intros H Hp. apply step_live_of in H. destruct H as [Hnp H].
  destruct l; cbn [step_live] in H; cbv zeta in H;
    unfold send_done, close_done, recv1, panic in H; brk H; injection H as <-; eqs;
    try (specialize (Hp eq_refl); cbn in Hp; try discriminate Hp; injection Hp as <-).
  all: pdispatch.
  all: try (destruct (Nat.eqb p _); reflexivity).
  all: try (destruct v; reflexivity).
Qed.
