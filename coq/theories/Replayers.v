(* replay.go: ensureID, findIDInQueue, FiniteReplayer, ValidReplayer.
   Time is Z (nanoseconds relative to the harness's base instant); the clock is
   an argument of every operation (ValidReplayer.Now is injectable). *)
From GoSse Require Import Base Fields Queue.
From GoSse.Gen Require Import Params.
Local Open Scope nat_scope.

(* what a replayer stores: the message (its ID, an opaque payload token that
   identifies it, its topics) and, for ValidReplayer, the expiry instant *)
Record entry := mke { e_id : bytes; e_topics : list bytes; e_tok : N; e_exp : Z }.

Inductive put_err := ENoTopic | ENoID | EHasID.

Definition is_some {A} (o : option A) : bool := match o with Some _ => true | None => false end.

(* replay.go:219-229 *)
Definition topics_intersect (a b : list bytes) : bool :=
  existsb (fun at_ => existsb (fun bt => bytes_eqb at_ bt) b) a.

(* replay.go:231-250.  [cur = None]: manual IDs.  Returns the ID the stored
   message carries and the new counter.  The uint64 counter is modelled
   unbounded (2^64 puts are out of reach). *)
Definition ensure_id (m_id : field) (cur : option N) : put_err + (bytes * option N) :=
  match cur with
  | None => match m_id with
            | None => inl ENoID
            | Some id => inr (id, None)
            end
  | Some n => match m_id with
              | Some _ => inl EHasID
              | None => inr (format_uint n, Some (n + 1)%N)
              end
  end.

(* replay.go:355-372: scan each(head) for the first entry whose ID equals the
   presented one (EventID comparison: both the value and the set flag), then
   step to the next index, wrap, and report -1 if that is the write index *)
Fixpoint scan_id (q : queue entry) (id : field) (idxs : list nat) : option (option nat) :=
  match idxs with
  | [] => Some None
  | j :: rest =>
      match slot q j with
      | None => None (* nil message *)
      | Some m =>
          if match id with Some v => bytes_eqb (e_id m) v | None => false end then
            let i := S j in
            let i := if i =? qlen q then 0 else i in
            if i =? tail q then Some None else Some (Some i)
          else scan_id q id rest
      end
  end.

(* replay.go:326-374 (after the two fixes).  [None] = -1; the outer option is
   the panic channel (nil message at head). *)
Definition find_id (q : queue entry) (id : field) (auto : bool) : option (option nat) :=
  if count q =? 0 then Some None
  else if auto then
    match parse_issued (value id) with
    | None => Some None
    | Some n =>
        match slot q (head q) with
        | None => None (* nil pointer dereference *)
        | Some h =>
            let first := match parse_uint (e_id h) with Some f => f | None => 0%N end in
            if (first <=? n)%N then
              let delta := (n - first)%N in
              if (N.of_nat (count q - 1) <=? delta)%N then Some None
              else
                let i := N.to_nat delta + head q + 1 in
                Some (Some (if qlen q <=? i then i - qlen q else i))
            else
              (* pos = -1: i = head *)
              let i := head q in
              Some (Some (if qlen q <=? i then i - qlen q else i))
        end
    end
  else scan_id q id (each_idx q (head q)).

(* the writer: every Send/Flush call consumes one verdict of the script
   ([0] or an exhausted script = success, [n>0] = error number n) *)
Inductive wcall := CSend (tok : N) (id : bytes) | CFlush.

Definition next_verdict (script : list N) : N * list N :=
  match script with [] => (0%N, []) | v :: r => (v, r) end.

(* the body of Replay after the start index is known (replay.go:64-77, 202-215):
   [keep] is the per-entry filter *)
Fixpoint replay_from (q : queue entry) (keep : entry -> bool) (idxs : list nat) (script : list N)
  : option (list wcall * N) :=
  match idxs with
  | [] => let '(v, _) := next_verdict script in Some ([CFlush], v)
  | j :: rest =>
      match slot q j with
      | None => None
      | Some m =>
          if keep m then
            let '(v, script') := next_verdict script in
            if (v =? 0)%N then
              match replay_from q keep rest script' with
              | Some (calls, r) => Some (CSend (e_tok m) (e_id m) :: calls, r)
              | None => None
              end
            else Some ([CSend (e_tok m) (e_id m)], v)
          else replay_from q keep rest script
      end
  end.

(* ---- FiniteReplayer ------------------------------------------------------ *)
Record fstate := mkf { f_q : queue entry; f_cur : option N }.

(* NewFiniteReplayer(count, autoIDs) *)
Definition fr_new (n : nat) (auto : bool) : option fstate :=
  if n <? finite_min_count then None
  else Some (mkf (mkq (repeat None n) 0 0 0) (if auto then Some 0%N else None)).

Inductive put_res := PutOk (id : bytes) | PutErr (e : put_err).

(* FiniteReplayer.Put, replay.go:42-55 *)
Definition fr_put (s : fstate) (m_id : field) (tok : N) (topics : list bytes) : option (fstate * put_res) :=
  match topics with
  | [] => Some (s, PutErr ENoTopic)
  | _ =>
      match ensure_id m_id (f_cur s) with
      | inl e => Some (s, PutErr e)
      | inr (id, cur') =>
          match enqueue (f_q s) (mke id topics tok 0%Z) with
          | Some q' => Some (mkf q' cur', PutOk id)
          | None => None
          end
      end
  end.

(* FiniteReplayer.Replay, replay.go:58-78 *)
Definition fr_replay (s : fstate) (last_id : field) (topics : list bytes) (script : list N)
  : option (list wcall * N) :=
  match find_id (f_q s) last_id (is_some (f_cur s)) with
  | None => None
  | Some None => Some ([], 0%N)
  | Some (Some i) =>
      replay_from (f_q s) (fun m => topics_intersect topics (e_topics m)) (each_idx (f_q s) i) script
  end.

(* ---- ValidReplayer ------------------------------------------------------- *)
Record vstate := mkv { v_q : queue entry; v_cur : option N; v_lastgc : option Z; v_gci : Z; v_ttl : Z }.

(* NewValidReplayer(ttl, autoIDs); GCInterval may then be assigned by the user *)
Definition vr_new (ttl : Z) (auto : bool) (gci : option Z) : option vstate :=
  if (ttl <=? 0)%Z then None
  else Some (mkv (mkq [] 0 0 0) (if auto then Some 0%N else None) None
                 (match gci with Some g => g | None => ttl / 4 end)%Z ttl).

(* doGC, replay.go:174-191: the loop runs at most [count] times *)
Fixpoint gc_loop (fuel : nat) (q : queue entry) (now : Z) : option (queue entry) :=
  match fuel with
  | O => Some q
  | S f =>
      if count q =? 0 then Some q
      else match slot q (head q) with
           | None => None
           | Some e =>
               if (now <? e_exp e)%Z then Some q
               else match dequeue q with
                    | Some q' => gc_loop f q' now
                    | None => None
                    end
           end
  end.

Definition do_gc (q : queue entry) (now : Z) : option (queue entry) :=
  match gc_loop (count q) q now with
  | None => None
  | Some q1 =>
      if count q1 <=? qlen q1 / valid_shrink_threshold_div then
        resize q1 (Nat.max (qlen q1 / valid_shrink_div) valid_min_cap_gc)
      else Some q1
  end.

Definition should_gc (s : vstate) (lastgc now : Z) : bool :=
  (0 <? v_gci s)%Z && (v_gci s <=? now - lastgc)%Z.

(* ValidReplayer.Put, replay.go:132-163 *)
Definition vr_put (s : vstate) (now : Z) (m_id : field) (tok : N) (topics : list bytes)
  : option (vstate * put_res) :=
  match topics with
  | [] => Some (s, PutErr ENoTopic)
  | _ =>
      let lastgc := match v_lastgc s with Some l => l | None => now end in
      match (if should_gc s lastgc now
             then match do_gc (v_q s) now with Some q => Some (q, now) | None => None end
             else Some (v_q s, lastgc)) with
      | None => None
      | Some (q1, lastgc1) =>
          let s1 := mkv q1 (v_cur s) (Some lastgc1) (v_gci s) (v_ttl s) in
          match ensure_id m_id (v_cur s) with
          | inl e => Some (s1, PutErr e)
          | inr (id, cur') =>
              match (if count q1 =? qlen q1
                     then resize q1 (Nat.max (qlen q1 * valid_grow_factor) valid_min_cap_put)
                     else Some q1) with
              | None => None
              | Some q2 =>
                  match enqueue q2 (mke id topics tok (now + v_ttl s)) with
                  | Some q3 => Some (mkv q3 cur' (Some lastgc1) (v_gci s) (v_ttl s), PutOk id)
                  | None => None
                  end
              end
          end
      end
  end.

(* ValidReplayer.GC, replay.go:170-172 *)
Definition vr_gc (s : vstate) (now : Z) : option vstate :=
  match do_gc (v_q s) now with
  | Some q => Some (mkv q (v_cur s) (v_lastgc s) (v_gci s) (v_ttl s))
  | None => None
  end.

(* ValidReplayer.Replay, replay.go:194-216 *)
Definition vr_replay (s : vstate) (now : Z) (last_id : field) (topics : list bytes) (script : list N)
  : option (list wcall * N) :=
  match find_id (v_q s) last_id (is_some (v_cur s)) with
  | None => None
  | Some None => Some ([], 0%N)
  | Some (Some i) =>
      replay_from (v_q s) (fun m => (now <? e_exp m)%Z && topics_intersect topics (e_topics m))
                  (each_idx (v_q s) i) script
  end.

(* ---- histories ----------------------------------------------------------- *)
Inductive fop :=
| FPut (m_id : field) (tok : N) (topics : list bytes)
| FReplay (last_id : field) (topics : list bytes) (script : list N).
Inductive rout := OPut (r : put_res) | OReplay (r : list wcall * N) | OGC.

Definition fr_step (s : fstate) (op : fop) : option (fstate * rout) :=
  match op with
  | FPut m_id tok topics =>
      match fr_put s m_id tok topics with Some (s', r) => Some (s', OPut r) | None => None end
  | FReplay id topics script =>
      match fr_replay s id topics script with Some r => Some (s, OReplay r) | None => None end
  end.

(* outputs and states after every operation; [false] = the code panicked *)
Fixpoint fr_trace (s : fstate) (ops : list fop) : list (rout * fstate) * bool :=
  match ops with
  | [] => ([], true)
  | op :: rest =>
      match fr_step s op with
      | None => ([], false)
      | Some (s', o) => let '(tr, ok) := fr_trace s' rest in ((o, s') :: tr, ok)
      end
  end.

Inductive vop :=
| VPut (now : Z) (m_id : field) (tok : N) (topics : list bytes)
| VReplay (now : Z) (last_id : field) (topics : list bytes) (script : list N)
| VGC (now : Z)
(* the user assigns the exported field GCInterval of a replayer in use; [now] is the instant of the
   assignment (no code of the library runs; the next Put's shouldGC reads the new value) *)
| VSetGCI (now : Z) (g : Z).

Definition vop_now (op : vop) : Z :=
  match op with VPut n _ _ _ => n | VReplay n _ _ _ => n | VGC n => n | VSetGCI n _ => n end.

Definition vr_step (s : vstate) (op : vop) : option (vstate * rout) :=
  match op with
  | VPut now m_id tok topics =>
      match vr_put s now m_id tok topics with Some (s', r) => Some (s', OPut r) | None => None end
  | VReplay now id topics script =>
      match vr_replay s now id topics script with Some r => Some (s, OReplay r) | None => None end
  | VGC now => match vr_gc s now with Some s' => Some (s', OGC) | None => None end
  | VSetGCI _ g => Some (mkv (v_q s) (v_cur s) (v_lastgc s) g (v_ttl s), OGC)   (* [OGC]: an operation without a result *)
  end.

Fixpoint vr_trace (s : vstate) (ops : list vop) : list (rout * vstate) * bool :=
  match ops with
  | [] => ([], true)
  | op :: rest =>
      match vr_step s op with
      | None => ([], false)
      | Some (s', o) => let '(tr, ok) := vr_trace s' rest in ((o, s') :: tr, ok)
      end
  end.
