(* internal/parser/parser.go:50-137  Parser: New (with the closure around splitFunc that
   notices blank lines skipped before the first chunk), Next, Err, Buffer.  Definitions only. *)
From GoSse Require Import Base Lines FieldParser Whatwg Split Scanner.
Local Open Scope nat_scope.

(* state of the closure given to sc.Split: the [first] flag and the field parser it reaches into *)
Definition split_state := (bool * fp)%type.

(* parser.go:122-134 *)
Definition parser_split : split_fn split_state :=
  fun st data at_eof =>
    let '(first, f) := st in
    match split_func data at_eof with
    | SplitTok advance token =>
        if first && (0 <? advance) then
          ((false, if negb (length token =? advance) then fp_set_remove_bom f false else f), (advance, Some token))
        else (st, (advance, Some token))
    | SplitMore => (st, (0, None))
    | SplitOutOfFuel => (st, (S (length data), None))   (* makes the scanner report it: ErrAdvanceTooFar outcome *)
    end.

Record parser := mkp {
  p_sc : scanner;
  p_rd : reader;
  p_fp : fp;
  p_first : bool;
  p_sc_nil : bool          (* r.inputScanner == nil *)
}.

(* parser.go:116-137 New *)
Definition parser_new (r : reader) : parser :=
  mkp sc_new r (fp_set_remove_bom (fp_new []) true) true false.

(* parser.go:104-106 Buffer *)
Definition parser_buffer (p : parser) (cap_buf : N) (max : Z) : parser :=
  mkp (sc_buffer (p_sc p) cap_buf max) (p_rd p) (p_fp p) (p_first p) (p_sc_nil p).

Inductive next_out := NextField (f : pfield) | NextFalse | NextPanic | NextOutOfFuel.

(* parser.go:58-85 Next.  Every iteration of the loop consumes a token, and every token but an
   empty one at the very end of the input advances the scanner by at least a byte. *)
Fixpoint parser_next_fuel (fuel : nat) (p : parser) : next_out * parser :=
  match fuel with
  | O => (NextOutOfFuel, p)
  | S fuel' =>
      match fp_next (p_fp p) with
      | (Some fld, f') => (NextField fld, mkp (p_sc p) (p_rd p) f' (p_first p) (p_sc_nil p))
      | (None, f') =>
          let '(out, (first', f''), sc', rd') := scan parser_split (p_first p, f') (p_sc p) (p_rd p) in
          match out with
          | ScanTrue =>
              (* 71-75 *)
              let f3 := if fp_started f'' then fp_set_remove_bom f'' false else f'' in
              (* 82: Reset(Text()) *)
              let f4 := fp_reset f3 (match sc_token sc' with Some t => t | None => [] end) in
              parser_next_fuel fuel' (mkp sc' rd' f4 first' (p_sc_nil p))
          | ScanFalse =>
              (* 64-67: signal EOF, which bufio.Scanner suppresses *)
              (NextFalse, mkp sc' rd' f'' first' (match sc_error sc' with None => true | Some _ => p_sc_nil p end))
          | ScanPanic => (NextPanic, mkp sc' rd' f'' first' (p_sc_nil p))
          | ScanOutOfFuel => (NextOutOfFuel, mkp sc' rd' f'' first' (p_sc_nil p))
          end
      end
  end.

Definition parser_fuel (p : parser) : nat :=
  S (S (S (length (sc_data (p_sc p)) + rd_rest (p_rd p)))).

Definition parser_next (p : parser) : next_out * parser := parser_next_fuel (parser_fuel p) p.

(* parser.go:89-102 Err: nil is None, io.EOF is [EEOF] *)
Definition parser_err (p : parser) : option serr :=
  match (if p_sc_nil p then None else sc_error (p_sc p)) with
  | Some e => Some e
  | None =>
      if fp_err (p_fp p) then Some EUnexpectedEOF
      else if p_sc_nil p then Some EEOF
      else sc_error (p_sc p)
  end.
