(* Segmentation independence at the level of the split function.
   A *tokenisation* of a byte string cuts it, front to back, into tokens separated by CR/LF bytes,
   where every token but possibly the last ends with a blank line.  Every way of consulting
   splitFunc on prefixes of the not yet consumed input (which prefix it sees is what the read
   segmentation and the buffer management decide) is a tokenisation ([split_path_toks]), and for
   every tokenisation the WHATWG interpretation of the string is the interpretation of the tokens'
   lines, one token after the other ([spec_toks]).  Together with read_loop_spec this gives
   C01 for the scanner-free composition, for all prefix choices ([tokens_interp]). *)
From GoSse Require Import Base Lines FieldParser Whatwg WhatwgLines Split Scanner Reader ReadLoop Yields
     LineStepProofs ReadLoopProofs SplitProofs.
Local Open Scope nat_scope.

Definition headok (t : bytes) : Prop := t = [] \/ exists b t', t = b :: t' /\ is_nl b = false.

(* [toks R LS tl]: R is tokenised; LS are the lines of all tokens in order, tl the unterminated rest of the last *)
Inductive toks : bytes -> list bytes -> bytes -> Prop :=
| toks_end : toks [] [] []
| toks_last nls tok ls tl :
    all_nl nls -> headok tok -> wlines tok = (ls, tl) -> toks (nls ++ tok) ls tl
| toks_mid nls tok ls R' LS tl :
    all_nl nls -> headok tok -> wlines tok = (ls ++ [[]], []) -> toks R' LS tl ->
    toks (nls ++ tok ++ R') ((ls ++ [[]]) ++ LS) tl.

(* the interpretation of the rest of a stream from an interpreter state *)
Definition cont (m : mode) (st : wst) (R : bytes) (e : ending) : list yield :=
  let '(st', ys) := feed_all m st R in ys ++ finish m st' e.

Lemma feed_all_app m a : forall b st,
  feed_all m st (a ++ b) = let '(st1, ys1) := feed_all m st a in
                           let '(st2, ys2) := feed_all m st1 b in (st2, ys1 ++ ys2).
Proof.
  induction a as [|x a IH]; intros b st; cbn [app feed_all].
  - destruct (feed_all m st b). reflexivity.
  - destruct (feed m st x) as [st1 ys1]. rewrite IH.
    destruct (feed_all m st1 a) as [st2 ys2]. destruct (feed_all m st2 b) as [st3 ys3].
    now rewrite app_assoc.
Qed.

Lemma cont_app m st a b e :
  cont m st (a ++ b) e = let '(st1, ys1) := feed_all m st a in ys1 ++ cont m st1 b e.
Proof.
  unfold cont. rewrite feed_all_app. destruct (feed_all m st a) as [st1 ys1].
  destruct (feed_all m st1 b) as [st2 ys2]. now rewrite app_assoc.
Qed.

(* in a clean state (no pending line, nothing to dispatch) CR/LF bytes do nothing *)
Lemma feed_all_nls m nls : forall st a,
  md_dispatch_dirty m = true -> all_nl nls -> w_dirty st = false ->
  exists a', feed_all m (set_line st [] a) nls = (set_line st [] a', []).
Proof.
  induction nls as [|b nls IH]; intros st a Hm Hall Hd.
  - exists a. reflexivity.
  - inversion Hall as [|? ? Hb Hall']; subst. cbn [feed_all]. unfold feed.
    cbn [set_line w_after_cr w_line w_data w_type w_last_id w_dirty].
    destruct (a && (b =? LF)%N).
    + destruct (IH st false Hm Hall' Hd) as [a' E].
      change (mkw [] false (w_data st) (w_type st) (w_last_id st) (w_dirty st)) with (set_line st [] false).
      rewrite E. exists a'. reflexivity.
    + assert (Hnl : ((b =? LF)%N || (b =? CR)%N) = true) by exact Hb. rewrite Hnl.
      cbn [process_line]. unfold dispatch. rewrite Hm. cbn [w_dirty]. rewrite Hd.
      replace (mkw [] (b =? CR)%N (w_data st) (w_type st) (w_last_id st) false) with (set_line st [] (b =? CR)%N)
        by (unfold set_line; rewrite Hd; reflexivity).
      destruct (IH st (b =? CR)%N Hm Hall' Hd) as [a' E]. rewrite E. exists a'. reflexivity.
Qed.

(* the CR flag does not matter in front of anything but a newline byte *)
Lemma cont_cr_irrelevant m st a y e : headok y ->
  cont m (set_line st [] a) y e = cont m (set_line st [] false) y e.
Proof.
  intros [->|(b & y' & -> & Hb)]; unfold cont.
  - cbn [feed_all app].
    rewrite <- (finish_norm m (set_line st [] a) e). reflexivity.
  - cbn [feed_all]. unfold feed. cbn [set_line w_after_cr w_line w_data w_type w_last_id w_dirty].
    assert (Hlf : (b =? LF)%N = false).
    { unfold is_nl in Hb. apply orb_false_iff in Hb. tauto. }
    rewrite Hlf, Bool.andb_false_r. reflexivity.
Qed.

(* a token from a state without pending line: its lines are processed, its rest stays in the line buffer *)
Lemma feed_all_token m st tok :
  exists a, feed_all m (set_line st [] false) tok
            = (set_line (fst (run_lines m (set_line st [] false) (fst (wlines tok)))) (snd (wlines tok)) a,
               snd (run_lines m (set_line st [] false) (fst (wlines tok)))).
Proof.
  pose proof (feed_all_lines m tok (set_line st [] false)) as H.
  cbn [set_line w_after_cr] in H. rewrite wlines'_false in H.
  destruct (feed_all m (set_line st [] false) tok) as [s1 y1]. unfold norm_cr in H. cbn [fst snd] in H.
  exists (w_after_cr s1).
  destruct (wlines tok) as [[|l ls] tl]; unfold lines_result in H; cbn [fst snd].
  - cbn [run_lines fst snd set_line w_line app] in *.
    pose proof (f_equal fst H) as H1. pose proof (f_equal snd H) as H2. cbn [fst snd] in H1, H2. subst y1.
    f_equal. destruct s1; cbn in *. injection H1 as -> -> -> -> ->. reflexivity.
  - change (w_line (set_line st [] false)) with (@nil N) in H. cbn [app] in H. rewrite set_line_set_line in H.
    revert H. unfold bytes, byte in *.
    destruct (run_lines m (set_line st [] false) (l :: ls)) as [st2 ys]. intros H.
    pose proof (f_equal fst H) as H1. pose proof (f_equal snd H) as H2. cbn [fst snd] in H1, H2. subst y1.
    f_equal. destruct s1, st2; cbn in *. injection H1 as -> -> -> -> ->. reflexivity.
Qed.

Lemma dispatch_not_dirty m st : md_dispatch_dirty m = true -> w_dirty (fst (dispatch m st)) = false.
Proof. intros Hm. unfold dispatch. rewrite Hm. destruct (w_dirty st) eqn:E; cbn; auto. Qed.

Lemma run_lines_blank_last m ls st :
  md_dispatch_dirty m = true -> w_dirty (fst (run_lines m st (ls ++ [[]]))) = false.
Proof.
  intros Hm. rewrite run_lines_app. destruct (run_lines m st ls) as [st1 ys1].
  cbn [run_lines process_line]. pose proof (dispatch_not_dirty m st1 Hm) as H.
  destruct (dispatch m st1) as [st2 ys2]. exact H.
Qed.

Lemma run_lines_line_empty m ls st :
  fst (run_lines m (set_line st [] false) ls) = set_line (fst (run_lines m (set_line st [] false) ls)) [] false.
Proof. rewrite run_lines_set_line. reflexivity. Qed.

(* ---- the specification along a tokenisation ------------------------------------------------------------- *)
Theorem spec_toks m R LS tl e : md_dispatch_dirty m = true -> toks R LS tl ->
  forall st a, w_dirty st = false ->
  cont m (set_line st [] a) R e
  = let '(st', ys) := run_lines m (set_line st [] false) LS in ys ++ finish m (set_line st' tl false) e.
Proof.
  intros Hm Ht. induction Ht as [|nls tok ls tl Hnl Hh Hw|nls tok ls R' LS tl Hnl Hh Hw Ht IH]; intros st a Hd.
  - unfold cont. cbn [feed_all run_lines app].
    rewrite <- (finish_norm m (set_line st [] a) e). reflexivity.
  - rewrite cont_app. destruct (feed_all_nls m nls st a Hm Hnl Hd) as [a' ->]. cbn [app].
    rewrite (cont_cr_irrelevant m st a' tok e Hh).
    unfold cont. destruct (feed_all_token m st tok) as [a2 ->]. rewrite Hw. cbn [fst snd].
    destruct (run_lines m (set_line st [] false) ls) as [st2 ys]. cbn [fst snd].
    f_equal. rewrite <- (finish_norm m (set_line st2 tl a2) e). reflexivity.
  - rewrite cont_app. destruct (feed_all_nls m nls st a Hm Hnl Hd) as [a' ->]. cbn [app].
    assert (Hh' : headok (tok ++ R')).
    { destruct Hh as [->|(b & t' & -> & Hb)].
      - cbn in Hw. destruct ls; discriminate.
      - right. exists b, (t' ++ R'). split; [reflexivity|exact Hb]. }
    rewrite (cont_cr_irrelevant m st a' (tok ++ R') e Hh').
    rewrite cont_app. destruct (feed_all_token m st tok) as [a2 ->]. rewrite Hw. cbn [fst snd].
    rewrite (run_lines_app m (ls ++ [[]]) LS).
    pose proof (run_lines_blank_last m ls (set_line st [] false) Hm) as Hclean.
    pose proof (run_lines_line_empty m (ls ++ [[]]) st) as Hline.
    destruct (run_lines m (set_line st [] false) (ls ++ [[]])) as [st2 ys2]. cbn [fst snd] in *.
    rewrite (IH st2 a2 Hclean). rewrite <- Hline.
    destruct (run_lines m st2 LS) as [st3 ys3]. now rewrite app_assoc.
Qed.

(* ---- consulting splitFunc on prefixes gives a tokenisation --------------------------------------------------- *)
(* [split_path R ts]: tokens [ts] are cut from R by calling split_func on a prefix of the rest
   (on all of it when at_eof is set), advancing, and so on until nothing is left *)
Inductive split_path : bytes -> list bytes -> Prop :=
| sp_done : split_path [] []
| sp_tok R n eof adv tok ts :
    n <= length R -> (eof = true -> n = length R) ->
    split_func (firstn n R) eof = SplitTok adv tok ->
    split_path (skipn adv R) ts -> split_path R (tok :: ts).

Lemma firstn_firstn_le {A} (l : list A) a n : a <= n -> firstn a (firstn n l) = firstn a l.
Proof. intros H. rewrite firstn_firstn. f_equal. lia. Qed.

Theorem split_path_toks R ts : split_path R ts -> exists LS tl, toks R LS tl.
Proof.
  induction 1 as [|R n eof adv tok ts Hn Heof Hsf Hp (LS & tl & IH)].
  - exists [], []. constructor.
  - destruct (split_func_tok _ _ _ _ Hsf) as (nls & Hfn & Hnl & Hadv & Hh & _).
    rewrite firstn_length in Hadv.
    rewrite firstn_firstn_le in Hfn by lia.
    assert (HR : R = nls ++ tok ++ skipn adv R).
    { rewrite app_assoc, <- Hfn. symmetry. apply firstn_skipn. }
    destruct (Nat.ltb_spec adv (length R)) as [Hlt|Hge].
    + (* a token in the middle: it ends with a blank line *)
      assert (Hshape : exists ls, wlines tok = (ls ++ [[]], [])).
      { apply (split_func_shape _ _ _ _ Hsf). rewrite firstn_length.
        destruct eof; [left; rewrite (Heof eq_refl); lia|right; reflexivity]. }
      destruct Hshape as [ls Hw].
      exists ((ls ++ [[]]) ++ LS), tl. rewrite HR. now apply toks_mid.
    + assert (Hs : skipn adv R = []) by (apply skipn_all2; lia).
      rewrite Hs, app_nil_r in HR. rewrite HR.
      exists (fst (wlines tok)), (snd (wlines tok)). apply toks_last; try assumption.
      now destruct (wlines tok).
Qed.

(* ---- C01 for the scanner-free composition ------------------------------------------------------------------- *)
(* For a stream without a leading BOM: however it is tokenised, the read loop fed with the fields of the
   tokens' lines, and ending the way Parser.Err() ends, yields the WHATWG interpretation. *)
Theorem tokens_interp on_retry stop last_id stream e LS tl :
  ending_ok e -> strip_bom stream = stream -> toks stream LS tl ->
  fold_fields on_retry (negb on_retry) stop (fields_of LS) (end_err tl e) (mkrl last_id [] [] false) 0
  = firstn' stop (vis on_retry (interp (mode_for on_retry) last_id stream e)).
Proof.
  intros He Hbom Ht.
  rewrite (fold_lines on_retry stop LS (mkrl last_id [] [] false) 0 tl e); [|left; reflexivity|exact He|intros; lia].
  change (st_of (mkrl last_id [] [] false)) with (w_init last_id).
  assert (Hm : md_dispatch_dirty (mode_for on_retry) = true) by (destruct on_retry; reflexivity).
  pose proof (spec_toks (mode_for on_retry) stream LS tl e Hm Ht (w_init last_id) false eq_refl) as Hs.
  change (set_line (w_init last_id) [] false) with (w_init last_id) in Hs.
  rewrite <- Hs. unfold cont, interp. rewrite Hbom.
  destruct stop as [k|]; cbn [cutd firstn']; [now rewrite Nat.sub_0_r|reflexivity].
Qed.
