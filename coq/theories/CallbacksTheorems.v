(* The property-level statements about the callback registry (C13). *)
From Coq Require Import Permutation Sorted.
From GoSse Require Import Base Callbacks CallbacksProofs.
Local Open Scope nat_scope.

Lemma run_inv ops : forall r s, inv r s -> inv (run_ops r ops) (spec_run s ops).
Proof.
  induction ops as [|o ops IH]; intros r s H; [exact H|].
  cbn [run_ops spec_run fold_left]. apply IH. now apply step_inv.
Qed.

Lemma reach_inv ops : inv (run_ops reg_empty ops) (spec_run spec_empty ops).
Proof. apply run_inv, inv_empty. Qed.

Lemma trace_nth ops : forall r i o, nth_error ops i = Some o ->
  nth_error (trace r ops) i = Some (snd (step (run_ops r (firstn i ops)) o)).
Proof.
  induction ops as [|o' ops IH]; intros r i o H; [destruct i; discriminate|].
  cbn [trace]. destruct (step r o') as [r' x] eqn:Es. destruct i as [|i].
  - cbn in H. injection H as ->. cbn [firstn run_ops nth_error]. now rewrite Es.
  - cbn [nth_error firstn run_ops]. rewrite Es. cbn [fst]. now apply IH.
Qed.

Lemma trace_length ops : forall r, length (trace r ops) = length ops.
Proof.
  induction ops as [|o ops IH]; intros r; [reflexivity|].
  cbn [trace]. destruct (step r o) as [r' x]. cbn [length]. now rewrite IH.
Qed.

Lemma run_ops_app a : forall r b, run_ops r (a ++ b) = run_ops (run_ops r a) b.
Proof. induction a as [|o a IH]; intros r b; [reflexivity|]. cbn [app run_ops]. apply IH. Qed.

Lemma spec_run_app s a b : spec_run s (a ++ b) = spec_run (spec_run s a) b.
Proof. apply fold_left_app. Qed.

(* ---- dispatch against the specification ------------------------------------ *)
Definition as_typed (t : bytes) (p : nat * label) : sub := (HEvent t (fst p), snd p).
Definition as_all (p : nat * label) : sub := (HAll (fst p), snd p).

Lemma dispatch_abs t r s : inv r s ->
  dispatch t r = map (as_typed t) (typed_of t (sl s)) ++ map as_all (all_of (sl s)).
Proof.
  intros H. unfold dispatch. rewrite (inv_all _ _ H). f_equal.
  pose proof (inv_typed _ _ H t) as Ht. destruct (tmap_get t (cbs r)) as [m|].
  - now destruct Ht as [-> _].
  - now rewrite Ht.
Qed.

Lemma abs_perm t L :
  Permutation (map (as_typed t) (typed_of t L) ++ map as_all (all_of L)) (filter (receives t) L).
Proof.
  induction L as [|[h l] L IH]; [constructor|].
  rewrite typed_of_cons, all_of_cons, !map_app. cbn [filter]. unfold receives at 1, typed_entry, all_entry.
  cbn [fst snd]. destruct h as [t' id|id].
  - destruct (bytes_eqb t' t) eqn:E.
    + apply bytes_eqb_eq in E. subst t'. cbn [map app]. unfold as_typed at 1. cbn [fst snd].
      now apply perm_skip.
    + cbn [map app]. exact IH.
  - cbn [map app]. unfold as_all at 2. cbn [fst snd]. apply Permutation_sym.
    apply Permutation_cons_app. now apply Permutation_sym.
Qed.

Lemma dispatch_perm t r s : inv r s -> Permutation (dispatch t r) (filter (receives t) (sl s)).
Proof. intros H. rewrite (dispatch_abs t r s H). apply abs_perm. Qed.

Lemma dispatch_nodup_ids t r s : inv r s -> NoDup (map sub_id (dispatch t r)).
Proof.
  intros H. eapply Permutation_NoDup.
  - apply Permutation_map. apply Permutation_sym. exact (dispatch_perm t r s H).
  - apply nodup_map_filter. exact (inv_nodup _ _ H).
Qed.

Lemma nodup_ids_handles (c : list sub) : NoDup (map sub_id c) -> NoDup (map fst c).
Proof.
  intros H. apply (NoDup_map_inv handle_id). rewrite map_map. exact H.
Qed.

(* ---- C13_routing ----------------------------------------------------------- *)
Theorem routing ops i t :
  nth_error ops i = Some (Dispatch t) ->
  exists c, nth_error (trace reg_empty ops) i = Some (OInvoked c)
            /\ Permutation c (expected (firstn i ops) t)
            /\ Permutation (map snd c) (map snd (expected (firstn i ops) t))
            /\ NoDup (map fst c).
Proof.
  intros H. exists (dispatch t (run_ops reg_empty (firstn i ops))).
  pose proof (reach_inv (firstn i ops)) as Hinv.
  split; [|split; [|split]].
  - now rewrite (trace_nth ops reg_empty i _ H).
  - now apply dispatch_perm.
  - apply Permutation_map. now apply dispatch_perm.
  - apply nodup_ids_handles. eapply dispatch_nodup_ids; eassumption.
Qed.

(* every output of a Dispatch is described by [routing] *)
Lemma trace_invoked ops i c :
  nth_error (trace reg_empty ops) i = Some (OInvoked c) ->
  exists t, nth_error ops i = Some (Dispatch t) /\ c = dispatch t (run_ops reg_empty (firstn i ops)).
Proof.
  intros H. destruct (nth_error ops i) as [o|] eqn:Eo.
  - rewrite (trace_nth ops reg_empty i o Eo) in H. injection H as H.
    destruct o as [t l|l|h|t]; cbn in H; try discriminate.
    exists t. split; [reflexivity|]. now injection H as <-.
  - apply nth_error_None in Eo. rewrite <- (trace_length ops reg_empty) in Eo.
    apply nth_error_None in Eo. congruence.
Qed.

(* ---- C13_remove ------------------------------------------------------------ *)
Lemma step_next_mono r o : next_id r <= next_id (fst (step r o)).
Proof.
  destruct o as [t l|l|h|t]; cbn; try lia. destruct h as [t id|id]; cbn; try lia.
  destruct (tmap_get t (cbs r)) as [m|]; [destruct (imap_del id m)|]; cbn; lia.
Qed.

Lemma run_next_mono ops : forall r, next_id r <= next_id (run_ops r ops).
Proof.
  induction ops as [|o ops IH]; intros r; [cbn; lia|].
  cbn [run_ops]. pose proof (step_next_mono r o). specialize (IH (fst (step r o))). lia.
Qed.

(* handles that were handed out lie below the counter, at or above where it stood *)
Lemma issued_below ops : forall r h, In h (issued (trace r ops)) ->
  next_id r <= handle_id h < next_id (run_ops r ops).
Proof.
  induction ops as [|o ops IH]; intros r h Hin; [destruct Hin|].
  cbn [trace run_ops] in *. pose proof (step_next_mono r o) as Hm1.
  destruct (step r o) as [r' x] eqn:Es. cbn [fst] in *.
  pose proof (run_next_mono ops r') as Hm2.
  unfold issued in Hin. cbn [flat_map] in Hin. apply in_app_or in Hin as [Hin|Hin].
  - destruct o as [t l|l|h'|t]; cbn in Es; injection Es as <- <-; cbn in Hin.
    + destruct Hin as [<-|[]]. cbn in *. lia.
    + destruct Hin as [<-|[]]. cbn in *. lia.
    + destruct Hin.
    + destruct Hin.
  - apply IH in Hin. lia.
Qed.

Lemma spec_never_back h ops : forall s,
  handle_id h < sn s -> ~ In h (map fst (sl s)) -> ~ In h (map fst (sl (spec_run s ops))).
Proof.
  induction ops as [|o ops IH]; intros s Hlt Hn; [exact Hn|].
  cbn [spec_run fold_left]. apply IH.
  - destruct o; cbn; lia.
  - destruct o as [t l|l|h'|t]; cbn [spec_step sl]; try exact Hn.
    + rewrite map_app, in_app_iff. cbn. intros [H|[H|[]]]; [tauto|]. subst h. cbn in Hlt. lia.
    + rewrite map_app, in_app_iff. cbn. intros [H|[H|[]]]; [tauto|]. subst h. cbn in Hlt. lia.
    + intros H. apply Hn. apply in_map_iff in H as [x [Hx Hx2]]. apply filter_In in Hx2 as [Hx2 _].
      apply in_map_iff. now exists x.
Qed.

Lemma spec_removed h s : ~ In h (map fst (sl (spec_step s (Remove h)))).
Proof.
  cbn. intros H. apply in_map_iff in H as [x [Hx Hx2]]. apply filter_In in Hx2 as [_ Hx2].
  subst h. now rewrite handle_eqb_refl in Hx2.
Qed.

(* after Remove h - h a handle that was handed out before - no later Dispatch invokes its callback,
   whatever happens in between (re-subscription of the same type and label included) *)
Theorem remove_never_again ops1 h ops2 j c :
  In h (issued (trace reg_empty ops1)) ->
  length ops1 < j ->
  nth_error (trace reg_empty (ops1 ++ Remove h :: ops2)) j = Some (OInvoked c) ->
  ~ In h (map fst c).
Proof.
  intros Hiss Hlen Hj Hin.
  apply trace_invoked in Hj as [t [Hop ->]].
  set (k := j - length ops1 - 1).
  assert (Hfirst : firstn j (ops1 ++ Remove h :: ops2) = ops1 ++ Remove h :: firstn k ops2).
  { rewrite firstn_app. rewrite firstn_all2 by lia. f_equal.
    replace (j - length ops1) with (S k) by (unfold k; lia). reflexivity. }
  rewrite Hfirst in Hin.
  pose proof (reach_inv (ops1 ++ Remove h :: firstn k ops2)) as Hinv.
  pose proof (dispatch_perm t _ _ Hinv) as Hp.
  apply (Permutation_in _ (Permutation_map fst Hp)) in Hin.
  apply in_map_iff in Hin as [x [Hx Hx2]]. apply filter_In in Hx2 as [Hx2 _].
  assert (Hin : In h (map fst (sl (spec_run spec_empty (ops1 ++ Remove h :: firstn k ops2)))))
    by (apply in_map_iff; now exists x).
  rewrite spec_run_app in Hin. cbn [spec_run fold_left] in Hin.
  revert Hin. apply spec_never_back.
  - cbn [spec_step sn]. apply issued_below in Hiss.
    rewrite <- (inv_next _ _ (reach_inv ops1)). lia.
  - apply spec_removed.
Qed.

(* Remove of a handle that is not in force (already removed, or a stale copy used
   after the same type was subscribed again) leaves the whole registry as it was *)
Theorem remove_stale_noop ops h :
  ~ In h (live_handles ops) -> remove h (run_ops reg_empty ops) = run_ops reg_empty ops.
Proof.
  unfold live_handles, live. intros Hn. pose proof (reach_inv ops) as Hinv.
  set (r := run_ops reg_empty ops) in *. set (s := spec_run spec_empty ops) in *.
  destruct h as [t id|id]; cbn [remove].
  - pose proof (inv_typed _ _ Hinv t) as Ht. destruct (tmap_get t (cbs r)) as [m|] eqn:Eg; [|reflexivity].
    destruct Ht as [Hm Hne].
    assert (Hk : ~ In id (map fst m)).
    { intros Hin. apply Hn. subst m. apply in_map_iff in Hin as [[k l] [Hk Hin]]. cbn in Hk. subst k.
      unfold typed_of in Hin. apply in_flat_map in Hin as [[h' l'] [Hin Hent]].
      unfold typed_entry in Hent. cbn [fst snd] in Hent. destruct h' as [t' id'|id']; [|destruct Hent].
      destruct (bytes_eqb t' t) eqn:E; [|destruct Hent]. apply bytes_eqb_eq in E. subst t'.
      destruct Hent as [Hent|[]]. injection Hent as -> ->.
      apply in_map_iff. now exists (HEvent t id, l). }
    rewrite (imap_del_absent id m Hk). destruct m as [|x m']; [congruence|].
    rewrite (tmap_set_get_same t (x :: m') (cbs r) Eg). now destruct r.
  - assert (Hk : ~ In id (map fst (cbs_all r))).
    { rewrite (inv_all _ _ Hinv). intros Hin. apply Hn. apply in_map_iff in Hin as [[k l] [Hk Hin]].
      cbn in Hk. subst k. unfold all_of in Hin. apply in_flat_map in Hin as [[h' l'] [Hin Hent]].
      unfold all_entry in Hent. cbn [fst snd] in Hent. destruct h' as [t' id'|id']; [destruct Hent|].
      destruct Hent as [Hent|[]]. injection Hent as -> ->.
      apply in_map_iff. now exists (HAll id, l). }
    rewrite (imap_del_absent id _ Hk). now destruct r.
Qed.

(* Remove takes away exactly the subscription whose handle it is: right after it,
   an event of any type reaches the same subscriptions as before, minus that one *)
Theorem remove_only_that ops h t :
  Permutation (dispatch t (run_ops reg_empty (ops ++ [Remove h]))) (others h (expected ops t)).
Proof.
  pose proof (reach_inv (ops ++ [Remove h])) as Hinv.
  eapply Permutation_trans; [apply (dispatch_perm t _ _ Hinv)|].
  rewrite spec_run_app. cbn [spec_run fold_left spec_step sl].
  unfold expected, others. set (L := sl (spec_run spec_empty ops)).
  induction L as [|e L IH]; [constructor|].
  cbn [filter]. destruct (handle_eqb (fst e) h) eqn:E1; destruct (receives t e) eqn:E2;
    cbn [negb filter]; rewrite ?E1, ?E2; cbn [negb]; auto.
Qed.

(* ids are never reused: the handles handed out in a history have pairwise distinct ids *)
Lemma issued_nodup ops : forall r, NoDup (map handle_id (issued (trace r ops))).
Proof.
  induction ops as [|o ops IH]; intros r; [constructor|].
  cbn [trace]. destruct (step r o) as [r' x] eqn:Es.
  unfold issued. cbn [flat_map]. fold (issued (trace r' ops)). rewrite map_app.
  destruct o as [t l|l|h'|t]; cbn in Es; injection Es as <- <-; cbn [map app]; try apply IH.
  - constructor; [|apply IH]. intros Hin. apply in_map_iff in Hin as [h [Hh Hin]].
    apply issued_below in Hin. cbn in *. lia.
  - constructor; [|apply IH]. intros Hin. apply in_map_iff in Hin as [h [Hh Hin]].
    apply issued_below in Hin. cbn in *. lia.
Qed.

Theorem ids_never_reused ops : NoDup (map handle_id (issued (trace reg_empty ops))).
Proof. apply issued_nodup. Qed.

(* ---- C13_order ------------------------------------------------------------- *)
Lemma filter_handle_nodup h (c : list sub) :
  NoDup (map fst c) ->
  filter (fun e : sub => handle_eqb (fst e) h) c = [] \/
  exists e, filter (fun e : sub => handle_eqb (fst e) h) c = [e].
Proof.
  induction c as [|e c IH]; cbn [filter map]; [now left|].
  intros Hd. inversion Hd as [|? ? Hn Hd']; subst. destruct (handle_eqb (fst e) h) eqn:E.
  - right. exists e. f_equal. apply handle_eqb_eq in E.
    destruct (filter (fun e0 : sub => handle_eqb (fst e0) h) c) as [|y ys] eqn:Ef; [reflexivity|].
    exfalso. assert (Hy : In y (y :: ys)) by now left. rewrite <- Ef in Hy.
    apply filter_In in Hy as [Hy Hy2]. apply handle_eqb_eq in Hy2. apply Hn. rewrite E, <- Hy2.
    now apply in_map.
  - now apply IH.
Qed.

Lemma seen_by_app h a b : seen_by h (a ++ b) = seen_by h a ++ seen_by h b.
Proof. unfold seen_by. now rewrite filter_app, map_app. Qed.

Lemma seen_by_tag h i (c : list (handle * label)) :
  NoDup (map fst c) ->
  seen_by h (map (fun e => (i, e)) c) = [] \/ seen_by h (map (fun e => (i, e)) c) = [i].
Proof.
  intros Hc.
  assert (Hfm : forall l : list (handle * label),
             seen_by h (map (fun e => (i, e)) l) = map (fun _ => i) (filter (fun e : sub => handle_eqb (fst e) h) l)).
  { unfold seen_by. induction l as [|e l IHl]; [reflexivity|]. cbn [map filter snd].
    destruct (handle_eqb (fst e) h); cbn [map fst]; now rewrite IHl. }
  rewrite Hfm. destruct (filter_handle_nodup h c Hc) as [->|[e ->]]; [now left|now right].
Qed.

Lemma seen_by_sorted h outs : forall i,
  (forall c, In (OInvoked c) outs -> NoDup (map fst c)) ->
  StronglySorted lt (seen_by h (inv_log_from i outs)) /\
  Forall (fun j => i <= j) (seen_by h (inv_log_from i outs)).
Proof.
  induction outs as [|x outs IH]; intros i Hnd; [split; constructor|].
  assert (Hrest : forall c, In (OInvoked c) outs -> NoDup (map fst c)) by (intros c Hc; apply Hnd; now right).
  destruct (IH (S i) Hrest) as [Hs Hf].
  assert (Hf' : Forall (fun j => i <= j) (seen_by h (inv_log_from (S i) outs)))
    by (eapply Forall_impl; [|exact Hf]; cbn beta; intros; lia).
  destruct x as [h'| |c]; cbn [inv_log_from]; try (split; assumption).
  rewrite seen_by_app.
  assert (Hc : NoDup (map fst c)) by (apply Hnd; now left).
  destruct (seen_by_tag h i c Hc) as [E|E]; rewrite E; cbn [app].
  - split; assumption.
  - split.
    + constructor; [exact Hs|]. eapply Forall_impl; [|exact Hf]. cbn beta. intros; lia.
    + constructor; [lia|exact Hf'].
Qed.

Lemma trace_invoked_nodup ops c : In (OInvoked c) (trace reg_empty ops) -> NoDup (map fst c).
Proof.
  intros Hin. apply In_nth_error in Hin as [i Hi].
  apply trace_invoked in Hi as [t [_ ->]].
  apply nodup_ids_handles. eapply dispatch_nodup_ids. apply reach_inv.
Qed.

(* every callback sees the events in the order in which they were dispatched (and each at most once) *)
Theorem order ops h : StronglySorted lt (seen_by h (inv_log ops)).
Proof.
  unfold inv_log. apply (seen_by_sorted h (trace reg_empty ops) 0). intros c. apply trace_invoked_nodup.
Qed.

(* the log contains exactly the invocations of the Dispatch outputs: (i, e) is logged iff the
   i-th operation is a Dispatch that invoked e *)
Lemma inv_log_from_in outs : forall i j e,
  In (j, e) (inv_log_from i outs) <-> exists c, i <= j /\ nth_error outs (j - i) = Some (OInvoked c) /\ In e c.
Proof.
  induction outs as [|x outs IH]; intros i j e.
  - cbn. split; [tauto|]. intros [c [_ [H _]]]. destruct (j - i); discriminate.
  - assert (Hrest : In (j, e) (inv_log_from (S i) outs) <->
                    exists c, i <= j /\ j <> i /\ nth_error (x :: outs) (j - i) = Some (OInvoked c) /\ In e c).
    { rewrite IH. split.
      - intros [c [Hle [Hn Hin]]]. exists c. split; [lia|]. split; [lia|]. split; [|exact Hin].
        replace (j - i) with (S (j - S i)) by lia. exact Hn.
      - intros [c [Hle [Hne [Hn Hin]]]]. exists c. split; [lia|]. split; [|exact Hin].
        replace (j - i) with (S (j - S i)) in Hn by lia. exact Hn. }
    destruct x as [h'| |c0]; cbn [inv_log_from].
    + rewrite Hrest. split.
      * intros [c [H1 [H2 [H3 H4]]]]. now exists c.
      * intros [c [H1 [H3 H4]]]. exists c. repeat split; try assumption.
        intros ->. rewrite Nat.sub_diag in H3. discriminate.
    + rewrite Hrest. split.
      * intros [c [H1 [H2 [H3 H4]]]]. now exists c.
      * intros [c [H1 [H3 H4]]]. exists c. repeat split; try assumption.
        intros ->. rewrite Nat.sub_diag in H3. discriminate.
    + rewrite in_app_iff, Hrest, in_map_iff. split.
      * intros [[e' [He Hin]]|[c [H1 [H2 [H3 H4]]]]].
        -- injection He as <- <-. exists c0. rewrite Nat.sub_diag. now repeat split.
        -- now exists c.
      * intros [c [H1 [H3 H4]]]. destruct (Nat.eq_dec j i) as [->|Hne].
        -- left. rewrite Nat.sub_diag in H3. injection H3 as <-. now exists e.
        -- right. now exists c.
Qed.

Theorem inv_log_complete ops j e :
  In (j, e) (inv_log ops) <-> exists c, nth_error (trace reg_empty ops) j = Some (OInvoked c) /\ In e c.
Proof.
  unfold inv_log. rewrite inv_log_from_in. rewrite Nat.sub_0_r. split.
  - intros [c [_ H]]. now exists c.
  - intros [c H]. exists c. split; [lia|exact H].
Qed.
