(* Lemmas about the Connect model, part 3: whole runs, by induction over the script. *)
From Coq Require Import ZifyBool ZifyNat.
From GoSse Require Import Base Whatwg Backoff BackoffProofs Connect ConnectProofs ConnectStep.
From GoSse.Gen Require Import Params.
Local Open Scope Z_scope.

(* ---- projections of the items of one attempt -------------------------------------------------- *)
Lemma requests_app a b : requests (a ++ b) = requests a ++ requests b.
Proof. unfold requests. apply flat_map_app. Qed.
Lemma on_retries_app a b : on_retries (a ++ b) = on_retries a ++ on_retries b.
Proof. unfold on_retries. apply flat_map_app. Qed.
Lemma dispatched_app a b : dispatched (a ++ b) = dispatched a ++ dispatched b.
Proof. unfold dispatched. apply flat_map_app. Qed.

Lemma requests_events evs : requests (map TEvent evs) = [].
Proof. induction evs as [|e evs IH]; [reflexivity|]. cbn. exact IH. Qed.
Lemma on_retries_events evs : on_retries (map TEvent evs) = [].
Proof. induction evs as [|e evs IH]; [reflexivity|]. cbn. exact IH. Qed.

Lemma requests_attempt h bd evs (tail : list titem) :
  requests tail = [] -> requests (TRequest h bd :: map TEvent evs ++ tail) = [(h, bd)].
Proof. intros Ht. cbn [requests flat_map app]. fold (requests (map TEvent evs ++ tail)).
  rewrite requests_app, requests_events, Ht. reflexivity. Qed.

Lemma requests_onretry (c : bool) err w : requests (if c then [TOnRetry err w] else []) = [].
Proof. destruct c; reflexivity. Qed.

(* the events of one attempt, as items *)
Definition attempt_events (lid : bytes) (a : attempt) : list titem :=
  match a with AStream body en => map TEvent (events_of (interp gosse_conn lid body en)) | _ => [] end.

Lemma requests_attempt_events lid a : requests (attempt_events lid a) = [].
Proof. destruct a; try reflexivity. apply requests_events. Qed.

(* ---- one iteration, packaged: what the whole-run inductions use -------------------------------- *)
(* After a successful resetRequest (state s1), the iteration contributes exactly one request -
   (cs_hdr s1, cs_body s1) - and either ends Connect with a non-nil value or continues with a
   state that differs from s1 only in lastEventID (= id_after_attempt) and the controller. *)
Lemma attempt_step_cases cfg b s1 st :
  (exists items r, attempt_step cfg b s1 st = OReturn items r /\ r <> RNil /\
                   requests items = [(cs_hdr s1, cs_body s1)]) \/
  (exists items s', attempt_step cfg b s1 st = OContinue items s' /\
                    requests items = [(cs_hdr s1, cs_body s1)] /\
                    cs_last_id s' = id_after_attempt (cs_last_id s1) (st_attempt st) /\
                    cs_is_retry s' = cs_is_retry s1 /\ cs_hdr s' = cs_hdr s1 /\ cs_body s' = cs_body s1 /\
                    cs_gb_calls s' = cs_gb_calls s1).
Proof.
  pose proof (attempt_step_spec cfg b s1 st) as H. cbv zeta in H.
  fold (attempt_events (cs_last_id s1) (st_attempt st)) in H.
  assert (Hreq : forall tail, requests tail = [] ->
            requests (TRequest (cs_hdr s1) (cs_body s1) :: attempt_events (cs_last_id s1) (st_attempt st) ++ tail)
            = [(cs_hdr s1, cs_body s1)]).
  { intros tail Ht. cbn [requests flat_map app].
    fold (requests (attempt_events (cs_last_id s1) (st_attempt st) ++ tail)).
    rewrite requests_app, requests_attempt_events, Ht. reflexivity. }
  assert (Hreq0 : requests (TRequest (cs_hdr s1) (cs_body s1) :: attempt_events (cs_last_id s1) (st_attempt st))
                  = [(cs_hdr s1, cs_body s1)]).
  { rewrite <- (app_nil_r (attempt_events _ _)). now apply Hreq. }
  destruct (attempt_error (st_attempt st)) as [err|] eqn:Ea.
  - assert (Herr : err <> RNil).
    { unfold attempt_error in Ea. destruct (st_attempt st); try discriminate.
      - injection Ea as <-. discriminate.
      - destruct (is_ctx _); [discriminate|]. injection Ea as <-. discriminate. }
    destruct (bc_next b _ (st_elapsed st) (st_u st)) as [c' [w|]].
    + destruct (wait_cancelled cfg w).
      * left. eexists _, _. split; [exact H|]. split; [discriminate|]. apply Hreq, requests_onretry.
      * right. destruct H as (s' & H & H1 & _ & H3 & H4 & H5 & H6).
        eexists _, s'. split; [exact H|]. split; [apply Hreq, requests_onretry|]. repeat split; assumption.
    + left. eexists _, _. split; [exact H|]. split; [assumption|]. exact Hreq0.
  - left. eexists _, _. split; [exact H|]. split; [|exact Hreq0].
    destruct (st_attempt st); discriminate.
Qed.

(* ---- C11: never nil --------------------------------------------------------------------------- *)
Lemma loop_never_nil cfg b script : forall s, snd (connect_loop cfg b s script) <> Some RNil.
Proof.
  induction script as [|st rest IH]; intros s.
  - rewrite connect_loop_nil. destruct (reset_request _ s); cbn; discriminate.
  - rewrite connect_loop_cons. destruct (reset_request _ s) as [s1|e]; [|cbn; discriminate].
    destruct (attempt_step_cases cfg b s1 st) as [(items & r & H & Hr & _)|(items & s' & H & _)]; rewrite H.
    + cbn. congruence.
    + specialize (IH s'). destruct (connect_loop cfg b s' rest) as [tr r]. exact IH.
Qed.

Theorem never_nil cfg script : snd (connect_run cfg script) <> Some RNil.
Proof.
  unfold connect_run. destruct (cc_cancel_before cfg); [cbn; discriminate|]. apply loop_never_nil.
Qed.

(* ---- C10: the Last-Event-ID header of every request --------------------------------------------- *)
(* the headers of the requests made as retries, given the ID before each attempt *)
Fixpoint spec_headers (lid : bytes) (script : list step) : list (option bytes) :=
  match script with
  | [] => []
  | st :: rest => header_of lid :: spec_headers (id_after_attempt lid (st_attempt st)) rest
  end.

Definition spec_headers_run (cfg : ccfg) (script : list step) : list (option bytes) :=
  match script with
  | [] => []
  | st :: rest => cc_header cfg :: spec_headers (id_after_attempt [] (st_attempt st)) rest
  end.

Lemma reset_request_retry k s s1 :
  cs_is_retry s = true -> reset_request k s = inl s1 ->
  cs_last_id s1 = cs_last_id s /\ cs_hdr s1 = header_of (cs_last_id s) /\ cs_is_retry s1 = true /\
  cs_bc s1 = cs_bc s /\
  (match k with
   | BBody _ => cs_body s1 = Some (S (cs_gb_calls s)) /\ cs_gb_calls s1 = S (cs_gb_calls s)
   | _ => cs_body s1 = cs_body s /\ cs_gb_calls s1 = cs_gb_calls s
   end).
Proof.
  intros Hr. unfold reset_request. rewrite Hr. cbn [negb].
  unfold reset_body. destruct k as [| |[| |after e]]; intros H; try discriminate.
  - injection H as <-. cbn. unfold header_of. destruct (cs_last_id s); repeat split; solve [reflexivity | exact Hr].
  - injection H as <-. cbn. unfold header_of. destruct (cs_last_id s); repeat split; solve [reflexivity | exact Hr].
  - injection H as <-. cbn. unfold header_of. destruct (cs_last_id s); repeat split; solve [reflexivity | exact Hr].
  - destruct (cs_gb_calls s <? after)%nat; [|discriminate].
    injection H as <-. cbn. unfold header_of. destruct (cs_last_id s); repeat split; solve [reflexivity | exact Hr].
Qed.

Lemma loop_headers cfg b script : forall s tr r,
  cs_is_retry s = true -> connect_loop cfg b s script = (tr, r) ->
  exists n, map fst (requests tr) = firstn n (spec_headers (cs_last_id s) script).
Proof.
  induction script as [|st rest IH]; intros s tr r Hs Hrun.
  - rewrite connect_loop_nil in Hrun. exists O.
    destruct (reset_request _ s); injection Hrun as <- _; reflexivity.
  - rewrite connect_loop_cons in Hrun.
    destruct (reset_request (cc_body cfg) s) as [s1|e] eqn:Er.
    2:{ injection Hrun as <- _. exists O. reflexivity. }
    destruct (reset_request_retry _ _ _ Hs Er) as (Hl & Hh & Hr1 & _).
    destruct (attempt_step_cases cfg b s1 st) as [(items & r0 & H & _ & Hq)|(items & s' & H & Hq & Hl' & Hr' & _)];
      rewrite H in Hrun.
    + injection Hrun as <- _. exists 1%nat. rewrite Hq. cbn. now rewrite Hh.
    + destruct (connect_loop cfg b s' rest) as [tr' r'] eqn:El. injection Hrun as <- _.
      destruct (IH s' tr' r' ltac:(congruence) El) as (n & Hn).
      exists (S n). rewrite requests_app, map_app, Hq, Hn. cbn. rewrite Hh, Hl', Hl. reflexivity.
Qed.

Theorem run_headers cfg script tr r :
  connect_run cfg script = (tr, r) ->
  exists n, map fst (requests tr) = firstn n (spec_headers_run cfg script).
Proof.
  unfold connect_run. destruct (cc_cancel_before cfg).
  { intros H. injection H as <- _. exists O. reflexivity. }
  set (b := merge_defaults (cc_backoff cfg)). set (s0 := connect_init cfg b).
  destruct script as [|st rest]; intros Hrun.
  - rewrite connect_loop_nil in Hrun. exists O. destruct (reset_request _ s0); injection Hrun as <- _; reflexivity.
  - rewrite connect_loop_cons in Hrun. unfold reset_request in Hrun. cbn [s0 connect_init cs_is_retry negb] in Hrun.
    match type of Hrun with context [attempt_step cfg b ?x st] => set (s1 := x) in * end.
    destruct (attempt_step_cases cfg b s1 st) as [(items & r0 & H & _ & Hq)|(items & s' & H & Hq & Hl' & Hr' & _)];
      rewrite H in Hrun.
    + injection Hrun as <- _. exists 1%nat. rewrite Hq. reflexivity.
    + destruct (connect_loop cfg b s' rest) as [tr' r'] eqn:El. injection Hrun as <- _.
      destruct (loop_headers cfg b rest s' tr' r' Hr' El) as (n & Hn).
      exists (S n). rewrite requests_app, map_app, Hq, Hn. cbn. rewrite Hl'. reflexivity.
Qed.

Lemma spec_headers_nth script : forall lid k,
  (k < length script)%nat ->
  nth_error (spec_headers lid script) k = Some (header_of (id_after lid (firstn k script))).
Proof.
  induction script as [|st rest IH]; intros lid k Hk; [cbn in Hk; lia|].
  destruct k as [|k]; [reflexivity|]. cbn [spec_headers nth_error firstn].
  rewrite IH by (cbn in Hk; lia). reflexivity.
Qed.

Lemma spec_headers_length script : forall lid, length (spec_headers lid script) = length script.
Proof. induction script as [|st rest IH]; intros lid; [reflexivity|]. cbn. now rewrite IH. Qed.

Lemma nth_error_firstn_lt {A} (l : list A) : forall n k, (k < n)%nat -> nth_error (firstn n l) k = nth_error l k.
Proof.
  induction l as [|x l IH]; intros n k Hk; [now rewrite firstn_nil|].
  destruct n as [|n]; [lia|]. destruct k as [|k]; [reflexivity|]. cbn. apply IH. lia.
Qed.

(* the header of attempt k+1 (k >= 1 attempts before it) is the ID after the first k attempts *)
Theorem run_header_nth cfg script tr r k h bd :
  connect_run cfg script = (tr, r) ->
  nth_error (requests tr) (S k) = Some (h, bd) ->
  h = header_of (id_after [] (firstn (S k) script)).
Proof.
  intros Hrun Hnth. destruct (run_headers cfg script tr r Hrun) as (n & Hn).
  assert (Hm : nth_error (map fst (requests tr)) (S k) = Some h) by (rewrite nth_error_map, Hnth; reflexivity).
  rewrite Hn in Hm.
  assert (Hlt : (S k < n)%nat).
  { destruct (Nat.lt_ge_cases (S k) n) as [|Hge]; [assumption|].
    rewrite (proj2 (nth_error_None _ _)) in Hm; [discriminate|]. rewrite firstn_length. lia. }
  rewrite nth_error_firstn_lt in Hm by assumption.
  destruct script as [|st rest]; [destruct k; discriminate|].
  cbn [spec_headers_run nth_error] in Hm.
  assert (Hk : (k < length rest)%nat).
  { destruct (Nat.lt_ge_cases k (length rest)) as [|Hge]; [assumption|].
    rewrite (proj2 (nth_error_None _ _)) in Hm; [discriminate|]. rewrite spec_headers_length. lia. }
  rewrite spec_headers_nth in Hm by assumption. injection Hm as <-.
  cbn [firstn]. unfold id_after. cbn [fold_left]. reflexivity.
Qed.
