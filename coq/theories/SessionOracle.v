(* C16: the writer's verdicts are played in script order; the model's behaviour passes the
   direct oracle [session_ok] (so an oracle alarm without a model mismatch is impossible). *)
From GoSse Require Import Base Lines Fields Message MessageProofs Session SessionProofs SessionOps SessionTheorems.
From GoSse.Gen Require Import Params.
Local Open Scope nat_scope.

(* ---- the script is played in order ---------------------------------------------------- *)
Lemma verdict_eqb_refl v : verdict_eqb v v = true.
Proof. destruct v; cbn; [reflexivity|]. now rewrite Nat.eqb_refl, N.eqb_refl. Qed.

Lemma skipn_S_tl {A} n (l : list A) : skipn (S n) l = skipn n (tl l).
Proof. destruct l; [now destruct n|reflexivity]. Qed.

Lemma skipn_skipn {A} a : forall b (l : list A), skipn a (skipn b l) = skipn (b + a) l.
Proof.
  intros b. induction b as [|b IH]; intros l; [reflexivity|].
  destruct l as [|x l]; [now destruct a|]. cbn [Nat.add skipn]. apply IH.
Qed.

Lemma nops_cons c a : nops (c :: a) = (if is_op c then 1 else 0) + nops a.
Proof. unfold nops. cbn [filter]. now destruct (is_op c). Qed.

Lemma nops_app a b : nops (a ++ b) = nops a + nops b.
Proof. unfold nops. now rewrite filter_app, app_length. Qed.

Lemma plays_app rp a : forall script b,
  plays rp (a ++ b) script = plays rp a script && plays rp b (skipn (nops a) script).
Proof.
  induction a as [|c a IH]; intros script b; [reflexivity|].
  rewrite nops_cons. destruct c as [n v|bb v|e|code]; cbn [app plays is_op Nat.add].
  - apply IH.
  - now rewrite IH, skipn_S_tl, andb_assoc.
  - now rewrite IH, skipn_S_tl, andb_assoc.
  - apply IH.
Qed.

Lemma writes_log_plays rp calls : forall script,
  plays rp (writes_log calls script) script = true /\
  nops (writes_log calls script) = length (writes_log calls script).
Proof.
  induction calls as [|c rest IH]; intros script; [split; reflexivity|].
  cbn [writes_log]. destruct script as [|[|k e] script'].
  - destruct (IH (@nil wverdict)) as [H1 H2]. cbn [plays hd tl verdict_eqb andb]. split; [exact H1|].
    rewrite nops_cons. cbn [is_op length]. now rewrite H2.
  - destruct (IH script') as [H1 H2]. cbn [plays hd tl verdict_eqb andb]. split; [exact H1|].
    rewrite nops_cons. cbn [is_op length]. now rewrite H2.
  - cbn [plays hd]. rewrite verdict_eqb_refl. split; reflexivity.
Qed.

Lemma writes_log_full calls : forall script,
  script_ok script -> first_error (writes_log calls script) = 0%N ->
  length (writes_log calls script) = length calls.
Proof.
  induction calls as [|c rest IH]; intros script Hok He; [reflexivity|].
  cbn [writes_log] in *. destruct script as [|[|k e] script'].
  - cbn [first_error call_error N.eqb tl length] in *. now rewrite (IH [] Hok He).
  - cbn [first_error call_error N.eqb tl length] in *. rewrite (IH script'); [reflexivity| |exact He].
    intros k e H. apply (Hok k e). now right.
  - exfalso. assert (Hne : e <> 0%N) by (apply (Hok k e); now left).
    cbn [first_error call_error] in He. apply N.eqb_neq in Hne. rewrite Hne in He. apply N.eqb_neq in Hne. congruence.
Qed.

Lemma write_to_log_plays rp m script l :
  script_ok script -> write_to_log m script = Some l -> plays rp l script = true /\ nops l = length l.
Proof.
  intros Hok. unfold write_to_log. destruct (body_calls m) as [calls|]; [|discriminate].
  pose proof (writes_log_spec calls script) as Hs.
  destruct (run_writes calls script) as [[n e] acc]. destruct Hs as (_ & He & _).
  destruct (writes_log_plays rp calls script) as [H1 H2].
  destruct (e =? 0)%N eqn:Ee; cbn [negb]; [|intros H; injection H as <-; now split].
  destruct (n =? 0); [intros H; injection H as <-; now split|].
  intros H. injection H as <-.
  destruct (writes_log_plays rp [newline_bytes] (skipn (length calls) script)) as [H3 H4].
  apply N.eqb_eq in Ee. rewrite Ee in He.
  pose proof (writes_log_full calls script Hok He) as Hlen.
  split.
  - rewrite plays_app, H1, H2, Hlen. exact H3.
  - rewrite nops_app, app_length, H2.
    f_equal. exact H4.
Qed.

Lemma res_flush_plays s s1 e l :
  res_flush s = (s1, e, l) -> plays (s_reports s) l (s_script s) = true /\ nops l = 1.
Proof.
  unfold res_flush. intros H. injection H as _ <- <-. cbn [plays]. split; [|reflexivity].
  destruct (s_script s) as [|[|k e'] r]; cbn; try reflexivity. destruct (s_reports s); cbn; now rewrite ?N.eqb_refl.
Qed.

Lemma do_upgrade_plays s s1 e l :
  do_upgrade s = (s1, e, l) ->
  plays (s_reports s) l (s_script s) = true /\ s_script s1 = skipn (nops l) (s_script s).
Proof.
  unfold do_upgrade. destruct (s_did s).
  - intros H. injection H as <- _ <-. split; reflexivity.
  - destruct (res_flush s) as [[s2 e2] l2] eqn:Ef. pose proof (res_flush_plays _ _ _ _ Ef) as [Hp Hn].
    apply res_flush_spec in Ef as (-> & _ & _ & Hs).
    assert (Hsk : tl (s_script s) = skipn (nops [ct_set; LFlush e2]) (s_script s)) by (now destruct (s_script s)).
    destruct (e2 =? 0)%N; intros H; injection H as <- _ <-; cbn [plays s_script]; (split; [exact Hp|]);
      fold ct_set; rewrite <- Hsk; exact Hs.
Qed.

(* one call: its writer operations are answered by the next verdicts of the script, in order,
   and exactly those verdicts are consumed *)
Lemma step_call_plays s c s' e seg :
  step_call s c = Some (s', e, seg) -> sess_ok s ->
  plays (s_reports s) seg (s_script s) = true /\ s_script s' = skipn (nops seg) (s_script s) /\
  s_reports s' = s_reports s.
Proof.
  intros H Hok. destruct c as [m|]; cbn [step_call] in H.
  - unfold session_send in H. destruct (do_upgrade s) as [[s1 e1] l1] eqn:Eu.
    pose proof (do_upgrade_ok _ _ _ _ Eu Hok) as Hok1.
    pose proof (do_upgrade_plays _ _ _ _ Eu) as [Hp1 Hs1].
    apply do_upgrade_spec in Eu as [Hr _].
    destruct (negb (e1 =? 0)%N); [injection H as <- _ <-; auto|].
    destruct (write_to m (s_script s1)) as [[[n e2] acc]|]; [|discriminate].
    destruct (write_to_log m (s_script s1)) as [l2|] eqn:El; [|discriminate].
    destruct (write_to_log_plays (s_reports s) m _ _ Hok1 El) as [Hp2 Hn2].
    injection H as <- _ <-. cbn [s_script s_reports]. split; [|split; [|exact Hr]].
    + rewrite plays_app, Hp1, <- Hs1. exact Hp2.
    + rewrite nops_app, <- skipn_skipn, <- Hs1, Hn2. reflexivity.
  - injection H as H. unfold session_flush in H. destruct (do_upgrade s) as [[s1 e1] l1] eqn:Eu.
    pose proof (do_upgrade_plays _ _ _ _ Eu) as [Hp1 Hs1].
    apply do_upgrade_spec in Eu as [Hr _].
    destruct (negb (e1 =? 0)%N); [injection H as <- _ <-; auto|].
    destruct (Bool.eqb (s_did s) (s_did s1)); [|injection H as <- _ <-; auto].
    destruct (res_flush s1) as [[s2 e2] l2] eqn:Ef. pose proof (res_flush_plays _ _ _ _ Ef) as [Hp2 Hn2].
    apply res_flush_spec in Ef as (-> & _ & Hr2 & Hs2). injection H as <- _ <-.
    split; [|split; [|congruence]].
    + rewrite plays_app, Hp1, <- Hs1, <- Hr. exact Hp2.
    + rewrite nops_app, <- skipn_skipn, <- Hs1, Hs2. now destruct (s_script s1).
Qed.

Lemma run_calls_plays calls : forall s rs sf ok,
  run_calls s calls = (rs, sf, ok) -> sess_ok s ->
  plays (s_reports s) (full_log rs) (s_script s) = true /\
  s_script sf = skipn (nops (full_log rs)) (s_script s).
Proof.
  induction calls as [|c calls IH]; intros s rs sf ok Hrun Hok.
  - cbn in Hrun. injection Hrun as <- <- _. split; reflexivity.
  - assert (Hstep : forall s' e l rs' sf' ok',
               step_call s c = Some (s', e, l) -> run_calls s' calls = (rs', sf', ok') ->
               plays (s_reports s) (full_log ((e, l) :: rs')) (s_script s) = true /\
               s_script sf' = skipn (nops (full_log ((e, l) :: rs'))) (s_script s)).
    { intros s' e l rs' sf' ok' Hs Hr.
      destruct (step_call_plays _ _ _ _ _ Hs Hok) as (Hp & Hsk & Hrp).
      destruct (IH s' rs' sf' ok' Hr (step_call_ok _ _ _ _ _ Hs Hok)) as [Hp' Hsk'].
      unfold full_log. cbn [map concat snd]. fold (full_log rs').
      rewrite plays_app, Hp, nops_app, <- skipn_skipn, <- Hsk, <- Hrp. now split. }
    cbn [run_calls] in Hrun. destruct c as [m|].
    + destruct (session_send s m) as [[[s' e] l]|] eqn:Es.
      * destruct (run_calls s' calls) as [[rs' sf'] ok'] eqn:Er. injection Hrun as <- <- _.
        now apply (Hstep s' e l rs' sf' ok').
      * injection Hrun as <- <- _. split; reflexivity.
    + destruct (session_flush s) as [[s' e] l] eqn:Es.
      destruct (run_calls s' calls) as [[rs' sf'] ok'] eqn:Er. injection Hrun as <- <- _.
      apply (Hstep s' e l rs' sf' ok'); [cbn; now rewrite Es|exact Er].
Qed.

(* the k-th Write/Flush of the whole log was answered by the k-th verdict of the script *)
Theorem script_played_in_order reports script calls rs sf ok :
  script_ok script -> run_calls (fresh reports script) calls = (rs, sf, ok) ->
  plays reports (full_log rs) script = true.
Proof. intros Hok Hrun. now destruct (run_calls_plays calls _ _ _ _ Hrun Hok). Qed.

(* ---- the model passes the oracle ---------------------------------------------------------- *)
Lemma is_prefix_of_app a r : is_prefix_of a (a ++ r) = true.
Proof. induction a as [|x a IH]; [reflexivity|]. cbn. now rewrite N.eqb_refl. Qed.

Definition has_wire (c : scall) : Prop := match c with CSend m => wire m <> None | CFlush => True end.

Lemma calls_ok_sound calls : forall s rs sf before,
  run_calls s calls = (rs, sf, true) -> sess_ok s -> Forall has_wire calls ->
  calls_ok before calls rs = true.
Proof.
  induction calls as [|c calls IH]; intros s rs sf before Hrun Hok Hw.
  - cbn in Hrun. now injection Hrun as <- _.
  - inversion Hw as [|? ? Hc Hw']; subst. cbn [run_calls] in Hrun. destruct c as [m|].
    + destruct (session_send s m) as [[[s' e] l]|] eqn:Es; [|discriminate].
      destruct (run_calls s' calls) as [[rs' sf'] ok'] eqn:Er. injection Hrun as <- <- ->.
      cbn in Hc. destruct (wire m) as [w|] eqn:Ew; [|congruence].
      destruct (send_spec _ _ _ _ _ w Es Hok Ew) as (He & [rest Hpre] & Heq & Hok' & _).
      cbn [calls_ok]. rewrite Ew, <- He, N.eqb_refl. cbn [andb].
      rewrite (IH s' rs' sf' (before ++ l) Er Hok' Hw'), andb_true_r.
      destruct (e =? 0)%N eqn:Ee.
      * apply N.eqb_eq in Ee. rewrite (Heq Ee). apply bytes_eqb_refl.
      * rewrite Hpre. apply is_prefix_of_app.
    + destruct (session_flush s) as [[s' e] l] eqn:Es.
      destruct (run_calls s' calls) as [[rs' sf'] ok'] eqn:Er. injection Hrun as <- <- ->.
      destruct (flush_spec _ _ _ _ Es Hok) as (He & Ha & Hf & Hok' & _).
      cbn [calls_ok]. rewrite <- He, N.eqb_refl, Ha. cbn [andb bytes_eqb].
      rewrite (IH s' rs' sf' (before ++ l) Er Hok' Hw'), andb_true_r.
      destruct (e =? 0)%N eqn:Ee; [|reflexivity]. apply N.eqb_eq in Ee. now apply Hf.
Qed.

(* whatever the writer does, what the model does satisfies the property's direct oracle *)
Theorem session_oracle_sound reports script calls rs sf :
  script_ok script -> Forall has_wire calls ->
  run_calls (fresh reports script) calls = (rs, sf, true) ->
  session_ok calls rs = true.
Proof.
  intros Hok Hw Hrun. unfold session_ok.
  destruct (upgrade_protocol _ _ _ _ _ _ Hok Hrun) as [st ->]. cbn [andb].
  eapply calls_ok_sound; eauto.
Qed.
