(* splitFunc characterised: what a token is, in terms of the line structure ([wlines]) of the data.
   - split_func_tok   : a token is the data from the first non-newline byte on (the skipped prefix
                        consists of CR/LF bytes only), it advances by at least one byte and never
                        past the data; whether bytes were skipped is what the D7 wrapper tests;
   - split_func_shape : a token that is not "everything up to the end of the input" consists of complete
                        lines, the last of which is blank: it ends an event;
   - split_func_fuel_ok, split_func_eof : the loop's fuel suffices; at EOF non-empty data always
                        yields a token (so bufio's "too many empty tokens" panic is unreachable). *)
From GoSse Require Import Base Lines Whatwg WhatwgLines Split.
From Coq Require Import ZifyNat ZifyBool.
Local Open Scope nat_scope.

Definition all_nl (s : bytes) : Prop := Forall (fun b => is_nl b = true) s.

(* ---- newline_index and wlines -------------------------------------------------------------------- *)
Lemma wlines_ni s :
  match newline_index s with
  | (i, 0) => wlines s = ([], s) /\ i = length s
  | (i, el) => wlines s = (firstn i s :: fst (wlines (skipn (i + el) s)), snd (wlines (skipn (i + el) s)))
  end.
Proof.
  induction s as [|b r IH]; [cbn; auto|].
  cbn [newline_index]. destruct (is_nl b) eqn:Hb.
  - rewrite (wlines_nl b r Hb). unfold wlines'.
    destruct r as [|c r'].
    + cbn. rewrite Bool.andb_false_r. reflexivity.
    + destruct ((b =? CR)%N && (c =? LF)%N); reflexivity.
  - rewrite (wlines_non_nl b r Hb).
    destruct (newline_index r) as [i el]. destruct el as [|el'].
    + destruct IH as [-> ->]. split; reflexivity.
    + rewrite IH. cbn [firstn skipn plus fst snd]. reflexivity.
Qed.

Lemma ni_first_non_nl b r : is_nl b = false -> 0 < fst (newline_index (b :: r)).
Proof. intros H. cbn [newline_index]. rewrite H. destruct (newline_index r). cbn. lia. Qed.

Lemma ni_first_nl b r : is_nl b = true ->
  fst (newline_index (b :: r)) = 0 /\ (snd (newline_index (b :: r)) = 1 \/ snd (newline_index (b :: r)) = 2).
Proof. intros H. cbn [newline_index]. rewrite H. cbn. destruct (_ && _); auto. Qed.

(* the bytes of a terminator are newline bytes *)
Lemma ni_term_all_nl b r : is_nl b = true ->
  all_nl (firstn (snd (newline_index (b :: r))) (b :: r)).
Proof.
  intros H. cbn [newline_index]. rewrite H. cbn [snd].
  destruct r as [|c r']; cbn.
  - rewrite Bool.andb_false_r. repeat constructor; assumption.
  - destruct ((b =? CR)%N && (c =? LF)%N) eqn:E; cbn.
    + apply andb_true_iff in E as [_ E]. apply N.eqb_eq in E. subst c. repeat constructor; assumption.
    + repeat constructor; assumption.
Qed.

(* a lone CR terminator is not followed by LF (CR LF is taken whole) *)
Lemma ni_greedy s i :
  newline_index s = (i, 1) -> nth_error s i = Some CR -> nth_error s (S i) <> Some LF.
Proof.
  revert i; induction s as [|b r IH]; intros i; [discriminate|].
  cbn [newline_index]. destruct (is_nl b) eqn:Hb.
  - destruct r as [|c r']; cbn.
    + intros [= <-] _. discriminate.
    + destruct ((b =? CR)%N && (c =? LF)%N) eqn:E; [discriminate|].
      intros [= <-]. cbn. intros [= ->] [= ->]. discriminate.
  - destruct (newline_index r) as [i' el]. intros [= <- ->]. cbn. apply IH. reflexivity.
Qed.

(* one line and its terminator in front of anything that does not merge with the terminator *)
Lemma wlines_line s i el y :
  newline_index s = (i, el) -> 0 < el ->
  (el = 1 -> nth_error s i = Some CR -> hd_error y <> Some LF) ->
  wlines (firstn (i + el) s ++ y) = (firstn i s :: fst (wlines y), snd (wlines y)).
Proof.
  revert i; induction s as [|b r IH]; intros i; [cbn; intros [= <- <-]; lia|].
  cbn [newline_index]. destruct (is_nl b) eqn:Hb.
  - intros [= <- <-] _ Hg.
    destruct r as [|c r'].
    + cbn [andb firstn app plus]. rewrite Bool.andb_false_r. cbn [firstn app plus].
      rewrite (wlines_nl b y Hb). unfold wlines'. destruct y as [|c y']; [reflexivity|].
      destruct ((b =? CR)%N && (c =? LF)%N) eqn:E; [|reflexivity].
      apply andb_true_iff in E as [E1 E2]. apply N.eqb_eq in E1, E2. subst. exfalso.
      apply Hg; reflexivity.
    + destruct ((b =? CR)%N && (c =? LF)%N) eqn:E.
      * cbn [plus firstn app]. rewrite (wlines_nl b _ Hb). unfold wlines'. rewrite E. reflexivity.
      * cbn [plus firstn app]. rewrite (wlines_nl b y Hb). unfold wlines'. destruct y as [|d y']; [reflexivity|].
        destruct ((b =? CR)%N && (d =? LF)%N) eqn:E'; [|reflexivity].
        apply andb_true_iff in E' as [E1 E2]. apply N.eqb_eq in E1, E2. subst. exfalso.
        apply Hg; reflexivity.
  - destruct (newline_index r) as [i' el'] eqn:En. intros [= <- <-] Hel Hg.
    cbn [plus firstn app]. rewrite (wlines_non_nl b _ Hb).
    rewrite (IH i' eq_refl Hel Hg). reflexivity.
Qed.

(* ---- the loop ---------------------------------------------------------------------------------------- *)
(* [g] consists of complete lines [ls] and stays so in front of the newline byte [c] *)
Definition closed (g : bytes) (ls : list bytes) (c : N) : Prop :=
  forall x, wlines (g ++ c :: x) = (ls ++ fst (wlines (c :: x)), snd (wlines (c :: x))).

Lemma nth_error_skipn {A} (l : list A) n k : nth_error (skipn n l) k = nth_error l (n + k).
Proof. revert l; induction n as [|n IH]; intros [|a l]; cbn; auto. destruct k; reflexivity. Qed.

Lemma skipn_cons_nth {A} (l : list A) n c r : skipn n l = c :: r -> nth_error l n = Some c /\ n < length l.
Proof.
  intros H. pose proof (nth_error_skipn l n 0) as E. rewrite H, Nat.add_0_r in E. cbn in E.
  split; [now symmetry|]. apply nth_error_Some. rewrite <- E. discriminate.
Qed.

Lemma firstn_add {A} (l : list A) a b : firstn (a + b) l = firstn a l ++ firstn b (skipn a l).
Proof. revert l; induction a as [|a IH]; intros [|x l]; cbn; auto. now rewrite firstn_nil. now rewrite IH. Qed.

Lemma skipn_add {A} (l : list A) a b : skipn a (skipn b l) = skipn (b + a) l.
Proof. revert l; induction b as [|b IH]; intros [|x l]; cbn; auto. now rewrite skipn_nil. Qed.

(* phase 2: [rest] starts a non-blank line *)
Lemma split_loop_lines fuel : forall rest adv start b r,
  length rest < fuel -> rest = b :: r -> is_nl b = false ->
  exists k, split_loop fuel rest adv start = Some (k + adv, start) /\ 0 < k <= length rest /\
    (k < length rest -> exists c ls, nth_error rest k = Some c /\ is_nl c = true /\ closed (firstn k rest) ls c).
Proof.
  induction fuel as [|fuel IH]; intros rest adv start b r Hf Hr Hb; [lia|].
  cbn [split_loop].
  pose proof (newline_index_bounds rest) as Hbd.
  pose proof (wlines_ni rest) as Hw.
  pose proof (ni_first_non_nl b r Hb) as Hi. rewrite <- Hr in Hi.
  destruct (newline_index rest) as [i el] eqn:En. cbn [fst] in Hi.
  assert (Hi0 : (i =? 0) = false) by (apply Nat.eqb_neq; lia). rewrite Hi0.
  destruct (skipn (i + el) rest) as [|c rest'] eqn:Es.
  - exists (i + el). split; [reflexivity|].
    assert (length rest <= i + el).
    { pose proof (skipn_length (i + el) rest) as Hl. rewrite Es in Hl. cbn in Hl. lia. }
    split; [lia|lia].
  - destruct (skipn_cons_nth _ _ _ _ Es) as [Hc Hlt].
    assert (Hel : 0 < el).
    { destruct el; [|lia]. destruct Hw as [_ ->] . lia. }
    assert (Hi1 : (0 <? i) = true) by (apply Nat.ltb_lt; lia). rewrite Hi1, Bool.andb_true_r.
    destruct (is_nl c) eqn:Hcn.
    + exists (i + el). split; [reflexivity|]. split; [lia|]. intros _.
      exists c, [firstn i rest]. split; [exact Hc|]. split; [exact Hcn|].
      intros x. rewrite (wlines_line rest i el (c :: x) En Hel).
      * reflexivity.
      * intros -> Hcr. cbn. intros [= ->]. apply (ni_greedy rest i En Hcr). now rewrite <- Nat.add_1_r.
    + assert (Hlen' : length (c :: rest') = length rest - (i + el)) by (rewrite <- Es; apply skipn_length).
      destruct (IH (c :: rest') (i + el + adv) start c rest' ltac:(lia) eq_refl Hcn) as (k' & Hk' & Hb' & Hc').
      exists (k' + (i + el)). split; [rewrite Hk'; f_equal; f_equal; lia|]. split; [lia|].
      intros Hlt'. destruct Hc' as (c' & ls' & Hn' & Hcn' & Hcl'); [lia|].
      exists c', (firstn i rest :: ls'). split; [|split; [exact Hcn'|]].
      * rewrite <- Es in Hn'. rewrite nth_error_skipn in Hn'. rewrite <- Hn'. f_equal. lia.
      * intros x. replace (k' + (i + el)) with ((i + el) + k') by lia.
        rewrite firstn_add, Es, <- app_assoc.
        rewrite (wlines_line rest i el _ En Hel).
        -- rewrite Hcl'. reflexivity.
        -- intros _ _. destruct k'; [lia|]. cbn. intros [= ->]. discriminate.
Qed.

(* the whole loop: leading newline bytes, then lines *)
Lemma split_loop_spec fuel : forall rest adv start,
  length rest < fuel -> rest <> [] ->
  exists j k, split_loop fuel rest adv start = Some (k + adv, j + start) /\ j <= k <= length rest /\ 0 < k /\
    all_nl (firstn j rest) /\
    ((j = k /\ k = length rest) \/
     (j < k /\ (exists b, nth_error rest j = Some b /\ is_nl b = false) /\
      (k < length rest -> exists c ls, nth_error rest k = Some c /\ is_nl c = true /\
                                       closed (firstn (k - j) (skipn j rest)) ls c))).
Proof.
  induction fuel as [|fuel IH]; intros rest adv start Hf Hne; [lia|].
  destruct rest as [|b r]; [congruence|].
  destruct (is_nl b) eqn:Hb.
  - (* a blank line *)
    cbn [split_loop].
    destruct (ni_first_nl b r Hb) as [Hi Hel].
    pose proof (ni_term_all_nl b r Hb) as Hall.
    pose proof (newline_index_bounds (b :: r)) as Hbd.
    destruct (newline_index (b :: r)) as [i el]. cbn [fst snd] in *. subst i. cbn [Nat.eqb plus].
    destruct (skipn el (b :: r)) as [|c rest'] eqn:Es.
    + exists el, el. split; [reflexivity|].
      assert (length (b :: r) <= el).
      { pose proof (skipn_length el (b :: r)) as Hl. rewrite Es in Hl. cbn [length] in Hl |- *. lia. }
      split; [lia|]. split; [lia|]. split; [exact Hall|]. left. split; lia.
    + cbn [Nat.ltb Nat.leb]. rewrite Bool.andb_false_r.
      assert (Hlen' : length (c :: rest') = length (b :: r) - el) by (rewrite <- Es; apply skipn_length).
      destruct (IH (c :: rest') (el + adv) (el + start) ltac:(lia) ltac:(discriminate))
        as (j' & k' & Hs & Hjk & Hk0 & Hnl & Hcase).
      exists (el + j'), (el + k'). split; [rewrite Hs; f_equal; f_equal; lia|].
      split; [lia|]. split; [lia|]. split.
      * rewrite firstn_add, Es. apply Forall_app. split; assumption.
      * destruct Hcase as [[-> ->]|(Hlt & (b' & Hb' & Hbn') & Hcl)]; [left; split; lia|right].
        split; [lia|]. split.
        -- exists b'. split; [|exact Hbn']. rewrite <- Es, nth_error_skipn in Hb'. exact Hb'.
        -- intros Hk. destruct Hcl as (c' & ls & Hn' & Hcn' & Hcl'); [lia|].
           exists c', ls. split; [|split; [exact Hcn'|]].
           ++ rewrite <- Es, nth_error_skipn in Hn'. exact Hn'.
           ++ replace (el + k' - (el + j')) with (k' - j') by lia.
              replace (skipn (el + j') (b :: r)) with (skipn j' (c :: rest')); [exact Hcl'|].
              rewrite <- Es, skipn_add. reflexivity.
  - (* the first non-blank line *)
    destruct (split_loop_lines (S fuel) (b :: r) adv start b r Hf eq_refl Hb) as (k & Hs & Hk & Hc).
    exists 0, k. split; [exact Hs|]. split; [lia|]. split; [lia|]. split; [constructor|]. right.
    split; [lia|]. split; [exists b; split; [reflexivity|exact Hb]|].
    rewrite Nat.sub_0_r. exact Hc.
Qed.

(* ---- split_func ---------------------------------------------------------------------------------------- *)
Lemma firstn_succ_nth {A} (l : list A) n c : nth_error l n = Some c -> firstn (S n) l = firstn n l ++ [c].
Proof.
  revert l; induction n as [|n IH]; intros [|a l]; cbn [nth_error]; try discriminate.
  - now intros [= ->].
  - intros H. change (firstn (S (S n)) (a :: l)) with (a :: firstn (S n) l). rewrite (IH l H). reflexivity.
Qed.

Lemma wlines_nl_single c : is_nl c = true -> wlines [c] = ([[]], []).
Proof. intros H. rewrite (wlines_nl c [] H). reflexivity. Qed.

Lemma wlines_crlf : wlines [CR; LF] = ([[]], []).
Proof. reflexivity. Qed.

Theorem split_func_fuel_ok data at_eof : split_func data at_eof <> SplitOutOfFuel.
Proof.
  unfold split_func. destruct data as [|b r]; [discriminate|].
  destruct (split_loop_spec (S (length (b :: r))) (b :: r) 0 0 ltac:(lia) ltac:(discriminate)) as (j & k & Hs & _).
  rewrite Hs. destruct (_ && _); discriminate.
Qed.

Theorem split_func_eof data : data <> [] -> split_func data true <> SplitMore.
Proof.
  unfold split_func. destruct data as [|b r]; [congruence|]. intros _.
  destruct (split_loop_spec (S (length (b :: r))) (b :: r) 0 0 ltac:(lia) ltac:(discriminate)) as (j & k & Hs & _).
  rewrite Hs. rewrite Bool.andb_false_r. discriminate.
Qed.

(* the advance after the loop: one more byte (two for CR LF) when the loop stopped inside the data *)
Definition final_advance (data : bytes) (k : nat) : nat :=
  let l := length data in
  if k <? l then
    let a := S k in
    if (a <? l) && (nth (a - 1) data 0%N =? CR)%N && (nth a data 0%N =? LF)%N then S a else a
  else k.

Lemma split_func_unfold data at_eof : data <> [] ->
  exists j k, j <= k <= length data /\ 0 < k /\ all_nl (firstn j data) /\
    ((j = k /\ k = length data) \/
     (j < k /\ (exists b, nth_error data j = Some b /\ is_nl b = false) /\
      (k < length data -> exists c ls, nth_error data k = Some c /\ is_nl c = true /\
                                       closed (firstn (k - j) (skipn j data)) ls c))) /\
    split_func data at_eof =
      if (k =? length data) && negb at_eof then SplitMore
      else SplitTok (final_advance data k) (firstn (final_advance data k - j) (skipn j data)).
Proof.
  intros Hne.
  destruct (split_loop_spec (S (length data)) data 0 0 ltac:(lia) Hne) as (j & k & Hs & Hjk & Hk0 & Hnl & Hcase).
  exists j, k. repeat split; try lia; try assumption.
  unfold split_func. destruct data as [|b r]; [congruence|].
  rewrite Hs, !Nat.add_0_r. reflexivity.
Qed.

Lemma final_advance_bounds data k : 0 < k <= length data ->
  k <= final_advance data k <= length data /\ (k < length data -> k < final_advance data k).
Proof.
  intros Hk. unfold final_advance.
  destruct (k <? length data) eqn:E.
  - apply Nat.ltb_lt in E.
    destruct (S k <? length data) eqn:E2; cbn [andb].
    + apply Nat.ltb_lt in E2. destruct (_ && _); lia.
    + lia.
  - apply Nat.ltb_ge in E. lia.
Qed.

Theorem split_func_tok data at_eof adv tok :
  split_func data at_eof = SplitTok adv tok ->
  exists nls, firstn adv data = nls ++ tok /\ all_nl nls /\ 0 < adv <= length data /\
              (tok = [] \/ exists b t, tok = b :: t /\ is_nl b = false) /\
              ((length tok =? adv) = true <-> nls = []).
Proof.
  intros H. assert (Hne : data <> []) by (intros ->; discriminate).
  destruct (split_func_unfold data at_eof Hne) as (j & k & Hjk & Hk0 & Hnl & Hcase & Heq).
  rewrite Heq in H. destruct ((k =? length data) && negb at_eof); [discriminate|].
  injection H as <- <-.
  destruct (final_advance_bounds data k ltac:(lia)) as [Hfa Hfa'].
  set (a := final_advance data k) in *.
  exists (firstn j data). split.
  - replace a with (j + (a - j)) at 1 by lia. apply firstn_add.
  - split; [exact Hnl|]. split; [lia|].
    assert (Hlen : length (firstn (a - j) (skipn j data)) = a - j).
    { rewrite firstn_length, skipn_length. lia. }
    split.
    + destruct Hcase as [[-> ->]|(Hlt & (b & Hb & Hbn) & _)].
      * left. replace (a - length data) with 0 by lia. reflexivity.
      * right. rewrite <- (Nat.add_0_r j), <- nth_error_skipn in Hb.
        destruct (skipn j data) as [|b' t] eqn:Es; [discriminate|]. cbn in Hb. injection Hb as ->.
        replace (a - j) with (S (a - j - 1)) by lia. cbn [firstn]. eauto.
    + rewrite Hlen. split.
      * intros E. apply Nat.eqb_eq in E. assert (j = 0) as -> by lia. reflexivity.
      * intros E. apply Nat.eqb_eq. destruct j; [lia|]. destruct data; [congruence|discriminate].
Qed.

Theorem split_func_shape data at_eof adv tok :
  split_func data at_eof = SplitTok adv tok ->
  adv < length data \/ at_eof = false ->
  exists ls, wlines tok = (ls ++ [[]], []).
Proof.
  intros H Hmid. assert (Hne : data <> []) by (intros ->; discriminate).
  destruct (split_func_unfold data at_eof Hne) as (j & k & Hjk & Hk0 & Hnl & Hcase & Heq).
  rewrite Heq in H. destruct ((k =? length data) && negb at_eof) eqn:Em; [discriminate|].
  injection H as <- <-.
  destruct (final_advance_bounds data k ltac:(lia)) as [Hfa Hfa'].
  assert (Hk : k < length data).
  { destruct Hmid as [Hm| ->]; [lia|]. rewrite Bool.andb_true_r in Em. apply Nat.eqb_neq in Em. lia. }
  destruct Hcase as [[_ ->]|(Hlt & _ & Hcl)]; [lia|].
  destruct (Hcl Hk) as (c & ls & Hc & Hcn & Hclosed). exists ls.
  unfold final_advance. assert (E : k <? length data = true) by (apply Nat.ltb_lt; lia). rewrite E.
  replace (S k - 1) with k by lia.
  assert (Hck : nth k data 0%N = c) by (apply nth_error_nth; exact Hc).
  assert (Hcs : nth_error (skipn j data) (k - j) = Some c).
  { rewrite nth_error_skipn. replace (j + (k - j)) with k by lia. exact Hc. }
  destruct ((S k <? length data) && (nth k data 0%N =? CR)%N && (nth (S k) data 0%N =? LF)%N) eqn:E2.
  - apply andb_true_iff in E2 as [E2 E4]. apply andb_true_iff in E2 as [E2 E3].
    apply Nat.ltb_lt in E2. apply N.eqb_eq in E3, E4. rewrite Hck in E3. subst c.
    assert (Hlf : nth_error (skipn j data) (S (k - j)) = Some LF).
    { rewrite nth_error_skipn. replace (j + S (k - j)) with (S k) by lia.
      rewrite <- E4. apply nth_error_nth'. lia. }
    replace (S (S k) - j) with (S (S (k - j))) by lia.
    rewrite (firstn_succ_nth _ _ _ Hlf), (firstn_succ_nth _ _ _ Hcs), <- app_assoc. cbn [app].
    rewrite Hclosed. rewrite ?E3. rewrite wlines_crlf. reflexivity.
  - replace (S k - j) with (S (k - j)) by lia.
    rewrite (firstn_succ_nth _ _ _ Hcs). rewrite Hclosed, (wlines_nl_single c Hcn). reflexivity.
Qed.
