(* parser_fields: Parser.Next, called until it returns false, hands out exactly the fields of the lines of a
   tokenisation of the input, and Parser.Err() is then the end condition of the specification - for every
   reader script whose groups fit the limit B = max(cap(buf), maxTokenSize).  This is the glue between
   FieldParser (fp_next_fuel_lines, per token), the scanner (scan_spec2, per Scan call) and the read loop
   (read_loop_pf), including the first token's BOM handling (the D7 wrapper around splitFunc). *)
From GoSse Require Import Base Lines FieldParser Whatwg WhatwgLines Split Scanner Reader ReadLoop Yields
     LineStepProofs ReadLoopProofs SplitProofs ScannerProofs PathProofs FieldLinesProofs ParserSizeProofs RunParse
     GroupProofs ScanMoreProofs.
From GoSse.Gen Require Import Params.
From Coq Require Import ZifyN ZifyNat ZifyBool.
Local Open Scope nat_scope.

(* ---- the field parser's flags ---------------------------------------------------------------------------- *)
Lemma fp_next_fuel_pres fuel : forall f o f', fp_next_fuel fuel f = (o, f') ->
  fp_keep_comments f' = fp_keep_comments f /\ fp_remove_bom f' = fp_remove_bom f /\
  (fp_started f = true -> fp_started f' = true) /\
  (fp_data f <> [] -> 0 < fuel -> fp_started f' = true).
Proof.
  induction fuel as [|fuel IH]; intros f o f' H; cbn [fp_next_fuel] in H.
  - injection H as <- <-. repeat split; auto. lia.
  - destruct (fp_data f) as [|b d] eqn:Ed.
    + injection H as <- <-. repeat split; auto; congruence.
    + destruct (next_chunk (b :: d)) as [[chunk rem] has_nl]. destruct has_nl.
      * destruct (scan_segment (fp_keep_comments f) chunk).
        -- injection H as <- <-. cbn. repeat split; auto.
        -- apply IH in H. cbn [fp_keep_comments fp_remove_bom fp_started fp_data] in H. destruct H as (H1 & H2 & H3 & _).
           repeat split; auto.
      * injection H as <- <-. cbn. repeat split; auto.
Qed.

Lemma set_remove_bom_false f :
  fp_set_remove_bom f false = mkfp (fp_data f) (fp_err f) (fp_started f) (fp_keep_comments f) false.
Proof. reflexivity. Qed.

Lemma fp_reset_plain f tok : fp_remove_bom f = false -> fp_reset f tok = mkfp tok false false (fp_keep_comments f) false.
Proof. intros H. unfold fp_reset, do_remove_bom. cbn [fp_remove_bom fp_started fp_data]. rewrite H. reflexivity. Qed.

(* ---- Parser.Next, one step ----------------------------------------------------------------------------------- *)
Definition p_with_fp (p : parser) (f : fp) : parser := mkp (p_sc p) (p_rd p) f (p_first p) (p_sc_nil p).

Definition after_token (p : parser) (first' : bool) (f'' : fp) (sc' : scanner) (rd' : reader) : parser :=
  mkp sc' rd' (fp_reset (if fp_started f'' then fp_set_remove_bom f'' false else f'')
                        (match sc_token sc' with Some t => t | None => [] end)) first' (p_sc_nil p).

Lemma parser_next_fuel_S n p :
  parser_next_fuel (S n) p =
  match fp_next (p_fp p) with
  | (Some fld, f') => (NextField fld, p_with_fp p f')
  | (None, f') =>
      let '(out, (first', f''), sc', rd') := scan parser_split (p_first p, f') (p_sc p) (p_rd p) in
      match out with
      | ScanTrue => parser_next_fuel n (after_token p first' f'' sc' rd')
      | ScanFalse => (NextFalse, mkp sc' rd' f'' first' (match sc_error sc' with None => true | Some _ => p_sc_nil p end))
      | ScanPanic => (NextPanic, mkp sc' rd' f'' first' (p_sc_nil p))
      | ScanOutOfFuel => (NextOutOfFuel, mkp sc' rd' f'' first' (p_sc_nil p))
      end
  end.
Proof. reflexivity. Qed.

Lemma parser_next_field p fld f' : fp_next (p_fp p) = (Some fld, f') -> parser_next p = (NextField fld, p_with_fp p f').
Proof. intros H. unfold parser_next, parser_fuel. rewrite parser_next_fuel_S, H. reflexivity. Qed.

Lemma parser_next_scan p f' : fp_next (p_fp p) = (None, f') ->
  parser_next p =
  let '(out, (first', f''), sc', rd') := scan parser_split (p_first p, f') (p_sc p) (p_rd p) in
  match out with
  | ScanTrue => parser_next_fuel (S (S (length (sc_data (p_sc p)) + rd_rest (p_rd p)))) (after_token p first' f'' sc' rd')
  | ScanFalse => (NextFalse, mkp sc' rd' f'' first' (match sc_error sc' with None => true | Some _ => p_sc_nil p end))
  | ScanPanic => (NextPanic, mkp sc' rd' f'' first' (p_sc_nil p))
  | ScanOutOfFuel => (NextOutOfFuel, mkp sc' rd' f'' first' (p_sc_nil p))
  end.
Proof. intros H. unfold parser_next, parser_fuel. rewrite parser_next_fuel_S, H. reflexivity. Qed.

(* the fuel does not matter once it suffices *)
Lemma parser_next_fuel_mono n : forall p m out p',
  parser_next_fuel n p = (out, p') -> out <> NextOutOfFuel -> n <= m -> parser_next_fuel m p = (out, p').
Proof.
  induction n as [|n IH]; intros p m out p' H Ho Hm.
  - cbn in H. injection H as <- _. congruence.
  - destruct m as [|m]; [lia|]. rewrite parser_next_fuel_S in *.
    destruct (fp_next (p_fp p)) as [[fld|] f']; [exact H|].
    destruct (scan parser_split (p_first p, f') (p_sc p) (p_rd p)) as [[[o [first' f'']] sc'] rd'].
    destruct o; try exact H. apply IH; [exact H|exact Ho|lia].
Qed.

Lemma parser_next_any_fuel B p n :
  sc_inv B (p_sc p) (p_rd p) -> length (p_rest p) + 2 <= n -> parser_next_fuel n p = parser_next p.
Proof.
  intros Hinv Hn. pose proof (parser_next_spec B p Hinv) as Hpost.
  destruct (parser_next p) as [out p'] eqn:E. unfold parser_next in E.
  destruct (Nat.le_ge_cases (parser_fuel p) n) as [Hle|Hge].
  - apply (parser_next_fuel_mono _ _ _ _ _ E); [|exact Hle]. intros ->. exact Hpost.
  - pose proof (parser_next_fuel_spec B n p Hinv Hn) as Hpost2.
    destruct (parser_next_fuel n p) as [o2 p2] eqn:E2.
    rewrite <- E. symmetry. apply (parser_next_fuel_mono _ _ _ _ _ E2); [|exact Hge]. intros ->. exact Hpost2.
Qed.

Lemma pf_run_eq p p1 fs err : parser_next p = parser_next p1 -> pf_run p1 fs err -> pf_run p fs err.
Proof.
  intros E H. destruct H as [p1 f p' fs err Hn Hr|p1 p' Hn].
  - eapply pf_field; [rewrite E; exact Hn|exact Hr].
  - apply pf_end. rewrite E. exact Hn.
Qed.

(* Parser.Err() once the scanner has reported the end of the input *)
Lemma parser_err_end e sc' rd' f first nil0 tl :
  ending_ok e -> sc_err sc' = Some (end_serr e) -> nil0 = false -> fp_err f = nonempty tl ->
  parser_err (mkp sc' rd' f first (match sc_error sc' with None => true | Some _ => nil0 end)) = end_err tl e.
Proof.
  intros He Hs -> Hf. unfold parser_err, sc_error. cbn [p_sc_nil p_sc p_fp]. rewrite Hs, Hf.
  destruct e as [|x]; cbn [end_serr end_err].
  - destruct tl; reflexivity.
  - assert (x <> EEOF) by (intros ->; now apply He). destruct x; try congruence; reflexivity.
Qed.

(* ---- tokenisations -------------------------------------------------------------------------------------------- *)
Definition shape (tok : bytes) : Prop := exists ls, wlines tok = (ls ++ [[]], []).

Lemma fields_of_app a b : fields_of (a ++ b) = fields_of a ++ fields_of b.
Proof. unfold fields_of. apply flat_map_app. Qed.

Lemma toks_nil_inv0 R LS tl : toks R LS tl -> R = [] -> LS = [] /\ tl = [].
Proof.
  intros H. destruct H as [|nls tok ls tl Hnl Hh Hw|nls tok ls R' LS tl Hnl Hh Hw Ht]; intros ER.
  - auto.
  - apply app_eq_nil in ER as [_ ->]. cbn in Hw. injection Hw as <- <-. auto.
  - apply app_eq_nil in ER as [_ ER]. apply app_eq_nil in ER as [-> _]. cbn in Hw.
    injection Hw as Hw. destruct ls; discriminate.
Qed.

Lemma toks_nil_inv LS tl : toks [] LS tl -> LS = [] /\ tl = [].
Proof. intros H. now apply (toks_nil_inv0 [] LS tl H). Qed.

Lemma toks_step nls tok R' ls1 tl1 LS1 tl : all_nl nls -> headok tok -> wlines tok = (ls1, tl1) ->
  (shape tok \/ R' = []) -> (tl1 = [] -> toks R' LS1 tl) -> (tl1 <> [] -> LS1 = [] /\ tl = tl1) ->
  toks (nls ++ tok ++ R') (ls1 ++ LS1) tl.
Proof.
  intros Hnl Hh Hw [[ls Hs]| ->] H1 H2.
  - rewrite Hw in Hs. injection Hs as -> ->. apply toks_mid; auto.
  - rewrite app_nil_r. destruct tl1 as [|x t].
    + destruct (toks_nil_inv _ _ (H1 eq_refl)) as [-> ->]. rewrite app_nil_r. now apply toks_last.
    + destruct (H2 ltac:(discriminate)) as [-> ->]. rewrite app_nil_r. now apply toks_last.
Qed.

Lemma shape_of_mid R n0 eof adv tok : n0 <= length R ->
  split_func (firstn n0 R) eof = SplitTok adv tok -> adv < n0 \/ eof = false -> shape tok.
Proof.
  intros Hn Hsf Hm. apply (split_func_shape _ _ _ _ Hsf). rewrite firstn_length_le by exact Hn. exact Hm.
Qed.

(* ---- the state of the parser between two fields ------------------------------------------------------------- *)
(* the reader has ended and everything is consumed: the next Scan reports the end *)
Definition last_state (p : parser) : Prop := p_rest p = [] /\ sc_err (p_sc p) <> None.
(* by the next Scan, RemoveBOM will be off *)
Definition bom_off (f : fp) : Prop := fp_remove_bom f = false \/ fp_started f = true \/ fp_data f <> [].

Definition pcond (B : N) (e : ending) (p : parser) : Prop :=
  sc_inv B (p_sc p) (p_rd p) /\ sc_inv2 B (p_sc p) /\ rd_ending (p_rd p) = e /\ p_first p = false /\ p_sc_nil p = false /\
  fp_keep_comments (p_fp p) = false /\ fp_err (p_fp p) = false /\ (bom_off (p_fp p) \/ last_state p).

(* the parser after a token, with the field parser reset to [f4] *)
Lemma pcond_after B e sc' rd' f4 :
  sc_inv B sc' rd' -> sc_inv2 B sc' -> rd_ending rd' = e ->
  fp_keep_comments f4 = false -> fp_err f4 = false -> (bom_off f4 \/ (rest_of sc' rd' = [] /\ sc_err sc' <> None)) ->
  pcond B e (mkp sc' rd' f4 false false).
Proof.
  intros Hinv Hi2 Hend Hk Hferr Hb.
  unfold pcond, last_state, p_rest. cbn [p_sc p_rd p_fp p_first p_sc_nil].
  split; [exact Hinv|]. split; [exact Hi2|]. split; [exact Hend|]. split; [reflexivity|]. split; [reflexivity|].
  split; [exact Hk|]. split; [exact Hferr|exact Hb].
Qed.

(* ---- how a run ends with ErrTooLong ------------------------------------------------------------------------------ *)
(* the first B bytes of the unconsumed input are buffered and splitFunc finds no complete group in them *)
Definition toolong_at (B : N) (R : bytes) : Prop :=
  length (firstn (N.to_nat B) R) = N.to_nat B /\
  (firstn (N.to_nat B) R = [] \/ split_func (firstn (N.to_nat B) R) false = SplitMore).

(* [tpath B R P]: tokens, each cut by splitFunc from a prefix of at most B bytes and each complete, consume the
   prefix P of R; then ErrTooLong *)
Inductive tpath (B : N) : bytes -> bytes -> Prop :=
| tp_here R : toolong_at B R -> tpath B R []
| tp_tok R n0 eof adv tok P' :
    n0 <= length R -> (N.of_nat n0 <= B)%N -> split_func (firstn n0 R) eof = SplitTok adv tok ->
    adv < n0 \/ eof = false -> tpath B (skipn adv R) P' -> tpath B R (firstn adv R ++ P').

Lemma tpath_prefix B R P : tpath B R P -> exists R1, R = P ++ R1.
Proof.
  induction 1 as [R _|R n0 eof adv tok P' _ _ _ _ _ [R1 IH]].
  - exists R. reflexivity.
  - exists R1. rewrite <- app_assoc, <- IH. symmetry. apply firstn_skipn.
Qed.

(* under the limit no run ends with ErrTooLong *)
Lemma fits_tpath B R P : tpath B R P -> forall o, fits_from B R o -> False.
Proof.
  induction 1 as [R [Hlen Hmore]|R n0 eof adv tok P' Hn0 HnB Hsf Hm _ IH]; intros o Hfit.
  - apply (fits_no_toolong B R o (N.to_nat B) Hfit); [apply N2Nat.id|exact Hlen|exact Hmore].
  - apply (IH (o + N.of_nat adv)%N). eapply fits_tok; [exact Hfit|exact Hsf|].
    rewrite firstn_length_le by exact Hn0. exact Hm.
Qed.

(* Parser.Err() after ErrTooLong *)
Lemma parser_err_toolong sc' rd' f first :
  sc_err sc' = Some ETooLong ->
  parser_err (mkp sc' rd' f first (match sc_error sc' with None => true | Some _ => false end)) = Some ETooLong.
Proof. intros Hs. unfold parser_err, sc_error. cbn [p_sc_nil p_sc p_fp]. rewrite Hs. reflexivity. Qed.

(* ---- all tokens but the first ---------------------------------------------------------------------------------- *)
(* either the input is consumed to its end - the fields are those of a tokenisation of the rest, Parser.Err() is
   the end condition - or tokens consume a prefix and the next Scan reports ErrTooLong *)
Definition pf_result (B : N) (e : ending) (p : parser) (ls0 : list bytes) (tl0 : bytes) : Prop :=
  (exists LS tl, pf_run p (fields_of ls0 ++ fields_of LS) (end_err tl e) /\
     (tl0 = [] -> toks (p_rest p) LS tl) /\ (tl0 <> [] -> LS = [] /\ tl = tl0) /\ cpath B (p_rest p)) \/
  (exists LS P, pf_run p (fields_of ls0 ++ fields_of LS) (Some ETooLong) /\ tl0 = [] /\ ~ last_state p /\
     tpath B (p_rest p) P /\ toks P LS []).

Lemma pf_tokens B e : ending_ok e -> forall n p ls0 tl0,
  length (fp_data (p_fp p)) + 2 * length (p_rest p) < n ->
  pcond B e p -> wlines (fp_data (p_fp p)) = (ls0, tl0) -> (tl0 <> [] -> last_state p) ->
  pf_result B e p ls0 tl0.
Proof.
  intros He. induction n as [|n IH]; intros p ls0 tl0 Hn Hc Hw Htl; [lia|].
  destruct Hc as (Hinv & Hi2 & Hend & Hfirst & Hnil & Hkeep & Hferr & Hbom).
  pose proof (fp_next_fuel_lines (length (fp_data (p_fp p))) (p_fp p) ls0 tl0 Hkeep Hw (le_n _)) as Hfl.
  unfold pf_result. rewrite (fields_of_first ls0).
  destruct (first_field ls0) as [[fld ls']|].
  - (* a field of the current token *)
    destruct Hfl as (f' & Hnext & Hw' & Hk' & He' & Hlen').
    destruct (fp_next_fuel_pres _ _ _ _ Hnext) as (_ & Hrb & Hst1 & Hst2).
    pose proof (parser_next_field p fld f' Hnext) as Hpn.
    destruct (IH (p_with_fp p f') ls' tl0) as [(LS & tl & Hrun & Ht1 & Ht2 & Hcp)|(LS & P & Hrun & Ht0 & Hnl0 & Hpath & Htoks)].
    + clear - Hn Hlen'. unfold p_with_fp, p_rest in *. cbn [p_fp p_sc p_rd]. lia.
    + unfold pcond, p_with_fp, last_state, p_rest in *. cbn [p_fp p_sc p_rd p_first p_sc_nil].
      split; [exact Hinv|]. split; [exact Hi2|]. split; [exact Hend|]. split; [exact Hfirst|]. split; [exact Hnil|].
      split; [exact Hk'|]. split; [congruence|].
      destruct Hbom as [Hb|Hl]; [left|right; exact Hl].
      destruct Hb as [Hb|[Hb|Hb]]; [left; congruence|right; left; auto|right; left].
      apply Hst2; [exact Hb|]. destruct (fp_data (p_fp p)); [congruence|cbn [length]; apply Nat.lt_0_succ].
    + exact Hw'.
    + exact Htl.
    + left. exists LS, tl. split; [|split; [assumption|split; assumption]]. cbn [app]. eapply pf_field; eassumption.
    + right. exists LS, P. split; [cbn [app]; eapply pf_field; eassumption|].
      split; [exact Ht0|]. split; [exact Hnl0|]. split; [exact Hpath|exact Htoks].
  - (* the current token is exhausted: Scan *)
    destruct Hfl as (f' & Hnext & Herr').
    destruct (fp_next_fuel_pres _ _ _ _ Hnext) as (Hk' & Hrb & Hst1 & Hst2).
    pose proof (parser_next_scan p f' Hnext) as Hpn.
    pose proof (scan_spec2 B (p_first p, f') (p_sc p) (p_rd p) Hinv Hi2) as Hpost.
    destruct (scan parser_split (p_first p, f') (p_sc p) (p_rd p)) as [[[out [first' f'']] sc'] rd'].
    unfold scan_post2, scan_post2' in Hpost. fold (p_rest p) in Hpost. destruct Hpost as (Hend' & Hpost).
    cbn [app].
    destruct out; [| |contradiction|contradiction].
    + (* a token *)
      destruct Hpost as (Hinv' & Hi2' & n0 & eof & adv & tok & nls & Hn0 & HnB & Heof & Hsf & Htok & Hrest' & Hfa &
                         Hnl & Hh & Hadv & HD & Hst).
      rewrite Hfirst in Hst. cbn [upd_split] in Hst. injection Hst as -> ->.
      assert (Hnl0 : ~ last_state p).
      { intros [Hr _]. rewrite Hr, firstn_nil in Hsf. discriminate. }
      assert (Htl0 : tl0 = []) by (destruct tl0; [reflexivity|exfalso; apply Hnl0, Htl; discriminate]).
      destruct Hbom as [Hb|Hl]; [|contradiction].
      assert (H3 : fp_remove_bom (if fp_started f' then fp_set_remove_bom f' false else f') = false /\
                   fp_keep_comments (if fp_started f' then fp_set_remove_bom f' false else f') = false).
      { destruct (fp_started f') eqn:Es.
        - rewrite set_remove_bom_false. cbn [fp_remove_bom fp_keep_comments]. split; [reflexivity|congruence].
        - split; [|congruence]. destruct Hb as [Hb|[Hb|Hb]]; [congruence|discriminate (Hst1 Hb)|].
          assert (Hpos : 0 < length (fp_data (p_fp p))) by (destruct (fp_data (p_fp p)); [congruence|cbn [length]; apply Nat.lt_0_succ]).
          discriminate (Hst2 Hb Hpos). }
      destruct H3 as [H3a H3b].
      set (p1 := mkp sc' rd' (mkfp tok false false false false) false false).
      assert (Hat : after_token p false f' sc' rd' = p1).
      { unfold after_token, p1. rewrite Htok, (fp_reset_plain _ _ H3a), H3b, Hnil. reflexivity. }
      rewrite Hat in Hpn.
      assert (HR : p_rest p = nls ++ tok ++ skipn adv (p_rest p)).
      { rewrite app_assoc, <- Hfa. symmetry. apply firstn_skipn. }
      assert (Hlens : length nls + length tok = adv).
      { rewrite <- app_length, <- Hfa, firstn_length. clear - Hadv Hn0. lia. }
      assert (HlR : length (p_rest p) = length (sc_data (p_sc p)) + rd_rest (p_rd p)) by apply app_length.
      assert (HlR' : length (skipn adv (p_rest p)) = length (p_rest p) - adv) by apply skipn_length.
      assert (Hp1r : p_rest p1 = skipn adv (p_rest p)) by exact Hrest'.
      rewrite (parser_next_any_fuel B p1) in Hpn; [|exact Hinv'|rewrite Hp1r; clear - HlR HlR'; lia].
      destruct (wlines tok) as [ls1 tl1] eqn:Hw1.
      assert (Hc1 : pcond B e p1).
      { apply (pcond_after B e sc' rd'); try assumption; try reflexivity; try congruence. left. left. reflexivity. }
      assert (Htl1 : tl1 <> [] -> last_state p1).
      { intros Hne. destruct HD as [Hm|Hl]; [|exact Hl]. exfalso.
        destruct (shape_of_mid _ _ _ _ _ Hn0 Hsf Hm) as [ls Hs]. rewrite Hw1 in Hs. injection Hs as _ Hs. congruence. }
      destruct (IH p1 ls1 tl1) as [(LS1 & tl & Hrun & Ht1 & Ht2 & Hcp)|(LS1 & P' & Hrun & Ht0 & Hnl1 & Hpath & Htoks)].
      * unfold p1 at 1. cbn [p_fp fp_data]. rewrite Hp1r. clear - Hn HlR' Hlens Hadv Hn0. lia.
      * exact Hc1.
      * exact Hw1.
      * exact Htl1.
      * left. exists (ls1 ++ LS1), tl. rewrite fields_of_app. split; [eapply pf_run_eq; eassumption|].
        split; [|split; [intros Hne; contradiction|]].
        2:{ rewrite Hp1r in Hcp. exact (cp_tok B _ n0 eof adv tok Hn0 HnB Heof Hsf Hcp). }
        intros _. rewrite HR. apply (toks_step nls tok _ ls1 tl1 LS1 tl Hnl Hh Hw1).
        -- destruct HD as [Hm|[Hl _]]; [left; exact (shape_of_mid _ _ _ _ _ Hn0 Hsf Hm)|right]. rewrite <- Hrest'. exact Hl.
        -- intros E. rewrite <- Hp1r. exact (Ht1 E).
        -- exact Ht2.
      * (* ErrTooLong later *)
        destruct HD as [Hm|Hl]; [|contradiction].
        right. exists (ls1 ++ LS1), (firstn adv (p_rest p) ++ P'). rewrite fields_of_app.
        split; [eapply pf_run_eq; eassumption|]. split; [exact Htl0|]. split; [exact Hnl0|]. split.
        -- rewrite Hp1r in Hpath. exact (tp_tok B _ n0 eof adv tok P' Hn0 HnB Hsf Hm Hpath).
        -- rewrite Hfa, <- app_assoc.
           destruct (shape_of_mid _ _ _ _ _ Hn0 Hsf Hm) as [ls Hs]. rewrite Hw1 in Hs. injection Hs as -> ->.
           apply toks_mid; auto.
    + (* no token *)
      destruct Hpost as (Hst & Hcase). rewrite Hfirst in Hst. injection Hst as -> ->.
      destruct Hcase as [(Hne & Htoo & Hlen & Hmore)|(HR & Herr2 & Hrest2 & HB0)].
      * (* ErrTooLong *)
        assert (Hnl0 : ~ last_state p) by (intros [_ Hl]; contradiction).
        assert (Htl0 : tl0 = []) by (destruct tl0; [reflexivity|exfalso; apply Hnl0, Htl; discriminate]).
        right. exists [], []. cbn [fields_of flat_map].
        assert (Hse : sc_error sc' = Some ETooLong) by (unfold sc_error; rewrite Htoo; reflexivity).
        rewrite Hse, Hnil in Hpn.
        pose proof (parser_err_toolong sc' rd' f' false Htoo) as Hpe. rewrite Hse in Hpe.
        split; [rewrite <- Hpe; apply pf_end; exact Hpn|]. split; [exact Htl0|]. split; [exact Hnl0|].
        split; [apply tp_here; split; assumption|constructor].
      * left. exists [], tl0. cbn [fields_of flat_map].
        rewrite Hend in Herr2.
        pose proof (parser_err_end e sc' rd' f' false (p_sc_nil p) tl0 He Herr2 Hnil) as Hpe.
        rewrite <- Hpe by (rewrite Herr', Hferr; reflexivity).
        split; [apply pf_end; exact Hpn|]. split; [|split; [auto|rewrite HR; constructor]].
        intros ->. rewrite HR. constructor.
Qed.
