(* Lemmas about the Connect model, part 2: one attempt.  [attempt_step] is the body of the loop of
   [connect_loop] as a function of its own; the facts below are everything the whole-run theorems
   need to know about a single attempt. *)
From Coq Require Import ZifyBool ZifyNat.
From GoSse Require Import Base Whatwg Backoff BackoffProofs Connect ConnectProofs.
From GoSse.Gen Require Import Params.
Local Open Scope Z_scope.

(* ---- Connection.read over the yields of a stream ------------------------------------------------- *)
Definition last_id_of (lid : bytes) (ys : list yield) : bytes :=
  fold_left (fun l y => match y with YEv e => ev_id e | _ => l end) ys lid.

Definition bc_fold (b : backoff) (c : bctl) (ys : list yield) : bctl :=
  fold_left (fun c y => match y with YRetry ms => bc_reset b c (ms_to_ns (Z.of_N ms)) | _ => c end) ys c.

Lemma read_stream_structure b ys : forall s e,
  no_err ys ->
  exists s',
    read_stream b s (ys ++ [YErr e]) = (s', map TEvent (events_of ys), Some e) /\
    cs_last_id s' = last_id_of (cs_last_id s) ys /\
    cs_bc s' = bc_fold b (cs_bc s) ys /\
    cs_is_retry s' = cs_is_retry s /\ cs_hdr s' = cs_hdr s /\ cs_body s' = cs_body s /\
    cs_gb_calls s' = cs_gb_calls s.
Proof.
  induction ys as [|y ys IH]; intros s e Hn.
  - exists s. cbn. repeat split; reflexivity.
  - assert (Hn' : no_err ys) by (intros e' Hin; apply (Hn e'); now right).
    destruct y as [ev|ms|err].
    + destruct (IH (cs_with_id s (ev_id ev)) e Hn') as (s' & Hr & H1 & H2 & H3 & H4 & H5 & H6).
      exists s'. cbn [app read_stream]. rewrite Hr. cbn [events_of flat_map app map].
      repeat split; assumption.
    + destruct (IH (cs_with_bc s (bc_reset b (cs_bc s) (ms_to_ns (Z.of_N ms)))) e Hn')
        as (s' & Hr & H1 & H2 & H3 & H4 & H5 & H6).
      exists s'. cbn [app read_stream]. rewrite Hr. cbn [events_of flat_map app map].
      repeat split; assumption.
    + exfalso. apply (Hn err). now left.
Qed.

Lemma events_of_app a b : events_of (a ++ b) = events_of a ++ events_of b.
Proof. unfold events_of. apply flat_map_app. Qed.

Lemma last_id_of_events lid ys :
  last_id_of lid ys = match rev (events_of ys) with e :: _ => ev_id e | [] => lid end.
Proof.
  revert lid. induction ys as [|y ys IH] using rev_ind; intros lid; [reflexivity|].
  unfold last_id_of. rewrite fold_left_app. cbn [fold_left]. fold (last_id_of lid ys).
  rewrite events_of_app, rev_app_distr.
  destruct y as [ev|ms|err]; cbn [events_of flat_map app rev]; try (rewrite IH; reflexivity).
  reflexivity.
Qed.

(* the controller after the retry fields of a stream = the controller after the hops [retries_of] *)
Lemma bc_fold_run b ys : forall c,
  bc_run_from b c (retries_of ys) = (bc_fold b c ys, []).
Proof.
  induction ys as [|y ys IH]; intros c; [reflexivity|].
  destruct y as [ev|ms|err]; cbn [retries_of flat_map app bc_fold fold_left]; try apply IH.
  cbn [bc_run_from bc_step]. fold (retries_of ys). rewrite IH. reflexivity.
Qed.

(* ---- one attempt ------------------------------------------------------------------------------ *)
Inductive outcome :=
| OReturn (items : list titem) (r : cret)
| OContinue (items : list titem) (s : cstate).

(* what follows a retryable attempt end *)
Definition retry_step (cfg : ccfg) (b : backoff) (st : step) (req : titem) (s2 : cstate)
                      (items : list titem) (err : cret) : outcome :=
  let '(c', ans) := bc_next b (cs_bc s2) (st_elapsed st) (st_u st) in
  match ans with
  | None => OReturn (req :: items) err
  | Some w =>
      let items' := req :: items ++ (if cc_on_retry cfg then [TOnRetry err w] else []) in
      if wait_cancelled cfg w then OReturn items' RCtx else OContinue items' (cs_with_bc s2 c')
  end.

(* [s1] is the state after a successful resetRequest *)
Definition attempt_step (cfg : ccfg) (b : backoff) (s1 : cstate) (st : step) : outcome :=
  let req := TRequest (cs_hdr s1) (cs_body s1) in
  match st_attempt st with
  | ATransportErr e => retry_step cfg b st req s1 [] (RConn RsConnect (CE (EReader e)))
  | ACtxErr => OReturn [req] RCtx
  | ARejected e => OReturn [req] (RConn RsValidate (CE (EReader e)))
  | AStream body en =>
      let s2 := cs_with_bc s1 (bc_reset b (cs_bc s1) 0) in
      let '(s3, items, x) := read_stream b s2 (interp gosse_conn (cs_last_id s2) body en) in
      match x with
      | None => OReturn (req :: items) RNil
      | Some e => if is_ctx e then OReturn (req :: items) RCtx
                  else retry_step cfg b st req s3 items (RConn RsLost (CE e))
      end
  end.

Lemma connect_loop_nil cfg b s :
  connect_loop cfg b s [] =
  match reset_request (cc_body cfg) s with
  | inr e => ([], Some (RConn RsReset e))
  | inl _ => ([], None)
  end.
Proof. unfold connect_loop. cbn [connect_loop_st]. destruct (reset_request (cc_body cfg) s); reflexivity. Qed.

Lemma connect_loop_cons cfg b s st rest :
  connect_loop cfg b s (st :: rest) =
  match reset_request (cc_body cfg) s with
  | inr e => ([], Some (RConn RsReset e))
  | inl s1 =>
      match attempt_step cfg b s1 st with
      | OReturn items r => (items, Some r)
      | OContinue items s' => let '(tr, r) := connect_loop cfg b s' rest in (items ++ tr, r)
      end
  end.
Proof.
  unfold connect_loop. cbn [connect_loop_st]. destruct (reset_request (cc_body cfg) s) as [s1|e]; [|reflexivity].
  unfold attempt_step, retry_step.
  destruct (st_attempt st) as [e| |e|body en].
  - destruct (bc_next b (cs_bc s1) (st_elapsed st) (st_u st)) as [c' [w|]]; [|reflexivity].
    destruct (wait_cancelled cfg w); [reflexivity|].
    destruct (connect_loop_st cfg b (cs_with_bc s1 c') rest) as [[tr r] s']; reflexivity.
  - reflexivity.
  - reflexivity.
  - destruct (read_stream b _ _) as [[s3 items] [e|]]; [|reflexivity].
    destruct (is_ctx e); [reflexivity|].
    destruct (bc_next b (cs_bc s3) (st_elapsed st) (st_u st)) as [c' [w|]]; [|reflexivity].
    destruct (wait_cancelled cfg w); [reflexivity|].
    destruct (connect_loop_st cfg b (cs_with_bc s3 c') rest) as [[tr r] s']; reflexivity.
Qed.

(* the controller state right before next() is consulted after an attempt, and the error of the attempt *)
Definition bc_before_next (b : backoff) (c : bctl) (lid : bytes) (a : attempt) : bctl :=
  match a with
  | AStream body en => bc_fold b (bc_reset b c 0) (interp gosse_conn lid body en)
  | _ => c
  end.

(* Everything about one attempt, in terms of the specification-side functions. *)
Lemma attempt_step_spec cfg b s1 st :
  let req := TRequest (cs_hdr s1) (cs_body s1) in
  let lid := cs_last_id s1 in
  let a := st_attempt st in
  let evs := match a with AStream body en => map TEvent (events_of (interp gosse_conn lid body en)) | _ => [] end in
  match attempt_error a with
  | None =>
      (* the attempt ends Connect at once *)
      attempt_step cfg b s1 st =
        OReturn (req :: evs)
                (match a with ARejected e => RConn RsValidate (CE (EReader e)) | _ => RCtx end)
  | Some err =>
      let c := bc_before_next b (cs_bc s1) lid a in
      let '(c', ans) := bc_next b c (st_elapsed st) (st_u st) in
      match ans with
      | None => attempt_step cfg b s1 st = OReturn (req :: evs) err
      | Some w =>
          let items := req :: evs ++ (if cc_on_retry cfg then [TOnRetry err w] else []) in
          if wait_cancelled cfg w then attempt_step cfg b s1 st = OReturn items RCtx
          else exists s',
            attempt_step cfg b s1 st = OContinue items s' /\
            cs_last_id s' = id_after_attempt lid a /\ cs_bc s' = c' /\
            cs_is_retry s' = cs_is_retry s1 /\ cs_hdr s' = cs_hdr s1 /\ cs_body s' = cs_body s1 /\
            cs_gb_calls s' = cs_gb_calls s1
      end
  end.
Proof.
  cbv zeta. unfold attempt_step, attempt_error, bc_before_next.
  destruct (st_attempt st) as [e| |e|body en].
  - unfold retry_step. destruct (bc_next b (cs_bc s1) (st_elapsed st) (st_u st)) as [c' [w|]]; [|reflexivity].
    cbn [app]. destruct (wait_cancelled cfg w); [reflexivity|].
    eexists. split; [reflexivity|]. cbn. repeat split; reflexivity.
  - reflexivity.
  - reflexivity.
  - destruct (interp_conn_structure (cs_last_id s1) body en) as (ys & Hn & Hi).
    set (s2 := cs_with_bc s1 (bc_reset b (cs_bc s1) 0)).
    assert (Hl : cs_last_id s2 = cs_last_id s1) by reflexivity. rewrite Hl, Hi.
    destruct (read_stream_structure b ys s2 (stream_error body en) Hn)
      as (s3 & Hr & H1 & H2 & H3 & H4 & H5 & H6).
    rewrite Hr.
    rewrite events_of_app. cbn [events_of flat_map]. rewrite app_nil_r.
    destruct (is_ctx (stream_error body en)) eqn:Ec; [reflexivity|].
    unfold retry_step. rewrite H2. change (cs_bc s2) with (bc_reset b (cs_bc s1) 0).
    assert (Hf : bc_fold b (bc_reset b (cs_bc s1) 0) (ys ++ [YErr (stream_error body en)]) =
                 bc_fold b (bc_reset b (cs_bc s1) 0) ys)
      by (unfold bc_fold; rewrite fold_left_app; reflexivity).
    rewrite Hf.
    destruct (bc_next b (bc_fold b (bc_reset b (cs_bc s1) 0) ys) (st_elapsed st) (st_u st)) as [c' [w|]]; [|reflexivity].
    destruct (wait_cancelled cfg w); [reflexivity|].
    eexists. split; [reflexivity|]. cbn [cs_with_bc cs_last_id cs_bc cs_is_retry cs_hdr cs_body cs_gb_calls].
    repeat split; try assumption.
    rewrite H1, Hl. unfold id_after_attempt. rewrite Hi, events_of_app.
    cbn [events_of flat_map]. rewrite app_nil_r. apply last_id_of_events.
Qed.
