(* Model of the client's retry schedule: client.go:136-229 (mergeDefaults, Backoff.new,
   backoffController.reset / next, nextInterval, growInterval), line by line.

   Durations are [Z] nanoseconds (time.Duration = int64; no wrap-around is modelled: the
   model equals the code only while every product stays below 2^63).  float64 values are
   EXACT rationals [rat] (numerator / positive denominator): Multiplier, Jitter, the RNG
   draw u in [0,1) and every intermediate of nextInterval / growInterval.  Go's
   float64 -> int64 conversion is truncation toward zero ([Z.quot]).  The clock
   (time.Since(c.start)) and the RNG (c.rng.Float64()) are script inputs of [bc_next].
   Definitions only; lemmas are in BackoffProofs.v. *)
From GoSse Require Import Base.
From GoSse.Gen Require Import Params.
Local Open Scope Z_scope.

(* ---- exact rationals ------------------------------------------------------- *)
Record rat := mkrat { rnum : Z; rden : Z }.

Definition rz (z : Z) : rat := mkrat z 1.
Definition radd (a b : rat) : rat := mkrat (rnum a * rden b + rnum b * rden a) (rden a * rden b).
Definition rsub (a b : rat) : rat := mkrat (rnum a * rden b - rnum b * rden a) (rden a * rden b).
Definition rmul (a b : rat) : rat := mkrat (rnum a * rnum b) (rden a * rden b).
(* a / b for b <> 0, keeping the denominator positive *)
Definition rdiv (a b : rat) : rat :=
  if 0 <? rnum b then mkrat (rnum a * rden b) (rden a * rnum b)
  else mkrat (- (rnum a * rden b)) (rden a * - rnum b).
Definition rle (a b : rat) : bool := rnum a * rden b <=? rnum b * rden a.
Definition rlt (a b : rat) : bool := rnum a * rden b <? rnum b * rden a.
Definition req (a b : rat) : bool := rnum a * rden b =? rnum b * rden a.
(* time.Duration(f) for a float64 f *)
Definition rtrunc (a : rat) : Z := Z.quot (rnum a) (rden a).

(* ---- Backoff (client.go:46-69) ------------------------------------------------ *)
Record backoff := mkbackoff {
  bo_initial : Z;        (* InitialInterval *)
  bo_mul : rat;          (* Multiplier *)
  bo_jitter : rat;       (* Jitter; the flag -1 is the rational -1 *)
  bo_max_interval : Z;   (* MaxInterval *)
  bo_max_elapsed : Z;    (* MaxElapsedTime *)
  bo_max_retries : Z     (* MaxRetries *)
}.

Definition default_mul : rat := mkrat default_multiplier_num default_multiplier_den.
Definition default_jitter : rat := mkrat default_jitter_num default_jitter_den.
(* the "no randomization" flag: the literal of nextInterval (client.go:213), re-read from the code *)
Definition jitter_off : rat := rz next_interval_flag.

(* mergeDefaults, client.go:140-148; the literals of its comparisons are re-read from the code (Params.v) *)
Definition merge_defaults (b : backoff) : backoff :=
  mkbackoff
    (if bo_initial b <=? merge_initial_le then default_initial_interval else bo_initial b)
    (if rlt (bo_mul b) (rz merge_multiplier_lt) then default_mul else bo_mul b)
    (if (rle (bo_jitter b) (rz merge_jitter_le) && negb (req (bo_jitter b) (rz merge_jitter_flag)))
        || rle (rz merge_jitter_ge) (bo_jitter b)
     then default_jitter else bo_jitter b)
    (bo_max_interval b) (bo_max_elapsed b) (bo_max_retries b).

(* backoffController, client.go:164-170; [start] is represented by the elapsed-time input of [bc_next] *)
Record bctl := mkbctl { bc_interval : Z; bc_retries : Z }.

(* Backoff.new, client.go:172-181 *)
Definition bc_new (b : backoff) : bctl := mkbctl (bo_initial b) 0.

(* reset, client.go:185-193 *)
Definition bc_reset (b : backoff) (c : bctl) (new_interval : Z) : bctl :=
  mkbctl (if 0 <? new_interval then new_interval else bo_initial b) 0.

(* nextInterval, client.go:212-222; [u] is rng.Float64() *)
Definition next_interval (jitter u : rat) (current : Z) : Z :=
  if req jitter jitter_off then current
  else
    let delta := rmul jitter (rz current) in
    let min_interval := rsub (rz current) delta in
    let max_interval := radd (rz current) delta in
    rtrunc (radd min_interval (rmul u (radd (rsub max_interval min_interval) (rz 1)))).

(* growInterval, client.go:224-229 *)
Definition grow_interval (current max_interval : Z) (mul : rat) : Z :=
  if (0 <? max_interval) && rle (rdiv (rz max_interval) mul) (rz current) then max_interval
  else rtrunc (rmul (rz current) mul).

(* does next() consult the RNG? (only nextInterval's second branch does) *)
Definition draws (b : backoff) : bool := negb (req (bo_jitter b) jitter_off).

(* next, client.go:195-210: the new controller state and (interval, shouldRetry) as an option *)
Definition bc_next (b : backoff) (c : bctl) (elapsed : Z) (u : rat) : bctl * option Z :=
  if (bo_max_retries b <? 0) || ((0 <? bo_max_retries b) && (bc_retries c =? bo_max_retries b))
  then (c, None)
  else
    let next := next_interval (bo_jitter b) u (bc_interval c) in
    let c' := mkbctl (grow_interval (bc_interval c) (bo_max_interval b) (bo_mul b)) (bc_retries c + 1) in
    if (0 <? bo_max_elapsed b) && (bo_max_elapsed b <? elapsed + next) then (c', None)
    else (c', Some next).

(* ---- histories ---------------------------------------------------------------- *)
(* What happens to a controller during Connect: an attempt ends (next() is consulted, with the
   clock reading and the RNG draw of that call), a response is validated (reset(0),
   client_connection.go:250), the server sends a valid retry field of [ms] milliseconds
   (reset(ms * time.Millisecond), client_connection.go:172). *)
Inductive hop := HFail (elapsed : Z) (u : rat) | HSuccess | HRetry (ms : Z).

Definition ms_to_ns (ms : Z) : Z := ms * 1000000.

Definition bc_step (b : backoff) (c : bctl) (op : hop) : bctl * option (option Z) :=
  match op with
  | HFail e u => let '(c', r) := bc_next b c e u in (c', Some r)
  | HSuccess => (bc_reset b c 0, None)
  | HRetry ms => (bc_reset b c (ms_to_ns ms), None)
  end.

(* the controller after a history, and the answers of its next() calls (in order, one per HFail) *)
Fixpoint bc_run_from (b : backoff) (c : bctl) (h : list hop) : bctl * list (option Z) :=
  match h with
  | [] => (c, [])
  | op :: h' =>
      let '(c1, o) := bc_step b c op in
      let '(c2, os) := bc_run_from b c1 h' in
      (c2, match o with Some r => r :: os | None => os end)
  end.

Definition bc_run (b : backoff) (h : list hop) : bctl * list (option Z) := bc_run_from b (bc_new b) h.

(* per-operation trace for the correspondence harness: answer (for HFail) and state after every op *)
Fixpoint bc_trace (b : backoff) (c : bctl) (h : list hop) : list (option (option Z) * bctl) :=
  match h with
  | [] => []
  | op :: h' => let '(c1, o) := bc_step b c op in (o, c1) :: bc_trace b c1 h'
  end.

(* ---- specification of the schedule, written from the property text ------------ *)
(* well-formed (normalised) configuration: what every Connection runs with *)
Definition rat_pos_den (r : rat) : Prop := 0 < rden r.
Definition jitter_ok (j : rat) : Prop :=
  0 < rden j /\ (rnum j = - rden j \/ (0 < rnum j /\ rnum j < rden j)).
Definition backoff_wf (b : backoff) : Prop :=
  0 < bo_initial b /\ 0 < rden (bo_mul b) /\ rden (bo_mul b) <= rnum (bo_mul b) /\ jitter_ok (bo_jitter b).

(* b_(k+1) = min(floor(b_k * Multiplier), MaxInterval) when MaxInterval is set, else floor(b_k * Multiplier) *)
Definition grow_spec (b : backoff) (x : Z) : Z :=
  let g := (x * rnum (bo_mul b)) / rden (bo_mul b) in
  if 0 <? bo_max_interval b then Z.min g (bo_max_interval b) else g.

(* the k-th consecutive base (k = 0 for the first retry of a series) starting from b1 *)
Fixpoint base_seq (b : backoff) (b1 : Z) (k : nat) : Z :=
  match k with O => b1 | S k' => grow_spec b (base_seq b b1 k') end.

(* floor(x * (1 - J)) and ceil(x * (1 + J)) for J = jn/jd *)
Definition jitter_lo (j : rat) (x : Z) : Z := (x * (rden j - rnum j)) / rden j.
Definition jitter_hi (j : rat) (x : Z) : Z := - ((- (x * (rden j + rnum j))) / rden j).

(* "the wait lies within +-Jitter of b_k - and equals b_k when Jitter is -1" *)
Definition wait_ok (b : backoff) (x w : Z) : Prop :=
  if req (bo_jitter b) jitter_off then w = x
  else jitter_lo (bo_jitter b) x <= w <= jitter_hi (bo_jitter b) x.

(* the series a history ends in: the base set by the last reset (InitialInterval, or the server's
   retry value when positive) and the number of attempt ends since *)
Fixpoint series_of (b : backoff) (b1 : Z) (n : nat) (h : list hop) : Z * nat :=
  match h with
  | [] => (b1, n)
  | HFail _ _ :: h' => series_of b b1 (S n) h'
  | HSuccess :: h' => series_of b (bo_initial b) O h'
  | HRetry ms :: h' => series_of b (if 0 <? ms_to_ns ms then ms_to_ns ms else bo_initial b) O h'
  end.

(* the number of retries already counted in the series after n attempt ends: attempts that the
   retry limit refused are not counted *)
Definition counted (b : backoff) (n : nat) : nat :=
  if bo_max_retries b <? 0 then O
  else if bo_max_retries b =? 0 then n
  else Nat.min n (Z.to_nat (bo_max_retries b)).

(* the retry limit refuses: "none if negative, unbounded if zero, at most MaxRetries" *)
Definition limit_refuses (b : backoff) (n : nat) : bool :=
  (bo_max_retries b <? 0) || ((0 <? bo_max_retries b) && (bo_max_retries b <=? Z.of_nat n)).
