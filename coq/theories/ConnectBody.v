(* Lemmas about the Connect model, part 4: the request body of every attempt (C10, second half). *)
From Coq Require Import ZifyBool ZifyNat.
From GoSse Require Import Base Whatwg Backoff BackoffProofs Connect ConnectProofs ConnectStep ConnectTop.
From GoSse.Gen Require Import Params.

(* an attempt never produces a "request reset failed" error: only resetRequest does *)
Lemma attempt_step_no_reset cfg b s1 st items r :
  attempt_step cfg b s1 st = OReturn items r -> forall e, r <> RConn RsReset e.
Proof.
  intros H e. pose proof (attempt_step_spec cfg b s1 st) as Hs. cbv zeta in Hs.
  destruct (attempt_error (st_attempt st)) as [err|] eqn:Ea.
  - assert (Herr : err <> RConn RsReset e).
    { unfold attempt_error in Ea. destruct (st_attempt st); try discriminate.
      - injection Ea as <-. discriminate.
      - destruct (is_ctx _); [discriminate|]. injection Ea as <-. discriminate. }
    destruct (bc_next b _ (st_elapsed st) (st_u st)) as [c' [w|]].
    + destruct (wait_cancelled cfg w).
      * rewrite Hs in H. injection H as _ <-. discriminate.
      * destruct Hs as (s' & Hs & _). rewrite Hs in H. discriminate.
    + rewrite Hs in H. injection H as _ <-. assumption.
  - rewrite Hs in H. injection H as _ <-. destruct (st_attempt st); discriminate.
Qed.

Definition no_reset (r : option cret) : Prop := forall e, r <> Some (RConn RsReset e).

(* the retries: every iteration with isRetry set *)
Lemma loop_bodies cfg b script : forall s tr r,
  cs_is_retry s = true -> connect_loop cfg b s script = (tr, r) ->
  match cc_body cfg with
  | BNone | BNoBody =>
      map snd (requests tr) = repeat (cs_body s) (length (requests tr)) /\ no_reset r
  | BBody g =>
      map snd (requests tr) = map Some (seq (S (cs_gb_calls s)) (length (requests tr))) /\
      match g with
      | GBOk => no_reset r
      | GBNone => requests tr = [] /\ r = Some (RConn RsReset CNoGetBody)
      | GBFails after e0 =>
          (cs_gb_calls s <= after)%nat ->
          (length (requests tr) + cs_gb_calls s <= after)%nat /\
          (forall e, r = Some (RConn RsReset e) ->
                     e = CE (EReader e0) /\ (length (requests tr) + cs_gb_calls s = after)%nat)
      end
  end.
Proof.
  induction script as [|st rest IH]; intros s tr r Hs Hrun.
  - rewrite connect_loop_nil in Hrun.
    destruct (reset_request (cc_body cfg) s) as [s1|e] eqn:Er.
    + injection Hrun as <- <-.
      destruct (cc_body cfg) as [| |[| |after e0]]; cbn; try (split; [reflexivity|intros e; discriminate]).
      * unfold reset_request in Er. rewrite Hs in Er. cbn in Er. discriminate.
      * split; [reflexivity|]. intros Hle. split.
        -- unfold reset_request, reset_body in Er. rewrite Hs in Er. cbn [negb] in Er.
           destruct (cs_gb_calls s <? after)%nat eqn:E; [lia|discriminate].
        -- intros e; discriminate.
    + injection Hrun as <- <-.
      unfold reset_request, reset_body in Er. rewrite Hs in Er. cbn [negb] in Er.
      destruct (cc_body cfg) as [| |[| |after e0]]; try discriminate.
      * injection Er as <-. cbn. repeat split.
      * destruct (cs_gb_calls s <? after)%nat eqn:E; [discriminate|]. injection Er as <-.
        cbn. split; [reflexivity|]. intros Hle. split; [lia|]. intros e H. injection H as <-. split; [reflexivity|lia].
  - rewrite connect_loop_cons in Hrun.
    destruct (reset_request (cc_body cfg) s) as [s1|e] eqn:Er.
    2:{ injection Hrun as <- <-.
        unfold reset_request, reset_body in Er. rewrite Hs in Er. cbn [negb] in Er.
        destruct (cc_body cfg) as [| |[| |after e0]]; try discriminate.
        * injection Er as <-. cbn. repeat split.
        * destruct (cs_gb_calls s <? after)%nat eqn:E; [discriminate|]. injection Er as <-.
          cbn. split; [reflexivity|]. intros Hle. split; [lia|]. intros e H. injection H as <-. split; [reflexivity|lia]. }
    destruct (reset_request_retry _ _ _ Hs Er) as (_ & _ & Hr1 & _ & Hb).
    destruct (attempt_step_cases cfg b s1 st) as [(items & r0 & H & _ & Hq)|(items & s' & H & Hq & _ & Hr' & _ & Hb' & Hg')];
      rewrite H in Hrun.
    + injection Hrun as <- <-. rewrite Hq. cbn [map snd length repeat seq].
      pose proof (attempt_step_no_reset _ _ _ _ _ _ H) as Hnr.
      assert (Hno : no_reset (Some r0)) by (intros e He; injection He as ->; now apply (Hnr e)).
      destruct (cc_body cfg) as [| |[| |after e0]].
      * destruct Hb as [Hb _]. rewrite Hb. split; [reflexivity|assumption].
      * destruct Hb as [Hb _]. rewrite Hb. split; [reflexivity|assumption].
      * unfold reset_request, reset_body in Er. rewrite Hs in Er. discriminate.
      * destruct Hb as [Hb _]. rewrite Hb. split; [reflexivity|assumption].
      * destruct Hb as [Hb Hg]. rewrite Hb. split; [reflexivity|]. intros Hle.
        unfold reset_request, reset_body in Er. rewrite Hs in Er. cbn [negb] in Er.
        destruct (cs_gb_calls s <? after)%nat eqn:E; [|discriminate].
        split; [cbn; lia|]. intros e He. exfalso. now apply (Hno e).
    + destruct (connect_loop cfg b s' rest) as [tr' r'] eqn:El. injection Hrun as <- <-.
      specialize (IH s' tr' r' ltac:(congruence) El).
      rewrite requests_app, map_app, app_length, Hq. cbn [map snd length].
      destruct (cc_body cfg) as [| |[| |after e0]].
      * destruct Hb as [Hb _]. destruct IH as [IH1 IH2]. rewrite IH1, Hb', Hb. split; [reflexivity|assumption].
      * destruct Hb as [Hb _]. destruct IH as [IH1 IH2]. rewrite IH1, Hb', Hb. split; [reflexivity|assumption].
      * unfold reset_request, reset_body in Er. rewrite Hs in Er. discriminate.
      * destruct Hb as [Hb Hg]. destruct IH as [IH1 IH2]. rewrite IH1, Hg', Hg, Hb.
        split; [reflexivity|assumption].
      * destruct Hb as [Hb Hg]. destruct IH as [IH1 IH2]. rewrite IH1, Hg', Hg, Hb.
        split; [reflexivity|]. intros Hle.
        unfold reset_request, reset_body in Er. rewrite Hs in Er. cbn [negb] in Er.
        destruct (cs_gb_calls s <? after)%nat eqn:E; [|discriminate].
        rewrite Hg', Hg in IH2. destruct (IH2 ltac:(lia)) as [IHa IHb].
        split; [cbn; lia|]. intros e He. destruct (IHb e He) as [-> Hlen]. split; [reflexivity|cbn; lia].
Qed.

Theorem run_bodies cfg script tr r :
  connect_run cfg script = (tr, r) ->
  match cc_body cfg with
  | BNone | BNoBody =>
      map snd (requests tr) = repeat None (length (requests tr)) /\ (forall e, r <> Some (RConn RsReset e))
  | BBody g =>
      map snd (requests tr) = map Some (seq 0 (length (requests tr))) /\
      match g with
      | GBOk => forall e, r <> Some (RConn RsReset e)
      | GBNone =>
          (length (requests tr) <= 1)%nat /\
          (forall e, r = Some (RConn RsReset e) -> e = CNoGetBody /\ length (requests tr) = 1%nat) /\
          (script <> [] -> r <> None)
      | GBFails after e0 =>
          (length (requests tr) <= S after)%nat /\
          (forall e, r = Some (RConn RsReset e) -> e = CE (EReader e0) /\ length (requests tr) = S after)
      end
  end.
Proof.
  unfold connect_run. destruct (cc_cancel_before cfg).
  { intros H. injection H as <- <-.
    destruct (cc_body cfg) as [| |[| |after e0]]; cbn; repeat split; try discriminate; try lia. }
  set (b := merge_defaults (cc_backoff cfg)). set (s0 := connect_init cfg b).
  destruct script as [|st rest]; intros Hrun.
  - rewrite connect_loop_nil in Hrun. unfold reset_request in Hrun. cbn [s0 connect_init cs_is_retry negb] in Hrun.
    injection Hrun as <- <-.
    destruct (cc_body cfg) as [| |[| |after e0]]; cbn; repeat split; try discriminate; try lia. congruence.
  - rewrite connect_loop_cons in Hrun. unfold reset_request in Hrun. cbn [s0 connect_init cs_is_retry negb] in Hrun.
    match type of Hrun with context [attempt_step cfg b ?x st] => set (s1 := x) in * end.
    assert (Hb1 : cs_body s1 = match cc_body cfg with BBody _ => Some O | _ => None end) by reflexivity.
    assert (Hg1 : cs_gb_calls s1 = O) by reflexivity.
    destruct (attempt_step_cases cfg b s1 st) as [(items & r0 & H & _ & Hq)|(items & s' & H & Hq & _ & Hr' & _ & Hb' & Hg')];
      rewrite H in Hrun.
    + injection Hrun as <- <-. rewrite Hq. cbn [map snd length repeat seq].
      pose proof (attempt_step_no_reset _ _ _ _ _ _ H) as Hnr.
      assert (Hno : forall e, Some r0 <> Some (RConn RsReset e)) by (intros e He; injection He as ->; now apply (Hnr e)).
      rewrite Hb1.
      destruct (cc_body cfg) as [| |[| |after e0]]; (split; [reflexivity|]); try assumption.
      * split; [lia|]. split; [intros e He; exfalso; now apply (Hno e)|discriminate].
      * split; [lia|]. intros e He; exfalso; now apply (Hno e).
    + destruct (connect_loop cfg b s' rest) as [tr' r'] eqn:El. injection Hrun as <- <-.
      pose proof (loop_bodies cfg b rest s' tr' r' Hr' El) as HL.
      rewrite requests_app, map_app, app_length, Hq. cbn [map snd length].
      rewrite Hb1. rewrite Hb', Hb1, Hg', Hg1 in HL.
      destruct (cc_body cfg) as [| |[| |after e0]].
      * destruct HL as [H1 H2]. rewrite H1. split; [reflexivity|exact H2].
      * destruct HL as [H1 H2]. rewrite H1. split; [reflexivity|exact H2].
      * destruct HL as [H1 [H2 H3]]. rewrite H2. cbn. split; [reflexivity|]. split; [lia|].
        split; [|rewrite H3; discriminate]. intros e He. rewrite H3 in He. injection He as <-. split; reflexivity.
      * destruct HL as [H1 H2]. rewrite H1. split; [reflexivity|exact H2].
      * destruct HL as [H1 H2]. rewrite H1. split; [reflexivity|].
        destruct (H2 ltac:(lia)) as [Ha Hb2]. split; [cbn; lia|].
        intros e He. destruct (Hb2 e He) as [-> Hlen]. split; [reflexivity|cbn; lia].
Qed.
